//! C15 — a node that syncs from a peer converges to the peer's chain.
//!
//! (a) fork-id level: pairs of REAL chains (built with the factory of node.rs, added to real `Blockchain`s with the
//!     real `add_block`); the real `generate_fork_id` / `generate_last_shared_ancestor` against the Lean model
//!     (`Saito.ForkId`), direct monitor `ancestor ≤ true fork point`.
//! (b) protocol level: two real nodes — each a real `RoutingThread` + `ConsensusThread` + `VerificationThread`
//!     over one `Blockchain`/`Mempool`/`Wallet`/`PeerCollection`, wired exactly like the repo's `#[cfg(test)]`
//!     `NodeTester` — joined by a deterministic in-process scheduler that owns every queue: the two message links
//!     (what `InterfaceIO::send_message` recorded), the outstanding block fetches (what
//!     `InterfaceIO::fetch_block_from_peer` recorded; completed as `NetworkEvent::BlockFetched` with the peer's real
//!     serialized block) and the three inter-thread channels of each node. The handlers driven are the public
//!     `ProcessEvent::process_network_event` / `process_event` of the three threads; no timer events.
//!     Every `ConsensusEvent::BlockFetched` is also replayed on the Lean delivery model (`Saito.SyncDelivery`).
use crate::chain::{build_tree, calibrate, project, Ids, NodeSpec, Tree};
use crate::common::*;
use crate::node::*;
use async_trait::async_trait;
use saito_core::core::consensus::block::{Block, BlockType};
use saito_core::core::consensus::blockchain::Blockchain;
use saito_core::core::consensus::blockchain_sync_state::BlockchainSyncState;
use saito_core::core::consensus::mempool::Mempool;
use saito_core::core::consensus::peers::peer::{Peer, PeerStatus};
use saito_core::core::consensus::peers::peer_collection::PeerCollection;
use saito_core::core::consensus::peers::peer_service::PeerService;
use saito_core::core::consensus::wallet::Wallet;
use saito_core::core::consensus_thread::{ConsensusEvent, ConsensusStats, ConsensusThread};
use saito_core::core::defs::{BlockId, PeerIndex, SaitoHash, StatVariable, Timestamp, STAT_BIN_COUNT};
use saito_core::core::io::interface_io::{InterfaceEvent, InterfaceIO};
use saito_core::core::io::network::Network;
use saito_core::core::io::network_event::NetworkEvent;
use saito_core::core::io::storage::Storage;
use saito_core::core::mining_thread::MiningEvent;
use saito_core::core::process::keep_time::{KeepTime, Timer};
use saito_core::core::process::process_event::ProcessEvent;
use saito_core::core::routing_thread::{RoutingEvent, RoutingStats, RoutingThread};
use saito_core::core::util::configuration::{Configuration, PeerConfig};
use saito_core::core::verification_thread::{VerificationThread, VerifyRequest};
use std::collections::{BTreeMap, BTreeSet, HashMap, VecDeque};
use std::io::{BufRead, BufReader, Error, ErrorKind, Write};
use std::process::{Command, Stdio};
use std::sync::mpsc;
use std::sync::{Arc, Mutex};
use std::time::Duration;
use tokio::sync::mpsc::Receiver;
use tokio::sync::RwLock;

pub const GP: u64 = 400; // longer than every chain of this suite (no purge, no ring wrap)
pub const HEARTBEAT: u64 = 100;
/// copy of the private `FORK_ID_WEIGHTS` (blockchain.rs:44); only used by the harness-side collision check,
/// a wrong copy shows up as a disagreement with the real calls
pub const WEIGHTS: [u64; 16] = [0, 10, 10, 10, 10, 10, 25, 25, 100, 300, 500, 4000, 10000, 20000, 50000, 100000];

// ------------------------------------------------------------------------------------------------- chains
fn spec(parent: Option<usize>, id: u64, dt: u64, creator: u64) -> NodeSpec {
    // golden tickets on even ids only: two consecutive ticket blocks raise the mining difficulty by one each time
    let gt = id % 2 == 0;
    NodeSpec { parent, gt, dt, tamper: false, tx: if gt { 0 } else { 1 }, creator }
}

/// tree = genesis + trunk (`trunk` blocks) + one branch per entry of `branches` = (fork after trunk block count
/// `at` (0 = directly on genesis), length, dt). Returns node indices of every branch.
pub struct Forest {
    pub tree: Tree,
    pub trunk: Vec<usize>,
    pub branches: Vec<Vec<usize>>,
}

pub async fn build_forest(f: &mut Factory, trunk: usize, trunk_dt: u64, branches: &[(usize, usize, u64)]) -> Option<Forest> {
    let mut specs: Vec<NodeSpec> = vec![];
    let mut trunk_idx = vec![];
    for i in 0..trunk {
        let parent = if i == 0 { None } else { Some(i - 1) };
        specs.push(spec(parent, i as u64 + 2, trunk_dt, 1));
        trunk_idx.push(i);
    }
    let mut br = vec![];
    for (k, (at, len, dt)) in branches.iter().enumerate() {
        let mut v = vec![];
        for j in 0..*len {
            let parent = if j == 0 {
                if *at == 0 {
                    None
                } else {
                    Some(trunk_idx[*at - 1])
                }
            } else {
                Some(specs.len() - 1)
            };
            let id = (*at + j) as u64 + 2;
            specs.push(spec(parent, id, *dt, 2 + (k as u64 % 2)));
            v.push(specs.len() - 1);
        }
        br.push(v);
    }
    let tree = build_tree(f, &specs).await?;
    Some(Forest { tree, trunk: trunk_idx, branches: br })
}

impl Forest {
    /// chain (oldest first, genesis included) = genesis + first `at` trunk blocks + first `len` blocks of branch `b`
    pub fn chain(&self, at: usize, b: Option<usize>, len: usize) -> Vec<Block> {
        let mut v = vec![self.tree.genesis.clone()];
        for i in 0..at {
            v.push(self.tree.nodes[self.trunk[i]].block.clone());
        }
        if let Some(b) = b {
            for i in 0..len.min(self.branches[b].len()) {
                v.push(self.tree.nodes[self.branches[b][i]].block.clone());
            }
        }
        v
    }
}

fn hexs(c: &[SaitoHash]) -> String {
    if c.is_empty() {
        "-".into()
    } else {
        c.iter().map(|h| hex::encode(h)).collect::<Vec<_>>().join(",")
    }
}

fn win(h: &SaitoHash, i: usize) -> u16 {
    ((h[2 * i] as u16) << 8) | h[2 * i + 1] as u16
}

fn hash_at(c: &[SaitoHash], id: u64) -> Option<SaitoHash> {
    if id == 0 {
        None
    } else {
        c.get(id as usize - 1).cloned()
    }
}

/// last id at which the two chains hold the same block (0 = none)
pub fn fork_point(a: &[SaitoHash], b: &[SaitoHash]) -> u64 {
    let mut n = a.len().min(b.len());
    while n > 0 {
        if a[n - 1] == b[n - 1] {
            return n as u64;
        }
        n -= 1;
    }
    0
}

/// harness-side statement of "the windows compared are equal only for equal blocks" (independent of model and code):
/// for every slot the peer `b` would look at when asked by `a`: equal windows ⇒ slot filled from that very block
pub fn no_window_collision(a: &[SaitoHash], b: &[SaitoHash]) -> bool {
    // slots of a's fork id: (sampled id, window)
    let mut slots: Vec<Option<(u64, u16)>> = vec![None; 16];
    let la = a.len() as u64;
    let mut cur = la - la % 10;
    for (i, w) in WEIGHTS.iter().enumerate() {
        if cur <= *w {
            break;
        }
        cur -= w;
        match hash_at(a, cur) {
            Some(h) => slots[i] = Some((cur, win(&h, i))),
            None => break,
        }
    }
    let lb = b.len() as u64;
    let mut bid = if la >= lb { lb - lb % 10 } else { la - la % 10 };
    for (i, w) in WEIGHTS.iter().enumerate() {
        if bid < *w {
            break;
        }
        bid -= w;
        if let Some(hb) = hash_at(b, bid) {
            let v = slots[i].map(|s| s.1).unwrap_or(0);
            if v == win(&hb, i) {
                match slots[i] {
                    Some((x, _)) => {
                        if hash_at(a, x) != Some(hb) {
                            return false;
                        }
                    }
                    None => return false,
                }
            }
        }
    }
    true
}

// ------------------------------------------------------------------------------------------------- (a) fork-id level
struct Grown {
    hashes: Vec<SaitoHash>,
    /// fork id generated when the node held exactly `k+1` blocks (for its latest id)
    fids: Vec<Option<SaitoHash>>,
}

async fn grow(chain: &[Block], mut at_len: impl FnMut(usize, &Node)) -> Result<Grown, String> {
    let mut node = Node::new(7, Cfg::new(GP, HEARTBEAT, 1000));
    let mut g = Grown { hashes: vec![], fids: vec![] };
    for (k, b) in chain.iter().enumerate() {
        let r = guarded_async(node.add_block(b.clone())).await?;
        if add_result_class(&r) != "added_lc" {
            return Err(format!("chain block {} not adopted: {}", k + 1, add_result_class(&r)));
        }
        g.hashes.push(b.hash);
        let id = node.blockchain.get_latest_block_id();
        let fid = guarded(|| node.blockchain.generate_fork_id(id)).map_err(|e| format!("generate_fork_id panicked: {}", e))?;
        g.fids.push(fid);
        at_len(k + 1, &node);
    }
    Ok(g)
}

fn interesting_lengths(max: usize, thorough: bool) -> Vec<usize> {
    let base: Vec<usize> = if thorough {
        vec![1, 2, 3, 5, 9, 10, 11, 12, 15, 19, 20, 21, 22, 25, 29, 30, 31, 35, 39, 40, 41, 45, 49, 50, 51, 55, 59, 60, 61, 65, 69, 70, 71, 74, 75, 76, 77, 80, 85, 89, 90, 99, 100, 101, 102, 105, 109, 110, 111, 112, 115]
    } else {
        vec![1, 2, 9, 10, 11, 19, 20, 21, 25, 30, 31, 40, 49, 50, 51, 60, 61, 74, 75, 76, 80, 99, 100, 101, 110, 111]
    };
    base.into_iter().filter(|x| *x <= max).collect()
}

async fn forkid_level(out: &mut Out, seed: u64, tier: &str) {
    let thorough = tier == "thorough";
    let mut rng = Rng::new(seed ^ 0xF0);
    let trunk_len = if thorough { 116 } else { 112 };
    // fork points (number of trunk blocks shared beyond genesis) around the checkpoints
    let mut ats: Vec<usize> = if thorough {
        vec![0, 1, 4, 8, 9, 10, 14, 18, 19, 20, 24, 29, 30, 39, 44, 49, 50, 58, 59, 60, 73, 74, 75, 89, 98, 99, 100, 108]
    } else {
        vec![0, 8, 9, 10, 19, 20, 29, 44, 49, 59, 74, 99]
    };
    for _ in 0..(if thorough { 4 } else { 1 }) {
        ats.push(rng.range(1, trunk_len as u64 - 2) as usize);
    }
    let branches: Vec<(usize, usize, u64)> = ats.iter().map(|at| (*at, (trunk_len - at).min(if thorough { 36 } else { 24 }) + 2, 300)).collect();
    let mut f = Factory::new(seed, Cfg::new(GP, HEARTBEAT, 1000));
    let forest = match build_forest(&mut f, trunk_len, 400, &branches).await {
        Some(x) => x,
        None => {
            out.count("forkid:factory-could-not-build-forest");
            return;
        }
    };
    let trunk_chain = forest.chain(trunk_len, None, 0);
    let trunk_hashes: Vec<SaitoHash> = trunk_chain.iter().map(|b| b.hash).collect();
    out.setup(&format!("chain T {}", hexs(&trunk_hashes)));
    let gt = match grow(&trunk_chain, |_, _| {}).await {
        Ok(g) => g,
        Err(e) => {
            out.count(&format!("forkid:grow-failed:{}", e));
            return;
        }
    };
    // a second, unrelated chain (different genesis): pairs that share nothing
    let mut f2 = Factory::new(seed ^ 0x5EED, Cfg::new(GP, HEARTBEAT, 1000));
    f2.base_ts += 777;
    let foreign = build_forest(&mut f2, if thorough { 40 } else { 24 }, 350, &[]).await;

    let mut pairs: Vec<(String, Vec<Block>)> = vec![];
    for (k, (at, len, _)) in branches.iter().enumerate() {
        pairs.push((format!("Y{}", k), forest.chain(*at, Some(k), *len)));
    }
    if let Some(fo) = &foreign {
        pairs.push(("F".to_string(), fo.chain(fo.trunk.len(), None, 0)));
    }
    for (name, ychain) in pairs.iter() {
        let yh: Vec<SaitoHash> = ychain.iter().map(|b| b.hash).collect();
        out.setup(&format!("chain {} {}", name, hexs(&yh)));
        let lens_t = interesting_lengths(trunk_hashes.len(), thorough);
        let lens_y = interesting_lengths(yh.len(), thorough);
        // role 1: A = trunk (requester, every interesting length), B = Y (peer, grown step by step)
        let mut results: Vec<(String, usize, String, usize, u64, bool)> = vec![]; // (A name, la, B name, lb, anc, peer holds the requester's fork as an older side chain)
        let gy = grow(ychain, |lb, node| {
            if !lens_y.contains(&lb) {
                return;
            }
            for &la in &lens_t {
                if let Some(fid) = gt.fids[la - 1] {
                    if let Ok(anc) = guarded(|| node.blockchain.generate_last_shared_ancestor(la as u64, fid)) {
                        results.push(("T".into(), la, name.clone(), lb, anc, false));
                    } else {
                        results.push(("T".into(), la, name.clone(), lb, u64::MAX, false));
                    }
                }
            }
        })
        .await;
        let gy = match gy {
            Ok(g) => g,
            Err(e) => {
                out.count(&format!("forkid:grow-failed:{}", e));
                continue;
            }
        };
        // role 2: A = Y, B = trunk
        let _ = grow(&trunk_chain, |lb, node| {
            if !lens_t.contains(&lb) {
                return;
            }
            for &la in &lens_y {
                if let Some(fid) = gy.fids[la - 1] {
                    if let Ok(anc) = guarded(|| node.blockchain.generate_last_shared_ancestor(la as u64, fid)) {
                        results.push((name.clone(), la, "T".into(), lb, anc, false));
                    } else {
                        results.push((name.clone(), la, "T".into(), lb, u64::MAX, false));
                    }
                }
            }
        })
        .await;
        // role 3: A = trunk, B = Y, but the peer first held the REQUESTER's fork (trunk blocks above the fork point) as its
        // longest chain and then reorganised onto the longer, heavier Y: at the heights of the requester's fork its ring
        // items hold the requester's block FIRST and its own longest-chain block second. The answer must not change
        // (the estimate is defined on the peer's longest chain only) — same model line, token `side`.
        let fp0 = fork_point(&trunk_hashes, &yh) as usize;
        let blen = yh.len() - fp0;
        if fp0 >= 1 && blen >= 6 {
            let ls = (fp0 + blen * 2 / 3).min(trunk_hashes.len());
            let mut node = Node::new(7, Cfg::new(GP, HEARTBEAT, 1000));
            let mut ok = true;
            for b in ychain[..fp0].iter().chain(trunk_chain[fp0..ls].iter()) {
                match guarded_async(node.add_block(b.clone())).await {
                    Ok(r) if add_result_class(&r) == "added_lc" => {}
                    _ => ok = false,
                }
            }
            for (k, b) in ychain[fp0..].iter().enumerate() {
                if !ok {
                    break;
                }
                if guarded_async(node.add_block(b.clone())).await.is_err() {
                    ok = false;
                    break;
                }
                let lb = fp0 + k + 1;
                let on_y = node.tip().map(|t| t.1) == Some(b.hash);
                out.count(&format!("forkid:side-first:{}", if on_y { "peer-reorganised-onto-own-fork" } else { "peer-still-on-requester-fork" }));
                if !on_y {
                    continue;
                }
                for &la in lens_t.iter().filter(|la| **la <= ls + 3) {
                    if let Some(fid) = gt.fids[la - 1] {
                        let anc = guarded(|| node.blockchain.generate_last_shared_ancestor(la as u64, fid)).unwrap_or(u64::MAX);
                        results.push(("T".into(), la, name.clone(), lb, anc, true));
                    }
                }
            }
            if !ok {
                out.count("forkid:side-first:history-could-not-be-built");
            }
        }
        for (an, la, bn, lb, anc, side) in results {
            let (ah, afid) = if an == "T" { (&trunk_hashes[..la], gt.fids[la - 1]) } else { (&yh[..la], gy.fids[la - 1]) };
            let bh = if bn == "T" { &trunk_hashes[..lb] } else { &yh[..lb] };
            let fp = fork_point(ah, bh);
            let nwc = no_window_collision(ah, bh);
            let op = format!("pair {} {} {} {}{}", an, la, bn, lb, if side { " side" } else { "" });
            let ans = if anc == u64::MAX {
                "panic".to_string()
            } else {
                format!("fid={} anc={} fp={} nwc={}", hex::encode(afid.unwrap()), anc, fp, nwc as u8)
            };
            out.case(&op, &ans);
            out.count(&format!("forkid:{}:{}", if la >= lb { "peer-ahead-or-level" } else { "peer-behind" }, if nwc { "no-collision" } else { "window-collision" }));
            out.count(&format!("forkid:anc-vs-fp:{}", if anc == fp { "equal" } else if anc < fp { "below" } else { "ABOVE" }));
            if anc != u64::MAX && anc > fp {
                out.monitor_fail(
                    &format!("C15/ancestor-after-fork-point/{}", if nwc { "none" } else { "window-collision" }),
                    &format!("generate_last_shared_ancestor = {} but the chains last agree at id {}", anc, fp),
                    serde_json::json!({"suite": "forkid", "seed": seed, "tier": tier, "op": op, "requester_chain": hexs(ah), "peer_chain": hexs(bh)}),
                );
            }
        }
    }
    // the committed pair with a 16-bit collision at checkpoint id 10 (real honest blocks, see corpus/C15/collision.json)
    if let Some(nonce) = collision_nonce() {
        if let Some((ca, cb, _)) = build_collision_pair(Some(nonce), 1).await {
            let ah: Vec<SaitoHash> = ca.iter().map(|b| b.hash).collect();
            let bh: Vec<SaitoHash> = cb.iter().map(|b| b.hash).collect();
            out.setup(&format!("chain CA {}", hexs(&ah)));
            out.setup(&format!("chain CB {}", hexs(&bh)));
            if let Ok(ga) = grow(&ca, |_, _| {}).await {
                let mut results = vec![];
                let _ = grow(&cb, |lb, node| {
                    if lb < 6 {
                        return;
                    }
                    for la in 6..=ca.len() {
                        if let Some(fid) = ga.fids[la - 1] {
                            let anc = guarded(|| node.blockchain.generate_last_shared_ancestor(la as u64, fid)).unwrap_or(u64::MAX);
                            results.push((la, lb, anc));
                        }
                    }
                })
                .await;
                for (la, lb, anc) in results {
                    let fp = fork_point(&ah[..la], &bh[..lb]);
                    let nwc = no_window_collision(&ah[..la], &bh[..lb]);
                    let op = format!("pair CA {} CB {}", la, lb);
                    out.case(&op, &format!("fid={} anc={} fp={} nwc={}", hex::encode(ga.fids[la - 1].unwrap()), anc, fp, nwc as u8));
                    out.count(&format!("forkid:collision-pair:{}", if nwc { "no-collision" } else { "window-collision" }));
                    out.count(&format!("forkid:anc-vs-fp:{}", if anc == fp { "equal" } else if anc < fp { "below" } else { "ABOVE" }));
                    if anc != u64::MAX && anc > fp {
                        out.monitor_fail(
                            &format!("C15/ancestor-after-fork-point/{}", if nwc { "none" } else { "window-collision" }),
                            &format!("generate_last_shared_ancestor = {} but the chains last agree at id {}", anc, fp),
                            serde_json::json!({"suite": "forkid", "op": op, "pair": "corpus/C15/collision.json", "requester_chain": hexs(&ah[..la]), "peer_chain": hexs(&bh[..lb])}),
                        );
                    }
                }
            }
        } else {
            out.count("forkid:collision-pair-could-not-be-rebuilt");
        }
    }
}

// ------------------------------------------------------------------------------------------------- hand-built pair with a window collision
/// extend `parent` by `n` blocks (tickets on even ids, a self-payment on odd ids); returns blocks and spendable outputs
pub async fn extend(f: &mut Factory, parent: &Block, avail: &[Utxo], n: usize, dt: u64, creator: u64) -> Option<(Vec<Block>, Vec<Utxo>)> {
    let owner = owner_lookup(crate::chain::NKEYS);
    let mut avail = avail.to_vec();
    let mut out = vec![];
    let mut p = parent.clone();
    for _ in 0..n {
        let id = p.id + 1;
        let mut txs = vec![];
        if id % 2 == 1 && !avail.is_empty() {
            let u = avail.remove(0);
            let amt = u.slip.amount;
            txs.push(f.make_tx(&TxSpec { inputs: vec![u], outputs: vec![(1, amt)], data: vec![id as u8] }));
        }
        let gt = if txs.is_empty() { Some(f.golden_ticket_tx(&p, creator)) } else { None };
        let b = f.make_block(p.hash, p.timestamp + dt, creator, txs, gt).await.ok()?;
        f.remember(&b);
        avail.extend(outputs_of(&b, &owner));
        out.push(b.clone());
        p = b;
    }
    Some((out, avail))
}

pub const COLLISION_SEED: u64 = 4242;

/// requester: G + 4 shared + 7 own blocks (12); peer: G + 4 shared + 9 own blocks (14) whose block 10 was made with
/// timestamp offset `nonce` so that bytes 0..1 of its hash equal those of the requester's block 10.
/// `nonce = None`: search for it (returns it in `.2`).
pub async fn build_collision_pair(nonce: Option<u64>, max_tries: u64) -> Option<(Vec<Block>, Vec<Block>, u64)> {
    let mut f = Factory::new(COLLISION_SEED, Cfg::new(GP, HEARTBEAT, 1000));
    let genesis = f.make_genesis(&[(1, 1000), (1, 2000), (2, 3000), (2, 4000), (3, 5000), (3, 6000)]).await;
    f.remember(&genesis);
    let owner = owner_lookup(crate::chain::NKEYS);
    let g_out = outputs_of(&genesis, &owner);
    let (trunk, t_av) = extend(&mut f, &genesis, &g_out, 4, 400, 1).await?;
    let (a_br, _) = extend(&mut f, trunk.last()?, &t_av, 7, 400, 2).await?;
    let (b1, b_av) = extend(&mut f, trunk.last()?, &t_av, 4, 300, 3).await?;
    let target = &a_br[4]; // id 10
    assert_eq!(target.id, 10);
    let parent = b1.last()?.clone();
    let gt = f.golden_ticket_tx(&parent, 3);
    let mut found: Option<(Block, u64)> = None;
    let range: Vec<u64> = match nonce {
        Some(n) => vec![n],
        None => (0..max_tries).collect(),
    };
    for k in range {
        let b = f.make_block(parent.hash, parent.timestamp + 300 + k, 3, vec![], Some(gt.clone())).await.ok()?;
        if b.hash[0] == target.hash[0] && b.hash[1] == target.hash[1] {
            found = Some((b, k));
            break;
        }
    }
    let (b10, k) = found?;
    f.remember(&b10);
    let (b2, _) = extend(&mut f, &b10, &b_av, 4, 300, 3).await?;
    let mut a_chain = vec![genesis.clone()];
    a_chain.extend(trunk.iter().cloned());
    a_chain.extend(a_br);
    let mut b_chain = vec![genesis];
    b_chain.extend(trunk);
    b_chain.extend(b1);
    b_chain.push(b10);
    b_chain.extend(b2);
    Some((a_chain, b_chain, k))
}

/// `harness forkid-grind`: search the nonce once; the result is committed in corpus/C15/collision.json
pub fn grind() {
    let t = std::time::Instant::now();
    match rt().block_on(build_collision_pair(None, 2_000_000)) {
        Some((a, b, k)) => println!("{{\"seed\": {}, \"nonce\": {}, \"requester_block_10\": \"{}\", \"peer_block_10\": \"{}\", \"search_s\": {}}}", COLLISION_SEED, k, hex::encode(a[9].hash), hex::encode(b[9].hash), t.elapsed().as_secs()),
        None => println!("not found"),
    }
}

fn collision_nonce() -> Option<u64> {
    let txt = std::fs::read_to_string(format!("{}/corpus/C15/collision.json", verif_root())).ok()?;
    let v: serde_json::Value = serde_json::from_str(&txt).ok()?;
    if v["seed"].as_u64()? != COLLISION_SEED {
        return None;
    }
    v["nonce"].as_u64()
}

// ------------------------------------------------------------------------------------------------- I/O of a protocol node
#[derive(Default, Debug)]
pub struct SDisk {
    pub files: BTreeMap<String, Vec<u8>>,
    pub sent: VecDeque<(u64, Vec<u8>)>,
    pub sent_all: VecDeque<(Vec<u8>, Vec<u64>)>,
    pub fetches: VecDeque<(SaitoHash, u64, String, BlockId)>,
    pub disconnects: Vec<u64>,
}

#[derive(Clone, Debug)]
pub struct SyncIO {
    pub disk: Arc<Mutex<SDisk>>,
}

#[async_trait]
impl InterfaceIO for SyncIO {
    async fn send_message(&self, peer_index: u64, buffer: &[u8]) -> Result<(), Error> {
        self.disk.lock().unwrap().sent.push_back((peer_index, buffer.to_vec()));
        Ok(())
    }
    async fn send_message_to_all(&self, buffer: &[u8], excluded: Vec<u64>) -> Result<(), Error> {
        self.disk.lock().unwrap().sent_all.push_back((buffer.to_vec(), excluded));
        Ok(())
    }
    async fn connect_to_peer(&mut self, _url: String, _peer_index: PeerIndex) -> Result<(), Error> {
        Ok(())
    }
    async fn disconnect_from_peer(&self, peer_index: u64) -> Result<(), Error> {
        self.disk.lock().unwrap().disconnects.push(peer_index);
        Ok(())
    }
    async fn fetch_block_from_peer(&self, block_hash: SaitoHash, peer_index: u64, url: &str, block_id: BlockId) -> Result<(), Error> {
        self.disk.lock().unwrap().fetches.push_back((block_hash, peer_index, url.to_string(), block_id));
        Ok(())
    }
    async fn write_value(&self, key: &str, value: &[u8]) -> Result<(), Error> {
        self.disk.lock().unwrap().files.insert(key.to_string(), value.to_vec());
        Ok(())
    }
    async fn append_value(&mut self, _key: &str, _value: &[u8]) -> Result<(), Error> {
        Ok(())
    }
    async fn flush_data(&mut self, _key: &str) -> Result<(), Error> {
        Ok(())
    }
    async fn read_value(&self, key: &str) -> Result<Vec<u8>, Error> {
        match self.disk.lock().unwrap().files.get(key) {
            Some(v) => Ok(v.clone()),
            None => Err(Error::from(ErrorKind::NotFound)),
        }
    }
    async fn load_block_file_list(&self) -> Result<Vec<String>, Error> {
        Ok(vec![])
    }
    async fn is_existing_file(&self, key: &str) -> bool {
        self.disk.lock().unwrap().files.contains_key(key)
    }
    async fn remove_value(&self, key: &str) -> Result<(), Error> {
        self.disk.lock().unwrap().files.remove(key);
        Ok(())
    }
    fn get_block_dir(&self) -> String {
        BLOCK_DIR.to_string()
    }
    fn get_checkpoint_dir(&self) -> String {
        "./data/checkpoints/".to_string()
    }
    fn ensure_block_directory_exists(&self, _block_dir: &str) -> Result<(), Error> {
        Ok(())
    }
    async fn process_api_call(&self, _buffer: Vec<u8>, _msg_index: u32, _peer_index: PeerIndex) {}
    async fn process_api_success(&self, _buffer: Vec<u8>, _msg_index: u32, _peer_index: PeerIndex) {}
    async fn process_api_error(&self, _buffer: Vec<u8>, _msg_index: u32, _peer_index: PeerIndex) {}
    fn send_interface_event(&self, _event: InterfaceEvent) {}
    async fn save_wallet(&self, _wallet: &mut Wallet) -> Result<(), Error> {
        Ok(())
    }
    async fn load_wallet(&self, _wallet: &mut Wallet) -> Result<(), Error> {
        Ok(())
    }
    fn get_my_services(&self) -> Vec<PeerService> {
        vec![]
    }
}

#[derive(Clone)]
struct FixedClock;
impl KeepTime for FixedClock {
    fn get_timestamp_in_ms(&self) -> Timestamp {
        1_700_000_900_000
    }
}

// ------------------------------------------------------------------------------------------------- a protocol node
/// the other node is always peer index 1 (index 0 means "no peer" inside BlockchainSyncState)
pub const PEER: u64 = 1;
pub const NVERIF: usize = 2;

pub struct PNode {
    pub name: &'static str,
    pub routing: RoutingThread,
    pub consensus: ConsensusThread,
    pub verification: VerificationThread,
    pub blockchain_lock: Arc<RwLock<Blockchain>>,
    pub mempool_lock: Arc<RwLock<Mempool>>,
    pub peers: Arc<RwLock<PeerCollection>>,
    pub disk: Arc<Mutex<SDisk>>,
    rx_verif: Vec<Receiver<VerifyRequest>>,
    rx_cons: Receiver<ConsensusEvent>,
    rx_router: Receiver<RoutingEvent>,
    rx_miner: Receiver<MiningEvent>,
    _rx_stat: Receiver<String>,
    pub q_verif: Vec<VecDeque<VerifyRequest>>,
    pub q_cons: VecDeque<ConsensusEvent>,
    pub q_router: VecDeque<RoutingEvent>,
    /// messages on the wire towards this node (FIFO link)
    pub inbox: VecDeque<Vec<u8>>,
    /// fetches this node has asked its I/O layer for and that have not completed
    pub fetches: Vec<(SaitoHash, BlockId)>,
    pub requested: BTreeSet<SaitoHash>,
    pub dead: Option<String>,
    pub pk: saito_core::core::defs::SaitoPublicKey,
}

impl PNode {
    pub fn new(name: &'static str, key_index: u64, cfg: Cfg, batch: usize) -> PNode {
        let (pk, sk) = key(key_index);
        let wallet = Arc::new(RwLock::new(Wallet::new(sk, pk)));
        let gp = cfg.consensus.genesis_period;
        let config_lock: Arc<RwLock<dyn Configuration + Send + Sync>> = Arc::new(RwLock::new(cfg));
        let blockchain_lock = Arc::new(RwLock::new(Blockchain::new(wallet.clone(), gp, 0, 60)));
        let mempool_lock = Arc::new(RwLock::new(Mempool::new(wallet.clone())));
        let peers = Arc::new(RwLock::new(PeerCollection::default()));
        let disk = Arc::new(Mutex::new(SDisk::default()));
        let io = || -> Box<dyn InterfaceIO + Send + Sync> { Box::new(SyncIO { disk: disk.clone() }) };
        let timer = Timer { time_reader: Arc::new(FixedClock), hasten_multiplier: 1, start_time: 1_700_000_900_000 };
        let n = 100_000;
        let (tx_cons, rx_cons) = tokio::sync::mpsc::channel(n);
        let (tx_router, rx_router) = tokio::sync::mpsc::channel(n);
        let (tx_miner, rx_miner) = tokio::sync::mpsc::channel(n);
        let (tx_stat, rx_stat) = tokio::sync::mpsc::channel(n);
        let mut tx_verifs = vec![];
        let mut rx_verif = vec![];
        for _ in 0..NVERIF {
            let (t, r) = tokio::sync::mpsc::channel(n);
            tx_verifs.push(t);
            rx_verif.push(r);
        }
        let routing = RoutingThread {
            blockchain_lock: blockchain_lock.clone(),
            mempool_lock: mempool_lock.clone(),
            sender_to_consensus: tx_cons.clone(),
            sender_to_miner: tx_miner.clone(),
            config_lock: config_lock.clone(),
            timer: timer.clone(),
            wallet_lock: wallet.clone(),
            network: Network::new(io(), peers.clone(), wallet.clone(), config_lock.clone(), timer.clone()),
            storage: Storage::new(io()),
            reconnection_timer: 0,
            peer_removal_timer: 0,
            peer_file_write_timer: 0,
            last_emitted_block_fetch_count: 0,
            stats: RoutingStats::new(tx_stat.clone()),
            senders_to_verification: tx_verifs,
            last_verification_thread_index: 0,
            stat_sender: tx_stat.clone(),
            blockchain_sync_state: BlockchainSyncState::new(batch),
        };
        let consensus = ConsensusThread {
            mempool_lock: mempool_lock.clone(),
            blockchain_lock: blockchain_lock.clone(),
            wallet_lock: wallet.clone(),
            generate_genesis_block: false,
            sender_to_router: tx_router.clone(),
            sender_to_miner: tx_miner.clone(),
            block_producing_timer: 0,
            timer: timer.clone(),
            network: Network::new(io(), peers.clone(), wallet.clone(), config_lock.clone(), timer.clone()),
            storage: Storage::new(io()),
            stats: ConsensusStats::new(tx_stat.clone()),
            txs_for_mempool: vec![],
            stat_sender: tx_stat.clone(),
            config_lock: config_lock.clone(),
            produce_blocks_by_timer: false,
            delete_old_blocks: true,
        };
        let sv = |n: &str| StatVariable::new(n.to_string(), STAT_BIN_COUNT, tx_stat.clone());
        let verification = VerificationThread {
            sender_to_consensus: tx_cons.clone(),
            blockchain_lock: blockchain_lock.clone(),
            peer_lock: peers.clone(),
            wallet_lock: wallet.clone(),
            processed_txs: sv("verification::processed_txs"),
            processed_blocks: sv("verification::processed_blocks"),
            processed_msgs: sv("verification::processed_msgs"),
            invalid_txs: sv("verification::invalid_txs"),
            stat_sender: tx_stat.clone(),
        };
        PNode {
            name,
            routing,
            consensus,
            verification,
            blockchain_lock,
            mempool_lock,
            peers,
            disk,
            rx_verif,
            rx_cons,
            rx_router,
            rx_miner,
            _rx_stat: rx_stat,
            q_verif: (0..NVERIF).map(|_| VecDeque::new()).collect(),
            q_cons: VecDeque::new(),
            q_router: VecDeque::new(),
            inbox: VecDeque::new(),
            fetches: vec![],
            requested: BTreeSet::new(),
            dead: None,
            pk,
        }
    }

    /// put a chain into the node before the peers meet (the same `add_block` the consensus thread calls)
    pub async fn preload(&mut self, chain: &[Block]) -> Result<(), String> {
        let cfg = self.consensus.config_lock.clone();
        let cfg = cfg.read().await;
        let mut bc = self.blockchain_lock.write().await;
        let mut mp = self.mempool_lock.write().await;
        for b in chain {
            let r = guarded_async(bc.add_block(b.clone(), &mut self.consensus.storage, &mut mp, &*cfg)).await?;
            let c = add_result_class(&r);
            if c != "added_lc" && c != "added_side" {
                return Err(format!("preload block {} -> {}", b.id, c));
            }
        }
        Ok(())
    }

    /// move everything the handlers produced into scheduler-owned queues
    fn collect_local(&mut self) {
        for (i, r) in self.rx_verif.iter_mut().enumerate() {
            while let Ok(x) = r.try_recv() {
                self.q_verif[i].push_back(x);
            }
        }
        while let Ok(x) = self.rx_cons.try_recv() {
            self.q_cons.push_back(x);
        }
        while let Ok(x) = self.rx_router.try_recv() {
            self.q_router.push_back(x);
        }
        while self.rx_miner.try_recv().is_ok() {}
        let mut d = self.disk.lock().unwrap();
        while let Some((h, _peer, _url, id)) = d.fetches.pop_front() {
            self.fetches.push((h, id));
            self.requested.insert(h);
        }
    }

    pub async fn tip(&self) -> Option<(u64, SaitoHash)> {
        let bc = self.blockchain_lock.read().await;
        guarded(|| (bc.get_latest_block_id(), bc.get_latest_block_hash())).ok()
    }
}

#[derive(Clone, Debug, PartialEq)]
pub enum Choice {
    Msg(usize),
    Fetch(usize, usize),
    Verif(usize, usize),
    Cons(usize),
    Rout(usize),
}

#[derive(Clone, Copy, Debug, PartialEq)]
pub enum Mode {
    /// inter-thread channels of a node are drained right after every external event (messages, fetch completions)
    Eager,
    /// every queue is scheduled, including the verification/consensus/routing channels
    Full,
}

pub struct World {
    pub nodes: Vec<PNode>,
    pub blocks: HashMap<SaitoHash, Block>,
    pub mode: Mode,
    /// FIFO links (a websocket keeps order) or any order
    pub fifo: bool,
    /// `initial_loading_completed` of both configurations
    pub retry_rule: bool,
    /// observations for the monitors
    pub delivered_before_parent: [bool; 2],
    pub first_not_genesis: [bool; 2],
    /// a parent-less block went through the main path of add_block on this node (pinned orphan branch)
    pub parentless: [bool; 2],
    pub steps: usize,
    pub log: Vec<String>,
    /// no 16-bit window collision between the two chains (harness-side check)
    pub nwc: bool,
    /// schedule so far: (choice taken, number of alternatives)
    pub trace: Vec<(usize, usize)>,
    /// case description, case index, run number, kind of schedule — echoed before every consensus delivery so that the
    /// parent process can name and resume a run whose handler never returns
    pub ctx: (String, usize, usize, &'static str),
}

/// emitter of correspondence lines: ("S"|"O"|"I"|"H"|"M", text)
pub type Emit<'a> = &'a mut dyn FnMut(&str, &str);

/// feature of a node's history (priority order), computed from what the harness itself saw
pub fn history_feature(nwc: bool, first_not_genesis: bool, before_parent: bool, ld: bool) -> &'static str {
    if !nwc {
        "window-collision"
    } else if first_not_genesis {
        "first-block-given-to-empty-node-is-not-genesis"
    } else if before_parent && !ld {
        "block-fetched-before-its-parent/retry-rule-off"
    } else if before_parent {
        "block-fetched-before-its-parent/retry-rule-on"
    } else {
        "none"
    }
}

impl World {
    fn flush_wires(&mut self) {
        for i in 0..2 {
            self.nodes[i].collect_local();
            let mut out: Vec<Vec<u8>> = vec![];
            {
                let mut d = self.nodes[i].disk.lock().unwrap();
                while let Some((peer, buf)) = d.sent.pop_front() {
                    if peer == PEER {
                        out.push(buf);
                    }
                }
                while let Some((buf, excluded)) = d.sent_all.pop_front() {
                    if !excluded.contains(&PEER) {
                        out.push(buf);
                    }
                }
            }
            for b in out {
                self.nodes[1 - i].inbox.push_back(b);
            }
        }
    }

    pub fn alternatives(&self) -> Vec<Choice> {
        let mut v = vec![];
        for i in 0..2 {
            let n = &self.nodes[i];
            if n.dead.is_some() {
                continue;
            }
            if !n.inbox.is_empty() {
                if self.fifo {
                    v.push(Choice::Msg(i));
                } else {
                    v.push(Choice::Msg(i)); // non-fifo picks are encoded by rotating the inbox before the step
                }
            }
            for k in 0..n.fetches.len() {
                v.push(Choice::Fetch(i, k));
            }
            if self.mode == Mode::Full {
                for q in 0..NVERIF {
                    if !n.q_verif[q].is_empty() {
                        v.push(Choice::Verif(i, q));
                    }
                }
                if !n.q_cons.is_empty() {
                    v.push(Choice::Cons(i));
                }
                if !n.q_router.is_empty() {
                    v.push(Choice::Rout(i));
                }
            }
        }
        v
    }

    async fn internal_step(&mut self, i: usize, ids: &mut Ids, emit: Emit<'_>) -> bool {
        // verification first, then consensus, then routing (one item)
        for q in 0..NVERIF {
            if !self.nodes[i].q_verif[q].is_empty() {
                self.run(Choice::Verif(i, q), ids, emit).await;
                return true;
            }
        }
        if !self.nodes[i].q_cons.is_empty() {
            self.run(Choice::Cons(i), ids, emit).await;
            return true;
        }
        if !self.nodes[i].q_router.is_empty() {
            self.run(Choice::Rout(i), ids, emit).await;
            return true;
        }
        false
    }

    pub async fn settle(&mut self, ids: &mut Ids, emit: Emit<'_>) {
        if self.mode != Mode::Eager {
            return;
        }
        loop {
            let mut any = false;
            for i in 0..2 {
                if self.nodes[i].dead.is_none() {
                    while self.internal_step(i, ids, emit).await {
                        any = true;
                    }
                }
            }
            if !any {
                break;
            }
        }
    }

    /// execute one choice on the real handlers
    pub async fn run(&mut self, c: Choice, ids: &mut Ids, emit: Emit<'_>) {
        self.steps += 1;
        let (i, res): (usize, Result<(), String>) = match c.clone() {
            Choice::Msg(i) => {
                let buf = self.nodes[i].inbox.pop_front().unwrap();
                self.log.push(format!("{}:msg(tag {})", self.nodes[i].name, buf.first().cloned().unwrap_or(255)));
                let r = guarded_async(self.nodes[i].routing.process_network_event(NetworkEvent::IncomingNetworkMessage { peer_index: PEER, buffer: buf })).await;
                (i, r.map(|_| ()))
            }
            Choice::Fetch(i, k) => {
                let (h, id) = self.nodes[i].fetches.remove(k);
                // the peer serves the block if it has it
                let has = self.nodes[1 - i].blockchain_lock.read().await.blocks.contains_key(&h);
                let ev = match (has, self.blocks.get(&h)) {
                    (true, Some(b)) => NetworkEvent::BlockFetched { block_hash: h, block_id: id, peer_index: PEER, buffer: b.serialize_for_net(BlockType::Full) },
                    _ => NetworkEvent::BlockFetchFailed { block_hash: h, peer_index: PEER, block_id: id },
                };
                self.log.push(format!("{}:fetched({}{})", self.nodes[i].name, id, if has { "" } else { " FAILED" }));
                let r = guarded_async(self.nodes[i].routing.process_network_event(ev)).await;
                (i, r.map(|_| ()))
            }
            Choice::Verif(i, q) => {
                let ev = self.nodes[i].q_verif[q].pop_front().unwrap();
                self.log.push(format!("{}:verify[{}]", self.nodes[i].name, q));
                let r = guarded_async(self.nodes[i].verification.process_event(ev)).await;
                (i, r.map(|_| ()))
            }
            Choice::Cons(i) => {
                let ev = self.nodes[i].q_cons.pop_front().unwrap();
                let mut op = None;
                if let ConsensusEvent::BlockFetched { block, .. } = &ev {
                    let onp = validates_without_parent(block, &Cfg::new(GP, 100, 50)).await;
                    let line = project(block, true, onp, ids);
                    op = Some(format!("deliver {} {}", self.nodes[i].name, &line[4..]));
                    let known = {
                        let bc = self.nodes[i].blockchain_lock.read().await;
                        block.previous_block_hash == [0; 32] || bc.blocks.contains_key(&block.previous_block_hash) || bc.blocks.contains_key(&block.hash)
                    };
                    if !known {
                        self.delivered_before_parent[i] = true;
                        let empty = self.nodes[i].blockchain_lock.read().await.blocks.is_empty();
                        if empty {
                            self.first_not_genesis[i] = true;
                        }
                        if empty || !self.retry_rule {
                            self.parentless[i] = true;
                        }
                    }
                    if self.parentless[i] {
                        // statistics only (the driver ignores the token): deliveries at/after a parent-less block that went
                        // through the main path of add_block — compared like every other line
                        op = op.map(|o| format!("{} parentless-history", o));
                    }
                    self.log.push(format!("{}:consensus(block {}{})", self.nodes[i].name, block.id, if known { "" } else { " BEFORE PARENT" }));
                } else {
                    self.log.push(format!("{}:consensus(other)", self.nodes[i].name));
                }
                if let Some(op) = &op {
                    let f = history_feature(self.nwc, self.first_not_genesis[i], self.delivered_before_parent[i], self.retry_rule);
                    emit(
                        "F",
                        &serde_json::json!({"node": self.nodes[i].name, "feature": f, "case": self.ctx.0, "case_index": self.ctx.1, "run": self.ctx.2,
                            "kind": self.ctx.3, "trace": self.trace.iter().map(|x| vec![x.0, x.1]).collect::<Vec<_>>(), "events": self.log})
                        .to_string(),
                    );
                    emit("O", op);
                }
                let r = guarded_async(self.nodes[i].consensus.process_event(ev)).await;
                if op.is_some() {
                    let ans = match &r {
                        Ok(_) => observe(&self.nodes[i], ids).await,
                        Err(_) => "panic".to_string(),
                    };
                    emit("I", &ans);
                }
                (i, r.map(|_| ()))
            }
            Choice::Rout(i) => {
                let ev = self.nodes[i].q_router.pop_front().unwrap();
                self.log.push(format!("{}:routing({})", self.nodes[i].name, match &ev {
                    RoutingEvent::BlockchainUpdated(_) => "updated",
                    RoutingEvent::BlockFetchRequest(..) => "fetch-request",
                    RoutingEvent::BlockchainRequest(_) => "blockchain-request",
                }));
                let r = guarded_async(self.nodes[i].routing.process_event(ev)).await;
                (i, r.map(|_| ()))
            }
        };
        if let Err(e) = res {
            self.nodes[i].dead = Some(e.replace('\n', " ").replace('\t', " "));
        }
        self.flush_wires();
    }
}

/// what the delivery model answers after a `deliver`: tip, refilled queue, stored blocks
pub async fn observe(n: &PNode, ids: &mut Ids) -> String {
    let bc = n.blockchain_lock.read().await;
    let mp = n.mempool_lock.read().await;
    let tip = match guarded(|| (bc.get_latest_block_id(), bc.get_latest_block_hash())) {
        Ok((i, h)) => format!("{}:{}", i, ids.h(&h)),
        Err(_) => "panic".to_string(),
    };
    let q: Vec<String> = mp.blocks_queue.iter().map(|b| ids.h(&b.hash).to_string()).collect();
    let mut bl: Vec<u32> = bc.blocks.keys().map(|h| ids.h(h)).collect();
    bl.sort();
    format!("tip={} queue=[{}] blocks=[{}]", tip, q.join(","), bl.iter().map(|x| x.to_string()).collect::<Vec<_>>().join(","))
}

// ------------------------------------------------------------------------------------------------- protocol cases
#[derive(Clone, Debug)]
pub struct PairSpec {
    /// blocks shared beyond genesis (genesis is always shared unless `a_empty`)
    pub shared: usize,
    pub a_empty: bool,
    pub sa: usize,
    pub sb: usize,
    pub dt_a: u64,
    pub dt_b: u64,
    /// `initial_loading_completed` of the syncing node's configuration (false in every configuration the tree ships)
    pub ld: bool,
    pub batch: usize,
    pub mode: Mode,
    pub fifo: bool,
    pub handshake: bool,
    /// exhaustive = enumerate schedules depth-first up to `max_runs`; otherwise that many seeded random schedules
    pub exhaustive: bool,
    pub max_runs: usize,
    /// the hand-built pair of corpus/C15/collision.json (two different blocks at id 10 share hash bytes 0..1)
    pub collision: bool,
    /// witness cases: fixed factory seed and ONE fixed schedule (choice indices, then leftmost)
    pub build_seed: Option<u64>,
    pub schedule: Option<Vec<usize>>,
    /// the peer received the requester's fork FIRST (it was its longest chain) and reorganised onto its own longer fork
    /// later: at the heights of the requester's fork its index holds the requester's block first, its own block second
    pub peer_saw_requester_fork: bool,
    /// (with `handshake`, requester merely behind) the nodes first meet while the peer still holds only the requester's
    /// chain; the connection drops, the peer's chain grows to its full length, the same peer connects again
    pub reconnect: bool,
}

impl PairSpec {
    fn describe(&self) -> String {
        format!(
            "shared={} a_empty={} sa={} sb={} dt_a={} dt_b={} ld={} batch={} mode={:?} fifo={} handshake={} collision_pair={} peer_saw_requester_fork={} reconnect={}",
            self.shared, self.a_empty as u8, self.sa, self.sb, self.dt_a, self.dt_b, self.ld as u8, self.batch, self.mode, self.fifo as u8, self.handshake as u8, self.collision as u8, self.peer_saw_requester_fork as u8, self.reconnect as u8
        )
    }
}

pub fn pair_cases(seed: u64, tier: &str) -> Vec<PairSpec> {
    let thorough = tier == "thorough";
    let mut r = Rng::new(seed ^ 0xC15);
    let mut v = vec![];
    let base = PairSpec { shared: 0, a_empty: false, sa: 0, sb: 2, dt_a: 400, dt_b: 300, ld: false, batch: 10, mode: Mode::Eager, fifo: true, handshake: false, exhaustive: true, max_runs: 400, collision: false, build_seed: None, schedule: None, peer_saw_requester_fork: false, reconnect: false };
    if std::env::var("C15_EXPLORE_CASES").is_ok() {
        // debugging aid (not used by ./check): small forked pairs, random schedules, to look for witnesses of a stall
        for shared in 0..6usize {
            for sa in 1..5usize {
                for sb in sa + 1..sa + 5 {
                    for bseed in 1..4u64 {
                        v.push(PairSpec { shared, sa, sb, build_seed: Some(bseed), exhaustive: false, max_runs: 60, ..base.clone() });
                    }
                }
            }
        }
        return v;
    }
    // 0. witnesses of the listed findings: fixed factory seed, ONE fixed schedule each (see known_findings.json)
    //    W1 requester [G], peer [G,B1,B2]; block 3 is fetched before block 2; retry rule off (shipped) / on (control)
    for ld in [false, true] {
        v.push(PairSpec { ld, build_seed: Some(1), schedule: Some(vec![0, 0, 0, 0, 1, 0]), ..base.clone() });
    }
    //    W2 empty requester, peer [G,B1,B2]; the first block it is given is block 2
    for ld in [false, true] {
        v.push(PairSpec { a_empty: true, ld, build_seed: Some(1), schedule: Some(vec![0, 0, 0, 0, 1, 1, 0]), ..base.clone() });
    }
    //    W3 requester [G,T1,A1..A4], peer [G,T1,B1..B6]; block 4 fetched before block 3: check_total_supply panics
    v.push(PairSpec { shared: 1, sa: 4, sb: 6, build_seed: Some(1), schedule: Some(vec![0, 0, 0, 0, 0, 2, 1]), ..base.clone() });
    //    W5 requester [G,T1..T3,A1..A4], peer [G,T1..T3,B1..B5]; fetch order 6,7,8,5,9: the parent-less run 6,7,8 is adopted,
    //       block 5 arrives too late to be indexed, block 9 extends the run: same tip as the peer, different chain
    v.push(PairSpec { shared: 3, sa: 4, sb: 5, build_seed: Some(3), schedule: Some(vec![0, 0, 0, 0, 0, 0, 0, 2, 0, 2, 0, 2, 1, 0, 0]), ..base.clone() });
    //    W6 requester [G,A1..A4], peer [G,B1..B5]; fetch order 2,4,3,5. Pinned tree: parent-less block 4 is stored, the node
    //       stays behind. Tree with the transaction verdict propagated (fix F1): block 5 spends an output that is not spendable
    //       on the requester's ledger, is now INVALID inside the two-block candidate [4,5] and Blockchain::validate never returns
    v.push(PairSpec { shared: 0, sa: 4, sb: 5, build_seed: Some(1), schedule: Some(vec![0, 0, 0, 1, 0, 0, 2, 0, 0, 0, 0]), ..base.clone() });
    //    W4 the pair with a 16-bit window collision at checkpoint id 10 (fork point 5), blocks fetched in order
    if collision_nonce().is_some() {
        for ld in [false, true] {
            v.push(PairSpec { shared: 4, sa: 7, sb: 9, ld, collision: true, schedule: Some(vec![]), ..base.clone() });
        }
    }
    // 0c. the peer holds the requester's fork as an OLDER side chain (it received that fork first and reorganised onto its
    //     own longer, heavier fork later); fork lengths > 10, fork point / requester tip straddling the checkpoints 10, 20, 30.
    //     (shared, sa, sb): fork point = shared+1, requester tip = shared+1+sa, peer tip = shared+1+sb. In-order schedule for
    //     both values of the retry switch (must converge, every needed block requested), plus random schedules.
    for (shared, sa, sb) in [(4usize, 9usize, 15usize), (8, 12, 14), (9, 11, 13), (10, 10, 12), (0, 21, 23), (14, 16, 19), (11, 6, 9)] {
        for ld in [false, true] {
            v.push(PairSpec { shared, sa, sb, ld, peer_saw_requester_fork: true, build_seed: Some(1), schedule: Some(vec![]), ..base.clone() });
        }
        v.push(PairSpec { shared, sa, sb, ld: true, peer_saw_requester_fork: true, build_seed: Some(2), exhaustive: false, max_runs: if thorough { 6 } else { 2 }, mode: Mode::Full, ..base.clone() });
    }
    // 1. small pairs, exhaustive schedules: empty / shorter / forked requester, peer longer by 1..3
    let cap = if thorough { 20000 } else { 2500 };
    for ld in [false, true] {
        for (a_empty, shared, sa, sb) in [(true, 0, 0, 2), (false, 0, 0, 1), (false, 0, 0, 3), (false, 1, 0, 2), (false, 0, 1, 2), (false, 1, 1, 2), (false, 0, 1, 3), (false, 0, 2, 3), (false, 1, 2, 3)] {
            for mode in [Mode::Eager, Mode::Full] {
                if mode == Mode::Full && !thorough && (sb > 2 || sa + sb > 3) {
                    continue;
                }
                v.push(PairSpec { shared, a_empty, sa, sb, ld, mode, max_runs: cap, ..base.clone() });
            }
        }
    }
    // 2. longer-but-lighter peer chain (must NOT be adopted; never reported) and heavier one
    for ld in [false, true] {
        v.push(PairSpec { shared: 1, sa: 2, sb: 3, dt_a: 250, dt_b: 2500, ld, max_runs: 40, exhaustive: false, ..base.clone() });
    }
    // 3. lengths around the fork-id checkpoints, random schedules
    let n_rand = if thorough { 400 } else { 60 };
    let lens: [usize; 10] = [8, 9, 10, 11, 18, 19, 20, 21, 29, 31];
    for k in 0..n_rand {
        let la = *r.pick(&lens); // requester's length (with genesis)
        let sa = r.below(4.min(la as u64 - 1) + 1) as usize;
        let shared = la - 1 - sa;
        let sb = sa + 1 + r.below(if thorough { 14 } else { 9 }) as usize;
        let mode = if r.coin(1, 2) { Mode::Full } else { Mode::Eager };
        let ld = k % 2 == 1;
        v.push(PairSpec {
            shared,
            a_empty: false,
            sa,
            sb,
            dt_a: 400,
            dt_b: if r.coin(1, 6) { 2500 } else { 300 },
            ld,
            batch: *r.pick(&[1usize, 2, 10, 10]),
            mode,
            fifo: !r.coin(1, 4),
            handshake: r.coin(1, 3),
            exhaustive: false,
            max_runs: if thorough { 8 } else { 4 },
            collision: false,
            build_seed: None,
            schedule: None,
            peer_saw_requester_fork: sa > 0 && k % 3 == 0,
            reconnect: false,
        });
    }
    // the same peer met twice: the requester is merely behind, the peer grows while the connection is down
    for (shared, sb, batch, fifo, mode) in [(0usize, 3usize, 10usize, true, Mode::Eager), (2, 5, 10, true, Mode::Full), (4, 12, 2, true, Mode::Eager), (1, 7, 1, false, Mode::Eager), (3, 4, 10, false, Mode::Full)] {
        v.push(PairSpec { shared, sa: 0, sb, batch, fifo, mode, handshake: true, reconnect: true, exhaustive: false, max_runs: 2, ..base.clone() });
    }
    v
}

pub struct BuiltPair {
    pub a_chain: Vec<Block>,
    pub b_chain: Vec<Block>,
    /// order in which the peer received its blocks (its chain; or the requester's fork first, then its own longer one)
    pub b_history: Vec<Block>,
    pub all: HashMap<SaitoHash, Block>,
    pub wins: bool,
    pub fork_point: u64,
    pub nwc: bool,
}

pub async fn build_pair(seed: u64, s: &PairSpec) -> Option<BuiltPair> {
    let (a_chain, b_chain) = if s.collision {
        let (a, b, _) = build_collision_pair(Some(collision_nonce()?), 1).await?;
        (a, b)
    } else {
        let mut f = Factory::new(seed, Cfg::new(GP, HEARTBEAT, 1000));
        let forest = build_forest(&mut f, s.shared, 400, &[(s.shared, s.sa, s.dt_a), (s.shared, s.sb, s.dt_b)]).await?;
        (if s.a_empty { vec![] } else { forest.chain(s.shared, Some(0), s.sa) }, forest.chain(s.shared, Some(1), s.sb))
    };
    let mut all = HashMap::new();
    for b in a_chain.iter().chain(b_chain.iter()) {
        all.insert(b.hash, b.clone());
    }
    let ah: Vec<SaitoHash> = a_chain.iter().map(|b| b.hash).collect();
    let bh: Vec<SaitoHash> = b_chain.iter().map(|b| b.hash).collect();
    let fp = fork_point(&ah, &bh) as usize;
    // fork choice as C05 states it: strictly longer and at least as heavy over the diverging segments
    let bf = |c: &[Block]| c[fp.min(c.len())..].iter().map(|b| b.burnfee as u128).sum::<u128>();
    let wins = b_chain.len() > a_chain.len() && bf(&b_chain) >= bf(&a_chain);
    let nwc = no_window_collision(&ah, &bh);
    let mut b_history = vec![];
    if s.peer_saw_requester_fork && wins && !a_chain.is_empty() {
        // shared blocks, the requester's fork (the peer's longest chain for a while), then the peer's own, longer fork
        b_history.extend(a_chain.iter().cloned());
        b_history.extend(b_chain[fp.min(b_chain.len())..].iter().cloned());
    } else {
        b_history = b_chain.clone();
    }
    Some(BuiltPair { a_chain, b_chain, b_history, all, wins, fork_point: fp as u64, nwc })
}

fn install_peer(n: &mut PNode, other_pk: saito_core::core::defs::SaitoPublicKey) {
    let mut p = Peer::new(PEER);
    p.public_key = Some(other_pk);
    p.block_fetch_url = "http://peer".to_string();
    p.peer_status = PeerStatus::Connected;
    let mut peers = n.peers.try_write().unwrap();
    peers.index_to_peers.insert(PEER, p);
    peers.address_to_peers.insert(other_pk, PEER);
}

pub struct RunResult {
    pub trace: Vec<(usize, usize)>, // (choice taken, number of alternatives)
    pub converged: bool,
    pub a_tip: Option<(u64, SaitoHash)>,
    pub b_tip: Option<(u64, SaitoHash)>,
    pub missing_requests: Vec<u64>, // ids of peer blocks above the fork point that the requester never asked for
    /// per node (0 = requester, 1 = peer): a block reached the consensus thread before its parent
    pub before_parent: [bool; 2],
    /// per node: the first block an EMPTY node was given is not a genesis block
    pub first_not_genesis: [bool; 2],
    /// which node's handler panicked
    pub dead_node: usize,
    /// the peer's own tip moved away from the chain it had when the nodes met
    pub peer_tip_moved: bool,
    /// ids (≤ tip) at which the requester's longest-chain index does not hold the peer's block
    pub chain_diff: Vec<u64>,
    pub dead: Option<String>,
    pub log: Vec<String>,
}

/// one complete execution under the schedule `prefix` (then leftmost choices), or under `rng` if given
pub async fn run_schedule(s: &PairSpec, bp: &BuiltPair, ids: &mut Ids, prefix: &[usize], mut rng: Option<&mut Rng>, ctx: (usize, usize), emit: Emit<'_>) -> Result<RunResult, String> {
    let mut cfg_a = Cfg::new(GP, HEARTBEAT, 1000);
    cfg_a.blockchain.initial_loading_completed = s.ld;
    let mut cfg_b = Cfg::new(GP, HEARTBEAT, 1000);
    cfg_b.blockchain.initial_loading_completed = s.ld;
    let mut a = PNode::new("a", 11, cfg_a, s.batch);
    let mut b = PNode::new("b", 12, cfg_b, s.batch);
    a.preload(&bp.a_chain).await?;
    let two_phase = s.reconnect && s.handshake && s.sa == 0 && !s.a_empty && !s.peer_saw_requester_fork && !s.collision;
    if two_phase {
        // first meeting: the peer holds what the requester holds
        b.preload(&bp.a_chain).await?;
    } else {
        b.preload(&bp.b_history).await?;
        if b.tip().await.map(|t| t.1) != bp.b_chain.last().map(|x| x.hash) {
            return Err("the peer is not on its own chain after loading its history".into());
        }
    }
    let (apk, bpk) = (a.pk, b.pk);
    if s.handshake {
        // a dials b: a knows b as a static peer, b meets an unknown incoming connection and starts the handshake
        let mut p = Peer::new(PEER);
        p.static_peer_config = Some(PeerConfig { host: "b".into(), port: 1, protocol: "http".into(), synctype: "full".into() });
        a.peers.try_write().unwrap().index_to_peers.insert(PEER, p);
    } else {
        install_peer(&mut a, bpk);
        install_peer(&mut b, apk);
    }
    let mut w = World { nodes: vec![a, b], blocks: bp.all.clone(), mode: s.mode, fifo: s.fifo, retry_rule: s.ld, delivered_before_parent: [false; 2], first_not_genesis: [false; 2], parentless: [false; 2], steps: 0, log: vec![], nwc: bp.nwc, trace: vec![],
        ctx: (s.describe(), ctx.0, ctx.1, if s.schedule.is_some() { "fixed" } else if s.exhaustive { "exhaustive" } else { "random" }) };
    emit("S", "restore a");
    emit("S", "restore b");
    if s.handshake {
        for i in 0..2 {
            let r = guarded_async(w.nodes[i].routing.process_network_event(NetworkEvent::PeerConnectionResult { result: Ok((PEER, None)) })).await;
            if let Err(e) = r {
                w.nodes[i].dead = Some(e);
            }
        }
        w.flush_wires();
        if two_phase {
            // the first exchange runs to quiescence (leftmost choices), the connection drops on both sides, the peer's chain
            // grows, the same peer connects again: the second handshake must start the exchange again
            w.settle(ids, emit).await;
            let mut guard = 0;
            loop {
                let alts = w.alternatives();
                if alts.is_empty() || guard > 2000 {
                    break;
                }
                guard += 1;
                w.run(alts[0].clone(), ids, emit).await;
                w.settle(ids, emit).await;
            }
            for i in 0..2 {
                let r = guarded_async(w.nodes[i].routing.process_network_event(NetworkEvent::PeerDisconnected { peer_index: PEER, disconnect_type: saito_core::core::io::network::PeerDisconnectType::ExternalDisconnect })).await;
                if let Err(e) = r {
                    w.nodes[i].dead = Some(e);
                }
            }
            w.flush_wires();
            w.settle(ids, emit).await;
            let rest: Vec<Block> = bp.b_history.iter().filter(|x| !bp.a_chain.iter().any(|y| y.hash == x.hash)).cloned().collect();
            w.nodes[1].preload(&rest).await?;
            if w.nodes[1].tip().await.map(|t| t.1) != bp.b_chain.last().map(|x| x.hash) {
                return Err("the peer is not on its own chain after growing".into());
            }
            w.log.push("reconnect: connection dropped, peer grew, same peer connects again".into());
            for i in 0..2 {
                let r = guarded_async(w.nodes[i].routing.process_network_event(NetworkEvent::PeerConnectionResult { result: Ok((PEER, None)) })).await;
                if let Err(e) = r {
                    w.nodes[i].dead = Some(e);
                }
            }
            w.flush_wires();
        }
    } else {
        // the requester asks for the peer's chain (what the end of the handshake does: routing_thread.rs:910)
        w.nodes[0].q_router.push_back(RoutingEvent::BlockchainRequest(PEER));
        w.run(Choice::Rout(0), ids, emit).await;
    }
    w.settle(ids, emit).await;
    let mut pos = 0;
    loop {
        let alts = w.alternatives();
        if alts.is_empty() {
            break;
        }
        if w.steps > 20_000 {
            return Err("schedule does not reach quiescence within 20000 steps".into());
        }
        let pick = if let Some(r) = rng.as_deref_mut() {
            r.below(alts.len() as u64) as usize
        } else if pos < prefix.len() {
            prefix[pos].min(alts.len() - 1)
        } else {
            0
        };
        pos += 1;
        w.trace.push((pick, alts.len()));
        let c = alts[pick].clone();
        if let (Choice::Msg(i), false) = (&c, w.fifo) {
            // unordered link: bring a pseudo-randomly chosen message to the front (derived from the step number)
            let n = w.nodes[*i].inbox.len();
            let k = (w.steps.wrapping_mul(2654435761) >> 3) % n;
            w.nodes[*i].inbox.rotate_left(k);
        }
        w.run(c, ids, emit).await;
        w.settle(ids, emit).await;
    }
    let a_tip = w.nodes[0].tip().await;
    let b_tip = w.nodes[1].tip().await;
    // "the peer's chain" = the chain the peer held when the nodes met
    let peer_tip = bp.b_chain.last().map(|b| (b.id, b.hash));
    let converged = a_tip.is_some() && a_tip == peer_tip;
    let peer_tip_moved = b_tip != peer_tip;
    let mut chain_diff = vec![];
    if w.nodes[0].dead.is_none() {
        let bc = w.nodes[0].blockchain_lock.read().await;
        for b in &bp.b_chain {
            let have = guarded(|| bc.blockring.get_longest_chain_block_hash_at_block_id(b.id)).unwrap_or(None);
            if have != Some(b.hash) {
                chain_diff.push(b.id);
            }
        }
    }
    let mut missing = vec![];
    for b in &bp.b_chain {
        if b.id > bp.fork_point && !w.nodes[0].requested.contains(&b.hash) {
            missing.push(b.id);
        }
    }
    let dead = w.nodes[0].dead.clone().or(w.nodes[1].dead.clone());
    Ok(RunResult {
        trace: w.trace.clone(),
        converged,
        a_tip,
        b_tip,
        missing_requests: missing,
        before_parent: w.delivered_before_parent,
        first_not_genesis: w.first_not_genesis,
        dead_node: if w.nodes[0].dead.is_some() { 0 } else { 1 },
        peer_tip_moved,
        chain_diff,
        dead,
        log: w.log,
    })
}

/// next schedule prefix in depth-first order, None when the space is exhausted
fn next_prefix(trace: &[(usize, usize)]) -> Option<Vec<usize>> {
    let mut k = trace.len();
    while k > 0 {
        k -= 1;
        if trace[k].0 + 1 < trace[k].1 {
            let mut p: Vec<usize> = trace[..k].iter().map(|x| x.0).collect();
            p.push(trace[k].0 + 1);
            return Some(p);
        }
    }
    None
}

/// run one case (all its schedules) and stream tagged lines
/// `resume` = (runs already done, schedule prefix to continue the depth-first enumeration from): set by the parent
/// process after it had to kill a worker whose consensus handler did not return
pub async fn run_pair_case(seed: u64, ci: usize, s: &PairSpec, resume: Option<(usize, Vec<usize>)>, emit: Emit<'_>) {
    let bp = match build_pair(s.build_seed.unwrap_or(seed.wrapping_add(ci as u64 * 7919)), s).await {
        Some(x) => x,
        None => {
            emit("H", "proto:factory-could-not-build-pair");
            return;
        }
    };
    // model nodes: load both chains once, snapshot
    let mut ids = Ids::default();
    for (name, chain) in [("a", &bp.a_chain), ("b", &bp.b_history)] {
        emit("S", &format!("reset {} {} {}", name, GP, s.ld as u8));
        for blk in chain.iter() {
            let onp = validates_without_parent(blk, &Cfg::new(GP, 100, 50)).await;
            let line = project(blk, true, onp, &mut ids);
            emit("S", &format!("deliver {} {}", name, &line[4..]));
        }
        emit("S", &format!("save {}", name));
    }
    let class = format!(
        "{}:{}:{}",
        if s.a_empty { "requester-empty" } else if s.sa == 0 { "requester-shorter" } else { "requester-forked" },
        if bp.wins { "peer-wins" } else { "peer-longer-but-lighter" },
        if s.ld { "retry-rule-on" } else { "retry-rule-off" }
    );
    let mut prefix: Vec<usize> = s.schedule.clone().unwrap_or_default();
    let mut runs = 0;
    if let Some((done, p)) = resume {
        runs = done;
        if s.exhaustive {
            prefix = p;
        }
    }
    let mut exhausted = false;
    let mut reported: BTreeSet<String> = BTreeSet::new();
    loop {
        // one generator per run, so that a case can be resumed at any run
        let mut rng = Rng::new(seed ^ (ci as u64) << 8 ^ 0xABCD ^ (runs as u64).wrapping_mul(0x9E37_79B9));
        let r = if s.exhaustive || s.schedule.is_some() {
            run_schedule(s, &bp, &mut ids, &prefix, None, (ci, runs), emit).await
        } else {
            run_schedule(s, &bp, &mut ids, &[], Some(&mut rng), (ci, runs), emit).await
        };
        runs += 1;
        let r = match r {
            Ok(r) => r,
            Err(e) => {
                emit("H", &format!("proto:run-error:{}", e));
                break;
            }
        };
        // ---- monitors (harness-side features only)
        // feature of the history, computed from what the harness itself saw (priority order)
        let feature_of = |i: usize| -> String { history_feature(bp.nwc, r.first_not_genesis[i], r.before_parent[i], s.ld).to_string() };
        let feature = feature_of(0);
        let replay = || {
            serde_json::json!({"suite": "forkid", "seed": seed, "case_index": ci, "case": s.describe(),
            "requester_chain_len": bp.a_chain.len(), "peer_chain_len": bp.b_chain.len(), "fork_point": bp.fork_point,
            "schedule": r.trace.iter().map(|x| x.0).collect::<Vec<_>>(), "events": r.log,
            "requester_tip": r.a_tip.map(|t| t.0), "peer_tip_now": r.b_tip.map(|t| t.0), "panic": r.dead})
        };
        emit("H", &format!("proto:{}:{}", class, if r.converged && r.chain_diff.is_empty() { "converged" } else if r.converged { "tip-equal-but-chain-differs" } else if r.dead.is_some() { "node-panicked" } else { "not-converged" }));
        emit("H", &format!("proto:feature:{}", feature));
        if r.peer_tip_moved {
            emit("H", "proto:peer-own-tip-moved-while-serving (C05 matter: the peer fetched the requester's fork blocks out of order)");
        }
        let mut report = |key: String, what: String| {
            if reported.insert(key.clone()) {
                emit("M", &format!("{}\t{}\t{}", key, what, replay()));
            } else {
                emit("H", &format!("monitor_fail:{}", key));
            }
        };
        if let Some(d) = &r.dead {
            let site = if d.contains("total supply") { "check_total_supply" } else { "other" };
            // the peer also syncs the requester's fork blocks (handshake mode): the feature is the one of the node that died
            report(
                format!("C15/node-panicked-during-sync/{}/{}", site, feature_of(r.dead_node)),
                format!("a handler of node {} panicked: {}", if r.dead_node == 0 { "a (requester)" } else { "b (peer, fetching the requester's fork blocks)" }, d),
            );
        } else if bp.wins && !r.converged {
            report(
                format!("C15/not-converged/{}", feature),
                format!("at quiescence the requester's tip is {:?} but the peer's chain ends at {:?} and wins fork choice", r.a_tip.map(|t| t.0), bp.b_chain.last().map(|b| b.id)),
            );
        }
        if r.dead.is_none() && bp.wins && r.converged && !r.chain_diff.is_empty() {
            report(
                format!("C15/tip-equal-but-chain-differs/{}", feature),
                format!("the requester reports the peer's tip but its longest-chain index does not hold the peer's blocks at ids {:?}", r.chain_diff),
            );
        }
        if !r.missing_requests.is_empty() && r.dead.is_none() {
            report(format!("C15/needed-block-never-requested/{}", feature), format!("peer blocks above the fork point never requested: ids {:?}", r.missing_requests));
        }
        if !bp.wins && r.converged && !bp.a_chain.is_empty() {
            // by design not adopted; adopting it would be a C05 matter — counted, not reported here
            emit("H", "proto:lighter-chain-adopted");
        }
        if s.schedule.is_some() {
            break;
        }
        if s.exhaustive {
            match next_prefix(&r.trace) {
                Some(p) => prefix = p,
                None => {
                    exhausted = true;
                    break;
                }
            }
        }
        if runs >= s.max_runs {
            break;
        }
    }
    emit("H", &format!("proto:schedules:{}", if s.schedule.is_some() { "fixed-witness" } else if s.exhaustive && exhausted { "space-exhausted" } else if s.exhaustive { "space-capped" } else { "random" }));
    emit("H", &format!("proto:runs:{}", runs));
}

/// `harness forkid-explore`: search pairs/schedules for a handler panic (debugging aid, not part of ./check)
pub fn explore() {
    let rt = rt();
    let base = PairSpec { shared: 0, a_empty: false, sa: 0, sb: 2, dt_a: 400, dt_b: 300, ld: false, batch: 10, mode: Mode::Eager, fifo: true, handshake: false, exhaustive: false, max_runs: 1, collision: false, build_seed: None, schedule: None, peer_saw_requester_fork: false, reconnect: false };
    let mut best: Option<(usize, String)> = None;
    for shared in [0usize, 1, 2, 3, 5] {
        for sa in 0..5usize {
            for sb in [sa + 1, sa + 2, sa + 4, sa + 6] {
                let s = PairSpec { shared, sa, sb, ..base.clone() };
                for bseed in 1..4u64 {
                    let bp = match rt.block_on(build_pair(bseed, &s)) {
                        Some(x) => x,
                        None => continue,
                    };
                    for sseed in 0..60u64 {
                        let mut ids = Ids::default();
                        let mut rng = Rng::new(sseed);
                        let mut emit = |_: &str, _: &str| {};
                        if let Ok(r) = rt.block_on(run_schedule(&s, &bp, &mut ids, &[], Some(&mut rng), (0, 0), &mut emit)) {
                            let want = std::env::var("C15_EXPLORE").unwrap_or("panic".into());
                            let hit = match want.as_str() {
                                "panic" => r.dead.is_some(),
                                "chain-differs" => r.dead.is_none() && r.converged && !r.chain_diff.is_empty(),
                                _ => false,
                            };
                            if hit {
                                let sched: Vec<usize> = r.trace.iter().map(|x| x.0).collect();
                                let d = format!("build_seed={} {} schedule={:?} events={:?} panic={:?}", bseed, s.describe(), sched, r.log, r.dead);
                                if best.as_ref().map(|b| sched.len() < b.0).unwrap_or(true) {
                                    println!("{}", d);
                                    best = Some((sched.len(), d));
                                }
                            }
                        }
                    }
                }
            }
        }
    }
}

// ------------------------------------------------------------------------------------------------- worker / parent
pub fn worker(seed: u64, tier: &str, start: usize) {
    let rt = rt();
    let all = pair_cases(seed, tier);
    let stdout = std::io::stdout();
    for (ci, c) in all.iter().enumerate() {
        if ci < start {
            continue;
        }
        {
            let mut o = stdout.lock();
            writeln!(o, "C\t{}", ci).unwrap();
            o.flush().unwrap();
        }
        let mut emit = |tag: &str, s: &str| {
            let mut o = stdout.lock();
            writeln!(o, "{}\t{}", tag, s).unwrap();
            o.flush().unwrap();
        };
        // C15_RESUME="<runs done>;<c0,c1,…>" applies to the first case of this worker only
        let resume = if ci == start {
            std::env::var("C15_RESUME").ok().and_then(|v| {
                let (n, p) = v.split_once(';')?;
                Some((n.parse().ok()?, p.split(',').filter_map(|x| x.parse().ok()).collect::<Vec<usize>>()))
            })
        } else {
            None
        };
        rt.block_on(run_pair_case(seed, ci, c, resume, &mut emit));
    }
    let mut o = stdout.lock();
    writeln!(o, "E\t{}", all.len()).unwrap();
}

pub fn run(seed: u64, tier: &str, outdir: &str) {
    let mut out = Out::new(outdir);
    out.setup(&format!("flags {}", calibrate()));
    // corpus first
    let corpus = format!("{}/corpus/C15/witness.ops", verif_root());
    if let Ok(txt) = std::fs::read_to_string(&corpus) {
        for l in txt.lines() {
            if let Some((op, ans)) = l.split_once(" => ") {
                if ans == "-" {
                    out.setup(op);
                } else {
                    out.case(op, ans);
                }
            }
        }
    }
    rt().block_on(forkid_level(&mut out, seed, tier));
    // protocol level in a child process: a consensus handler that never returns (the Wind/Unwind loop of
    // Blockchain::validate cycling) becomes the answer `stall`; the worker is killed and the case is resumed after that schedule
    let exe = std::env::current_exe().unwrap();
    let mut start = 0usize;
    let mut resume: Option<String> = None;
    let mut stalls = 0;
    let mut stalls_in_case = 0;
    let max_stalls = if tier == "thorough" { 120 } else { 30 };
    'outer: loop {
        let mut cmd = Command::new(&exe);
        cmd.args(["forkid-worker", &seed.to_string(), tier, &start.to_string()]).stdout(Stdio::piped()).stderr(Stdio::null());
        match &resume {
            Some(r) => cmd.env("C15_RESUME", r),
            None => cmd.env_remove("C15_RESUME"),
        };
        let mut child = cmd.spawn().unwrap();
        let stdout = child.stdout.take().unwrap();
        let (tx, rx) = mpsc::channel::<String>();
        std::thread::spawn(move || {
            for l in BufReader::new(stdout).lines() {
                if let Ok(l) = l {
                    if tx.send(l).is_err() {
                        break;
                    }
                }
            }
        });
        let mut cur_case = start;
        let mut pending_op: Option<String> = None;
        let mut last_ctx: serde_json::Value = serde_json::Value::Null;
        loop {
            match rx.recv_timeout(Duration::from_millis(if pending_op.is_some() { 2500 } else { 180000 })) {
                Ok(l) => {
                    let (tag, rest) = l.split_once('\t').unwrap_or((&l, ""));
                    match tag {
                        "C" => {
                            let c = rest.parse().unwrap_or(cur_case);
                            if c != cur_case {
                                stalls_in_case = 0;
                            }
                            cur_case = c;
                        }
                        "S" => out.setup(rest),
                        "F" => last_ctx = serde_json::from_str(rest).unwrap_or(serde_json::Value::Null),
                        "O" => pending_op = Some(rest.to_string()),
                        "I" => {
                            if let Some(op) = pending_op.take() {
                                out.case(&op, rest);
                            }
                        }
                        "H" => out.count(rest),
                        "M" => {
                            let p: Vec<&str> = rest.splitn(3, '\t').collect();
                            if p.len() == 3 {
                                out.monitor_fail(p[0], p[1], serde_json::from_str(p[2]).unwrap_or(serde_json::Value::Null));
                            }
                        }
                        "E" => {
                            let _ = child.wait();
                            break 'outer;
                        }
                        _ => {}
                    }
                }
                Err(_) => {
                    let _ = child.kill();
                    let _ = child.wait();
                    resume = None;
                    start = cur_case + 1;
                    if let Some(op) = pending_op.take() {
                        out.case(&op, "stall");
                        let feature = last_ctx["feature"].as_str().unwrap_or("unknown").to_string();
                        out.count(&format!("proto:stall:{}", feature));
                        out.monitor_fail(
                            &format!("C15/consensus-handler-does-not-return/{}", feature),
                            &format!(
                                "ConsensusThread::process_event(BlockFetched) of node {} did not return within 2.5 s (Wind/Unwind loop of Blockchain::validate)",
                                last_ctx["node"].as_str().unwrap_or("?")
                            ),
                            serde_json::json!({"suite": "forkid", "seed": seed, "tier": tier, "case_index": cur_case, "case": last_ctx["case"], "run": last_ctx["run"],
                                "schedule": last_ctx["trace"].as_array().map(|t| t.iter().map(|x| x[0].clone()).collect::<Vec<_>>()), "events": last_ctx["events"], "op": op}),
                        );
                        stalls += 1;
                        stalls_in_case += 1;
                        // continue the same case after the schedule that stalled
                        let runs_done = last_ctx["run"].as_u64().unwrap_or(0) as usize + 1;
                        let all = pair_cases(seed, tier);
                        if let Some(spec) = all.get(cur_case) {
                            let more = runs_done < spec.max_runs && spec.schedule.is_none() && stalls_in_case < 6;
                            if more && spec.exhaustive {
                                let trace: Vec<(usize, usize)> = last_ctx["trace"]
                                    .as_array()
                                    .map(|t| t.iter().map(|x| (x[0].as_u64().unwrap_or(0) as usize, x[1].as_u64().unwrap_or(1) as usize)).collect())
                                    .unwrap_or_default();
                                if let Some(p) = next_prefix(&trace) {
                                    resume = Some(format!("{};{}", runs_done, p.iter().map(|x| x.to_string()).collect::<Vec<_>>().join(",")));
                                    start = cur_case;
                                }
                            } else if more {
                                resume = Some(format!("{};", runs_done));
                                start = cur_case;
                            }
                        }
                    } else {
                        out.count("proto:worker-died-outside-consensus-handler");
                    }
                    if stalls >= max_stalls {
                        out.count("proto:too-many-stalls-stopped-early");
                        break 'outer;
                    }
                    continue 'outer;
                }
            }
        }
    }
    out.finish(serde_json::json!({"stalls": stalls}));
}
