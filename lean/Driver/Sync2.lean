import Saito.Model.ForkId
import Saito.Model.SyncDelivery
import Driver.Chain
open Saito.Chain Saito.ForkId Saito.SyncDelivery
/-
  Suite `forkid` (C15).
  * `chain <name> <hex,hex,…>`            define a chain (block hashes, genesis first)                     → `-`
  * `pair <A> <la> <B> <lb>`              requester = first `la` blocks of A, peer = first `lb` blocks of B
                                          → `fid=<64 hex> anc=<n> fp=<n> nwc=<0|1>`
  * `flags …`, `reset <node> <gp> <ld>`, `save <node>`, `restore <node>`                                   → `-`
  * `deliver <node> <block fields as in suite chain>`  one ConsensusEvent::BlockFetched
                                          → `tip=<id>:<hash> queue=[…] blocks=[…]` | `panic` | `stall` (| `dead` afterwards)
-/
namespace Drv.Sync2

structure DS where
  fl : Flags := {}
  chains : List (String × List Nat) := []
  nodes : List (String × NodeSt) := []
  saved : List (String × NodeSt) := []

def hexVal (c : Char) : Nat :=
  if '0' ≤ c ∧ c ≤ '9' then c.toNat - '0'.toNat
  else if 'a' ≤ c ∧ c ≤ 'f' then c.toNat - 'a'.toNat + 10
  else if 'A' ≤ c ∧ c ≤ 'F' then c.toNat - 'A'.toNat + 10
  else 0

def hexNat (s : String) : Nat := s.foldl (fun a c => a * 16 + hexVal c) 0

def hexDigit (n : Nat) : Char := if n < 10 then Char.ofNat (48 + n) else Char.ofNat (87 + n)

def hex4 (n : Nat) : String :=
  String.ofList [hexDigit (n / 4096 % 16), hexDigit (n / 256 % 16), hexDigit (n / 16 % 16), hexDigit (n % 16)]

def lookup {α : Type} (l : List (String × α)) (k : String) : Option α := (l.find? (·.1 == k)).map (·.2)
def store {α : Type} (l : List (String × α)) (k : String) (v : α) : List (String × α) := (k, v) :: l.filter (·.1 != k)

def fidHex (fid : List (Option Nat)) : String :=
  String.join ((List.range 16).map fun i => hex4 (slotVal fid i))

def pairAns (a b : List Nat) : String :=
  let fid := forkId byteWin weightsConst a a.length
  let anc := lastSharedAncestor byteWin weightsConst b a.length fid
  let fp := forkPoint a b
  let nwc := noWindowCollision byteWin weightsConst a b
  s!"fid={fidHex fid} anc={anc} fp={fp} nwc={if nwc then 1 else 0}"

def showNode (n : NodeSt) : String :=
  if n.dead then "dead" else
  let tip := match latest n.st with
    | some (i, h) => s!"{i}:{h}"
    | none => "panic"
  let q := ",".intercalate (n.queue.map fun b => toString b.hash)
  let blocks := Drv.Chain.showList (sortNat (n.st.blocks.map (·.b.hash)))
  s!"tip={tip} queue=[{q}] blocks=[{blocks}]"

def parseBlock (f : List String) : Option ABlock :=
  match f with
  | h :: p :: i :: bf :: gt :: ok :: hs :: ins :: outs :: _ =>
    match h.toNat?, p.toNat?, i.toNat?, bf.toNat?, hs.toNat? with
    | some h, some p, some i, some bf, some hs =>
      let (ik, ia) := Drv.Chain.kaList ins
      let (ok_, oa) := Drv.Chain.kaList outs
      some { hash := h, prev := p, id := i, burnfee := bf, hasGT := Drv.Chain.bit gt, ok := Drv.Chain.okBit ok, okNoParent := Drv.Chain.okNPBit ok,
             ins := ik, outs := ok_, inAmts := ia, outAmts := oa, hs := hs }
    | _, _, _, _, _ => none
  | _ => none

def step (d : DS) (line : String) : DS × String :=
  match line.trimAscii.toString.splitOn " " with
  | "flags" :: kvs => ({ d with fl := kvs.foldl Drv.Chain.setFlag d.fl }, "-")
  | ["chain", name, hs] =>
    let l := if hs == "-" then [] else (hs.splitOn ",").map hexNat
    ({ d with chains := store d.chains name l }, "-")
  | ["pair", an, la, bn, lb] =>
    match lookup d.chains an, lookup d.chains bn, la.toNat?, lb.toNat? with
    | some a, some b, some la, some lb => (d, pairAns (a.take la) (b.take lb))
    | _, _, _, _ => (d, "bad-op")
  -- `side`: the real peer also holds the requester's fork as an older side chain; the estimate is a function of its longest chain
  | ["pair", an, la, bn, lb, "side"] =>
    match lookup d.chains an, lookup d.chains bn, la.toNat?, lb.toNat? with
    | some a, some b, some la, some lb => (d, pairAns (a.take la) (b.take lb))
    | _, _, _, _ => (d, "bad-op")
  | ["reset", name, gp, ld] =>
    match gp.toNat? with
    | some g => ({ d with nodes := store d.nodes name { st := { gp := g, loadingDone := Drv.Chain.bit ld } } }, "-")
    | none => (d, "bad-op")
  | ["save", name] =>
    match lookup d.nodes name with
    | some n => ({ d with saved := store d.saved name n }, "-")
    | none => (d, "bad-op")
  | ["restore", name] =>
    match lookup d.saved name with
    | some n => ({ d with nodes := store d.nodes name n }, "-")
    | none => (d, "bad-op")
  | "deliver" :: name :: rest =>
    match lookup d.nodes name, parseBlock rest with
    | some n, some b =>
      let n' := deliver d.fl n b
      let ans := if n'.dead && !n.dead then
          (match deliverWhy d.fl n b with
           | some .stall => "stall"
           | _ => "panic")
        else showNode n'
      ({ d with nodes := store d.nodes name n' }, ans)
    | _, _ => (d, "bad-op")
  | _ => (d, "bad-op")

partial def loop (h out : IO.FS.Stream) (d : DS) : IO Unit := do
  let line ← h.getLine
  if line.isEmpty then return ()
  let (d', o) := step d line
  out.putStrLn o
  loop h out d'

def run : IO Unit := do loop (← IO.getStdin) (← IO.getStdout) {}
end Drv.Sync2
