import Saito.Model.Chain
open Saito.Chain
namespace Drv.Chain

structure DS where
  fl : Flags := {}
  st : State := { gp := 100 }

def bit (s : String) : Bool := s == "1"

def setFlag (fl : Flags) (kv : String) : Flags :=
  match kv.splitOn "=" with
  | ["ringdel", v] => { fl with ringDeleteKeepsNone := bit v }
  | ["restore", v] => { fl with windFailureRestores := bit v }
  | ["txv", v] => { fl with txVerdict := bit v }
  | ["orphan", v] => { fl with orphanInert := bit v }
  | ["gtall", v] => { fl with gtEveryBlock := bit v }
  | _ => fl

/-- the validity oracle field `<ok>[<okNoParent>]` of an `add` line -/
def okBit (s : String) : Bool := (s.take 1).toString == "1"
def okNPBit (s : String) : Bool := (s.drop 1).toString != "0"

def natList (s : String) : List Nat :=
  if s == "-" then [] else (s.splitOn ",").filterMap String.toNat?

/-- `k:a,k:a,…` → (keys, amounts) -/
def kaList (s : String) : List Nat × List Nat :=
  if s == "-" then ([], []) else
  let ps := (s.splitOn ",").filterMap fun x =>
    match x.splitOn ":" with
    | [k, a] => match k.toNat?, a.toNat? with
      | some k, some a => some (k, a)
      | _, _ => none
    | _ => none
  (ps.map (·.1), ps.map (·.2))

def showList (l : List Nat) : String := ",".intercalate (l.map toString)

def dump (st : State) (o : Outcome) : String :=
  let tip := match latest st with
    | some (i, h) => s!"{i}:{h}"
    | none => "panic"
  let lc := ",".intercalate ((lcDump st).map fun p => s!"{p.1}:{p.2}")
  let inlc := showList (sortNat ((st.blocks.filter (·.inLC)).map (·.b.hash)))
  let blocks := showList (sortNat (st.blocks.map (·.b.hash)))
  let ring := ",".intercalate ((ringDump st).map fun p => s!"{p.1}:{p.2}")
  s!"res={o.str} tip={tip} lc=[{lc}] utxo=[{showList (sortNat st.utxo)}] inlc=[{inlc}] blocks=[{blocks}] ring=[{ring}]"

/-- ids the ring dump of the `ring` commands looks at: everything up to the largest id stored, plus one ring length -/
def ringSpan (st : State) : Nat :=
  (st.ring.foldl (fun a p => p.2.ents.foldl (fun a e => maxOf a e.2) a) 0) + 2 * st.gp + 2

def step (d : DS) (line : String) : DS × String :=
  match line.trimAscii.toString.splitOn " " with
  | "flags" :: kvs => ({ d with fl := kvs.foldl setFlag d.fl }, "-")
  | ["reset", gp, ld] =>
    match gp.toNat? with
    | some g => ({ d with st := { gp := g, loadingDone := bit ld } }, "-")
    | none => (d, "bad-op")
  | "add" :: h :: p :: i :: bf :: gt :: okBoth :: hs :: ins :: outs :: queued =>
    -- okBoth = "<ok><okNoParent>" e.g. "11", "10"
    match h.toNat?, p.toNat?, i.toNat?, bf.toNat?, hs.toNat? with
    | some h, some p, some i, some bf, some hs =>
      let (ik, ia) := kaList ins
      let (ok_, oa) := kaList outs
      let b : ABlock := { hash := h, prev := p, id := i, burnfee := bf, hasGT := bit gt, ok := okBit okBoth, okNoParent := okNPBit okBoth,
                          ins := ik, outs := ok_, inAmts := ia, outAmts := oa, hs := hs }
      let (st', o) := addBlock d.fl d.st b (queued.filterMap String.toNat?)
      -- a stalled or panicked call leaves no usable state: keep the pre-state (the harness starts a new case)
      match o with
      | .stall => (d, "res=stall")
      | .panic => (d, "res=panic")
      | _ => ({ d with st := st' }, dump st' o)
    | _, _, _, _, _ => (d, "bad-op")
  -- by-height index on its own (BlockRing / RingItem): `ring add|on|off|del <id> <hash>`, answered with the index dump
  | ["ring", cmd, i, h] =>
    match i.toNat?, h.toNat? with
    | some i, some h =>
      let st := d.st
      let slot := slotOf st i
      let st' : Option State := match cmd with
        | "add" => some { st with ring := setItem st.ring slot ((getItem st.ring slot).add i h), ringEmpty := false }
        | "on" => some (ringReorg st i h true)
        | "off" => some (ringReorg st i h false)
        | "del" => some { st with ring := setItem st.ring slot ((getItem st.ring slot).delete d.fl i h) }
        | _ => none
      match st' with
      | some st' =>
        let tip := match latest st' with
          | some (a, b) => s!"{a}:{b}"
          | none => "panic"
        let lc := ",".intercalate ((List.range (ringSpan st')).filterMap fun k => (lcHashAt st' k).map fun x => s!"{k}:{x}")
        ({ d with st := st' }, s!"tip={tip} lc=[{lc}]")
      | none => (d, "bad-op")
    | _, _ => (d, "bad-op")
  | _ => (d, "bad-op")

partial def loop (h out : IO.FS.Stream) (d : DS) : IO Unit := do
  let line ← h.getLine
  if line.isEmpty then return ()
  let (d', o) := step d line
  out.putStrLn o
  loop h out d'

def run : IO Unit := do loop (← IO.getStdin) (← IO.getStdout) {}
end Drv.Chain
