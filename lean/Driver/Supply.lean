import Saito.Model.Supply
open Saito.Supply
/-
  `driver supply` — line protocol of the C02 model.
    flags sums=0|1 ovf=wrap|panic mz=0|1 atrcap=0|1
    tx <ins> <outs>                                       per-transaction arithmetic (amount lists, `-` = empty)
    genesis <gp> <hash> <k:a,…>                           ledger after the genesis block
    blk <hash> <parent> gt= mz= r1z= r2z= cap= txs= atrfee= atrout= feekeys=
                                                          account + wind one block on the ledger of <parent>
    tip <hash>                                            supply of the ledger whose tip is <hash>
-/
namespace Drv.Supply

structure DS where
  fl : Flags := {}
  prof : Profile := .release
  sts : List (Nat × St) := []

def natList (s : String) : List Nat :=
  if s == "-" then [] else (s.splitOn ",").filterMap String.toNat?

def pairs (s : String) : List (Nat × Nat) :=
  if s == "-" then [] else (s.splitOn ",").filterMap fun x =>
    match x.splitOn ":" with
    | [k, a] => match k.toNat?, a.toNat? with
      | some k, some a => some (k, a)
      | _, _ => none
    | _ => none

/-- `k:a:bid,…` -/
def utxs (s : String) (dfltBid : Nat) : List Utx :=
  if s == "-" then [] else (s.splitOn ",").filterMap fun x =>
    match (x.splitOn ":").map String.toNat? with
    | [some k, some a, some b] => some ⟨k, a, b⟩
    | [some k, some a] => some ⟨k, a, dfltBid⟩
    | _ => none

def kv (args : List String) (key : String) : String :=
  match args.find? (fun a => a.startsWith (key ++ "=")) with
  | some a => (a.drop (key.length + 1)).toString
  | none => "-"

def bit (s : String) : Bool := s == "1"
def showL (l : List Nat) : String := "[" ++ ",".intercalate (l.map toString) ++ "]"

def findSt (d : DS) (h : Nat) : Option St := (d.sts.find? (·.1 == h)).map (·.2)

def tipLine (st : St) : String :=
  let w := st.utxo.filter (inWin st.gp st.tip.id)
  s!"inwin={sumAmt w}/{w.length} supply={supply st}"

def setFlag (d : DS) (kvs : String) : DS :=
  match kvs.splitOn "=" with
  | ["sums", v] => { d with fl := { d.fl with sumsChecked := bit v } }
  | ["mz", v] => { d with fl := { d.fl with minerZeroKeyBurns := bit v } }
  | ["atrcap", v] => { d with fl := { d.fl with atrCapSound := bit v } }
  | ["ovf", v] => { d with prof := if v == "panic" then .dev else .release }
  | _ => d

def parseTxs (s : String) (id : Nat) : List TxIO :=
  if s == "-" then [] else (s.splitOn ";").filterMap fun t =>
    match t.splitOn "/" with
    | [i, o] => some { ins := utxs i 0, outs := utxs o id }
    | _ => none

def step (d : DS) (line : String) : DS × String :=
  match line.trimAscii.toString.splitOn " " with
  | "flags" :: kvs => (kvs.foldl setFlag d, "-")
  | ["tx", i, o] => (d, (txEval d.fl d.prof (natList i) (natList o)).str)
  | ["genesis", gp, h, outs] =>
    match gp.toNat?, h.toNat? with
    | some gp, some h =>
      let st := genesis gp (utxs outs 1)
      ({ d with sts := (h, st) :: d.sts }, tipLine st)
    | _, _ => (d, "bad-op")
  | "blk" :: h :: p :: args =>
    match h.toNat?, p.toNat? with
    | some h, some p =>
      match findSt d p with
      | none => (d, "no-parent")
      | some st =>
        let id := st.tip.id + 1
        let b : BlockIn := { hasGT := bit (kv args "gt"), txs := parseTxs (kv args "txs") id,
                             minerZero := bit (kv args "mz"), r1Zero := bit (kv args "r1z"), r2Zero := bit (kv args "r2z"),
                             atrFee := pairs (kv args "atrfee"), atrOutKey := pairs (kv args "atrout"),
                             feeKeys := natList (kv args "feekeys") }
        let capv := (kv args "cap").toNat?.getD 0
        let a := account d.fl (fun _ => capv) st b
        let st' := applyBlock d.fl (fun _ => capv) st b
        let hd := a.hdr
        let ans := s!"id={hd.id} gt={if hd.hasGT then 1 else 0} feesnew={a.feesNew} feesatr={a.atr.feesAtr} fees={hd.fees} " ++
          s!"unpaid={hd.unpaid} mining={a.pay.miner} routing={a.pay.router1 + a.pay.router2} ptreas={a.pay.treasury} " ++
          s!"pgrave={a.pay.graveyard} patr={a.atr.payoutAtr} treasury={hd.treasury} graveyard={hd.graveyard} " ++
          s!"avgfees={hd.avgFees} avgnr={hd.avgNR} feeouts={showL (a.feeOuts.map (·.amt))} " ++
          s!"atrouts={showL (a.atr.outs.map (·.amt))}"
        ({ d with sts := (h, st') :: d.sts.filter (·.1 != h) }, ans)
    | _, _ => (d, "bad-op")
  | ["tip", h] =>
    match h.toNat? with
    | some h => match findSt d h with
      | some st => (d, tipLine st)
      | none => (d, "no-state")
    | none => (d, "bad-op")
  | ["reset"] => ({ d with sts := [] }, "-")
  | _ => (d, "bad-op")

partial def loop (h out : IO.FS.Stream) (d : DS) : IO Unit := do
  let line ← h.getLine
  if line.isEmpty then return ()
  let (d', o) := step d line
  out.putStrLn o
  loop h out d'

def run : IO Unit := do loop (← IO.getStdin) (← IO.getStdout) {}
end Drv.Supply
