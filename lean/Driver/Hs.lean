import Saito.Model.Handshake
open Saito.Hs
/-
  `driver hs` — line protocol of the handshake model (C17). Requests:
    reset [H]                                  fresh world with H honest nodes (default 2)          → "-"
    push | pop                                 save / restore the world (search back-tracking)       → "-"
    asign <key> <nonce>                        attacker signs a known nonce with its own key         → "ok" | "rejected"
    addstatic <node> <conn>
    connect <node> <conn>
    disconnect <node> <conn>
    deliver <node> <conn> challenge <nonce>
    deliver <node> <conn> response <key> <signer|-> <signedNonce|-> <challengeNonce> <unset|ok|bad> <hint>
        hint = conn index of the old peer the implementation removed in remove_reconnected_peer, or "-"
        (resolves the HashMap iteration order; the model refuses a hint that is not one of its candidates: "bad-hint")
    try <any of the above>                     answer as usual but keep the previous world
  Answer of a step: `<ok|panic|rejected> [actions] | n0=[conn:status:challenge:key:s/d,…] a0=[key>conn,…] n1=… next=<counter>`
-/
namespace Drv.Hs

structure DState where
  H : Nat := 2
  /-- measured on the tree under test: the key-mismatch branch refuses instead of asserting -/
  fx : Bool := false
  st : State := init
  stack : List State := []

def statusStr : Status → String
  | .disconnected => "D"
  | .connecting => "G"
  | .connected => "C"

def optStr : Option Nat → String
  | none => "-"
  | some n => toString n

def verStr : Ver → String
  | .unset => "unset"
  | .ok => "ok"
  | .bad => "bad"

def msgStr : Msg → String
  | .challenge n => s!"ch {n}"
  | .response r =>
    let sg := match r.sig with
      | none => "- -"
      | some (k, n) => s!"{k} {n}"
    s!"rs {r.key} {sg} {r.challenge} {verStr r.ver}"

def actStr : Action → String
  | .send c m => s!"send {c} {msgStr m}"
  | .disconnect c => s!"disc {c}"
  | .blockchainReq c => s!"bcreq {c}"

def insertBy {α} (key : α → Nat) (x : α) : List α → List α
  | [] => [x]
  | y :: ys => if key x ≤ key y then x :: y :: ys else y :: insertBy key x ys

def sortBy {α} (key : α → Nat) (l : List α) : List α := l.foldl (fun acc x => insertBy key x acc) []

def peerStr (e : (Nat × Nat) × Peer) : String :=
  s!"{e.1.2}:{statusStr e.2.status}:{optStr e.2.challenge}:{optStr e.2.key}:{if e.2.isStatic then "s" else "d"}"

def nodeDump (st : State) (i : Nat) : String :=
  let ps := sortBy (fun e : (Nat × Nat) × Peer => e.1.2) (st.peers.filter fun e => e.1.1 == i)
  let as := sortBy (fun e : (Nat × Nat) × Nat => e.1.2) (st.addr.filter fun e => e.1.1 == i)
  s!"n{i}=[{",".intercalate (ps.map peerStr)}] a{i}=[{",".intercalate (as.map fun e => s!"{e.1.2}>{e.2}")}]"

def dump (H : Nat) (st : State) : String :=
  " ".intercalate ((List.range H).map (nodeDump st)) ++ s!" next={st.next}"

def outStr : Out → String
  | .ok acts => s!"ok [{";".intercalate (acts.map actStr)}]"
  | .panic => "panic"
  | .rejected => "rejected"

def answer (H : Nat) (r : State × Out) : String := s!"{outStr r.2} | {dump H r.1}"

def parseVer : String → Option Ver
  | "unset" => some .unset
  | "ok" => some .ok
  | "bad" => some .bad
  | _ => none

def parseSig (a b : String) : Option (Option (Nat × Nat)) :=
  if a == "-" then some none
  else match a.toNat?, b.toNat? with
    | some k, some n => some (some (k, n))
    | _, _ => none

def peerIds (st : State) (node : Nat) : List Nat :=
  (st.peers.filter fun e => e.1.1 == node).map fun e => e.1.2

/-- deliver a response, resolving the iteration-order choice by the implementation's observation -/
def deliverResp (d : DState) (node conn : Nat) (r : Response) (hint : Option Nat) : Option (State × Out) :=
  let before := peerIds d.st node
  match hint with
  | none =>
    let res := step d.fx d.H d.st (.deliverResponse node conn r 0)
    if before.all fun j => (peerIds res.1 node).contains j then some res else none
  | some j =>
    if !before.contains j then none
    else
      (List.range (d.st.peers.length + 1)).findSome? fun pick =>
        let res := step d.fx d.H d.st (.deliverResponse node conn r pick)
        if (peerIds res.1 node).contains j then none else some res

inductive Exec
  | badOp
  | badHint
  | done (r : State × Out)

def parse2 (a b : String) : Option (Nat × Nat) := do some (← a.toNat?, ← b.toNat?)

def exec (d : DState) (toks : List String) : Exec :=
  let simple (o : Option Op) : Exec := match o with
    | some op => .done (step d.fx d.H d.st op)
    | none => .badOp
  match toks with
  | ["asign", k, n] => simple ((parse2 k n).map fun p => .attackerSign p.1 p.2)
  | ["addstatic", a, b] => simple ((parse2 a b).map fun p => .addStatic p.1 p.2)
  | ["connect", a, b] => simple ((parse2 a b).map fun p => .connect p.1 p.2)
  | ["disconnect", a, b] => simple ((parse2 a b).map fun p => .disconnect p.1 p.2)
  | ["deliver", a, b, "challenge", n] =>
    simple (do let p ← parse2 a b; some (.deliverChallenge p.1 p.2 (← n.toNat?)))
  | ["deliver", a, b, "response", k, s1, s2, c, v, hint] =>
    let parsed : Option (Nat × Nat × Response × Option Nat) := do
      let p ← parse2 a b
      let sg ← parseSig s1 s2
      let r : Response := { key := ← k.toNat?, sig := sg, challenge := ← c.toNat?, ver := ← parseVer v }
      let h ← if hint == "-" then some none else hint.toNat?.map some
      some (p.1, p.2, r, h)
    match parsed with
    | none => .badOp
    | some (node, conn, r, h) =>
      match deliverResp d node conn r h with
      | some res => .done res
      | none => .badHint
  | _ => .badOp

def step' (d : DState) (line : String) : DState × String :=
  match line.trimAscii.toString.splitOn " " with
  | ["reset"] => ({ H := 2, fx := d.fx }, "-")
  | ["reset", h] => ({ H := h.toNat?.getD 2, fx := d.fx }, "-")
  | ["flags", kv] => ({ d with fx := kv == "keymismatch=1" }, "-")
  | ["push"] => ({ d with stack := d.st :: d.stack }, "-")
  | ["pop"] =>
    match d.stack with
    | s :: rest => ({ d with st := s, stack := rest }, "-")
    | [] => (d, "-")
  | "try" :: toks =>
    match exec d toks with
    | .done r => (d, answer d.H r)
    | .badHint => (d, "bad-hint")
    | .badOp => (d, "bad-op")
  | toks =>
    match exec d toks with
    | .done r => ({ d with st := r.1 }, answer d.H r)
    | .badHint => (d, "bad-hint")
    | .badOp => (d, "bad-op")

partial def loop (h : IO.FS.Stream) (out : IO.FS.Stream) (d : DState) : IO Unit := do
  let line ← h.getLine
  if line.isEmpty then return ()
  let (d', o) := step' d line
  out.putStrLn o
  loop h out d'

def run : IO Unit := do
  let out ← IO.getStdout
  loop (← IO.getStdin) out {}
end Drv.Hs
