import Saito.Model.Wallet
open Saito.Wallet
namespace Drv.Wallet

structure DS where
  fl : Flags := {}
  w : W := {}

def bit (s : String) : Bool := s == "1"

def setFlag (fl : Flags) (kv : String) : Flags :=
  match kv.splitOn "=" with
  | ["unwind", v] => { fl with unwindKeepsCoords := bit v }
  | ["usable", v] => { fl with createChecksUsable := bit v }
  | _ => fl

def natList (s : String) : List Nat :=
  if s == "-" then [] else (s.splitOn ",").filterMap String.toNat?

def parseSlip (s : String) : Option UKey :=
  match (s.splitOn ".").map String.toNat? with
  | [some o, some b, some t, some i, some a, some ty] => some ⟨o, b, t, i, a, ty⟩
  | _ => none

def slipList (s : String) : List UKey :=
  if s == "-" then [] else (s.splitOn ",").filterMap parseSlip

def parseTx (s : String) : Option Tx :=
  match s.splitOn "/" with
  | [i, f, t] => i.toNat?.map fun i => { id := i, frm := slipList f, to := slipList t }
  | _ => none

def txList (s : String) : List Tx :=
  if s == "-" then [] else (s.splitOn ";").filterMap parseTx

def keyLt (a b : UKey) : Bool :=
  let x := [a.owner, a.bid, a.tord, a.idx, a.amount, a.typ]
  let y := [b.owner, b.bid, b.tord, b.idx, b.amount, b.typ]
  let rec go : List Nat → List Nat → Bool
    | p :: ps, q :: qs => if p < q then true else if q < p then false else go ps qs
    | _, _ => false
  go x y

def insertBy {α : Type} (lt : α → α → Bool) (x : α) : List α → List α
  | [] => [x]
  | y :: ys => if lt x y then x :: y :: ys else y :: insertBy lt x ys

def sortBy {α : Type} (lt : α → α → Bool) (l : List α) : List α := l.foldr (insertBy lt) []

def showKey (k : UKey) : String := s!"{k.owner}.{k.bid}.{k.tord}.{k.idx}.{k.amount}.{k.typ}"
def b01 (b : Bool) : String := if b then "1" else "0"

def showKeys (l : List UKey) : String := ";".intercalate ((sortBy keyLt l).map showKey)
def showKeysOrdered (l : List UKey) : String := ";".intercalate (l.map showKey)

def dump (w : W) : String :=
  let sl := (sortBy (fun a b => keyLt a.key b.key) w.slips).map fun ws =>
    s!"{showKey ws.key}:{ws.amount}:{ws.blockId}:{ws.txOrd}:{ws.slipIndex}:{b01 ws.lc}:{b01 ws.spent}:{ws.typ}"
  let nf := w.nfts.map fun n => s!"{showKey n.s2}|{showKey n.s1}|{showKey n.s3}"
  let pd := (sortBy (fun (a b : Nat) => decide (a < b)) w.pending).map toString
  s!"bal={w.balance} slips=[{";".intercalate sl}] unspent=[{showKeys w.unspent}] staking=[{showKeys w.staking}] nfts=[{";".intercalate nf}] pend=[{",".intercalate pd}]"

def answer (d : DS) (r : Option W) (pre : W → String) : DS × String :=
  match r with
  | some w' => ({ d with w := w' }, pre w' ++ dump w')
  | none => (d, "panic")

def step (d : DS) (line : String) : DS × String :=
  match line.trimAscii.toString.splitOn " " with
  | "flags" :: kvs => ({ d with fl := kvs.foldl setFlag d.fl }, "-")
  | ["reset"] => ({ d with w := {} }, "-")
  | ["obs"] => (d, dump d.w)
  | [cmd, bid, gp, txs] =>
    if cmd == "wind" || cmd == "unwind" then
      match bid.toNat?, gp.toNat? with
      | some b, some g =>
        answer d (onChainReorg d.fl d.w { id := b, txs := txList txs } (cmd == "wind") g) fun w => s!"ret={b01 w.chg} "
      | _, _ => (d, "bad-op")
    else if cmd == "addslip" then
      match bid.toNat?, gp.toNat?, parseSlip txs with
      | some b, some t, some s => answer d (addSlip d.w b t s true) fun _ => ""
      | _, _, _ => (d, "bad-op")
    else (d, "bad-op")
  | ["delblock", bid, txs] =>
    match bid.toNat? with
    | some b => answer d (deleteBlock d.w { id := b, txs := txList txs }) fun w => s!"ret={b01 w.chg} "
    | none => (d, "bad-op")
  | ["expire", bid] =>
    match bid.toNat? with
    | some b => answer d (removeOldSlips d.w b) fun _ => ""
    | none => (d, "bad-op")
  | ["delslip", s] =>
    match parseSlip s with
    | some s => answer d (deleteSlip d.w s) fun _ => ""
    | none => (d, "bad-op")
  | ["pend", i] =>
    match i.toNat? with
    | some i => answer d (some (addPending d.w i)) fun _ => ""
    | none => (d, "bad-op")
  | ["gen", req, latest, gp, order] =>
    match req.toNat?, latest.toNat?, gp.toNat? with
    | some r, some l, some g =>
      match generateSlips d.w r l g (slipList order) with
      | some (w', ins, outs) =>
        ({ d with w := w' }, s!"in=[{showKeysOrdered ins}] out=[{showKeysOrdered outs}] " ++ dump w')
      | none => (d, "panic")
    | _, _, _ => (d, "bad-op")
  | ["create", latest, gp, fee, order, keys, amounts] =>
    match latest.toNat?, gp.toNat?, fee.toNat? with
    | some l, some g, some f =>
      match createTx d.fl d.w (natList keys) (natList amounts) f l g (slipList order) with
      | .tx w' ins outs =>
        ({ d with w := w' }, s!"tx in=[{showKeysOrdered ins}] out=[{showKeysOrdered outs}] " ++ dump w')
      | .err .invalidInput => (d, "err=invalid_input " ++ dump d.w)
      | .err .notFound => (d, "err=not_found " ++ dump d.w)
      | .panic => (d, "panic")
    | _, _, _ => (d, "bad-op")
  | _ => (d, "bad-op")

partial def loop (h out : IO.FS.Stream) (d : DS) : IO Unit := do
  let line ← h.getLine
  if line.isEmpty then return ()
  let (d', o) := step d line
  out.putStrLn o
  loop h out d'

def run : IO Unit := do loop (← IO.getStdin) (← IO.getStdout) {}
end Drv.Wallet
