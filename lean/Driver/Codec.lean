import Saito.Model.Codec2
open Saito
namespace Drv.Codec

structure DState where
  cf : CodecFlags := {}

def parseBit (s : String) : Bool := s == "1"

def setFlag (st : DState) (kv : String) : DState :=
  match kv.splitOn "=" with
  | ["tx", v] => { st with cf := { st.cf with txBounds := parseBit v } }
  | ["ghost", v] => { st with cf := { st.cf with ghostBounds := parseBit v } }
  | ["gt", v] => { st with cf := { st.cf with gtTotal := parseBit v } }
  | ["wallet", v] => { st with cf := { st.cf with walletTotal := parseBit v } }
  | ["msgghost", v] => { st with cf := { st.cf with msgGhostChecked := parseBit v } }
  | _ => st

def slipDump (s : Slip) : String :=
  s!"{s.amount}:{s.blockId}:{s.txOrdinal}:{s.index}:{s.typ}:{toHex s.pk}"

def txDump (t : Tx) : String :=
  s!"ts={t.ts} repl={t.repl} typ={t.typ} in=[{",".intercalate (t.from_.map slipDump)}] out=[{",".intercalate (t.to.map slipDump)}] dlen={t.data.length} hops={t.path.length} size={t.size}"

def blockDump (b : Block) : String :=
  s!"id={b.id} ts={b.ts} nums={b.nums} ntx={b.txs.length} hdr={b.isHeader} creator={toHex b.creator}"

def resStr {α} (r : Res α) (f : α → String) : String :=
  match r with
  | .ok v => "ok " ++ f v
  | .err => "err"
  | .panic => "panic"

def decCmd (st : DState) (fmt : String) (bs : Bytes) : String :=
  match fmt with
  | "slip" => resStr (Slip.decode bs) fun s => toHex s.encode ++ " " ++ slipDump s
  | "hop" => resStr (Hop.decode bs) fun h => toHex h.encode
  | "tx" => resStr (Tx.decode st.cf bs) fun t => toHex t.encode ++ " " ++ txDump t
  | "block" => resStr (Block.decode st.cf bs) fun b => toHex (b.encode b.isHeader) ++ " " ++ blockDump b
  | "blockhdr" => resStr (Block.decode st.cf bs) fun b => toHex (b.encode true)
  | "gt" => resStr (GoldenTicket.decode st.cf bs) fun g => toHex g.encode
  | "wallet" => resStr (WalletFile.decode st.cf bs) fun w => toHex w.encode
  | "msg" => resStr (Msg.decode st.cf bs) fun m => s!"{m.tag} " ++ toHex m.encode
  | "ghost" => resStr (Ghost.decode st.cf bs) fun g => toHex g.encode
  | "services" => resStr (decServices bs) fun l => toHex (encServices l) ++ s!" n={l.length}"
  | "hsresp" => resStr (HsResponse.decode bs) fun r => toHex r.encode
  | _ => "bad-op"

def step (st : DState) (line : String) : DState × String :=
  match line.trimAscii.toString.splitOn " " with
  | "flags" :: kvs => (kvs.foldl setFlag st, "-")
  | ["dec", fmt, h] =>
    match ofHex h with
    | some bs => (st, decCmd st fmt bs)
    | none => (st, "bad-hex")
  | _ => (st, "bad-op")

partial def loop (h : IO.FS.Stream) (out : IO.FS.Stream) (st : DState) : IO Unit := do
  let line ← h.getLine
  if line.isEmpty then return ()
  let (st', o) := step st line
  out.putStrLn o
  loop h out st'

def run : IO Unit := do
  let out ← IO.getStdout
  loop (← IO.getStdin) out {}
end Drv.Codec
