import Saito.Model.TxValidate
open Saito.TxV
namespace Drv.Txv

def bit (s : String) : Bool := s == "1"

def setFlag (fl : Flags) (kv : String) : Flags :=
  match kv.splitOn "=" with
  | ["txv", v] => { fl with txVerdictPropagated := bit v }
  | ["dup", v] => { fl with dupInputsDetected := bit v }
  | ["own", v] => { fl with allInputsOwnedBySigner := bit v }
  | ["stake", v] => { fl with stakeTypeSigned := bit v }
  | ["spv", v] => { fl with spvTypeCannotCreateOutputs := bit v }
  | ["fee", v] => { fl with singleFeeTx := bit v }
  | ["pool", v] => { fl with poolRejectsPrivilegedTypes := bit v }
  | ["vdrop", v] => { fl with verifyDropsPrivilegedTypes := bit v }
  | ["merkle", v] => { fl with merkleAlwaysCompared := bit v }
  | ["loc", v] => { fl with inputLocationSigned := bit v }
  | ["win", v] => { fl with windowChecked := bit v }
  | ["nospv", v] => { fl with fullBlockNoSpv := bit v }
  | _ => fl

/-- value of `key=` among the tokens -/
def field (toks : List String) (key : String) : String :=
  match toks.find? (fun t => t.startsWith (key ++ "=")) with
  | some t => (t.drop (key.length + 1)).toString
  | none => ""

def natList (s : String) : List Nat :=
  if s == "-" || s == "" then [] else (s.splitOn ",").filterMap String.toNat?

def parseInputs (s : String) : List Input :=
  if s == "-" || s == "" then [] else
  (s.splitOn ",").filterMap fun x =>
    match x.splitOn ":" with
    | [k, o, a, t, l, od] =>
      match k.toNat?, o.toNat?, a.toNat?, t.toNat? with
      | some k, some o, some a, some t => some { key := k, owner := o, amount := a, styp := t, locked := bit l, old := bit od }
      | _, _, _, _ => none
    | _ => none

def parseOutputs (s : String) : List Output :=
  if s == "-" || s == "" then [] else
  (s.splitOn ",").filterMap fun x =>
    match x.splitOn ":" with
    | [o, a, t] =>
      match o.toNat?, a.toNat?, t.toNat? with
      | some o, some a, some t => some { owner := o, amount := a, styp := t }
      | _, _, _ => none
    | _ => none

def parseTx (s : String) : Tx :=
  let fs := s.splitOn ";"
  { typ := TxType.ofCode ((field fs "t").toNat?.getD 0)
    sigOk := bit (field fs "s")
    signer := (field fs "g").toNat?.getD 99
    pathOk := bit (field fs "r")
    feeExp := bit (field fs "f")
    content := (field fs "c").toNat?.getD 0
    inputs := parseInputs (field fs "i")
    outputs := parseOutputs (field fs "o") }

/-- the transactions of a line: every token that follows a `T` token -/
def parseTxs : List String → List Tx
  | "T" :: d :: rest => parseTx d :: parseTxs rest
  | _ :: rest => parseTxs rest
  | [] => []

def b2s (b : Bool) : String := if b then "1" else "0"

def poolStr : PoolRes → String
  | .accepted => "acc" | .rejected => "rej" | .panic => "panic"

def answerTx (fl : Flags) (toks : List String) : String :=
  let cx : Ctx := { vau := true, ssr := (field toks "ssr").toNat?.getD 0 }
  let u := natList (field toks "u")
  match parseTxs toks with
  | [tx] =>
    let v1 := txValidate fl cx u tx
    let v0 := txValidate fl { cx with vau := false } u tx
    s!"v1={b2s v1} v0={b2s v0} pool={poolStr (poolAccepts fl cx u tx)} vt={if verifyTxForwards fl cx u tx then "fwd" else "drop"}"
  | _ => "bad-op"

def answerBlk (fl : Flags) (toks : List String) : String :=
  let cx : Ctx := { vau := bit (field toks "vau"), ssr := (field toks "ssr").toNat?.getD 0 }
  let bc : BCtx := { id := (field toks "id").toNat?.getD 0, cx := cx, hsig := bit (field toks "hsig"), hdr := bit (field toks "hdr"),
                     rootMatches := field toks "mr" == "ok", dhs := (field toks "dhs").toInt?.getD 0,
                     atrOk := bit (field toks "atr"), xr := (field toks "xr").toNat?.getD 0 }
  let u := natList (field toks "u")
  let txs := parseTxs toks
  match addBlock fl bc u txs with
  | .genErr => "gen=err val=- add=invalid"
  | .invalid => "gen=ok val=0 add=invalid"
  | .accepted => "gen=ok val=1 add=added_lc"
  | .supplyPanic => "gen=ok val=1 add=panic-supply"

/-- `id:prev:sb` — `sb` identifies the signed bytes (which contain id, prev, creator, root, …) -/
def parseHdr (s : String) : Option (Nat × Nat × Nat) :=
  match (s.splitOn ":").map String.toNat? with
  | [some i, some p, some sb] => some (i, p, sb)
  | _ => none

/-- free hash terms for the driver: a digest is the pair it was computed from -/
def answerWire (toks : List String) : String :=
  match parseHdr (field toks "oh"), parseHdr (field toks "eh") with
  | some (oi, op, osb), some (ei, ep, esb) =>
    if field toks "gen" != "ok" then "same=0 fwd=panic" else
    -- hash = H2(prev, H1(signed bytes)); with injective combiners equality of hashes is equality of the arguments
    let same := termHashEq op osb ep esb
    let fwd := wireForwardsT oi op osb ei ep esb
    s!"same={b2s same} fwd={if fwd then "fwd" else "drop"}"
  | _, _ => "bad-op"

def step (fl : Flags) (line : String) : Flags × String :=
  let toks := line.trimAscii.toString.splitOn " "
  match toks with
  | "flags" :: kvs => (kvs.foldl setFlag fl, "-")
  | "tx" :: rest => (fl, answerTx fl rest)
  | "blk" :: rest => (fl, answerBlk fl rest)
  | "wire" :: rest => (fl, answerWire rest)
  | _ => (fl, "bad-op")

partial def loop (h out : IO.FS.Stream) (fl : Flags) : IO Unit := do
  let line ← h.getLine
  if line.isEmpty then return ()
  let (fl', o) := step fl line
  out.putStrLn o
  loop h out fl'

def run : IO Unit := do loop (← IO.getStdin) (← IO.getStdout) {}
end Drv.Txv
