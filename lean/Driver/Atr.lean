import Saito.Model.Atr
import Saito.Model.AtrScan
/-
  `driver atr` — line protocol of the C13 model (Saito/Model/Atr.lean).

  flags key=0|1 cap=0|1 hash=0|1 window=0|1 txv=0|1                  → "-"   (measured by the harness on the tree under test)
  blk n=<id> gp=<gp> purge=<id|0> base=<ord> fpb=<n> tre=<n> anr=<n> self=<n> outs=<O;…> utxo=<S;…> nin=<S;…>
      one honestly produced block n > gp+1.  S = owner.blk.ord.idx.amt.typ (the six fields of a utxo key),
      O = S/txsize (outputs of block n−gp−1 in block order), utxo = spendable slips with blk ≤ n−gp−1 before the
      block, nin = inputs of the block's non-ATR transactions among them; self = treasury in the finished header.
      → res=<ok|invalid|panic> rb=[S>S;…] fees_atr= payout= slips= nolan= dust= vfees= vpayout= vhash=<0|1> vrb=[S>owner.amt.typ;…] still=[S;…]
        rb… = the producer's block, v… = the validator's values, still = utxo (blk ≤ n−gp−1) after the call
  probe n=<id> gp=<gp> s=<S> utxo=<S;…>                       → valid=<0|1>   (input s of a transaction in block n)
  reorg e=<id> purge=<ids|-> utxo=<S;…> unwind=<B|…> wind=<B|…>   B = ins~outs → still=[S;…]   (slips with blk ≤ e)
-/
open Saito.Atr
namespace Drv.Atr

def bit (s : String) : Bool := s == "1"

def setFlag (fl : Flags) (kv : String) : Flags :=
  match kv.splitOn "=" with
  | ["key", v] => { fl with atrSpendsOriginalKey := bit v }
  | ["cap", v] => { fl with atrCapUsesParentTreasury := bit v }
  | ["hash", v] => { fl with atrHashCoversFinalTxs := bit v }
  | ["window", v] => { fl with windowChecked := bit v }
  | ["txv", v] => { fl with txVerdictPropagated := bit v }
  | ["triplefee", v] => { fl with tripleFeeDeducted := bit v }
  | _ => fl

def parseSlip (s : String) : Option Slip :=
  match (s.splitOn ".").mapM String.toNat? with
  | some [a, b, c, d, e, f] => some ⟨a, b, c, d, e, f⟩
  | _ => none

def parseSlips (s : String) : Option (List Slip) :=
  if s == "-" || s == "" then some [] else (s.splitOn ";").mapM parseSlip

def parseOut (s : String) : Option Out :=
  match s.splitOn "/" with
  | [a, b] => do
    let sl ← parseSlip a
    let n ← b.toNat?
    some ⟨sl, n⟩
  | _ => none

def parseOuts (s : String) : Option (List Out) :=
  if s == "-" || s == "" then some [] else (s.splitOn ";").mapM parseOut

def field (kvs : List String) (k : String) : Option String :=
  kvs.findSome? fun kv => match kv.splitOn "=" with
    | [a, b] => if a == k then some b else none
    | _ => none

def natField (kvs : List String) (k : String) : Option Nat := (field kvs k).bind String.toNat?

def showSlip (s : Slip) : String := s!"{s.owner}.{s.blk}.{s.ord}.{s.idx}.{s.amt}.{s.typ}"
def showSlips (l : List Slip) : String := ";".intercalate (l.map showSlip)

def slipLe (a b : Slip) : Bool :=
  let ka := [a.owner, a.blk, a.ord, a.idx, a.amt, a.typ]
  let kb := [b.owner, b.blk, b.ord, b.idx, b.amt, b.typ]
  let rec go : List Nat → List Nat → Bool
    | x :: xs, y :: ys => if x < y then true else if y < x then false else go xs ys
    | _, _ => true
  go ka kb

def insertSorted (x : Slip) : List Slip → List Slip
  | [] => [x]
  | y :: ys => if slipLe x y then x :: y :: ys else y :: insertSorted x ys

def sortSlips (l : List Slip) : List Slip := l.foldr insertSorted []

def showRb (r : Rb) : String := s!"{showSlip r.inp}>{showSlip r.out}"
def showRbShort (r : Rb) : String := s!"{showSlip r.inp}>{r.out.owner}.{r.out.amt}.{r.out.typ}"

def doBlk (fl : Flags) (kvs : List String) : Option String := do
  let n ← natField kvs "n"
  let gp ← natField kvs "gp"
  let purge ← natField kvs "purge"
  let base ← natField kvs "base"
  let fpb ← natField kvs "fpb"
  let tre ← natField kvs "tre"
  let anr ← natField kvs "anr"
  let self ← natField kvs "self"
  let outs ← (field kvs "outs").bind parseOuts
  let utxo ← (field kvs "utxo").bind parseSlips
  let nin ← (field kvs "nin").bind parseSlips
  let p : Params := { n := n, gp := gp, base := base, fpb := fpb, prevTreasury := tre, prevAvgNolan := anr, selfTreasury := self }
  let P := produce fl p utxo outs
  let V := atrStep fl p utxo outs
  let verdict := ownBlock fl p utxo outs
  let e := n - gp - 1
  let after := match verdict with
    | .invalid => utxo
    | _ => purgeBlock purge (windIO (nin ++ P.rbs.map Rb.inp) (P.rbs.map Rb.out) utxo)
  let still := sortSlips (after.filter (·.blk ≤ e))
  let res := match verdict with | .ok => "ok" | .invalid => "invalid" | .supplyPanic => "panic"
  some (s!"res={res} rb=[{";".intercalate (P.rbs.map showRb)}] fees_atr={P.feesAtr} payout={P.payout} slips={P.rbs.length} " ++
        s!"nolan={P.nolan} dust={P.dustFees} vfees={V.feesAtr} vpayout={V.payout} vhash={if V.hashed.map sig == P.rbs.map sig then 1 else 0} vrb=[{";".intercalate (V.rbs.map showRbShort)}] " ++
        s!"still=[{showSlips still}]")

def doProbe (fl : Flags) (kvs : List String) : Option String := do
  let n ← natField kvs "n"
  let gp ← natField kvs "gp"
  let s ← (field kvs "s").bind parseSlip
  let utxo ← (field kvs "utxo").bind parseSlips
  some s!"valid={if validateIn fl gp n utxo s then 1 else 0}"

def parseBlockIO (s : String) : Option (List Slip × List Slip) :=
  match s.splitOn "~" with
  | [a, b] => do
    let i ← parseSlips a
    let o ← parseSlips b
    some (i, o)
  | _ => none

def parseBlocks (s : String) : Option (List (List Slip × List Slip)) :=
  if s == "-" || s == "" then some [] else (s.splitOn "|").mapM parseBlockIO

def doReorg (kvs : List String) : Option String := do
  let e ← natField kvs "e"
  let utxo ← (field kvs "utxo").bind parseSlips
  let un ← (field kvs "unwind").bind parseBlocks
  let wi ← (field kvs "wind").bind parseBlocks
  let u1 := un.foldl (fun u b => unwindIO b.1 b.2 u) utxo
  let u2 := wi.foldl (fun u b => windIO b.1 b.2 u) u1
  let purges := match field kvs "purge" with
    | some "-" => []
    | some s => (s.splitOn ",").filterMap String.toNat?
    | none => []
  let u2 := purges.foldl (fun u b => purgeBlock b u) u2
  some s!"still=[{showSlips (sortSlips (u2.filter (·.blk ≤ e)))}]"

def step (fl : Flags) (line : String) : Flags × String :=
  match line.trimAscii.toString.splitOn " " with
  | "flags" :: kvs => (kvs.foldl setFlag fl, "-")
  | "reset" :: _ => (fl, "-")
  | "blk" :: kvs => (fl, (doBlk fl kvs).getD "bad-op")
  | "probe" :: kvs => (fl, (doProbe fl kvs).getD "bad-op")
  | "reorg" :: kvs => (fl, (doReorg kvs).getD "bad-op")
  -- `scan <t1,t2,…>`: the cut of one transaction's collected outputs (slip type codes) into single outputs and triples
  | ["scan", ts] =>
    let l := if ts == "-" then [] else (ts.splitOn ",").filterMap String.toNat?
    (fl, "groups=" ++ String.intercalate "" ((Saito.AtrScan.scan l).map Saito.AtrScan.Group.tag))
  -- `acct <m> <fee> <t:a,…>`: payload amounts that come back from the rebroadcast of one transaction's collected outputs
  | ["acct", m, f, tas] =>
    let l := if tas == "-" then [] else (tas.splitOn ",").filterMap (fun x => match x.splitOn ":" with
      | [t, a] => (match t.toNat?, a.toNat? with | some t, some a => some (t, a) | _, _ => none)
      | _ => none)
    match m.toNat?, f.toNat? with
    | some m, some f =>
      let A := Saito.AtrScan.acct fl.tripleFeeDeducted m f (Saito.AtrScan.payloads l)
      (fl, "back=[" ++ String.intercalate "," (A.back.map toString) ++ "]")
    | _, _ => (fl, "bad-op")
  | _ => (fl, "bad-op")

partial def loop (h out : IO.FS.Stream) (fl : Flags) : IO Unit := do
  let line ← h.getLine
  if line.isEmpty then return ()
  let (fl', o) := step fl line
  out.putStrLn o
  loop h out fl'

def run : IO Unit := do loop (← IO.getStdin) (← IO.getStdout) {}
end Drv.Atr
