import Saito.Model.Storage
import Driver.Chain
open Saito.Chain Saito.Storage
namespace Drv.Disk

structure DS where
  cf : Saito.Chain.Flags := {}
  sf : Saito.Storage.Flags := {}
  gp : Nat := 100
  del : Bool := true
  journal : Journal := []
  /-- the blocks as they were delivered to the live node, each with its file name (`d …` lines) -/
  deliv : History := []
  /-- state of the most recently restarted node (for `ext`) -/
  cur : State := { gp := 100 }

def setSFlag (sf : Saito.Storage.Flags) (kv : String) : Saito.Storage.Flags :=
  match kv.splitOn "=" with
  | ["skipbad", v] => { sf with loadSkipsBadFile := Drv.Chain.bit v }
  | ["norewrite", v] => { sf with reloadKeepsFiles := Drv.Chain.bit v }
  | _ => sf

def parseBlock (toks : List String) : Option ABlock :=
  match toks with
  | "add" :: h :: p :: i :: bf :: gt :: ok :: hs :: ins :: outs :: _ =>
    match h.toNat?, p.toNat?, i.toNat?, bf.toNat?, hs.toNat? with
    | some h, some p, some i, some bf, some hs =>
      let (ik, ia) := Drv.Chain.kaList ins
      let (ok_, oa) := Drv.Chain.kaList outs
      some { hash := h, prev := p, id := i, burnfee := bf, hasGT := Drv.Chain.bit gt, ok := Drv.Chain.okBit ok, okNoParent := Drv.Chain.okNPBit ok,
             ins := ik, outs := ok_, inAmts := ia, outAmts := oa, hs := hs }
    | _, _, _, _, _ => none
  | _ => none

def showFiles (d : Disk) : String :=
  ",".intercalate ((sortDisk d).map fun e =>
    s!"{e.1.ts}:{e.1.hk}:" ++ (match e.2 with | .good _ => "g" | .torn => "t"))

def dumpR (r : Restarted) : String :=
  match r.bad with
  | some o => s!"res={o.str}"
  | none =>
    let tip := match latest r.st with
      | some (i, h) => s!"{i}:{h}"
      | none => "panic"
    let blocks := Drv.Chain.showList (sortNat (r.st.blocks.map (·.b.hash)))
    s!"res=ok tip={tip} utxo=[{Drv.Chain.showList (sortNat r.st.utxo)}] blocks=[{blocks}] files=[{showFiles r.disk}]"

def step (d : DS) (line : String) : DS × String :=
  match line.trimAscii.toString.splitOn " " with
  | "flags" :: kvs => ({ d with cf := kvs.foldl Drv.Chain.setFlag d.cf, sf := kvs.foldl setSFlag d.sf }, "-")
  | ["reset", gp, del] =>
    match gp.toNat? with
    | some g => ({ d with gp := g, del := Drv.Chain.bit del, journal := [], deliv := [], cur := { gp := g } }, "-")
    | none => (d, "bad-op")
  | "w" :: ts :: hk :: rest =>
    match ts.toNat?, hk.toNat?, parseBlock rest with
    | some ts, some hk, some b => ({ d with journal := d.journal ++ [Op.write ⟨ts, hk⟩ b] }, "-")
    | _, _, _ => (d, "bad-op")
  | "d" :: ts :: hk :: rest =>
    match ts.toNat?, hk.toNat?, parseBlock rest with
    | some ts, some hk, some b => ({ d with deliv := d.deliv ++ [(⟨ts, hk⟩, b)] }, "-")
    | _, _, _ => (d, "bad-op")
  -- what the model's live node writes for the delivered history (`journalOf`: one file per accepted block, in order)
  | "journal" :: _ =>
    (d, "writes=" ++ ",".intercalate ((journalOf d.cf d.gp d.deliv).filterMap fun o =>
      match o with
      | .write n _ => some s!"{n.ts}:{n.hk}"
      | _ => none))
  | ["r", ts, hk] =>
    match ts.toNat?, hk.toNat? with
    | some ts, some hk => ({ d with journal := d.journal ++ [Op.remove ⟨ts, hk⟩] }, "-")
    | _, _ => (d, "bad-op")
  | "restart" :: k :: t :: _ =>
    match k.toNat? with
    | some k =>
      let r := restart d.sf d.cf d.gp d.del (crash k (Drv.Chain.bit t) d.journal)
      ({ d with cur := r.st }, dumpR r)
    | none => (d, "bad-op")
  | "rrestart" :: k :: t :: _ =>
    -- a crash during the restart of the final disk: the restart's own journal, cut after `k` operations
    match k.toNat? with
    | some k =>
      let d0 := applyAll [] d.journal
      let r0 := restart d.sf d.cf d.gp d.del d0
      let d1 := applyAll d0 (r0.ops.take k)
      let d1 := if Drv.Chain.bit t then
          match r0.ops[k]? with
          | some (.write n _) => put d1 n .torn
          | _ => d1
        else d1
      let r := restart d.sf d.cf d.gp d.del d1
      ({ d with cur := r.st }, dumpR r)
    | none => (d, "bad-op")
  | "ext" :: rest =>
    match parseBlock rest with
    | some b =>
      let (st', o) := addBlock d.cf d.cur b []
      let tip := match latest st' with
        | some (i, h) => s!"{i}:{h}"
        | none => "panic"
      (d, s!"res={o.str} tip={tip}")
    | none => (d, "bad-op")
  | _ => (d, "bad-op")

partial def loop (h out : IO.FS.Stream) (d : DS) : IO Unit := do
  let line ← h.getLine
  if line.isEmpty then return ()
  let (d', o) := step d line
  out.putStrLn o
  loop h out d'

def run : IO Unit := do loop (← IO.getStdin) (← IO.getStdout) {}
end Drv.Disk
