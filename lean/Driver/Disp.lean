import Saito.Model.Dispatch
open Saito.Dispatch
/-
  `driver disp`: line protocol of the C11 dispatch model.
    flags name=0/1 …                         → "-"
    step <node summary> | <event>             → <outcome> s=<0/1> q=<dvq>,<dcq>,<dpool> p=<status>,<key>,<chal>|none|-
  (after a panic / stall only the outcome is printed: the node is gone)
-/
namespace Drv.Disp

def bit (s : String) : Bool := s == "1"

def setFlag (fl : Flags) (kv : String) : Flags :=
  match kv.splitOn "=" with
  | ["blocktag", v] => { fl with blockTagRejected := bit v }
  | ["ghostreq", v] => { fl with ghostReqNeedsKey := bit v }
  | ["keylist", v] => { fl with keyListLimitNoPanic := bit v }
  | ["hskey", v] => { fl with hsKeyMismatchRejected := bit v }
  | ["gtpayload", v] => { fl with gtPayloadChecked := bit v }
  | ["fetchgen", v] => { fl with fetchedGenerateChecked := bit v }
  | ["inputless", v] => { fl with inputlessPropagateSafe := bit v }
  | ["txv", v] => { fl with txVerdict := bit v }
  | ["txbounds", v] => { fl with txBounds := bit v }
  | ["ghostbounds", v] => { fl with ghostBounds := bit v }
  | ["restore", v] => { fl with windFailureRestores := bit v }
  | ["bundleclock", v] => { fl with bundleClockChecked := bit v }
  | ["smrej", v] => { fl with spendMissingRejected := bit v }
  | ["smrejbrowser", v] => { fl with spendMissingRejectedBrowser := bit v }
  | ["smrejspv", v] => { fl with spendMissingRejectedSpv := bit v }
  | ["gtvrej", v] => { fl with gtShortRejectedAtVerify := bit v }
  | _ => fl

def parseLim (s : String) : Option Lim :=
  let stale := s.endsWith "s"
  match (s.dropEnd 1).toString.toNat? with
  | some c => some { cnt := c, stale := stale }
  | none => none

def parseStatus : String → Option Status
  | "0" => some .disconnected | "1" => some .connecting | "2" => some .connected | _ => none

/-- `idx:S|D:status:key|-:chal:url:msg,hs,kl,ib` -/
def parsePeer (s : String) : Option Peer :=
  match s.splitOn ":" with
  | [i, st, status, k, chal, url, lims] =>
    match i.toNat?, parseStatus status, (lims.splitOn ",").map parseLim with
    | some i, some status, [some m, some h, some kl, some ib] =>
      some { idx := i, static := st == "S", status := status, key := k.toNat?, chal := bit chal, url := bit url,
             msg := m, hs := h, kl := kl, ib := ib }
    | _, _, _ => none
  | _ => none

def parseTxC : String → Option TxC
  | "valid" => some .valid | "badsig" => some .badsig | "spendmissing" => some .spendmissing
  | "nooutputs" => some .nooutputs | "normalnoinputs" => some .normalnoinputs | "gtok" => some .gtok
  | "gtshort" => some .gtshort | "gtlong" => some .gtlong | "issuance" => some .issuance | "atr" => some .atr
  | _ => none

def parseBlkC : String → Option BlkC
  | "garbage" => some .garbage | "wronghash" => some .wronghash | "dupinput" => some .dupinput | "next" => some .next
  | "nextfuture" => some .nextfuture | "known" => some .known | "tampered" => some .tampered | "gtshort" => some .gtshort
  | "spendmissing" => some .spendmissing | "side" => some .side | "reorginvalid" => some .reorginvalid
  | _ => none

def listOf (s : String) (sep : String) : List String := if s == "-" then [] else s.splitOn sep

/-- `t<src>.<class>` | `b<src>.<class>` -/
def parseVReq (s : String) : Option VReq :=
  match s.splitOn "." with
  | [h, c] =>
    match (h.drop 1).toString.toNat? with
    | some i => if h.startsWith "t" then (parseTxC c).map (VReq.tx i) else (parseBlkC c).map (VReq.blk i)
    | none => none
  | _ => none

/-- `t.<class>` | `b<src>.<class>` -/
def parseCEv (s : String) : Option CEv :=
  match s.splitOn "." with
  | [h, c] =>
    if h == "t" then (parseTxC c).map CEv.tx
    else match (h.drop 1).toString.toNat? with
      | some i => (parseBlkC c).map (CEv.blk i)
      | none => none
  | _ => none

def allSome {α} (l : List (Option α)) : Option (List α) :=
  l.foldr (fun x acc => match x, acc with | some a, some r => some (a :: r) | _, _ => none) (some [])

def parseNode (toks : List String) : Option Node := do
  let kv (name : String) : Option String := (toks.find? (·.startsWith (name ++ "="))).map (fun s => (s.drop (name.length + 1)).toString)
  let mode ← match (← kv "mode") with
    | "full" => some Mode.full | "spv" => some Mode.spv | "browser" => some Mode.browser | _ => none
  let peers ← allSome ((listOf (← kv "peers") ";").map parsePeer)
  let vq ← allSome ((listOf (← kv "vq") ",").map parseVReq)
  let cq ← allSome ((listOf (← kv "cq") ",").map parseCEv)
  let pool ← allSome ((listOf (← kv "pool") ",").map parseTxC)
  pure { mode := mode, chainEmpty := bit (← kv "empty"), tipAhead := bit (← kv "ahead"), peers := peers, vq := vq, cq := cq, pool := pool }

def parseMsgC (s : String) : Option MsgC :=
  match s.splitOn ":" with
  | ["challenge"] => some .challenge
  | ["resp", bits, k] =>
    match bits.toList, k.toNat? with
    | [a, b, c], some k => some (.resp (a == '1') (b == '1') (c == '1') k)
    | _, _ => none
  | ["block"] => some .block
  | ["tx", c] => (parseTxC c).map MsgC.tx
  | ["txtrunc"] => some .txtrunc
  | ["chainreq"] => some .chainreq
  | ["headerhash"] => some .headerhash
  | ["ping"] => some .ping
  | ["spv"] => some .spv
  | ["services"] => some .services
  | ["ghost", n, t] => n.toNat?.map (fun n => .ghost n (bit t))
  | ["ghostshort"] => some .ghostshort
  | ["ghostreq"] => some .ghostreq
  | ["app", t] => t.toNat?.map MsgC.app
  | ["keylist"] => some .keylist
  | ["undecodable"] => some .undecodable
  | _ => none

def parseEvent : List String → Option Event
  | ["msg", p, m] => do some (.msg (← p.toNat?) (← parseMsgC m))
  | ["connect", p] => p.toNat?.map Event.connect
  | ["connectfailed"] => some .connectFailed
  | ["disconnect", p] => p.toNat?.map Event.disconnect
  | ["fetched", p, b] => do some (.fetched (← p.toNat?) (← parseBlkC b))
  | ["fetchfailed", p] => p.toNat?.map Event.fetchFailed
  | ["runv"] => some .runV
  | ["runc"] => some .runC
  | ["tick", b] => some (.tick (bit b))
  | ["advance"] => some .advance
  | _ => none

def statusStr : Status → String
  | .disconnected => "0" | .connecting => "1" | .connected => "2"

def directSender : Event → Option Nat
  | .msg p _ | .connect p | .disconnect p | .fetched p _ | .fetchFailed p => some p
  | _ => none

def answer (fl : Flags) (n : Node) (e : Event) : String :=
  let r := step fl n e
  match r.out with
  | .panic _ | .stall => r.out.str
  | _ =>
    let popV := match e, n.vq with | .runV, _ :: _ => 1 | _, _ => 0
    let popC := match e, n.cq with | .runC, _ :: _ => 1 | _, _ => 0
    let dv := r.node.vq.length + popV - n.vq.length
    let dc := r.node.cq.length + popC - n.cq.length
    let dp := r.node.pool.length - n.pool.length
    let p := match directSender e with
      | none => "-"
      | some s => match findPeer r.node.peers s with
        | none => "none"
        | some q => s!"{statusStr q.status},{match q.key with | some k => toString k | none => "-"},{if q.chal then 1 else 0}"
    s!"{r.out.str} s={if r.sent then 1 else 0} q={dv},{dc},{dp} p={p}"

def stepLine (fl : Flags) (line : String) : Flags × String :=
  match line.trimAscii.toString.splitOn " " with
  | "flags" :: kvs => (kvs.foldl setFlag fl, "-")
  | "sweep" :: _ => (fl, "-")   -- monitor-only line of the hostile transaction shape sweep (recorded, not compared)
  | "step" :: rest =>
    let summary := rest.takeWhile (· != "|")
    let ev := (rest.dropWhile (· != "|")).drop 1
    match parseNode summary, parseEvent ev with
    | some n, some e => (fl, answer fl n e)
    | none, _ => (fl, "bad-summary")
    | _, none => (fl, "bad-event")
  | _ => (fl, "bad-op")

partial def loop (h out : IO.FS.Stream) (fl : Flags) : IO Unit := do
  let line ← h.getLine
  if line.isEmpty then return ()
  let (fl', o) := stepLine fl line
  out.putStrLn o
  loop h out fl'

def run : IO Unit := do loop (← IO.getStdin) (← IO.getStdout) {}
end Drv.Disp
