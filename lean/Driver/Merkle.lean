import Saito.Model.Merkle
/-
  `driver merkle` — line protocol of the C18 model (Saito/Model/Merkle.lean).

  flags single=0|1 siblings=0|1 carries=0|1          → "-"      (measured by the harness on the tree under test)
  lite K=<keys> T=<txs>                               → entries=[…] lite=<term> full=<term> wire=<term>
      <keys>  "-" or comma separated key numbers (the key list handed to generate_lite_block)
      <txs>   "-" or "|"-separated transactions  [g]<from>><to>   (from/to: "-" or comma separated key numbers,
              prefix g = golden ticket); transaction i has hash term L<i> and signature-prefix term S<i>
      entries K<i>                      transaction i carried in full
              P<r>[c1.c2…]#<hash>~<sig> placeholder: txs_replacements r, covered transactions, hash term, sig-prefix term
      lite / full / wire  root term of the lite list, of the full list, of the lite list after the wire; "none" = empty list
-/
open Saito.Merkle
namespace Drv.Merkle

def parseBit (s : String) : Bool := s == "1"

def setFlag (fl : Flags) (kv : String) : Flags :=
  match kv.splitOn "=" with
  | ["single", v] => { fl with spvSubtreeAsSingleNode := parseBit v }
  | ["siblings", v] => { fl with spvMergeSiblingsOnly := parseBit v }
  | ["carries", v] => { fl with spvPlaceholderCarriesHash := parseBit v }
  | _ => fl

def parseNats (s : String) : Option (List Nat) :=
  if s == "-" || s == "" then some [] else (s.splitOn ",").mapM String.toNat?

def parseTx (i : Nat) (s : String) : Option (Tx HTerm) :=
  let (gt, body) := if s.startsWith "g" then (true, (s.drop 1).toString) else (false, s)
  match body.splitOn ">" with
  | [f, t] => do
    let f ← parseNats f
    let t ← parseNats t
    some (stdTx i f t gt)
  | _ => none

def parseTxs (s : String) : Option (List (Tx HTerm)) :=
  if s == "-" then some []
  else
    let parts := s.splitOn "|"
    ((List.range parts.length).zip parts).mapM fun (i, p) => parseTx i p

def entryStr : Entry HTerm → String
  | .full t => s!"K{t.idx}"
  | .spv r h s c => s!"P{r}[{".".intercalate (c.map toString)}]#{h.render}~{s.render}"

def rootStr : Option HTerm → String
  | some t => t.render
  | none => "none"

def liteCmd (fl : Flags) (keys : List Nat) (txs : List (Tx HTerm)) : String :=
  let lite := liteEntries .node fl (relevant keys) txs
  let es := ",".intercalate (lite.map entryStr)
  s!"entries=[{es}] lite={rootStr (merkleRoot .node fl lite)} full={rootStr (merkleRoot .node fl (fullEntries txs))} wire={rootStr (merkleRoot .node fl (wireEntries lite))}"

def step (fl : Flags) (line : String) : Flags × String :=
  match line.trimAscii.toString.splitOn " " with
  | "flags" :: kvs => (kvs.foldl setFlag fl, "-")
  | ["lite", k, t] =>
    if k.startsWith "K=" && t.startsWith "T=" then
      match parseNats (k.drop 2).toString, parseTxs (t.drop 2).toString with
      | some keys, some txs => (fl, liteCmd fl keys txs)
      | _, _ => (fl, "bad-op")
    else (fl, "bad-op")
  | _ => (fl, "bad-op")

partial def loop (h : IO.FS.Stream) (out : IO.FS.Stream) (fl : Flags) : IO Unit := do
  let line ← h.getLine
  if line.isEmpty then return ()
  let (fl', o) := step fl line
  out.putStrLn o
  loop h out fl'

def run : IO Unit := do
  let out ← IO.getStdout
  loop (← IO.getStdin) out {}
end Drv.Merkle
