import Saito.Model.Routing
/-
  `driver bf` — line protocol of the C08 models (Saito/Model/BurnFee.lean, Saito/Model/Routing.lean).

  flags txv=0|1 feex=0|1                          → "-"   (measured by the harness on the tree under test)
  need <bf> <cur> <prev> <hb>                            → <n> | panic      return_routing_work_needed_to_produce_block_in_nolan
  next <bf> <cur> <prev> <hb>                            → <n>              calculate_burnfee_for_block
  cap <avg>                                              → <n>              (avg as f64 * 1.5) as u64
  tx <creator> <tx>                                      → work=<n> vrp=<0|1> valid=<n>
  win <r> <tx>                                           → key=<k> | panic  get_winning_routing_node
  fwr <y> <r1> <r2> <txs>                                → key=<k> | panic  find_winning_router
  blk <bf> <ts> <pts> <hb> <creator> <rest> <vau> <txs> <feetxs> <gtctx>  → acc=<0|1|supply-panic> need=<n> work=<n> valid=<n>
      <vau>    = validate_against_utxo of the validating node (1: holds block 1; 0: joined mid-chain)
      <feetxs> = "-" or "/"-separated output lists of the block's Fee transactions ("~" = no outputs, else k:a,k:a)
      <gtctx>  = "-" (no golden ticket) or the nine arguments of `fee`
  fee <miner> <prevgt> <avg> <a1> <a2> <b1> <b2> <P> <PP> → outs=k:a,… | outs=- | panic
      <tx>  = <sender|->;<fees>;<restOk 0|1>;<hops>     <hops> = "-" or from:to:sigok,from:to:sigok,…
      <txs> = "-" or "|"-separated <tx>                 <P>,<PP> = <total_fees>/<txs>   (<PP> may be "-")
  numbers are decimal; lottery numbers are 256-bit integers in decimal.

  `need`/`next`/`cap` are computed twice — by the direct `u64`/`f64` text and by the proof-level text instantiated
  with native floats — and the answer is `SELF-MISMATCH` if the two differ.
-/
open Saito.BurnFee Saito.Routing
namespace Drv.Bf

def bit (s : String) : Bool := s == "1"

def setFlag (fl : Flags) (kv : String) : Flags :=
  match kv.splitOn "=" with
  | ["txv", v] => { fl with txVerdictPropagated := bit v }
  | ["feex", v] => { fl with feeTxExact := bit v }
  | _ => fl

def resStr : Res → String
  | .val n => toString n
  | .panic => "panic"

def kresStr : KRes → String
  | .key k => s!"key={k}"
  | .panic => "panic"

def parseHop (s : String) : Option Hop :=
  match s.splitOn ":" with
  | [f, t, ok] => do
    let f ← f.toNat?
    let t ← t.toNat?
    some { frm := f, to := t, sigOk := bit ok }
  | _ => none

def parseHops (s : String) : Option (List Hop) :=
  if s == "-" then some [] else (s.splitOn ",").mapM parseHop

def parseTx (s : String) : Option Tx :=
  match s.splitOn ";" with
  | [snd, fees, rest, hops] => do
    let sender ← if snd == "-" then some none else snd.toNat?.map some
    let fees ← fees.toNat?
    let path ← parseHops hops
    some { sender := sender, fees := fees, path := path, restOk := bit rest }
  | _ => none

def parseTxs (s : String) : Option (List Tx) :=
  if s == "-" then some [] else (s.splitOn "|").mapM parseTx

def parsePaid (s : String) : Option PaidBlock :=
  match s.splitOn "/" with
  | [y, txs] => do
    let y ← y.toNat?
    let txs ← parseTxs txs
    some { totalFees := y, txs := txs }
  | _ => none

def u64? (s : String) : Option UInt64 :=
  match s.toNat? with
  | some n => if n ≤ u64Max then some (UInt64.ofNat n) else none
  | none => none

def needCmd (bf cur prev hb : UInt64) : String :=
  let a := workNeededU64 bf cur prev hb
  let b := workNeededDev native bf.toNat cur.toNat prev.toNat hb.toNat
  if a == b then resStr a else "SELF-MISMATCH"

def nextCmd (bf cur prev hb : UInt64) : String :=
  let a := burnfeeU64 bf cur prev hb
  let b := Res.val (burnfeeForBlock native bf.toNat cur.toNat prev.toNat hb.toNat)
  if a == b then resStr a else "SELF-MISMATCH"

def capCmd (avg : UInt64) : String :=
  let a := payoutCapU64 avg
  let b := payoutCap native avg.toNat
  if a == b then toString a else "SELF-MISMATCH"

def outsStr : FRes → String
  | .panic => "panic"
  | .outs [] => "outs=-"
  | .outs l => "outs=" ++ ",".intercalate (l.map fun p => s!"{p.1}:{p.2}")

def parseOuts (s : String) : Option (List (Nat × Nat)) :=
  if s == "~" then some [] else
  (s.splitOn ",").mapM fun x =>
    match x.splitOn ":" with
    | [k, a] => do
      let k ← k.toNat?
      let a ← a.toNat?
      some (k, a)
    | _ => none

def parseFeeTxs (s : String) : Option (List (List (Nat × Nat))) :=
  if s == "-" then some [] else (s.splitOn "/").mapM parseOuts

def parseCtx (miner pgt avg a1 a2 b1 b2 p pp : String) : Option PayCtx := do
  let miner ← miner.toNat?
  let avg ← u64? avg
  let a1 ← a1.toNat?
  let a2 ← a2.toNat?
  let b1 ← b1.toNat?
  let b2 ← b2.toNat?
  let prev ← parsePaid p
  let ppb ← if pp == "-" then some none else (parsePaid pp).map some
  some { miner := miner, prev := prev, prevHasGT := bit pgt, pp := ppb, cap := payoutCapU64 avg,
         a1 := a1, a2 := a2, b1 := b1, b2 := b2 }

def step (fl : Flags) (line : String) : Flags × String :=
  match line.trimAscii.toString.splitOn " " with
  | "flags" :: kvs => (kvs.foldl setFlag fl, "-")
  | ["need", bf, cur, prev, hb] =>
    match u64? bf, u64? cur, u64? prev, u64? hb with
    | some bf, some cur, some prev, some hb => (fl, needCmd bf cur prev hb)
    | _, _, _, _ => (fl, "bad-op")
  | ["next", bf, cur, prev, hb] =>
    match u64? bf, u64? cur, u64? prev, u64? hb with
    | some bf, some cur, some prev, some hb => (fl, nextCmd bf cur prev hb)
    | _, _, _, _ => (fl, "bad-op")
  | ["cap", avg] =>
    match u64? avg with
    | some avg => (fl, capCmd avg)
    | none => (fl, "bad-op")
  | ["tx", c, t] =>
    match c.toNat?, parseTx t with
    | some c, some tx =>
      (fl, s!"work={workForMe c tx} vrp={if validateRoutingPath tx then 1 else 0} valid={validWork c tx}")
    | _, _ => (fl, "bad-op")
  | ["win", r, t] =>
    match r.toNat?, parseTx t with
    | some r, some tx => (fl, kresStr (winningRouter tx r))
    | _, _ => (fl, "bad-op")
  | ["fwr", y, r1, r2, ts] =>
    match y.toNat?, r1.toNat?, r2.toNat?, parseTxs ts with
    | some y, some r1, some r2, some txs => (fl, kresStr (findWinningRouter { totalFees := y, txs := txs } r1 r2))
    | _, _, _, _ => (fl, "bad-op")
  | "blk" :: bf :: ts :: pts :: hb :: c :: rest :: vau :: txs :: fees :: gtctx =>
    match u64? bf, u64? ts, u64? pts, u64? hb, c.toNat?, parseTxs txs, parseFeeTxs fees with
    | some bf, some ts, some pts, some hb, some c, some txs, some feeTxs =>
      let b : Blk := { creator := c, txs := txs, feeTxs := feeTxs }
      -- expected fee transaction: none without a ticket
      let expected : Option (Option FRes) :=
        match gtctx with
        | ["-"] => some none
        | [miner, pgt, avg, a1, a2, b1, b2, p, pp] => (parseCtx miner pgt avg a1 a2 b1 b2 p pp).map fun c => some (feeOutputs c)
        | _ => none
      match expected with
      | none => (fl, "bad-op")
      | some (some .panic) => (fl, "panic")
      | some e =>
        let exp : Option (List (Nat × Nat)) := match e with
          | some (.outs l) => some l
          | _ => none
        match workNeededU64 bf ts pts hb with
        | .panic => (fl, "panic")
        | .val need =>
          if Res.val need != workNeededDev native bf.toNat ts.toNat pts.toNat hb.toNat then (fl, "SELF-MISMATCH") else
          let acc := match blockOutcome fl need b (bit rest) exp (bit vau) with
            | .accepted => "1"
            | .rejected => "0"
            | .supplyPanic => "supply-panic"
          (fl, s!"acc={acc} need={need} work={totalWork b} valid={totalValidWork b}")
    | _, _, _, _, _, _, _ => (fl, "bad-op")
  | ["fee", miner, pgt, avg, a1, a2, b1, b2, p, pp] =>
    match parseCtx miner pgt avg a1 a2 b1 b2 p pp with
    | some c => (fl, outsStr (feeOutputs c))
    | none => (fl, "bad-op")
  | _ => (fl, "bad-op")

partial def loop (h out : IO.FS.Stream) (fl : Flags) : IO Unit := do
  let line ← h.getLine
  if line.isEmpty then return ()
  let (fl', o) := step fl line
  out.putStrLn o
  loop h out fl'

def run : IO Unit := do loop (← IO.getStdin) (← IO.getStdout) {}
end Drv.Bf
