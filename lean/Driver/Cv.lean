import Saito.Model.Consensus
open Saito.Consensus
/-!
  `driver cv` — line protocol of the consensus-value model (C07).
  `flags k=v …` / `reset …` / `ctx …` set state (answer `-`); `admit`, `bundle`, `validate` are compared with the
  real node. Float-based functions: burn fee and routing work arrive as oracle values computed by the real
  `BurnFee` functions for the one argument tuple in play; the 1.5× and 5 % caps are evaluated here with IEEE doubles
  exactly as the Rust expression `(x as f64 * c) as u64`.
-/
namespace Drv.Cv

structure DS where
  fl : Flags := {}
  ctx : Option Ctx := none
  jitter : Nat := 0
  dt : Nat := 0
  gt : Option Tx := none
  block : Option Block := none
  unsupported : Bool := false

def bit (s : String) : Bool := s == "1"
def nat (s : String) : Nat := s.toNat?.getD 0

def cap05 (x : Nat) : Nat := (Float.ofNat x * 0.05).toUInt64.toNat
def cap15 (x : Nat) : Nat := (Float.ofNat x * 1.5).toUInt64.toNat

def kv (toks : List String) : List (String × String) :=
  toks.filterMap fun t => match t.splitOn "=" with
    | k :: v :: _ => some (k, v)
    | _ => none

def get (m : List (String × String)) (k : String) : String := (m.lookup k).getD "-"

def setFlag (fl : Flags) (p : String × String) : Flags :=
  match p.1 with
  | "atrcap" => { fl with atrCapParent := bit p.2 }
  | "rebhash" => { fl with rebHashFinal := bit p.2 }
  | "poolpriv" => { fl with poolRejectsPriv := bit p.2 }
  | "txv" => { fl with txVerdict := bit p.2 }
  | "atrkey" => { fl with atrKeepsKey := bit p.2 }
  | "feecount" => { fl with feeTxCount := bit p.2 }
  | _ => fl

def typOf : String → TxType
  | "n" => .normal | "f" => .fee | "g" => .goldenTicket | "a" => .atr | "v" => .spv
  | "i" => .issuance | "s" => .blockStake | "b" => .bound | _ => .other

def codeOf : TxType → String
  | .normal => "n" | .fee => "f" | .goldenTicket => "g" | .atr => "a" | .spv => "v"
  | .issuance => "i" | .blockStake => "s" | .bound => "b" | .other => "o"

def natList (s : String) : List Nat := if s == "-" then [] else (s.splitOn ",").filterMap String.toNat?

/-- `typ:fees:size:work:valid:atrslips:k,k:body` -/
def parseTx (s : String) : Option Tx :=
  match s.splitOn ":" with
  | [t, f, sz, w, v, a, ks, bd] =>
    some { typ := typOf t, fees := nat f, size := nat sz, work := nat w, valid := bit v, atrSlips := nat a, ins := natList ks,
           body := if bd == "-" then [] else (bd.splitOn ".").filterMap String.toNat? }
  | _ => none

def parseTxs (s : String) : List Tx := if s == "-" then [] else (s.splitOn ";").filterMap parseTx

/-- `size:amt.key.owner.styp,…` ; returns none when a Bound slip (`B`) occurs -/
def parseAtrTx (s : String) : Option AtrTx :=
  match s.splitOn ":" with
  | [sz, sl] =>
    if sl == "-" then some { size := nat sz, slips := [] } else
    let parts := sl.splitOn ","
    if parts.any (· == "B") then none else
    some { size := nat sz, slips := parts.filterMap fun p => match p.splitOn "." with
      | [a, k, o, t] => some { amt := nat a, key := nat k, owner := nat o, styp := nat t }
      | _ => none }
  | _ => none

def parsePrev (s : String) : Option Prev :=
  match (s.splitOn ",").map nat with
  | [id, bf, diff, gt, tr, gy, tf, atf, atfn, atfa, apr, apm, afpb, anr, unpaid] =>
    some { id := id, ts := 0, bf := bf, diff := diff, hasGT := gt == 1, treasury := tr, graveyard := gy, tf := tf, atf := atf,
           atfn := atfn, atfa := atfa, apr := apr, apm := apm, afpb := afpb, anr := anr, unpaid := unpaid }
  | _ => none

def setCtx (d : DS) (m : List (String × String)) : DS :=
  let atrS := get m "atr"
  let (atr, bad) : Option (List AtrTx) × Bool :=
    if atrS == "-" then (none, false)
    else if atrS == "empty" then (some [], false)
    else
      let ps := (atrS.splitOn ";").map parseAtrTx
      if ps.any Option.isNone then (none, true) else (some (ps.filterMap id), false)
  let gtS := get m "gt"
  let (mk, r1, r2, ok, gtTx) : Nat × Nat × Nat × Bool × Option Tx :=
    match gtS.splitOn ":" with
    | [a, b, c, o, sz, v] => (nat a, nat b, nat c, bit o, some { typ := .goldenTicket, size := nat sz, valid := bit v, ticket := 1 })
    | _ => (0, 0, 0, false, none)
  let bfv := nat (get m "bf")
  let wv := nat (get m "work")
  let gc := bit (get m "gtcount")
  let ctx : Ctx := {
    gp := nat (get m "gp"), hb := nat (get m "hb"), stake := nat (get m "stake"),
    prev := parsePrev (get m "prev"),
    pp := (get m "pp").toNat?,
    atr := atr, vau := bit (get m "vau"),
    burnF := fun _ _ _ _ => bfv, workF := fun _ _ _ _ => wv,
    cap15 := cap15, cap05 := cap05,
    miner := fun _ => mk, router1 := fun _ => r1, router2 := fun _ => r2,
    gtOk := fun _ => ok, gtCountOk := fun _ => gc }
  { d with ctx := some ctx, jitter := nat (get m "jitter"), dt := nat (get m "dt"), gt := gtTx, unsupported := bad }

def triples : List Nat → List String
  | a :: b :: c :: rest => s!"{a}.{b}.{c}" :: triples rest
  | _ => []

/-- body = `nFrom :: from triples ++ to triples`, printed `from+from/to+to` -/
def bodyStr : List Nat → String
  | [] => "/"
  | n :: rest =>
    let ts := triples rest
    "+".intercalate (ts.take n) ++ "/" ++ "+".intercalate (ts.drop n)

def feeStr : Option (List Nat) → String
  | none => "-"
  | some o => bodyStr o

def rebStr (b : List Nat) : String := bodyStr b

def rebsStr (l : List (List Nat)) : String := if l.isEmpty then "-" else ";".intercalate (l.map rebStr)

def optStr : Option Nat → String
  | some n => toString n
  | none => "-"

def cvStr (cv : CV) (b : Block) : String :=
  let rh := cv.rebHash == b.rebHash
  let fti := match cv.ftIndex with
    | none => "-"
    | some i => if i + 1 == b.txs.length && b.cv.feeTx.isSome then "L" else "P"
  s!"ft={cv.ftNum} gt={cv.gtNum} st={cv.stNum} it={cv.itNum} gti={optStr cv.gtIndex} fti={fti} " ++
  s!"tf={cv.tf} tfn={cv.tfn} tfa={cv.tfa} tfc={cv.tfc} atf={cv.atf} atfn={cv.atfn} atfa={cv.atfa} tbn={cv.tbn} " ++
  s!"tpr={cv.tpr} tpm={cv.tpm} tpt={cv.tpt} tpg={cv.tpg} tpa={cv.tpa} apr={cv.apr} apm={cv.apm} apt={cv.apt} apg={cv.apg} apa={cv.apa} " ++
  s!"afpb={cv.afpb} fpb={cv.fpb} bf={cv.bf} diff={cv.diff} rs={cv.rs} rn={cv.rn} anr={cv.anr} dust={cv.dust} rh={if rh then 1 else 0} " ++
  s!"fee={feeStr cv.feeTx} rebs={rebsStr (cv.rebs.map Reb.body)}"

def insertSorted (x : String) : List String → List String
  | [] => [x]
  | y :: ys => if x ≤ y then x :: y :: ys else y :: insertSorted x ys

def sortStr (l : List String) : List String := l.foldl (fun acc x => insertSorted x acc) []

def blockStr (b : Block) (npool : Nat) : String :=
  let ngt := if (b.txs.head?.map (·.typ == .goldenTicket)).getD false then 1 else 0
  let pool := (b.txs.drop ngt).take npool
  let tail := b.txs.drop (ngt + npool)
  let fee := match b.txs.getLast? with
    | some t => if t.typ == TxType.fee && b.cv.feeTx.isSome then feeStr (some t.body) else "-"
    | none => "-"
  s!"id={b.id} tr={b.treasury} gy={b.graveyard} tf={b.tf} tfn={b.tfn} tfa={b.tfa} tfc={b.tfc} atf={b.atf} atfn={b.atfn} atfa={b.atfa} " ++
  s!"tpr={b.tpr} tpm={b.tpm} tpt={b.tpt} tpg={b.tpg} tpa={b.tpa} apr={b.apr} apm={b.apm} apt={b.apt} apg={b.apg} apa={b.apa} " ++
  s!"afpb={b.afpb} fpb={b.fpb} anr={b.anr} bf={b.bf} diff={b.diff} unpaid={b.unpaid} hasgt={if b.hasGT then 1 else 0} work={b.totalWork} rs={b.rs} " ++
  s!"txs={if ngt == 1 then "g" else ""}|{"".intercalate (sortStr (pool.map fun t => codeOf t.typ))}|{"".intercalate (tail.map fun t => codeOf t.typ)} " ++
  s!"fee={fee} rebs={rebsStr b.rebHash}"

def step (d : DS) (line : String) : DS × String :=
  let toks := line.trimAscii.toString.splitOn " "
  match toks with
  | "flags" :: rest => ({ d with fl := (kv rest).foldl setFlag d.fl }, "-")
  | "reset" :: _ => ({ d with ctx := none, block := none, gt := none }, "-")
  | "ctx" :: rest => (setCtx d (kv rest), "-")
  | ["admit", t, v] =>
    let r := admission d.fl { typ := typOf t, valid := bit v }
    (d, match r with | .yes => "1" | .no => "0" | .panic => "panic")
  | "bundle" :: rest =>
    match d.ctx with
    | none => (d, "no-ctx")
    | some ctx =>
      if d.unsupported then (d, "unsupported") else
      let m := kv rest
      let pool := parseTxs (get m "pool")
      let loc : Local := { newTxAdded := bit (get m "new"), workAvail := nat (get m "workavail"), jitter := d.jitter,
                           stakeTx := parseTx (get m "stx") }
      match bundle d.fl ctx loc pool d.gt d.dt with
      | none => ({ d with block := none }, "none")
      | some b =>
        let npool := pool.length + (match loc.stakeTx with | some s => if s.valid then 1 else 0 | none => 0)
        ({ d with block := some b }, s!"block {blockStr b npool} cv: {cvStr b.cv b}")
  | "validate" :: _ =>
    match d.ctx, d.block with
    | some ctx, some b =>
      if d.unsupported then (d, "unsupported") else
      let cv := gcv d.fl ctx b.view
      let atrv := "".intercalate ((b.txs.filter isAtr).map fun t => if t.valid then "1" else "0")
      (d, s!"ok={if validate d.fl ctx b then 1 else 0} atrv={if atrv.isEmpty then "-" else atrv} cv: {cvStr cv b}")
    | _, _ => (d, "no-block")
  | _ => (d, "bad-op")

partial def loop (h out : IO.FS.Stream) (d : DS) : IO Unit := do
  let line ← h.getLine
  if line.isEmpty then return ()
  let (d', o) := step d line
  out.putStrLn o
  loop h out d'

def run : IO Unit := do loop (← IO.getStdin) (← IO.getStdout) {}
end Drv.Cv
