import Saito.Model.Sync
/-
  Line protocol of the block-fetch scheduler model (`driver sync`). Every line is self-contained:

    flags dedupByHash=0|1
    seq <batch> <urlpeers: p,p,… | -> ;op;op;…      answer: the canonical dump after every op, joined by `;`
    fin <batch> <urlpeers> ;op;op;…                 answer: the dump after the last op only

  ops:  add <peer> <id> <hash> | have <hash> | unhave <hash> | upd <hash> | select | fetched <hash>
        | failed <id> <hash> <peer> | remove <hash>
  `upd h` is `RoutingEvent::BlockchainUpdated(h)`: `remove_entry(h)` followed by `fetch_next_blocks`
  (build with the current have-set; select; remove what the network layer declines because the node has it).
  dump: `n=<total queue entries>` then per peer with a non-empty queue (ascending)
        ` p<peer>:<front id>,<back id>,<fetching count>,<unbuilt announcements>`; after select/upd
        ` sel=p<peer>[id:hash,…]…` (ascending peers; `sel=-` when nothing was selected). A panic prints `panic`
        and ends the sequence.
-/
open Saito.Sync
namespace Drv.Sync

structure DState where
  fl : Flags := {}

def setFlag (st : DState) (kv : String) : DState :=
  match kv.splitOn "=" with
  | ["dedupByHash", v] => { st with fl := { st.fl with dedupByHash := v == "1" } }
  | _ => st

def sortPeers {β} (m : List (Nat × β)) : List (Nat × β) :=
  sortBy (fun pv => (pv.1, 0)) m

def peerDump (s : State) (pq : Nat × List Entry) : String :=
  let lo := match pq.2.head? with | some e => e.id | none => 0
  let hi := match pq.2.getLast? with | some e => e.id | none => 0
  s!" p{pq.1}:{lo},{hi},{countFetching pq.2},{(lookup pq.1 s.received).length}"

def stateDump (s : State) : String :=
  let n := s.queues.foldl (fun a pq => a + pq.2.length) 0
  (sortPeers s.queues).foldl (fun acc pq => acc ++ peerDump s pq) s!"n={n}"

def selDump (sels : List (Nat × List (Nat × Nat))) : String :=
  if sels.isEmpty then " sel=-" else
  (sortPeers sels).foldl (fun acc ps =>
    acc ++ s!"p{ps.1}[" ++ ",".intercalate (ps.2.map fun ih => s!"{ih.1}:{ih.2}") ++ "]") " sel="

structure Sim where
  st : State := {}
  have_ : List Nat := []

/-- one op: new simulation state and its dump, or `none` for a panic / unparsable op -/
def simOp (cfg : Cfg) (sim : Sim) (op : String) : Option (Sim × String) :=
  match op.trimAscii.toString.splitOn " " with
  | ["add", p, i, h] =>
    let s := addEntry cfg sim.st p.toNat! i.toNat! h.toNat!
    some ({ sim with st := s }, stateDump s)
  | ["have", h] =>
    let hv := if sim.have_.contains h.toNat! then sim.have_ else h.toNat! :: sim.have_
    some ({ sim with have_ := hv }, stateDump sim.st)
  | ["unhave", h] =>
    some ({ sim with have_ := sim.have_.filter (· != h.toNat!) }, stateDump sim.st)
  | ["upd", h] =>
    match fetchNext cfg sim.have_ (removeEntry sim.st h.toNat!) with
    | none => none
    | some (s, sels) => some ({ sim with st := s }, stateDump s ++ selDump sels)
  | ["select"] =>
    match select cfg sim.st with
    | none => none
    | some (s, sels) => some ({ sim with st := s }, stateDump s ++ selDump sels)
  | ["fetched", h] =>
    let s := markFetched sim.st h.toNat!
    some ({ sim with st := s }, stateDump s)
  | ["failed", i, h, p] =>
    let s := markFailed sim.st i.toNat! h.toNat! p.toNat!
    some ({ sim with st := s }, stateDump s)
  | ["remove", h] =>
    let s := removeEntry sim.st h.toNat!
    some ({ sim with st := s }, stateDump s)
  | _ => none

def runOps (cfg : Cfg) : Sim → List String → List String → List String
  | _, [], acc => acc.reverse
  | sim, op :: ops, acc =>
    match simOp cfg sim op with
    | none => ("panic" :: acc).reverse
    | some (sim', d) => runOps cfg sim' ops (d :: acc)

def parsePeers (s : String) : List Nat :=
  if s == "-" then [] else (s.splitOn ",").map String.toNat!

def seqCmd (st : DState) (all : Bool) (line : String) : String :=
  match line.splitOn ";" with
  | hd :: ops =>
    match hd.trimAscii.toString.splitOn " " with
    | [_, b, u] =>
      let cfg : Cfg := { batch := b.toNat!, urlPeers := parsePeers u, fl := st.fl }
      let ds := runOps cfg {} ops []
      if all then ";".intercalate ds else (ds.getLast?.getD "-")
    | _ => "bad-op"
  | _ => "bad-op"

def step (st : DState) (line : String) : DState × String :=
  let line := line.trimAscii.toString
  if line.startsWith "flags" then ((line.splitOn " ").drop 1 |>.foldl setFlag st, "-")
  else if line.startsWith "seq " then (st, seqCmd st true line)
  else if line.startsWith "fin " then (st, seqCmd st false line)
  else (st, "bad-op")

partial def loop (h : IO.FS.Stream) (out : IO.FS.Stream) (st : DState) : IO Unit := do
  let line ← h.getLine
  if line.isEmpty then return ()
  let (st', o) := step st line
  out.putStrLn o
  loop h out st'

def run : IO Unit := do
  let out ← IO.getStdout
  loop (← IO.getStdin) out {}
end Drv.Sync
