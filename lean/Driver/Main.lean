import Driver.Codec
import Driver.Chain
import Driver.Merkle
import Driver.Hs
import Driver.Sync
import Driver.Disk
import Driver.Bf
import Driver.Pool
import Driver.Supply
import Driver.Wallet
import Driver.Txv
import Driver.Sync2
import Driver.Cv
import Driver.Atr
import Driver.Disp
/-
  Line-protocol driver of the executable Lean models. `driver <suite>` reads one request per line on stdin
  and answers one line per request on stdout. One sub-driver per model family (Driver/<Suite>.lean).
-/
def main (args : List String) : IO Unit :=
  match args with
  | ["codec"] => Drv.Codec.run
  | ["chain"] => Drv.Chain.run
  | ["merkle"] => Drv.Merkle.run
  | ["hs"] => Drv.Hs.run
  | ["sync"] => Drv.Sync.run
  | ["disk"] => Drv.Disk.run
  | ["bf"] => Drv.Bf.run
  | ["pool"] => Drv.Pool.run
  | ["supply"] => Drv.Supply.run
  | ["wallet"] => Drv.Wallet.run
  | ["txv"] => Drv.Txv.run
  | ["forkid"] => Drv.Sync2.run
  | ["produce"] => Drv.Cv.run
  | ["cv"] => Drv.Cv.run
  | ["atr"] => Drv.Atr.run
  | ["disp"] => Drv.Disp.run
  | _ => do IO.eprintln "usage: driver <suite>"; IO.Process.exit 2
