import Driver.Codec
import Driver.Chain
import Driver.Merkle
import Driver.Hs
import Driver.Sync
import Driver.Disk
/-
  Line-protocol driver of the executable Lean models. `driver <suite>` reads one request per line on stdin
  and answers one line per request on stdout. One sub-driver per model family (Driver/<Suite>.lean).
-/
def main (args : List String) : IO Unit :=
  match args with
  | ["codec"] => Drv.Codec.run
  | ["chain"] => Drv.Chain.run
  | ["merkle"] => Drv.Merkle.run
  | ["hs"] => Drv.Hs.run
  | ["sync"] => Drv.Sync.run
  | ["disk"] => Drv.Disk.run
  | _ => do IO.eprintln "usage: driver <suite>"; IO.Process.exit 2
