import Saito.Model.Mempool
import Driver.Chain
open Saito.Pool
namespace Drv.Pool

structure DS where
  cfl : Saito.Chain.Flags := {}
  fl : Flags := {}
  node : Node := {}
  reg : List Tx := []

def bit (s : String) : Bool := s == "1"

def setFlag (fl : Flags) (kv : String) : Flags :=
  match kv.splitOn "=" with
  | ["release", v] => { fl with releaseOnRemoval := bit v }
  | ["readd", v] => { fl with readdViaAdd := bit v }
  | ["atomic", v] => { fl with bundleAtomic := bit v }
  | ["normal", v] => { fl with normalOnly := bit v }
  | ["dupin", v] => { fl with dupInputsRejected := bit v }
  | ["clock", v] => { fl with clockChecked := bit v }
  | _ => fl

def showList (l : List Nat) : String := ",".intercalate (l.map toString)
def sortNat := Saito.Chain.sortNat

def insList (s : String) : List (Nat × Bool) :=
  if s == "-" then [] else
  (s.splitOn ",").filterMap fun x =>
    match x.splitOn ":" with
    | [k, v] => match k.toNat? with
      | some k => some (k, bit v)
      | none => none
    | _ => none

def dumpPool (p : Pool) : String :=
  s!"pool=[{showList (sortNat (p.txs.map (·.id)))}] resv=[{showList (sortNat p.resv)}] work={p.work} new={if p.newTx then 1 else 0}"

def findTx (d : DS) (id : Nat) : Option Tx := d.reg.find? (·.id == id)

def step (d : DS) (line : String) : DS × String :=
  match line.trimAscii.toString.splitOn " " with
  | "flags" :: kvs => ({ d with cfl := kvs.foldl Drv.Chain.setFlag d.cfl, fl := kvs.foldl setFlag d.fl }, "-")
  | ["reset", gp] =>
    match gp.toNat? with
    | some g => ({ d with node := { chain := { gp := g, loadingDone := false } }, reg := [] }, "-")
    | none => (d, "bad-op")
  | ["deftx", id, typ, ok, work, ins] =>
    match id.toNat?, work.toNat? with
    | some id, some w =>
      let t : Tx := { id := id, ins := insList ins, work := w, ok := bit ok,
                      typ := if typ == "i" then .issuance else if typ == "g" then .gt else .normal }
      ({ d with reg := d.reg ++ [t] }, "-")
    | _, _ => (d, "bad-op")
  | ["arrive", id] =>
    match id.toNat? with
    | some id =>
      match findTx d id with
      | some t =>
        let was := d.node.pool.txs.any (·.id == id)
        let (p', r) := arrive d.fl d.node.chain.utxo d.node.pool t
        match r with
        | .panic => (d, "res=panic")
        | _ =>
          let now := p'.txs.any (·.id == id)
          let cls := if was then "present" else if now then "added" else "refused"
          ({ d with node := { d.node with pool := p' } }, s!"res={cls} {dumpPool p'}")
      | none => (d, "bad-op")
    | none => (d, "bad-op")
  | ["bundle", ts, j, g, need] =>
    match need.toNat? with
    | some need =>
      let (p', r) := bundle d.fl d.node.pool { tsOk := bit ts, jitter := bit j, ticket := bit g, need := need }
      let d' := { d with node := { d.node with pool := p' } }
      match r with
      | .panic => (d', s!"res=panic {dumpPool p'}")
      | .none => (d', s!"res=none {dumpPool p'}")
      | .some txs => (d', s!"res=some txs=[{showList (sortNat (txs.map (·.id)))}] {dumpPool p'}")
    | none => (d, "bad-op")
  | ["blk", h, p, i, bf, gt, ok, hs, ins, outs, mine, txs, need] =>
    match h.toNat?, p.toNat?, i.toNat?, bf.toNat?, hs.toNat? with
    | some h, some p, some i, some bf, some hs =>
      let (ik, ia) := Drv.Chain.kaList ins
      let (ok_, oa) := Drv.Chain.kaList outs
      let b : Saito.Chain.ABlock := { hash := h, prev := p, id := i, burnfee := bf, hasGT := bit gt, ok := Drv.Chain.okBit ok, okNoParent := Drv.Chain.okNPBit ok,
                                      ins := ik, outs := ok_, inAmts := ia, outAmts := oa, hs := hs }
      let btxs := (Drv.Chain.natList txs).filterMap (findTx d)
      let (n', o) := deliver d.cfl d.fl d.node b (bit mine) btxs (need.toNat?.getD 0)
      match o with
      | .stall => (d, "res=stall")
      | .panic => (d, "res=panic")
      | _ => ({ d with node := n' }, s!"res={o.str} utxo=[{showList (sortNat n'.chain.utxo)}] {dumpPool n'.pool}")
    | _, _, _, _, _ => (d, "bad-op")
  | _ => (d, "bad-op")

partial def loop (h out : IO.FS.Stream) (d : DS) : IO Unit := do
  let line ← h.getLine
  if line.isEmpty then return ()
  let (d', o) := step d line
  out.putStrLn o
  loop h out d'

def run : IO Unit := do loop (← IO.getStdin) (← IO.getStdout) {}
end Drv.Pool
