def hello := "world"
