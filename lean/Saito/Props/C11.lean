import Saito.Model.Dispatch
/-!
# C11 — no sequence of peer inputs crashes or stalls the node

Model: `Saito.Dispatch` (decision logic of `RoutingThread::process_network_event`, `VerificationThread::process_event`,
`ConsensusThread::process_event` and its timer tick).

* `C11_full`, `no_crash_sequence`: with every reproduced defect repaired no event — hence no event SEQUENCE, from any
  node summary — ends in a panic or a stall.
* `C11_rejected_inert`: for EVERY flag vector, an input that is rejected / rate limited / answered by a disconnect leaves
  every other peer's record, the mode, the chain summary and the pending pool unchanged.
* `pinned_panic_exact`, `pinned_stall_exact`: on the pinned tree the handlers panic (stall) EXACTLY on the listed
  (node, event) classes `inClass` / `stallClass`; a panic anywhere else is a disagreement, not a known finding.
* one `*_witness` per reproduced site (the concrete event sequence the harness replays on the real code).
* `f1f5_panic_exact`, `f1f5_stall_exact`: the same exactness for the flag vector MEASURED on a tree carrying the repairs F1
  and F5 (`Flags.f1f5`): the pinned classes minus the supply-check class and the transaction-decoder class.
-/
namespace Saito.C11
open Saito.Dispatch

def bad : Outcome → Bool
  | .panic _ | .stall => true
  | _ => false

/-- rejection in the sense of the property: the sender is refused, throttled or cut off -/
def refused : Outcome → Bool
  | .rejected | .rateLimited | .disconnected => true
  | _ => false

/-! ### full strength, all repaired -/

theorem hsResponse_fixed (n : Node) (p : Peer) (ver sig minor : Bool) (k : Nat) :
    bad (hsResponse .fixed n p ver sig minor k).out = false := by
  unfold hsResponse
  simp only [Flags.fixed]
  repeat' split
  all_goals simp_all [bad]

theorem routeMsg_fixed (n : Node) (p : Peer) (m : MsgC) : bad (routeMsg .fixed n p m).out = false := by
  cases m <;> simp only [routeMsg, Flags.fixed]
  case resp ver sig minor k =>
    split
    · simp [bad]
    · exact hsResponse_fixed ..
  all_goals (repeat' split)
  all_goals simp_all [bad]

theorem onMsg_fixed (n : Node) (i : Nat) (m : MsgC) : bad (onMsg .fixed n i m).out = false := by
  unfold onMsg
  split
  · simp [bad]
  · simp only []
    split
    · simp [bad]
    · split
      · simp only [Flags.fixed, if_true]; exact routeMsg_fixed ..
      · simp only [Flags.fixed, if_true]; exact routeMsg_fixed ..
      · exact routeMsg_fixed ..

theorem runV_fixed (n : Node) : bad (runV .fixed n).out = false := by
  unfold runV
  simp only [Flags.fixed]
  repeat' split
  all_goals simp_all [bad]

theorem runC_fixed (n : Node) : bad (runC .fixed n).out = false := by
  unfold runC
  simp only [Flags.fixed]
  repeat' split
  all_goals simp_all [bad]

theorem tick_fixed (n : Node) (b : Bool) : bad (tick .fixed n b).out = false := by
  simp only [tick, Flags.fixed, Bool.not_true, Bool.and_false, Bool.false_eq_true, if_false]
  split <;> rfl

/-- **C11, full strength**: with the twelve reproduced defects repaired, whatever the node summary and whatever the
    event (any tag, any payload class, any connection event, any fetched-block class, any schedule step), the handler
    returns normally — the outcome is `handled`, `rejected`, `rateLimited` or `disconnected`. -/
theorem C11_full (n : Node) (e : Event) : bad (handle .fixed n e).2 = false := by
  unfold handle step
  cases e <;> simp only
  case msg p m => exact onMsg_fixed ..
  case connect p => simp only [onConnect]; repeat' split
                    all_goals simp_all [bad]
  case connectFailed => simp [bad]
  case disconnect p => unfold onDisconnect; split <;> simp [bad]
  case fetched p b => simp only [onFetched]; repeat' split
                      all_goals simp_all [bad]
  case fetchFailed p => simp [bad]
  case runV => exact runV_fixed ..
  case runC => exact runC_fixed ..
  case tick b => exact tick_fixed ..
  case advance => simp [bad]

theorem C11_full_no_panic (n : Node) (e : Event) (s : Site) : (handle .fixed n e).2 ≠ .panic s := by
  intro h; have := C11_full n e; rw [h] at this; simp [bad] at this

theorem C11_full_no_stall (n : Node) (e : Event) : (handle .fixed n e).2 ≠ .stall := by
  intro h; have := C11_full n e; rw [h] at this; simp [bad] at this

/-- hence for every event SEQUENCE, by induction over the list, from every node summary -/
theorem no_crash_sequence (es : List Event) : ∀ n : Node, bad (run .fixed n es).2 = false := by
  induction es with
  | nil => intro n; simp [run, bad]
  | cons e es ih =>
    intro n
    have h := C11_full n e
    unfold run
    split
    · next n' s heq => rw [heq] at h; simp [bad] at h
    · next n' heq => rw [heq] at h; simp [bad] at h
    · exact ih _


/-! ### full strength for every vector of outcome flags

`Flags.fixed` fixes the four *outcome* flags (they describe which of two harmless outcomes a tree produces, not a panic
site). The tree carrying the repairs measures other values for them, so the theorems are proved again for ALL of them. -/

/-- every panic/stall site repaired; the four measured outcome classes taken from `o` -/
def Flags.withSites (o : Flags) : Flags :=
  { Flags.fixed with spendMissingRejected := o.spendMissingRejected,
                     spendMissingRejectedBrowser := o.spendMissingRejectedBrowser,
                     spendMissingRejectedSpv := o.spendMissingRejectedSpv,
                     gtShortRejectedAtVerify := o.gtShortRejectedAtVerify }

theorem hsResponse_sites (o : Flags) (n : Node) (p : Peer) (ver sig minor : Bool) (k : Nat) :
    bad (hsResponse (Flags.withSites o) n p ver sig minor k).out = false := by
  unfold hsResponse
  simp only [Flags.withSites, Flags.fixed]
  repeat' split
  all_goals simp_all [bad]

theorem routeMsg_sites (o : Flags) (n : Node) (p : Peer) (m : MsgC) : bad (routeMsg (Flags.withSites o) n p m).out = false := by
  cases m <;> simp only [routeMsg, Flags.withSites, Flags.fixed]
  case resp ver sig minor k =>
    split
    · simp [bad]
    · exact hsResponse_sites o ..
  all_goals (repeat' split)
  all_goals simp_all [bad]

theorem onMsg_sites (o : Flags) (n : Node) (i : Nat) (m : MsgC) : bad (onMsg (Flags.withSites o) n i m).out = false := by
  unfold onMsg
  split
  · simp [bad]
  · simp only []
    split
    · simp [bad]
    · split
      · simp only [Flags.withSites, Flags.fixed, if_true]; exact routeMsg_sites o ..
      · simp only [Flags.withSites, Flags.fixed, if_true]; exact routeMsg_sites o ..
      · exact routeMsg_sites o ..

theorem runV_sites (o : Flags) (n : Node) : bad (runV (Flags.withSites o) n).out = false := by
  cases h : o.gtShortRejectedAtVerify <;>
  · unfold runV
    simp only [Flags.withSites, Flags.fixed, h]
    repeat' split
    all_goals simp_all [bad]

theorem runC_sites (o : Flags) (n : Node) : bad (runC (Flags.withSites o) n).out = false := by
  cases h1 : o.spendMissingRejected <;> cases h2 : o.spendMissingRejectedBrowser <;> cases h3 : o.spendMissingRejectedSpv <;>
  · unfold runC
    simp only [Flags.withSites, Flags.fixed, h1, h2, h3]
    repeat' split
    all_goals simp_all [bad]

theorem tick_sites (o : Flags) (n : Node) (b : Bool) : bad (tick (Flags.withSites o) n b).out = false := by
  simp only [tick, Flags.withSites, Flags.fixed, Bool.not_true, Bool.and_false, Bool.false_eq_true, if_false]
  split <;> rfl

/-- **C11, full strength, any measured outcome classes**: with the twelve reproduced panic/stall sites repaired and
    WHATEVER the four measured outcome flags are (what a node in each mode does with a block spending a missing output,
    whether the verification thread already refuses a malformed ticket payload), whatever the node summary and whatever the
    event (any tag, any payload class, any connection event, any fetched-block class, any schedule step), the handler
    returns normally — the outcome is `handled`, `rejected`, `rateLimited` or `disconnected`. -/
theorem C11_sites (o : Flags) (n : Node) (e : Event) : bad (handle (Flags.withSites o) n e).2 = false := by
  unfold handle step
  cases e <;> simp only
  case msg p m => exact onMsg_sites o ..
  case connect p => simp only [onConnect]; repeat' split
                    all_goals simp_all [bad]
  case connectFailed => simp [bad]
  case disconnect p => unfold onDisconnect; split <;> simp [bad]
  case fetched p b => simp only [onFetched]; repeat' split
                      all_goals simp_all [bad]
  case fetchFailed p => simp [bad]
  case runV => exact runV_sites o ..
  case runC => exact runC_sites o ..
  case tick b => exact tick_sites o ..
  case advance => simp [bad]

theorem C11_sites_no_panic (o : Flags) (n : Node) (e : Event) (s : Site) : (handle (Flags.withSites o) n e).2 ≠ .panic s := by
  intro h; have := C11_sites o n e; rw [h] at this; simp [bad] at this

theorem C11_sites_no_stall (o : Flags) (n : Node) (e : Event) : (handle (Flags.withSites o) n e).2 ≠ .stall := by
  intro h; have := C11_sites o n e; rw [h] at this; simp [bad] at this

/-- hence for every event SEQUENCE, by induction over the list, from every node summary -/
theorem no_crash_sequence_sites (o : Flags) (es : List Event) : ∀ n : Node, bad (run (Flags.withSites o) n es).2 = false := by
  induction es with
  | nil => intro n; simp [run, bad]
  | cons e es ih =>
    intro n
    have h := C11_sites o n e
    unfold run
    split
    · next n' s heq => rw [heq] at h; simp [bad] at h
    · next n' heq => rw [heq] at h; simp [bad] at h
    · exact ih _



/-! ### refused input is inert (every flag vector) -/

theorem findPeer_idx {ps : List Peer} {i : Nat} {p : Peer} (h : findPeer ps i = some p) : p.idx = i := by
  unfold findPeer at h
  have := List.find?_some h
  simpa using this

theorem filter_setPeer (ps : List Peer) (p : Peer) :
    (setPeer ps p).filter (·.idx != p.idx) = ps.filter (·.idx != p.idx) := by
  unfold setPeer
  induction ps with
  | nil => rfl
  | cons q qs ih =>
    simp only [List.map_cons, List.filter_cons]
    by_cases hq : q.idx = p.idx
    · simp only [beq_iff_eq] at ih ⊢
      simp [hq, ih]
    · simp only [beq_iff_eq] at ih ⊢
      simp [hq, ih]

theorem view_withPeer (n : Node) (p : Peer) (i : Nat) (h : p.idx = i) :
    honestView (n.withPeer p) (some i) = honestView n (some i) := by
  subst h
  simp [honestView, Node.withPeer, filter_setPeer]

theorem view_bump (n : Node) (i : Nat) : honestView (bumpInvalid n i) (some i) = honestView n (some i) := by
  unfold bumpInvalid
  split
  · next p h => exact view_withPeer _ _ _ (by simpa using findPeer_idx h)
  · rfl

theorem hsResponse_inert (fl : Flags) (n : Node) (p : Peer) (ver sig minor : Bool) (k : Nat) :
    refused (hsResponse fl n p ver sig minor k).out = true →
    honestView (hsResponse fl n p ver sig minor k).node (some p.idx) = honestView n (some p.idx) := by
  unfold hsResponse
  repeat' split
  all_goals (intro h; first | (exact view_withPeer _ _ _ rfl) | (simp [refused] at h))

theorem routeMsg_inert (fl : Flags) (n : Node) (p : Peer) (m : MsgC) :
    refused (routeMsg fl n p m).out = true →
    honestView (routeMsg fl n p m).node (some p.idx) = honestView n (some p.idx) := by
  cases m <;> simp only [routeMsg]
  case resp ver sig minor k =>
    split
    · intro _; exact view_withPeer _ _ _ rfl
    · exact hsResponse_inert fl n _ ver sig minor k
  all_goals (repeat' split)
  all_goals (intro h; first | (exact view_withPeer _ _ _ rfl) | (simp [refused] at h))

theorem onMsg_inert (fl : Flags) (n : Node) (i : Nat) (m : MsgC) :
    refused (onMsg fl n i m).out = true →
    honestView (onMsg fl n i m).node (some i) = honestView n (some i) := by
  unfold onMsg
  split
  · intro _; rfl
  · next p hp =>
    have hi : p.idx = i := findPeer_idx hp
    subst hi
    simp only []
    split
    · intro _; exact view_withPeer _ _ _ rfl
    · split
      · split
        · exact routeMsg_inert fl n _ _
        · intro h; simp [refused] at h
      · split
        · exact routeMsg_inert fl n _ _
        · intro h; simp [refused] at h
      · exact routeMsg_inert fl n _ _

theorem view_vq (n : Node) (v : List VReq) (s : Option Nat) : honestView { n with vq := v } s = honestView n s := rfl
theorem view_cq (n : Node) (c : List CEv) (s : Option Nat) : honestView { n with cq := c } s = honestView n s := rfl

/-- **C11, inertness of refused input** (every flag vector): if the outcome is `rejected`, `rateLimited` or
    `disconnected`, then every other peer's record, the mode, the chain summary and the pending pool are unchanged. -/
theorem C11_rejected_inert (fl : Flags) (n : Node) (e : Event) :
    refused (handle fl n e).2 = true →
    honestView (handle fl n e).1 (e.sender n) = honestView n (e.sender n) := by
  unfold handle step
  cases e
  case msg p m => exact onMsg_inert fl n p m
  case connect p =>
    simp only [onConnect, Event.sender]; repeat' split
    all_goals (intro h; simp [refused] at h)
  case connectFailed => intro _; rfl
  case disconnect p =>
    simp only [onDisconnect, Event.sender]; split
    · next q hq => intro _; exact view_withPeer _ _ _ (show q.markDisconnected.idx = p from (findPeer_idx hq : q.idx = p))
    · intro _; rfl
  case fetched p b =>
    simp only [onFetched, Event.sender]; split
    · intro _; rfl
    · next q hq =>
      split
      · intro _; exact view_withPeer _ _ _ (findPeer_idx hq : q.idx = p)
      · intro h; simp [refused] at h
  case fetchFailed p => intro _; rfl
  case runV =>
    simp only [runV, Event.sender]
    cases hv : n.vq with
    | nil => intro _; rfl
    | cons r rest =>
      cases r with
      | tx i c =>
        simp only []
        split
        · intro h; simp [refused] at h
        · intro _; rfl
      | blk i c =>
        cases c <;> simp only [] <;> (try split) <;> intro h <;>
          first | (exact view_bump _ _) | (simp [refused] at h)
  case runC =>
    simp only [runC, Event.sender]
    cases hc : n.cq with
    | nil => intro _; rfl
    | cons r rest =>
      cases r with
      | tx c =>
        simp only []
        repeat' split
        all_goals (intro h; first | rfl | (simp [refused] at h))
      | blk i c =>
        cases c <;> simp only [] <;> (repeat' split) <;> intro h <;>
          first | (exact view_bump _ _) | (simp [refused] at h)
  case tick b =>
    simp only [tick]; repeat' split
    all_goals (intro h; simp [refused] at h)
  case advance => intro h; simp [refused] at h

/-! ### the pinned tree: exact panic and stall classes -/

/-- the peer as `process_incoming_message` sees it: it exists and its message limit is not exceeded -/
def gate (n : Node) (i : Nat) : Option Peer :=
  match findPeer n.peers i with
  | none => none
  | some p => if (p.msg.inc.check msgLimit).2 then none else some { p with msg := (p.msg.inc.check msgLimit).1 }

/-- THE LIST of (node, event) classes on which the pinned handlers panic, with the site -/
def classOf (n : Node) : Event → Option Site
  | .msg i m =>
    match gate n i with
    | none => none
    | some p =>
      match m with
      | .block => some .msgBlock
      | .txtrunc => some .decodeTx
      | .ghostshort => some .decodeGhost
      | .ghostreq => if p.key.isNone then some .ghostReqNoKey else none
      | .keylist => if (p.kl.inc.check klLimit).2 then some .keyListLimit else none
      | .resp ver sig minor k =>
        if !(p.hs.inc.check hsLimit).2 && ver && p.chal && sig && minor && p.key.isSome && p.key != some k
        then some .hsKeyMismatch else none
      | _ => none
  | .runV =>
    match n.vq with
    | .blk _ .dupinput :: _ => some .verifyGenerate
    | _ => none
  | .runC =>
    match n.cq with
    | .tx c :: _ => if c.isGT && !c.gtPayloadOk then some .gtPayloadPool else none
    | .blk _ .gtshort :: _ => some .gtPayloadBlock
    | .blk _ .spendmissing :: _ => if n.mode == .full then some .totalSupply else none
    | _ => none
  | .tick b =>
    let produce := n.mode == .full && !n.chainEmpty
    if produce && n.tipAhead then some .bundleTimestamp
    else if !(produce && b) && n.pool.any TxC.inputless then some .propagateInputless
    else none
  | _ => none

def stallClass (n : Node) : Event → Bool
  | .runC => match n.cq with
    | .blk _ .reorginvalid :: _ => n.mode != .spv
    | _ => false
  | _ => false

def siteOf : Outcome → Option Site
  | .panic s => some s
  | _ => none

theorem routeMsg_site (n : Node) (p : Peer) (m : MsgC) (hm : m ≠ .txtrunc) (hg : m ≠ .ghostshort) :
    siteOf (routeMsg .pinned n p m).out =
      (match m with
      | .block => some .msgBlock
      | .txtrunc => some .decodeTx
      | .ghostshort => some .decodeGhost
      | .ghostreq => if p.key.isNone then some .ghostReqNoKey else none
      | .keylist => if (p.kl.inc.check klLimit).2 then some .keyListLimit else none
      | .resp ver sig minor k =>
        if !(p.hs.inc.check hsLimit).2 && ver && p.chal && sig && minor && p.key.isSome && p.key != some k
        then some .hsKeyMismatch else none
      | _ => none) := by
  cases m <;> simp only [routeMsg, hsResponse, Flags.pinned]
  case txtrunc => exact absurd rfl hm
  case ghostshort => exact absurd rfl hg
  all_goals (repeat' split)
  all_goals simp_all [siteOf]


theorem onMsg_site (n : Node) (i : Nat) (m : MsgC) :
    siteOf (onMsg .pinned n i m).out = classOf n (.msg i m) := by
  simp only [onMsg, classOf, gate]
  cases hf : findPeer n.peers i with
  | none => simp [siteOf]
  | some p =>
    simp only []
    split
    · simp [siteOf]
    · simp only []
      cases m
      case txtrunc => simp [Flags.pinned, siteOf]
      case ghostshort => simp [Flags.pinned, siteOf]
      all_goals (rw [routeMsg_site _ _ _ (by simp) (by simp)])

theorem step_site (n : Node) (e : Event) : siteOf (step .pinned n e).out = classOf n e := by
  cases e
  case msg i m => exact onMsg_site n i m
  case connect p => simp only [step, onConnect, classOf]; repeat' split
                    all_goals simp [siteOf]
  case connectFailed => simp [step, classOf, siteOf]
  case disconnect p => simp only [step, onDisconnect, classOf]; split <;> simp [siteOf]
  case fetched p b => simp only [step, onFetched, classOf]; repeat' split
                      all_goals simp [siteOf]
  case fetchFailed p => simp [step, classOf, siteOf]
  case runV =>
    simp only [step, runV, classOf, Flags.pinned]
    cases n.vq with
    | nil => simp [siteOf]
    | cons r rest =>
      cases r with
      | tx i c => simp only []; split <;> simp [siteOf]
      | blk i c => cases c <;> simp [siteOf]
  case runC =>
    simp only [step, runC, classOf, Flags.pinned]
    cases n.cq with
    | nil => simp [siteOf]
    | cons r rest =>
      cases r with
      | tx c => cases c <;> simp [siteOf, TxC.isGT, TxC.gtPayloadOk]
      | blk i c => cases c <;> simp only [] <;> (repeat' split) <;> simp_all [siteOf]
  case tick b =>
    simp only [step, tick, classOf, Flags.pinned]
    generalize (n.mode == Mode.full && !n.chainEmpty) = pr
    generalize n.tipAhead = ah
    generalize (n.pool.any TxC.inputless) = inl
    cases pr <;> cases ah <;> cases b <;> cases inl <;> simp [siteOf]
  case advance => simp [step, classOf, siteOf]

theorem pinned_panic_exact (n : Node) (e : Event) (s : Site) :
    (handle .pinned n e).2 = .panic s ↔ classOf n e = some s := by
  rw [← step_site]
  unfold handle
  simp only []
  cases (step Flags.pinned n e).out <;> simp [siteOf]

theorem pinned_stall_exact (n : Node) (e : Event) :
    (handle .pinned n e).2 = .stall ↔ stallClass n e = true := by
  unfold handle
  cases e
  case msg i m =>
    simp only [step, stallClass, onMsg]
    cases m <;> (repeat' split) <;> (try simp only [routeMsg, hsResponse]) <;> (repeat' split) <;> simp
  case runC =>
    simp only [step, runC, stallClass, Flags.pinned]
    cases n.cq with
    | nil => simp
    | cons r rest =>
      cases r with
      | tx c => simp only []; repeat' split
                all_goals simp
      | blk i c => cases c <;> simp <;> (repeat' split) <;> simp_all
  case runV =>
    simp only [step, runV, stallClass]
    repeat' split
    all_goals simp
  case tick b =>
    simp only [step, tick, stallClass, Flags.pinned]
    generalize (n.mode == Mode.full && !n.chainEmpty) = pr
    generalize n.tipAhead = ah
    generalize (n.pool.any TxC.inputless) = inl
    cases pr <;> cases ah <;> cases b <;> cases inl <;> simp
  all_goals (simp only [step, stallClass, onConnect, onDisconnect, onFetched]; repeat' split)
  all_goals simp

/-- what the pinned handlers still guarantee: outside the listed classes the call returns normally -/
theorem pinned_partial (n : Node) (e : Event) (hc : classOf n e = none) (hs : stallClass n e = false) :
    bad (handle .pinned n e).2 = false := by
  cases h : (handle .pinned n e).2 with
  | panic s => rw [(pinned_panic_exact n e s).mp h] at hc; cases hc
  | stall => rw [(pinned_stall_exact n e).mp h] at hs; cases hs
  | _ => rfl

/-! ### witnesses: the node of the harness set-up and the event sequences replayed on the real code -/

/-- static-config peer 1 (not connected), honest peer 2 (handshake done under key 1), attacker's connection 3
    (challenge outstanding, no key), small honest chain, clock past the tip -/
def n0 : Node :=
  { peers := [ { idx := 1, static := true },
               { idx := 2, status := .connected, key := some 1, url := true, msg := ⟨3, false⟩, hs := ⟨0, false⟩ },
               { idx := 3, status := .connecting, chal := true } ] }

theorem msgBlock_witness : (run .pinned n0 [.msg 3 .block]).2 = .panic .msgBlock := by decide +kernel
theorem ghostReqNoKey_witness : (run .pinned n0 [.msg 3 .ghostreq]).2 = .panic .ghostReqNoKey := by decide +kernel
/-- the 101st key list inside one window (the first check of a fresh limiter resets the count) -/
theorem keyListLimit_witness :
    (run .pinned n0 (List.replicate 101 (.msg 3 .keylist))).2 = .panic .keyListLimit
    ∧ bad (run .pinned n0 (List.replicate 100 (.msg 3 .keylist))).2 = false := by decide +kernel
/-- handshake under key 3, a fresh challenge from the peer (the node answers and stores its own challenge), then a
    correctly signed response under key 5 -/
theorem hsKeyMismatch_witness :
    (run .pinned n0 [.msg 3 (.resp true true true 3), .msg 3 .challenge, .msg 3 (.resp true true true 5)]).2
      = .panic .hsKeyMismatch := by decide +kernel
theorem gtPayloadPool_witness :
    (run .pinned n0 [.msg 3 (.tx .gtshort), .runV, .runC]).2 = .panic .gtPayloadPool := by decide +kernel
theorem gtPayloadBlock_witness :
    (run .pinned n0 [.fetched 3 .gtshort, .runV, .runC]).2 = .panic .gtPayloadBlock := by decide +kernel
theorem verifyGenerate_witness :
    (run .pinned n0 [.fetched 3 .dupinput, .runV]).2 = .panic .verifyGenerate := by decide +kernel
theorem propagateInputless_witness :
    (run .pinned n0 [.msg 3 (.tx .issuance), .runV, .runC, .tick false]).2 = .panic .propagateInputless := by
  decide +kernel
theorem totalSupply_witness :
    (run .pinned n0 [.fetched 3 .spendmissing, .runV, .runC]).2 = .panic .totalSupply := by decide +kernel
theorem decodeTx_witness : (run .pinned n0 [.msg 3 .txtrunc]).2 = .panic .decodeTx := by decide +kernel
theorem decodeGhost_witness : (run .pinned n0 [.msg 3 .ghostshort]).2 = .panic .decodeGhost := by decide +kernel
theorem bundleTimestamp_witness :
    (run .pinned n0 [.fetched 3 .nextfuture, .runV, .runC, .tick false]).2 = .panic .bundleTimestamp := by
  decide +kernel
theorem reorgLivelock_witness :
    (run .pinned n0 [.fetched 3 .side, .runV, .runC, .fetched 3 .side, .runV, .runC,
                     .fetched 3 .reorginvalid, .runV, .runC]).2 = .stall := by decide +kernel

/-- repairing ONE site removes exactly its class: e.g. with only `blockTagRejected` the tag-3 message is rejected
    while the other witnesses still fail -/
theorem single_repair_example :
    (run { Flags.pinned with blockTagRejected := true } n0 [.msg 3 .block]).2 = .handled
    ∧ (run { Flags.pinned with blockTagRejected := true } n0 [.msg 3 .ghostreq]).2 = .panic .ghostReqNoKey := by
  decide +kernel

/-! ### non-vacuity -/

/-- all witness sequences are survived by the repaired handlers, with the outcomes the property allows -/
example : (handle .fixed n0 (.msg 3 .block)).2 = .rejected := by decide +kernel
example : (handle .fixed n0 (.msg 3 .ghostreq)).2 = .rejected := by decide +kernel
example : (run .fixed n0 (List.replicate 101 (.msg 3 .keylist))).2 = .handled := by decide +kernel
example : (handle .fixed (run .fixed n0 (List.replicate 100 (.msg 3 .keylist))).1 (.msg 3 .keylist)).2 = .rateLimited := by
  decide +kernel
example : (run .fixed n0 [.msg 3 (.resp true true true 3), .msg 3 .challenge]).2 = .handled := by decide +kernel
example : (handle .fixed (run .fixed n0 [.msg 3 (.resp true true true 3), .msg 3 .challenge]).1
            (.msg 3 (.resp true true true 5))).2 = .disconnected := by decide +kernel
/-- `C11_rejected_inert` is not vacuous: a refused input that DOES change the sender's own record -/
example : refused (handle .pinned n0 (.msg 3 (.resp false true true 3))).2 = true
    ∧ (handle .pinned n0 (.msg 3 (.resp false true true 3))).1 ≠ n0
    ∧ honestView (handle .pinned n0 (.msg 3 (.resp false true true 3))).1 (some 3) = honestView n0 (some 3) := by
  decide +kernel
/-- honest traffic is handled and does change honest-visible state (the view is not constant) -/
example : (handle .pinned n0 (.msg 2 (.tx .valid))).2 = .handled
    ∧ honestView (run .pinned n0 [.msg 2 (.tx .valid), .runV, .runC]).1 none ≠ honestView n0 none := by
  decide +kernel
/-- the message rate limit precedes decoding: a throttled peer cannot reach any panic site -/
example : (handle .pinned { n0 with peers := [{ idx := 3, msg := ⟨100000, false⟩ }] } (.msg 3 .block)).2 = .rateLimited := by
  decide +kernel
/-- a sequence that exercises every handler without hitting a listed class is survived by the PINNED handlers too -/
example : bad (run .pinned n0 [.msg 3 .challenge, .msg 3 (.resp true false true 3), .connect 3, .msg 3 (.tx .badsig), .runV,
    .fetched 3 .garbage, .runV, .fetched 2 .next, .runV, .runC, .msg 2 (.tx .valid), .runV, .runC, .tick true,
    .disconnect 3, .msg 9 .ping, .advance]).2 = false := by decide +kernel

/-! ### a tree with repairs F1 (transaction verdict honoured) and F5 (transaction decoder bounds): measured flag vector -/

/-- the flag vector MEASURED on a tree that carries repairs F1 (per-transaction verdict honoured) and F5 (bounds check in
    the transaction decoder): two sites gone, a block spending a non-existent output rejected in full and browser mode -/
def Flags.f1f5 : Flags :=
  { Flags.pinned with txVerdict := true, txBounds := true, spendMissingRejected := true, spendMissingRejectedBrowser := true }

def keepF1F5 (s : Site) : Bool := s != .totalSupply && s != .decodeTx

theorem routeMsg_site_f1f5 (n : Node) (p : Peer) (m : MsgC) (hm : m ≠ .txtrunc) (hg : m ≠ .ghostshort) :
    siteOf (routeMsg Flags.f1f5 n p m).out = siteOf (routeMsg .pinned n p m).out := by
  cases m <;> rfl

theorem onMsg_site_f1f5 (n : Node) (i : Nat) (m : MsgC) :
    siteOf (onMsg Flags.f1f5 n i m).out = (classOf n (.msg i m)).filter keepF1F5 := by
  rw [← onMsg_site]
  simp only [onMsg]
  cases hf : findPeer n.peers i with
  | none => simp [siteOf]
  | some p =>
    simp only []
    split
    · simp [siteOf]
    · cases m
      case txtrunc => simp [Flags.pinned, Flags.f1f5, siteOf, routeMsg]; rfl
      case ghostshort => simp [Flags.pinned, Flags.f1f5, siteOf]; rfl
      all_goals (simp only []; rw [routeMsg_site_f1f5 _ _ _ (by simp) (by simp)]; rw [routeMsg_site _ _ _ (by simp) (by simp)])
      all_goals (repeat' split)
      all_goals (first | rfl | simp_all)

theorem step_site_f1f5 (n : Node) (e : Event) :
    siteOf (step Flags.f1f5 n e).out = (classOf n e).filter keepF1F5 := by
  cases e
  case msg i m => exact onMsg_site_f1f5 n i m
  case runC =>
    simp only [step, runC, classOf, Flags.pinned, Flags.f1f5]
    cases n.cq with
    | nil => simp [siteOf]
    | cons r rest =>
      cases r with
      | tx c => cases c <;> simp [siteOf, TxC.isGT, TxC.gtPayloadOk] <;> rfl
      | blk i c => cases c <;> simp only [] <;> (repeat' split) <;> (first | rfl | simp_all [siteOf] | (simp_all [siteOf]; rfl))
  case runV =>
    simp only [step, runV, classOf, Flags.pinned, Flags.f1f5]
    cases n.vq with
    | nil => simp [siteOf]
    | cons r rest =>
      cases r with
      | tx i c => simp only []; split <;> simp [siteOf]
      | blk i c => cases c <;> simp [siteOf] <;> rfl
  case tick b =>
    simp only [step, tick, classOf, Flags.pinned, Flags.f1f5]
    generalize (n.mode == Mode.full && !n.chainEmpty) = pr
    generalize n.tipAhead = ah
    generalize (n.pool.any TxC.inputless) = inl
    cases pr <;> cases ah <;> cases b <;> cases inl <;> simp [siteOf] <;> rfl
  case connect p => simp only [step, onConnect, classOf]; repeat' split
                    all_goals simp [siteOf]
  case connectFailed => simp [step, classOf, siteOf]
  case disconnect p => simp only [step, onDisconnect, classOf]; split <;> simp [siteOf]
  case fetched p b => simp only [step, onFetched, classOf]; repeat' split
                      all_goals simp [siteOf]
  case fetchFailed p => simp [step, classOf, siteOf]
  case advance => simp [step, classOf, siteOf]

/-- the tree with F1 and F5: the handlers panic EXACTLY on the pinned classes minus the supply-check class and the
    transaction-decoder class — the other ten sites are untouched by these repairs -/
theorem f1f5_panic_exact (n : Node) (e : Event) (s : Site) :
    (handle Flags.f1f5 n e).2 = .panic s ↔ (classOf n e = some s ∧ s ≠ .totalSupply ∧ s ≠ .decodeTx) := by
  have h := step_site_f1f5 n e
  have hs : ∀ o : Outcome, siteOf o = some s ↔ o = .panic s := by
    intro o; cases o <;> simp [siteOf]
  have hk : keepF1F5 s = true ↔ (s ≠ .totalSupply ∧ s ≠ .decodeTx) := by
    cases s <;> simp [keepF1F5]
  unfold handle
  simp only []
  rw [← hs, h, Option.filter_eq_some_iff, hk]

theorem f1f5_stall_exact (n : Node) (e : Event) :
    (handle Flags.f1f5 n e).2 = .stall ↔ stallClass n e = true := by
  unfold handle
  cases e
  case msg i m =>
    simp only [step, stallClass, onMsg]
    cases m <;> (repeat' split) <;> (try simp only [routeMsg, hsResponse]) <;> (repeat' split) <;> simp
  case runC =>
    simp only [step, runC, stallClass, Flags.pinned, Flags.f1f5]
    cases n.cq with
    | nil => simp
    | cons r rest =>
      cases r with
      | tx c => simp only []; repeat' split
                all_goals simp
      | blk i c => cases c <;> simp <;> (repeat' split) <;> simp_all
  case runV =>
    simp only [step, runV, stallClass]
    repeat' split
    all_goals simp
  case tick b =>
    simp only [step, tick, stallClass, Flags.pinned, Flags.f1f5]
    generalize (n.mode == Mode.full && !n.chainEmpty) = pr
    generalize n.tipAhead = ah
    generalize (n.pool.any TxC.inputless) = inl
    cases pr <;> cases ah <;> cases b <;> cases inl <;> simp
  all_goals (simp only [step, stallClass, onConnect, onDisconnect, onFetched]; repeat' split)
  all_goals simp


/-- with F1 the block that spends a non-existent output is refused (full and browser mode) and refusing it is inert -/
example : (run Flags.f1f5 n0 [.fetched 3 .spendmissing, .runV, .runC]).2 = .handled
    ∧ (handle Flags.f1f5 (run Flags.f1f5 n0 [.fetched 3 .spendmissing, .runV]).1 .runC).2 = .rejected
    ∧ (handle Flags.f1f5 { (run Flags.f1f5 n0 [.fetched 3 .spendmissing, .runV]).1 with mode := .browser } .runC).2 = .rejected
    ∧ (handle Flags.f1f5 { (run Flags.f1f5 n0 [.fetched 3 .spendmissing, .runV]).1 with mode := .spv } .runC).2 = .handled
    ∧ (handle Flags.f1f5 n0 (.msg 3 .txtrunc)).2 = .disconnected := by decide +kernel

end Saito.C11
