import Saito.Lemmas.WalletLedger
/-!
# C19 — wallet accounting matches the ledger

Theorems over the wallet model (`Saito/Model/Wallet.lean`, tied to `Wallet::*` and `Transaction::create*` by the
`wallet` correspondence suite). `run fl init ops = some w`: the wallet reached `w` from a fresh wallet by the calls
`ops` without panicking. Flags: `{}` = the pinned tree, `Flags.fixed` = both listed defects repaired.

* accounting (`WInv`): holds in every reachable state, for EVERY flag setting — the incremental bookkeeping does
  not drift;
* ledger (`linear_matches_ledger`): on wind-only histories inside the window, `unspent` is exactly the C03 ledger
  filtered by the wallet's key and slip type, minus the slips committed to built transactions;
* built transactions (`built_tx_wellformed`): with the two defects repaired, inputs are pairwise distinct, were all
  listed as unspent, and outputs + fee = inputs; on the pinned tree both parts fail (witnesses), what remains is
  `built_tx_partial`.
-/
namespace Saito.C19
open Saito.Wallet

/-! ## the balance equals the unspent outputs — every reachable state, any flags -/

theorem winv_init : WInv init := WInv_init

/-- every operation preserves the accounting invariant -/
theorem winv_step (fl : Flags) (w w' : W) (op : Op) (hw : WInv w) (h : step fl w op = some w') : WInv w' :=
  step_inv fl w w' op hw h

/-- … hence it holds in every reachable state (induction over the call sequence) -/
theorem reachable_inv (fl : Flags) (ops : List Op) (w : W) (h : run fl init ops = some w) : WInv w :=
  run_inv fl ops init w WInv_init h

/-- amount the wallet has on record for a listed key (0 when the key is unknown) -/
def amountOf (w : W) (k : UKey) : Nat := ((findSlip w.slips k).map (·.amount)).getD 0

/-- the property's first sentence, literally: the available balance is the sum, over the keys listed as unspent, of
    the amounts recorded in the slip map; and the list has no duplicates, lies inside the slip map and is disjoint
    from the staking list -/
theorem balance_is_sum_of_unspent (fl : Flags) (ops : List Op) (w : W) (h : run fl init ops = some w) :
    w.balance = (w.unspent.map (amountOf w)).sum ∧ w.unspent.Nodup ∧
    (∀ k ∈ w.unspent, ∃ ws ∈ w.slips, ws.key = k) ∧ (∀ k ∈ w.staking, k ∉ w.unspent) := by
  have hw := reachable_inv fl ops w h
  refine ⟨?_, hw.nodupU, hw.sub, hw.disj⟩
  rw [hw.bal]
  unfold sumK
  congr 1
  apply List.map_congr_left
  intro k hk
  obtain ⟨ws, hws, hkk⟩ := hw.sub k hk
  unfold amountOf
  cases hf : findSlip w.slips k with
  | none => exact absurd hkk ((findSlip_none _ _).1 hf ws hws)
  | some x =>
    obtain ⟨hx, hxk⟩ := findSlip_some _ _ _ hf
    simp only [Option.map_some, Option.getD_some]
    rw [hw.amt x hx, hxk]

/-- the unspent list is exactly: known, not marked spent, neither staking nor bound -/
theorem unspent_characterised (fl : Flags) (ops : List Op) (w : W) (h : run fl init ops = some w) : UChar w :=
  run_cl UChar_closed fl ops init w UChar_init (fun op _ => by
    cases op with
    | reorg b lc gp => cases lc <;> simp [OpOk, UnwA]
    | _ => simp [OpOk]) h

/-- the `u64` subtractions of `delete_slip` / `generate_slips` never underflow, and `generate_slips` always finds the
    slips it lists: from a reachable state these calls do not panic -/
theorem no_underflow (fl : Flags) (ops : List Op) (w : W) (h : run fl init ops = some w) :
    (∀ s, ∃ w', deleteSlip w s = some w') ∧ (∀ b, ∃ w', removeOldSlips w b = some w') ∧
    (∀ req latest gp order, gp ≠ 0 → ∃ r, generateSlips w req latest gp order = some r) := by
  have hw := reachable_inv fl ops w h
  exact ⟨fun s => deleteSlip_total w s hw, fun _ => deleteSlips_total _ w hw,
    fun req latest gp order hgp => generateSlips_total w req latest gp order hw hgp⟩

/-! ## reorganisation-free histories: the unspent list is the ledger's view -/

/-- On a history that only winds blocks (no unwind, no purge), all inside the window (`block id ≤ genesis_period`, so
    nothing expires), without Bound slips, with transactions built by the wallet at any point: a key is listed as
    unspent iff it is spendable in the C03 ledger (`windU` over the same blocks), belongs to the wallet's key,
    carries value, is neither a staking nor a bound slip, and has not been committed to a built transaction.
    `enc` is any injective numbering of utxo keys (the ledger model's keys are numbers); `CleanOps`: every block
    spends only spendable outputs and creates fresh ones. Holds for every flag setting. -/
theorem linear_matches_ledger (enc : UKey → Nat) (hinj : ∀ a b, enc a = enc b → a = b) (fl : Flags) (gp : Nat)
    (ops : List Op) (w : W) (hl : ∀ op ∈ ops, LinearOp gp op) (hc : CleanOps enc [] ops)
    (h : run fl init ops = some w) (k : UKey) :
    k ∈ w.unspent ↔
      (enc k ∈ ledger enc [] ops ∧ k.owner = 0 ∧ k.amount > 0 ∧ k.typ ≠ tBlockStake ∧ k.typ ≠ tBound ∧
       k ∉ committed w) := by
  have hw := reachable_inv fl ops w h
  have hu := unspent_characterised fl ops w h
  have hm := mirror_run enc hinj fl gp ops init w [] (by intro k; simp [K, init]) hl hc h
  rw [hu k]
  constructor
  · rintro ⟨ws, hws, hk, hs, h8, h9⟩
    obtain ⟨hK, hnc⟩ := (unspentflag_iff w hw k).1 ⟨ws, hws, hk, hs⟩
    obtain ⟨he, ho, ha⟩ := (hm k).1 hK
    exact ⟨he, ho, ha, h8, h9, hnc⟩
  · rintro ⟨he, ho, ha, h8, h9, hnc⟩
    obtain ⟨ws, hws, hk, hs⟩ := (unspentflag_iff w hw k).2 ⟨(hm k).2 ⟨he, ho, ha⟩, hnc⟩
    exact ⟨ws, hws, hk, hs, h8, h9⟩

/-- The same for reorganisation-free histories of ANY length (window expiry included): blocks with non-decreasing
    ids, non-empty, outputs at their own coordinates. The wallet drops what falls out of the window
    (`remove_old_slips`), so the ledger side is restricted to in-window outputs: `newest block id ≤ k.bid +
    genesis_period` (block N rebroadcasts or drops the outputs of block N − genesis_period − 1; rebroadcast = an ATR
    transaction of block N, i.e. ordinary inputs / outputs of that block here). -/
theorem linear_matches_ledger_window (enc : UKey → Nat) (hinj : ∀ a b, enc a = enc b → a = b) (fl : Flags) (gp : Nat)
    (ops : List Op) (w : W) (hl : WLinearOps gp 0 ops) (hc : CleanOps enc [] ops)
    (h : run fl init ops = some w) (k : UKey) :
    k ∈ w.unspent ↔
      (enc k ∈ ledger enc [] ops ∧ k.owner = 0 ∧ k.amount > 0 ∧ lastId 0 ops ≤ k.bid + gp ∧
       k.typ ≠ tBlockStake ∧ k.typ ≠ tBound ∧ k ∉ committed w) := by
  have hw := reachable_inv fl ops w h
  have hu := unspent_characterised fl ops w h
  have hm := mirrorW_run enc hinj fl gp ops 0 init w [] (by intro k; simp [K, init]) Coord_init hl hc h
  rw [hu k]
  constructor
  · rintro ⟨ws, hws, hk, hs, h8, h9⟩
    obtain ⟨hK, hnc⟩ := (unspentflag_iff w hw k).1 ⟨ws, hws, hk, hs⟩
    obtain ⟨he, ho, ha, hwin⟩ := (hm k).1 hK
    exact ⟨he, ho, ha, hwin, h8, h9, hnc⟩
  · rintro ⟨he, ho, ha, hwin, h8, h9, hnc⟩
    obtain ⟨ws, hws, hk, hs⟩ := (unspentflag_iff w hw k).2 ⟨(hm k).2 ⟨he, ho, ha, hwin⟩, hnc⟩
    exact ⟨ws, hws, hk, hs, h8, h9⟩

/-! ## transactions the wallet builds -/

/-- well-formed calls: a block's outputs sit at their own coordinates (what `Block::generate` establishes), and a
    direct `add_slip` is made with the slip's own coordinates -/
def WfOp : Op → Prop
  | .addSlip b t s => CoordA b t s
  | .reorg blk true _ =>
    ∀ (j : Nat) (tx : Tx), blk.txs[j]? = some tx → ∀ a : UKey, a ∈ tx.to → a.owner = 0 → blk.id = a.bid ∧ j = a.tord
  | _ => True

/-- with `unwindKeepsCoords` repaired, every slip of a reachable wallet can be rebuilt from its stored coordinates -/
theorem coord_reachable (fl : Flags) (hf : fl.unwindKeepsCoords = true) (ops : List Op) (w : W)
    (hwf : ∀ op ∈ ops, WfOp op) (h : run fl init ops = some w) : Coord w := by
  refine run_cl Coord_closed fl ops init w Coord_init ?_ h
  intro op hop
  have := hwf op hop
  cases op with
  | addSlip b t s => exact this
  | reorg blk lc gp =>
    cases lc with
    | true => intro j tx hj a ha ho; exact ⟨ho, this j tx hj a ha ho⟩
    | false => intro j tx hj a ha ho; simp [UnwA, hf, CoordA, ho]
  | _ => trivial

/-- Repaired tree (`Flags.fixed`), full strength: a transaction returned by `create` has pairwise distinct inputs,
    every value-carrying input was listed as unspent when the call was made, and outputs + fee = inputs (the fee
    actually attached: `feeEff`, i.e. 0 when the requested fee exceeds the balance). Sums are natural numbers; the
    model's `create` itself refuses (panics, as the dev profile does) when payments + fee reach 2^64. -/
theorem built_tx_wellformed (fl : Flags) (hf : fl.createChecksUsable = true) (w w' : W) (keys pays : List Nat)
    (fee latest gp : Nat) (order ins outs : List UKey) (hw : WInv w) (hc : Coord w)
    (h : createTx fl w keys pays fee latest gp order = .tx w' ins outs) :
    ins.Nodup ∧ (∀ k ∈ ins, k.amount > 0 → k ∈ w.unspent) ∧ sumK outs + feeEff w fee = sumK ins := by
  obtain ⟨total, htot, hlen, _, h1 | h1⟩ := createTx_tx _ _ _ _ _ _ _ _ _ _ _ h
  · obtain ⟨hz, rfl, rfl, rfl⟩ := h1
    have ht := sumU64_eq _ _ htot
    refine ⟨by simp, by simp [zeroSlip], ?_⟩
    rw [sumK_payOuts _ _ hlen, ← ht]
    simp [sumK, zeroSlip]; omega
  · obtain ⟨hnz, go, hg, rfl, hreach⟩ := h1
    obtain ⟨chosen, hnd, hsub, hins, hgo, _, _, _, _, _, hre⟩ := generateSlips_spec _ _ _ _ _ _ _ _ hw hg
    have hmap : chosen.map inputOf = chosen.map (·.key) :=
      List.map_congr_left (fun ws hws => hc ws (hsub ws hws).1)
    have hsum : sumK ins = sumW chosen := by
      rw [hins]
      split
      · rename_i he
        have : chosen = [] := by simpa using he
        subst this; rfl
      · exact sumK_map_inputOf _
    have hr : total + feeEff w fee ≤ sumK ins := by
      have := hreach hf
      rw [hsum]
      rcases hre with h1 | h1
      · exact h1
      · omega
    refine ⟨?_, ?_, ?_⟩
    · rw [hins]; split
      · simp
      · rw [hmap]; exact hnd
    · intro k hk hpos
      rw [hins] at hk
      split at hk
      · simp only [List.mem_singleton] at hk; subst hk; simp [zeroSlip] at hpos
      · rw [hmap] at hk
        obtain ⟨ws, hws, rfl⟩ := List.mem_map.1 hk
        exact (hsub ws hws).2
    · rw [sumK_append, sumK_payOuts _ _ hlen, ← sumU64_eq _ _ htot, hgo, hsum]
      rw [hsum] at hr
      simp only [sumK, List.map_cons, List.map_nil, List.sum_cons, List.sum_nil, zeroSlip]
      split <;> omega

/-- the repaired wallet on the repaired-and-well-formed history: the statement above for every reachable state -/
theorem built_tx_wellformed_reachable (ops : List Op) (w w' : W) (hwf : ∀ op ∈ ops, WfOp op)
    (hrun : run Flags.fixed init ops = some w) (keys pays : List Nat) (fee latest gp : Nat) (order ins outs : List UKey)
    (h : createTx Flags.fixed w keys pays fee latest gp order = .tx w' ins outs) :
    ins.Nodup ∧ (∀ k ∈ ins, k.amount > 0 → k ∈ w.unspent) ∧ sumK outs + feeEff w fee = sumK ins :=
  built_tx_wellformed Flags.fixed rfl w w' keys pays fee latest gp order ins outs
    (reachable_inv _ ops w hrun) (coord_reachable _ rfl ops w hwf hrun) h

/-- … and therefore validates against the ledger it was built on: on a linear in-window history every
    value-carrying input is a spendable output of the C03 ledger owned by the wallet, and outputs ≤ inputs -/
theorem built_tx_validates (enc : UKey → Nat) (hinj : ∀ a b, enc a = enc b → a = b) (gp : Nat) (ops : List Op) (w w' : W)
    (hl : ∀ op ∈ ops, LinearOp gp op) (hcl : CleanOps enc [] ops) (hwf : ∀ op ∈ ops, WfOp op)
    (hrun : run Flags.fixed init ops = some w) (keys pays : List Nat) (fee latest g : Nat) (order ins outs : List UKey)
    (h : createTx Flags.fixed w keys pays fee latest g order = .tx w' ins outs) :
    (∀ k ∈ ins, k.amount > 0 → enc k ∈ ledger enc [] ops ∧ k.owner = 0) ∧ sumK outs ≤ sumK ins ∧ ins.Nodup := by
  obtain ⟨h1, h2, h3⟩ := built_tx_wellformed_reachable ops w w' hwf hrun keys pays fee latest g order ins outs h
  refine ⟨?_, by omega, h1⟩
  intro k hk ha
  have := (linear_matches_ledger enc hinj Flags.fixed gp ops w hl hcl hrun k).1 (h2 k hk ha)
  exact ⟨this.1, this.2.1⟩

/-- the same past the window (histories of any length, expiry included) -/
theorem built_tx_validates_window (enc : UKey → Nat) (hinj : ∀ a b, enc a = enc b → a = b) (gp : Nat) (ops : List Op)
    (w w' : W) (hl : WLinearOps gp 0 ops) (hcl : CleanOps enc [] ops) (hwf : ∀ op ∈ ops, WfOp op)
    (hrun : run Flags.fixed init ops = some w) (keys pays : List Nat) (fee latest g : Nat) (order ins outs : List UKey)
    (h : createTx Flags.fixed w keys pays fee latest g order = .tx w' ins outs) :
    (∀ k ∈ ins, k.amount > 0 → enc k ∈ ledger enc [] ops ∧ k.owner = 0 ∧ lastId 0 ops ≤ k.bid + gp) ∧
    sumK outs ≤ sumK ins ∧ ins.Nodup := by
  obtain ⟨h1, h2, h3⟩ := built_tx_wellformed_reachable ops w w' hwf hrun keys pays fee latest g order ins outs h
  refine ⟨?_, by omega, h1⟩
  intro k hk ha
  have := (linear_matches_ledger_window enc hinj Flags.fixed gp ops w hl hcl hrun k).1 (h2 k hk ha)
  exact ⟨this.1, this.2.1, this.2.2.2.1⟩

/-- Pinned tree, what still holds (`…_partial`; missing: distinctness / membership after an unwind of an own spend,
    and the balance equation when only slips near the window edge are left): as long as the stored coordinates are
    intact the inputs are distinct and were listed; whenever the selection reached the requested amount the
    transaction is balanced; and outputs never exceed inputs by more than the requested amount. -/
theorem built_tx_partial (fl : Flags) (w w' : W) (keys pays : List Nat) (fee latest gp : Nat)
    (order ins outs : List UKey) (hw : WInv w) (h : createTx fl w keys pays fee latest gp order = .tx w' ins outs) :
    (Coord w → ins.Nodup ∧ ∀ k ∈ ins, k.amount > 0 → k ∈ w.unspent) ∧
    (pays.sum + feeEff w fee ≤ sumK ins → sumK outs + feeEff w fee = sumK ins) ∧
    (sumK outs ≤ sumK ins + pays.sum) := by
  obtain ⟨total, htot, hlen, _, h1 | h1⟩ := createTx_tx _ _ _ _ _ _ _ _ _ _ _ h
  · obtain ⟨hz, rfl, rfl, rfl⟩ := h1
    have ht := sumU64_eq _ _ htot
    rw [sumK_payOuts _ _ hlen, ← ht]
    refine ⟨fun _ => ⟨by simp, by simp [zeroSlip]⟩, ?_, ?_⟩ <;> simp [sumK, zeroSlip] <;> omega
  · obtain ⟨hnz, go, hg, rfl, _⟩ := h1
    obtain ⟨chosen, hnd, hsub, hins, hgo, _⟩ := generateSlips_spec _ _ _ _ _ _ _ _ hw hg
    have hsum : sumK ins = sumW chosen := by
      rw [hins]
      split
      · rename_i he
        have : chosen = [] := by simpa using he
        subst this; rfl
      · exact sumK_map_inputOf _
    have ht := sumU64_eq _ _ htot
    refine ⟨?_, ?_, ?_⟩
    · intro hc
      have hmap : chosen.map inputOf = chosen.map (·.key) :=
        List.map_congr_left (fun ws hws => hc ws (hsub ws hws).1)
      refine ⟨?_, ?_⟩
      · rw [hins]; split
        · simp
        · rw [hmap]; exact hnd
      · intro k hk hpos
        rw [hins] at hk
        split at hk
        · simp only [List.mem_singleton] at hk; subst hk; simp [zeroSlip] at hpos
        · rw [hmap] at hk
          obtain ⟨ws, hws, rfl⟩ := List.mem_map.1 hk
          exact (hsub ws hws).2
    · intro hr
      rw [sumK_append, sumK_payOuts _ _ hlen, ← ht, hgo, hsum]
      rw [hsum, ← ht] at hr
      simp only [sumK, List.map_cons, List.map_nil, List.sum_cons, List.sum_nil, zeroSlip]
      split <;> omega
    · rw [sumK_append, sumK_payOuts _ _ hlen, hgo, hsum]
      simp only [sumK, List.map_cons, List.map_nil, List.sum_cons, List.sum_nil, zeroSlip]
      split <;> omega

/-! ## witnesses of the two defects of the pinned tree (and that the repaired flags remove them) -/

/-- block 2: key 2 pays the wallet 700 -/
def blkPay : Block :=
  { id := 2, txs := [{ id := 1, frm := [⟨2, 1, 0, 0, 1000, 0⟩], to := [⟨0, 2, 0, 0, 700, 0⟩, ⟨2, 2, 0, 1, 300, 0⟩] }] }
/-- block 3: the wallet's own transaction (700 → 400 change + 300 to key 2) -/
def blkSpend : Block :=
  { id := 3, txs := [{ id := 2, frm := [⟨0, 2, 0, 0, 700, 0⟩], to := [⟨0, 3, 0, 0, 400, 0⟩, ⟨2, 3, 0, 1, 300, 0⟩] }] }
/-- received 700, spent it (mined in block 3), block 3 is unwound by a reorganisation -/
def histUnwind : List Op :=
  [.reorg blkPay true 30, .create [2] [300] 0 2 30 [], .pend 2, .reorg blkSpend true 30, .reorg blkSpend false 30]

/-- inputs of the transaction the wallet builds next, and whether each was listed as unspent -/
def nextInputs (fl : Flags) (ops : List Op) (keys pays : List Nat) (fee latest gp : Nat) : Option (List (UKey × Bool)) :=
  match run fl init ops with
  | none => none
  | some w =>
    match createTx fl w keys pays fee latest gp [] with
    | .tx _ ins _ => some (ins.map fun k => (k, decide (k ∈ w.unspent)))
    | _ => none

/-- `unwindKeepsCoords = false`: after the unwind the wallet lists the 700 output again, but the transaction it
    builds spends "block 3, tx 0, slip 0, 700" — an output that never existed (the real one is in block 2) -/
theorem unwind_witness :
    nextInputs {} histUnwind [2] [100] 0 2 30 = some [(⟨0, 3, 0, 0, 700, 0⟩, false)] ∧
    nextInputs Flags.fixed histUnwind [2] [100] 0 2 30 = some [(⟨0, 2, 0, 0, 700, 0⟩, true)] := by
  decide +kernel

/-- two payments of 100 (blocks 2 and 3, both slip 0 of tx 0), both spent by one transaction mined in block 4,
    block 4 unwound: the next transaction lists the SAME (non-existent) input twice -/
def blkPayA : Block := { id := 2, txs := [{ id := 1, frm := [⟨2, 1, 0, 0, 1000, 0⟩], to := [⟨0, 2, 0, 0, 100, 0⟩] }] }
def blkPayB : Block := { id := 3, txs := [{ id := 2, frm := [⟨2, 1, 0, 1, 1000, 0⟩], to := [⟨0, 3, 0, 0, 100, 0⟩] }] }
def blkSpendAB : Block :=
  { id := 4, txs := [{ id := 3, frm := [⟨0, 3, 0, 0, 100, 0⟩, ⟨0, 2, 0, 0, 100, 0⟩],
                        to := [⟨0, 4, 0, 0, 0, 0⟩, ⟨2, 4, 0, 1, 200, 0⟩] }] }
def histDup : List Op :=
  [.reorg blkPayA true 30, .reorg blkPayB true 30, .create [2] [200] 0 3 30 [], .pend 3,
   .reorg blkSpendAB true 30, .reorg blkSpendAB false 30]

theorem duplicate_input_witness :
    nextInputs {} histDup [2] [150] 0 3 30 =
      some [(⟨0, 4, 0, 0, 100, 0⟩, false), (⟨0, 4, 0, 0, 100, 0⟩, false)] ∧
    nextInputs Flags.fixed histDup [2] [150] 0 3 30 =
      some [(⟨0, 2, 0, 0, 100, 0⟩, true), (⟨0, 3, 0, 0, 100, 0⟩, true)] := by
  decide +kernel

/-- balance and (Σ inputs, Σ outputs) of the transaction built next -/
def nextSums (fl : Flags) (ops : List Op) (keys pays : List Nat) (fee latest gp : Nat) :
    Option (Nat × Option (Nat × Nat)) :=
  (run fl init ops).map fun w => (w.balance,
    match createTx fl w keys pays fee latest gp [] with
    | .tx _ ins outs => some (sumK ins, sumK outs)
    | _ => none)

/-- `createChecksUsable = false`: genesis_period 6, 700 received in block 2, chain at block 7. The balance says 700,
    `generate_slips` refuses the slip (within one block of the window edge): the returned transaction has outputs
    300 and inputs 0. Repaired: the call is refused (no transaction). -/
theorem window_edge_witness :
    nextSums {} [.reorg blkPay true 6] [2] [300] 0 7 6 = some (700, some (0, 300)) ∧
    nextSums Flags.fixed [.reorg blkPay true 6] [2] [300] 0 7 6 = some (700, none) := by
  decide +kernel

/-! ## non-vacuity -/

/-- a reachable state with money in it: a payment, one spend built and mined, a second spend pending -/
def blkGen : Block := { id := 1, txs := [{ id := 0, frm := [], to := [⟨2, 1, 0, 0, 1000, 0⟩] }] }
def histLinear : List Op :=
  [.reorg blkGen true 30, .reorg blkPay true 30, .create [2] [300] 0 2 30 [], .pend 2, .reorg blkSpend true 30, .create [2] [50] 5 3 30 []]

example : (run {} init histLinear).map (fun w => (w.balance, w.unspent, committed w)) =
    some (0, [], [⟨0, 3, 0, 0, 400, 0⟩]) := by decide +kernel

/-- the hypotheses of `linear_matches_ledger` / `built_tx_validates` on the history are met by that one -/
example : (∀ op ∈ histLinear, LinearOp 30 op) ∧ (∀ op ∈ histLinear, WfOp op) := by
  constructor
  · intro op hop
    simp only [histLinear, List.mem_cons, List.mem_nil_iff, or_false] at hop
    rcases hop with rfl | rfl | rfl | rfl | rfl | rfl <;>
      simp [LinearOp, NoBoundBlock, NoBound, blkGen, blkPay, blkSpend, tBound]
  · intro op hop
    simp only [histLinear, List.mem_cons, List.mem_nil_iff, or_false] at hop
    rcases hop with rfl | rfl | rfl | rfl | rfl | rfl <;> simp [WfOp, blkGen, blkPay, blkSpend]
    all_goals
      intro j tx hj a ha ho
      match j, hj with
      | 0, hj => simp at hj; subst hj; simp at ha; rcases ha with rfl | rfl <;> simp_all
      | j + 1, hj => simp at hj

/-- … including `CleanOps` for a numbering that is injective on the keys involved (positional code) -/
def encSmall (k : UKey) : Nat := ((((k.owner * 16 + k.bid) * 16 + k.tord) * 16 + k.idx) * 4096 + k.amount) * 16 + k.typ

example : CleanOps encSmall [] histLinear := by
  simp only [CleanOps, CleanOp, histLinear, ledgerStep]
  refine ⟨?_, ?_, trivial, trivial, ?_, trivial, trivial⟩ <;> (unfold Saito.Chain.CleanAt; decide +kernel)

/-- `linear_matches_ledger_window` is not vacuous: genesis_period 2, blocks 1..5; the 700 of block 2 is rebroadcast by
    block 5 (an ATR-type output), the 50 of block 3 is dropped without rebroadcast and expires at block 6 -/
def histWindow : List Op :=
  [.reorg blkGen true 2, .reorg blkPay true 2,
   .reorg { id := 3, txs := [{ id := 5, frm := [⟨2, 2, 0, 1, 300, 0⟩], to := [⟨0, 3, 0, 0, 50, 0⟩, ⟨2, 3, 0, 1, 250, 0⟩] }] } true 2,
   .reorg { id := 4, txs := [{ id := 6, frm := [], to := [⟨2, 4, 0, 0, 1, 0⟩] }] } true 2,
   .reorg { id := 5, txs := [{ id := 7, frm := [], to := [⟨2, 5, 0, 0, 1, 0⟩] },
                              { id := 8, frm := [⟨0, 2, 0, 0, 700, 0⟩], to := [⟨0, 5, 1, 0, 700, 1⟩] }] } true 2,
   .reorg { id := 6, txs := [{ id := 9, frm := [], to := [⟨2, 6, 0, 0, 1, 0⟩] }] } true 2]

example : (run {} init histWindow).map (fun w => (w.balance, w.unspent)) = some (700, [⟨0, 5, 1, 0, 700, 1⟩]) := by
  decide +kernel

example : WLinearOps 2 0 histWindow ∧ CleanOps encSmall [] histWindow := by
  constructor
  · simp only [WLinearOps, WLinearOp, histWindow, curStep, blkGen, blkPay]
    simp [NoBoundBlock, NoBound, tBound]
    refine ⟨?_, ?_, ?_, ?_, ?_, ?_⟩ <;> intro j tx hj a ha ho <;>
      (match j, hj with
       | 0, hj => simp at hj; subst hj; simp at ha; (try rcases ha with rfl | rfl) <;> simp_all
       | 1, hj => simp at hj; (try (subst hj; simp at ha; (try rcases ha with rfl | rfl) <;> simp_all))
       | j + 2, hj => simp at hj)
  · simp only [CleanOps, CleanOp, histWindow, ledgerStep]
    refine ⟨?_, ?_, ?_, ?_, ?_, ?_, trivial⟩ <;> (unfold Saito.Chain.CleanAt; decide +kernel)

/-- `built_tx_wellformed` is not vacuous: the repaired wallet does build a balanced transaction (fee 5) -/
example : nextSums Flags.fixed [.reorg blkPay true 30] [2] [300] 5 2 30 = some (700, some (700, 695)) := by
  decide +kernel

end Saito.C19
