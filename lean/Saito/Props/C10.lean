import Saito.Lemmas.CodecTotal
/-!
# C10 — decoders are total
`*_total` theorems: for every byte string the decoder returns a value or an error, never `.panic`
(the model's `.panic` is exactly a Rust slice/assert/unwrap failure).
`*_witness` theorems: with a defect flag off (pinned behaviour) a concrete input panics.
`*_panic_only_if`: delimits the panic set of the pinned decoder, so a panic outside the class is a
disagreement with the model, not a known finding.
-/
namespace Saito.C10

theorem slip_total (bs : Bytes) : Slip.decode bs ≠ .panic := Slip.decode_ne_panic bs
theorem hop_total (bs : Bytes) : Hop.decode bs ≠ .panic := Hop.decode_ne_panic bs

/-- with the extent check in place, `Transaction::deserialize_from_net` is total -/
theorem tx_total_fixed (fl : CodecFlags) (hf : fl.txBounds = true) (bs : Bytes) :
    Tx.decode fl bs ≠ .panic := Tx.decode_total_fixed fl hf bs

/-- on every tree: a panic of the transaction decoder implies the claimed extent exceeds the buffer -/
theorem tx_panic_only_if (fl : CodecFlags) (bs : Bytes) (h : Tx.decode fl bs = .panic) :
    bs.length < txClaimed bs := by
  apply Nat.lt_of_not_le
  intro hle
  exact Tx.decode_ne_panic_of_extent fl bs hle h

/-- a 93-byte header that claims one input: the pinned decoder panics -/
def txWitness : Bytes := [0, 0, 0, 1] ++ List.replicate 89 0
theorem tx_witness : Tx.decode CodecFlags.pinned txWitness = .panic := by decide

end Saito.C10
