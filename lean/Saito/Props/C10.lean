import Saito.Lemmas.Msg
/-!
# C10 — decoders are total
`*_total` theorems: for every byte string the decoder returns a value or an error, never `.panic`
(the model's `.panic` is exactly a Rust slice/assert/unwrap failure).
`*_witness` theorems: with a defect flag off (pinned behaviour) a concrete input panics.
`*_panic_only_if`: delimits the panic set of the pinned decoder, so a panic outside the class is a
disagreement with the model, not a known finding.
-/
namespace Saito.C10

theorem slip_total (bs : Bytes) : Slip.decode bs ≠ .panic := Slip.decode_ne_panic bs
theorem hop_total (bs : Bytes) : Hop.decode bs ≠ .panic := Hop.decode_ne_panic bs

/-- with the extent check in place, `Transaction::deserialize_from_net` is total -/
theorem tx_total_fixed (fl : CodecFlags) (hf : fl.txBounds = true) (bs : Bytes) :
    Tx.decode fl bs ≠ .panic := Tx.decode_total_fixed fl hf bs

/-- on every tree: a panic of the transaction decoder implies the claimed extent exceeds the buffer -/
theorem tx_panic_only_if (fl : CodecFlags) (bs : Bytes) (h : Tx.decode fl bs = .panic) :
    bs.length < txClaimed bs := by
  apply Nat.lt_of_not_le
  intro hle
  exact Tx.decode_ne_panic_of_extent fl bs hle h

/-- a 93-byte header that claims one input: the pinned decoder panics -/
def txWitness : Bytes := [0, 0, 0, 1] ++ List.replicate 89 0
theorem tx_witness : Tx.decode CodecFlags.pinned txWitness = .panic := by decide

/-! ### blocks: total on every tree -/
theorem block_total (fl : CodecFlags) (bs : Bytes) : Block.decode fl bs ≠ .panic := Block.decode_ne_panic fl bs

/-! ### chain sync, golden ticket, wallet file -/
theorem ghost_total_fixed (fl : CodecFlags) (hf : fl.ghostBounds = true) (bs : Bytes) : Ghost.decode fl bs ≠ .panic :=
  Ghost.decode_ne_panic_fixed fl hf bs
/-- EXACT panic set of the pinned chain-sync decoder -/
theorem ghost_panic_iff (fl : CodecFlags) (hf : fl.ghostBounds = false) (bs : Bytes) :
    Ghost.decode fl bs = .panic ↔ (bs.length < 36 ∨ (bs.drop 36).length < fromBE ((bs.drop 32).take 4) * 82) :=
  Ghost.decode_panic_iff fl hf bs
theorem ghost_witness : Ghost.decode CodecFlags.pinned (List.replicate 10 0) = .panic := by decide
theorem gt_total_fixed (fl : CodecFlags) (hf : fl.gtTotal = true) (bs : Bytes) : GoldenTicket.decode fl bs ≠ .panic :=
  GoldenTicket.decode_ne_panic_fixed fl hf bs
theorem gt_panic_iff (fl : CodecFlags) (hf : fl.gtTotal = false) (bs : Bytes) :
    GoldenTicket.decode fl bs = .panic ↔ bs.length ≠ 97 := GoldenTicket.decode_panic_iff fl hf bs
theorem wallet_total_fixed (fl : CodecFlags) (hf : fl.walletTotal = true) (bs : Bytes) : WalletFile.decode fl bs ≠ .panic :=
  WalletFile.decode_ne_panic_fixed fl hf bs
theorem wallet_panic_iff (fl : CodecFlags) (hf : fl.walletTotal = false) (bs : Bytes) :
    WalletFile.decode fl bs = .panic ↔ bs.length < 65 := WalletFile.decode_panic_iff fl hf bs

/-! ### handshake, services, the whole message layer -/
theorem handshake_response_total (bs : Bytes) : HsResponse.decode bs ≠ .panic := HsResponse.decode_ne_panic bs
theorem services_total (bs : Bytes) : decServices bs ≠ .panic := decServices_ne_panic bs
/-- all 15 tags and every unknown tag: total once the transaction decoder checks bounds and the chain-sync payload
    is checked, either inside its decoder or by `Message::deserialize` before the decoder is called -/
theorem message_total_fixed (fl : CodecFlags) (h1 : fl.txBounds = true)
    (h2 : fl.ghostBounds = true ∨ fl.msgGhostChecked = true) (bs : Bytes) :
    Msg.decode fl bs ≠ .panic := Msg.decode_ne_panic_fixed fl h1 h2 bs
/-- on every tree a message can only panic through tag 4 or tag 10 (so a panic under any other tag is a
    disagreement with the model, never a listed finding) -/
theorem message_panic_only_tags (fl : CodecFlags) (bs : Bytes) (h : Msg.decode fl bs = .panic) :
    ∃ b, (bs = 4 :: b ∧ Tx.decode fl b = .panic) ∨ (bs = 10 :: b ∧ Ghost.decode fl b = .panic) :=
  Msg.decode_panic_only_tags fl bs h

end Saito.C10
