import Saito.Gen.Consts
/-! C05 (Tie A): the ticket-window constants hard-wired in `Saito.Chain.gtCountValid` (walk of 5 = DENOMINATOR − 1
    predecessors, 2 = NUMERATOR tickets, start-up escape below DENOMINATOR − NUMERATOR = 4) are those of defs.rs,
    regenerated from the source on every run. -/
namespace Saito.C05Gen
open Saito.Gen
theorem ticket_constants_tied :
    const "MIN_GOLDEN_TICKETS_NUMERATOR" = some 2 ∧ const "MIN_GOLDEN_TICKETS_DENOMINATOR" = some 6 := by decide
end Saito.C05Gen
