import Saito.Gen.Consts
/-! C16 (Tie A): the retry bound used by the scheduler model (`Cfg.maxRetries := 500`) is `MAX_RETRIES_PER_BLOCK`
    of blockchain_sync_state.rs, regenerated from the source on every run. -/
namespace Saito.C16Gen
open Saito.Gen
theorem retry_constant_tied : const "MAX_RETRIES_PER_BLOCK" = some 500 := by decide
end Saito.C16Gen
