import Saito.Lemmas.TxValidate
/-!
# C06 — a block's identity binds its content and its creator

Block identity as terms (`Saito.TxV.IBlock`, `Hashes`): `hash b = H2 prev (H1 signedHeader)`, the signed header holds
id, timestamp, previous hash, creator, the transaction commitment `root` and the numeric consensus fields; the
commitment is `M` over the ordered leaf hashes `L content inputKeys`; signatures are idealised (`Sig`: who signed
which digest). The digest type is abstract; the theorems assume the combiners injective (`InjHashes`), and
`freeHashes_inj` shows the hypotheses are satisfiable (free terms).

* `C06_full` / `C06_full_strong` — two accepted blocks with the same hash have the same creator and the same ordered
  transaction hashes (repaired `merkleAlwaysCompared`); the same transactions *including which outputs they spend* when
  `inputLocationSigned` is repaired too.
* `C06_repaired` / `C06_repaired_strong` / `C06_strong_of` — the same for every flag vector with the eight repairs
  (`Repaired8`; only `merkleAlwaysCompared` is used), the strong form under `inputLocationSigned`;
  `inputLocationSigned_witness_measured`, `strong_form_fails_measured`: on the measured vector the strong form fails.
* `edit_*` — every change / addition / removal / reordering of the transaction list after signing, and every header
  change without the creator's signature, makes the block unacceptable.
* `merkleAlwaysCompared_witness`, `inputLocationSigned_witness` — the pinned behaviour accepts both blocks.
* `wire_checks_header_only` — `verify_block` looks at id and header hash only.
-/
namespace Saito.C06
open Saito.TxV

variable {δ : Type} [DecidableEq δ]

/-- collision-freeness of the four combiners, as injectivity of the terms -/
structure InjHashes (hs : Hashes δ) : Prop where
  h1 : Function.Injective hs.H1
  h2 : ∀ a b a' b', hs.H2 a b = hs.H2 a' b' → a = a' ∧ b = b'
  l : ∀ c k c' k', hs.L c k = hs.L c' k' → c = c' ∧ k = k'
  m : Function.Injective hs.M

omit [DecidableEq δ] in
/-- the hash determines the signed header (and conversely) -/
theorem hash_eq_iff (hs : Hashes δ) (inj : InjHashes hs) (b b' : IBlock δ) :
    blockHash hs b = blockHash hs b' ↔ b.hdr = b'.hdr := by
  constructor
  · intro h
    exact inj.h1 (inj.h2 _ _ _ _ h).2
  · intro h
    simp [blockHash, preHash, h]

omit [DecidableEq δ] in
theorem map_leaf_inj (hs : Hashes δ) (inj : InjHashes hs) (fl : Flags) :
    ∀ (l l' : List TxId), l.map (leafOf hs fl) = l'.map (leafOf hs fl) →
      l.map (·.content) = l'.map (·.content) ∧ (fl.inputLocationSigned = true → l = l') := by
  intro l
  induction l with
  | nil =>
    intro l' h
    cases l' with
    | nil => simp
    | cons _ _ => simp at h
  | cons t ts ih =>
    intro l' h
    cases l' with
    | nil => simp at h
    | cons t' ts' =>
      simp only [List.map_cons, List.cons.injEq] at h
      obtain ⟨h1, h2⟩ := h
      obtain ⟨i1, i2⟩ := ih ts' h2
      obtain ⟨c, k⟩ := inj.l _ _ _ _ h1
      refine ⟨by simp [c, i1], fun hf => ?_⟩
      simp only [hf, if_true] at k
      have : t = t' := by cases t; cases t'; simp_all
      rw [this, i2 hf]

theorem accepts_spec (hs : Hashes δ) (fl : Flags) (b : IBlock δ) (h : idAccepts hs fl b = true) :
    b.sig.signer = b.hdr.creator ∧ b.sig.msg = preHash hs b ∧ b.restOk = true ∧
    (fl.merkleAlwaysCompared = true → b.hdr.root = rootOf hs fl b.txs) := by
  simp only [idAccepts, sigValid, Bool.and_eq_true, beq_iff_eq, Bool.or_eq_true, Bool.not_eq_true'] at h
  obtain ⟨⟨⟨h1, h2⟩, h3⟩, h4⟩ := h
  refine ⟨h1, h2, h3, fun hf => ?_⟩
  rcases h4 with h4 | h4
  · rw [hf] at h4; cases h4
  · exact h4

/-- **C06.** Two blocks the node accepts under the same hash have the same signed header — hence the same creator,
    parent, id, timestamp — were both signed by that creator, and carry the same ordered transaction hashes. -/
theorem C06_full (hs : Hashes δ) (inj : InjHashes hs) (fl : Flags) (hf : fl.merkleAlwaysCompared = true)
    (b b' : IBlock δ) (ha : idAccepts hs fl b = true) (ha' : idAccepts hs fl b' = true)
    (hh : blockHash hs b = blockHash hs b') :
    b.txs.map (leafOf hs fl) = b'.txs.map (leafOf hs fl)
      ∧ b.txs.map (·.content) = b'.txs.map (·.content)
      ∧ b.hdr.creator = b'.hdr.creator ∧ b.sig.signer = b'.sig.signer ∧ b.hdr = b'.hdr := by
  have hhdr := (hash_eq_iff hs inj b b').1 hh
  obtain ⟨s1, _, _, r1⟩ := accepts_spec hs fl b ha
  obtain ⟨s2, _, _, r2⟩ := accepts_spec hs fl b' ha'
  have hroot : rootOf hs fl b.txs = rootOf hs fl b'.txs := by rw [← r1 hf, ← r2 hf, hhdr]
  have hl := inj.m hroot
  refine ⟨hl, (map_leaf_inj hs inj fl _ _ hl).1, by rw [hhdr], by rw [s1, s2, hhdr], hhdr⟩

/-- **C06 on every tree with the eight repairs** (`Repaired8`, in particular the measured vector): `C06_full` as it
    stands — its proof uses `merkleAlwaysCompared` and no other flag (`txVerdictPropagated` plays no role here: block
    identity does not look at transaction verdicts). The `edit_*` theorems below are stated for every `fl` with
    `merkleAlwaysCompared = true` already, so they apply to every such tree as well. -/
theorem C06_repaired (hs : Hashes δ) (inj : InjHashes hs) (fl : Flags) (hr : Repaired8 fl)
    (b b' : IBlock δ) (ha : idAccepts hs fl b = true) (ha' : idAccepts hs fl b' = true)
    (hh : blockHash hs b = blockHash hs b') :
    b.txs.map (leafOf hs fl) = b'.txs.map (leafOf hs fl)
      ∧ b.txs.map (·.content) = b'.txs.map (·.content)
      ∧ b.hdr.creator = b'.hdr.creator ∧ b.sig.signer = b'.sig.signer ∧ b.hdr = b'.hdr :=
  C06_full hs inj fl hr.merkleAlwaysCompared b b' ha ha' hh

/-- the strong form for every flag vector with `merkleAlwaysCompared` and `inputLocationSigned` repaired: the two
    blocks contain the same ordered transaction set outright — same signed content AND same outputs spent -/
theorem C06_strong_of (hs : Hashes δ) (inj : InjHashes hs) (fl : Flags) (hm : fl.merkleAlwaysCompared = true)
    (hl : fl.inputLocationSigned = true) (b b' : IBlock δ)
    (ha : idAccepts hs fl b = true) (ha' : idAccepts hs fl b' = true)
    (hh : blockHash hs b = blockHash hs b') : b.txs = b'.txs ∧ b.hdr = b'.hdr ∧ b.sig.signer = b'.sig.signer := by
  obtain ⟨hleaf, _, _, hs', hhdr⟩ := C06_full hs inj fl hm b b' ha ha' hh
  exact ⟨(map_leaf_inj hs inj fl _ _ hleaf).2 hl, hhdr, hs'⟩

/-- … in particular for a tree with the eight repairs once `inputLocationSigned` is repaired too. On the measured
    vector (`inputLocationSigned = false`) the strong form FAILS: `inputLocationSigned_witness_measured` — that
    finding stays open. -/
theorem C06_repaired_strong (hs : Hashes δ) (inj : InjHashes hs) (fl : Flags) (hr : Repaired8 fl)
    (hl : fl.inputLocationSigned = true) (b b' : IBlock δ)
    (ha : idAccepts hs fl b = true) (ha' : idAccepts hs fl b' = true)
    (hh : blockHash hs b = blockHash hs b') : b.txs = b'.txs ∧ b.hdr = b'.hdr ∧ b.sig.signer = b'.sig.signer :=
  C06_strong_of hs inj fl hr.merkleAlwaysCompared hl b b' ha ha' hh

/-- with the input location signed as well, the two blocks contain the same ordered transaction set outright:
    same signed content AND same outputs spent -/
theorem C06_full_strong (hs : Hashes δ) (inj : InjHashes hs) (b b' : IBlock δ)
    (ha : idAccepts hs Flags.fixed b = true) (ha' : idAccepts hs Flags.fixed b' = true)
    (hh : blockHash hs b = blockHash hs b') : b.txs = b'.txs ∧ b.hdr = b'.hdr ∧ b.sig.signer = b'.sig.signer :=
  C06_strong_of hs inj Flags.fixed rfl rfl b b' ha ha' hh

/-! ## edits after signing -/

/-- any edit of the transaction list that changes the ordered list of transaction hashes, the header left as signed:
    unacceptable -/
theorem edit_tx_list_rejected (hs : Hashes δ) (inj : InjHashes hs) (fl : Flags) (hf : fl.merkleAlwaysCompared = true)
    (b b' : IBlock δ) (ha : idAccepts hs fl b = true) (hhdr : b'.hdr = b.hdr)
    (hne : b'.txs.map (leafOf hs fl) ≠ b.txs.map (leafOf hs fl)) : idAccepts hs fl b' = false := by
  cases h : idAccepts hs fl b' with
  | false => rfl
  | true =>
    exfalso
    have r1 := (accepts_spec hs fl b ha).2.2.2 hf
    have r2 := (accepts_spec hs fl b' h).2.2.2 hf
    rw [hhdr, r1] at r2
    exact hne (inj.m r2).symm

/-- remove / add / duplicate: a transaction list of another length -/
theorem edit_add_or_remove_rejected (hs : Hashes δ) (inj : InjHashes hs) (fl : Flags)
    (hf : fl.merkleAlwaysCompared = true) (b b' : IBlock δ) (ha : idAccepts hs fl b = true) (hhdr : b'.hdr = b.hdr)
    (hlen : b'.txs.length ≠ b.txs.length) : idAccepts hs fl b' = false := by
  apply edit_tx_list_rejected hs inj fl hf b b' ha hhdr
  intro h
  have := congrArg List.length h
  simp at this
  exact hlen this

/-- change: one transaction replaced by one with another hash (other content; with `inputLocationSigned` also:
    other outputs spent) -/
theorem edit_change_rejected (hs : Hashes δ) (inj : InjHashes hs) (fl : Flags) (hf : fl.merkleAlwaysCompared = true)
    (b b' : IBlock δ) (ha : idAccepts hs fl b = true) (hhdr : b'.hdr = b.hdr)
    (pre post : List TxId) (t t' : TxId) (h1 : b.txs = pre ++ t :: post) (h2 : b'.txs = pre ++ t' :: post)
    (hne : leafOf hs fl t' ≠ leafOf hs fl t) : idAccepts hs fl b' = false := by
  apply edit_tx_list_rejected hs inj fl hf b b' ha hhdr
  rw [h1, h2]
  intro h
  simp only [List.map_append, List.map_cons, List.append_cancel_left_eq, List.cons.injEq] at h
  exact hne h.1

/-- reorder: two transactions with different hashes swapped -/
theorem edit_swap_rejected (hs : Hashes δ) (inj : InjHashes hs) (fl : Flags) (hf : fl.merkleAlwaysCompared = true)
    (b b' : IBlock δ) (ha : idAccepts hs fl b = true) (hhdr : b'.hdr = b.hdr)
    (pre mid post : List TxId) (t s : TxId) (h1 : b.txs = pre ++ t :: (mid ++ s :: post))
    (h2 : b'.txs = pre ++ s :: (mid ++ t :: post)) (hne : leafOf hs fl s ≠ leafOf hs fl t) :
    idAccepts hs fl b' = false := by
  apply edit_tx_list_rejected hs inj fl hf b b' ha hhdr
  rw [h1, h2]
  intro h
  simp only [List.map_append, List.map_cons, List.append_cancel_left_eq, List.cons.injEq] at h
  exact hne h.1

/-- a header changed after signing (commitment, creator, id, timestamp, parent, any numeric field) with the old
    signature: unacceptable, on every tree (no flag needed) -/
theorem edit_header_rejected (hs : Hashes δ) (inj : InjHashes hs) (fl : Flags) (b b' : IBlock δ)
    (ha : idAccepts hs fl b = true) (hsig : b'.sig = b.sig) (hne : b'.hdr ≠ b.hdr) : idAccepts hs fl b' = false := by
  cases h : idAccepts hs fl b' with
  | false => rfl
  | true =>
    exfalso
    have m1 := (accepts_spec hs fl b ha).2.1
    have m2 := (accepts_spec hs fl b' h).2.1
    rw [hsig, m1] at m2
    exact hne (inj.h1 m2).symm

/-- a block re-signed by a key that is not the stated creator: unacceptable, on every tree -/
theorem edit_foreign_signature_rejected (hs : Hashes δ) (fl : Flags) (b : IBlock δ)
    (hne : b.sig.signer ≠ b.hdr.creator) : idAccepts hs fl b = false := by
  cases h : idAccepts hs fl b with
  | false => rfl
  | true => exact absurd (accepts_spec hs fl b h).1 hne

/-- `verify_block` (the wire check) compares the advertised id and hash with the decoded header only: the
    transactions carried play no role -/
theorem wire_checks_header_only (hs : Hashes δ) (advId : Nat) (advHash : δ) (b : IBlock δ) (txs' : List TxId) :
    wireForwards hs advId advHash { b with txs := txs' } = wireForwards hs advId advHash b := rfl

/-- the wire check against the original's id and hash passes exactly for blocks with the original's signed header -/
theorem wire_iff (hs : Hashes δ) (inj : InjHashes hs) (orig b : IBlock δ) :
    wireForwards hs orig.hdr.id (blockHash hs orig) b = true ↔ b.hdr = orig.hdr := by
  simp only [wireForwards, Bool.and_eq_true, beq_iff_eq]
  constructor
  · rintro ⟨_, h⟩; exact (hash_eq_iff hs inj b orig).1 h
  · intro h; exact ⟨by rw [h], (hash_eq_iff hs inj b orig).2 h⟩

/-! ## non-vacuity: free terms are injective combiners; witnesses on them -/

/-- digests as free terms -/
inductive HT where
  | atom (n : Nat)
  | leaf (content : Nat) (keys : List Nat)
  | nil
  | cons (h t : HT)
  | pre (id ts : Nat) (prev : HT) (creator : Nat) (root : HT) (num : List Nat)
  | pair (a b : HT)
  deriving DecidableEq, Repr

def commitList : List HT → HT
  | [] => .nil
  | h :: t => .cons h (commitList t)

def freeHashes : Hashes HT where
  H1 := fun h => .pre h.id h.timestamp h.prev h.creator h.root h.numeric
  H2 := .pair
  L := .leaf
  M := commitList

theorem commitList_inj : Function.Injective commitList := by
  intro l
  induction l with
  | nil => intro l' h; cases l' <;> simp [commitList] at h ⊢
  | cons a t ih =>
    intro l' h
    cases l' with
    | nil => simp [commitList] at h
    | cons a' t' =>
      simp only [commitList, HT.cons.injEq] at h
      rw [h.1, ih h.2]

/-- the hypotheses of the C06 theorems are satisfiable -/
theorem freeHashes_inj : InjHashes freeHashes where
  h1 := by
    intro a b h
    cases a; cases b
    simp only [freeHashes, HT.pre.injEq] at h
    simp_all
  h2 := by intro a b a' b' h; simpa [freeHashes] using h
  l := by intro c k c' k' h; simpa [freeHashes] using h
  m := commitList_inj

def tA : TxId := { content := 11, inKeys := [1] }
def tB : TxId := { content := 12, inKeys := [2] }
def tB' : TxId := { content := 12, inKeys := [7] }

def hdr0 : Header HT :=
  { id := 4, timestamp := 1000, prev := .atom 3, creator := 6, root := rootOf freeHashes Flags.pinned [tA, tB], numeric := [] }

/-- an honest block: creator 6 signs the header that commits to `[tA, tB]` -/
def blk0 : IBlock HT := { hdr := hdr0, sig := { signer := 6, msg := freeHashes.H1 hdr0 }, txs := [tA, tB] }

/-- block.rs:3113 — two transactions swapped after signing: same hash, still accepted (pinned); refused once the
    commitment is always compared -/
theorem merkleAlwaysCompared_witness :
    let swapped : IBlock HT := { blk0 with txs := [tB, tA] }
    idAccepts freeHashes Flags.pinned blk0 = true ∧ idAccepts freeHashes Flags.pinned swapped = true
    ∧ blockHash freeHashes swapped = blockHash freeHashes blk0
    ∧ idAccepts freeHashes { Flags.pinned with merkleAlwaysCompared := true } blk0 = true
    ∧ idAccepts freeHashes { Flags.pinned with merkleAlwaysCompared := true } swapped = false := by decide

/-- dropping a transaction after signing: same hash, still accepted (pinned) -/
theorem merkleAlwaysCompared_witness_drop :
    let dropped : IBlock HT := { blk0 with txs := [tA] }
    idAccepts freeHashes Flags.pinned dropped = true ∧ blockHash freeHashes dropped = blockHash freeHashes blk0
    ∧ idAccepts freeHashes { Flags.pinned with merkleAlwaysCompared := true } dropped = false := by decide

/-- slip.rs:199 — an input re-pointed to another output (same owner, amount, index, type): the transaction hash, the
    commitment and the block hash are unchanged, so even with the commitment always compared both blocks are accepted
    under one hash although they spend different outputs; refused once the location is signed -/
theorem inputLocationSigned_witness :
    let fl : Flags := { Flags.pinned with merkleAlwaysCompared := true }
    let repointed : IBlock HT := { blk0 with txs := [tA, tB'] }
    idAccepts freeHashes fl blk0 = true ∧ idAccepts freeHashes fl repointed = true
    ∧ blockHash freeHashes repointed = blockHash freeHashes blk0 ∧ repointed.txs ≠ blk0.txs
    ∧ (let hdrF : Header HT := { hdr0 with root := rootOf freeHashes Flags.fixed [tA, tB] }
       let blkF : IBlock HT := { hdr := hdrF, sig := { signer := 6, msg := freeHashes.H1 hdrF }, txs := [tA, tB] }
       idAccepts freeHashes Flags.fixed blkF = true
       ∧ idAccepts freeHashes Flags.fixed { blkF with txs := [tA, tB'] } = false) := by decide

/-- slip.rs:199 on the measured vector (eight repairs in place, `inputLocationSigned` still open): the honest block
    and the block with one input re-pointed are both accepted under ONE hash although they spend different outputs.
    So `C06_repaired` holds of the measured vector (non-vacuously), the conclusion `b.txs = b'.txs` of
    `C06_full_strong` does not. -/
theorem inputLocationSigned_witness_measured :
    let repointed : IBlock HT := { blk0 with txs := [tA, tB'] }
    rootOf freeHashes Flags.measured [tA, tB] = hdr0.root
    ∧ idAccepts freeHashes Flags.measured blk0 = true ∧ idAccepts freeHashes Flags.measured repointed = true
    ∧ blockHash freeHashes repointed = blockHash freeHashes blk0 ∧ repointed.txs ≠ blk0.txs
    ∧ idAccepts freeHashes { Flags.measured with inputLocationSigned := true } repointed = false := by decide

/-- … stated against the theorem: the strong form is false of the measured vector -/
theorem strong_form_fails_measured :
    ¬ (∀ (b b' : IBlock HT), idAccepts freeHashes Flags.measured b = true → idAccepts freeHashes Flags.measured b' = true →
        blockHash freeHashes b = blockHash freeHashes b' → b.txs = b'.txs) := by
  intro h
  have := h blk0 { blk0 with txs := [tA, tB'] } (by decide) (by decide) (by decide)
  revert this
  decide

/-- non-vacuity of `C06_full_strong`: an accepted block under the repaired flags -/
example :
    let hdrF : Header HT := { hdr0 with root := rootOf freeHashes Flags.fixed [tA, tB] }
    idAccepts freeHashes Flags.fixed
      { hdr := hdrF, sig := { signer := 6, msg := freeHashes.H1 hdrF }, txs := [tA, tB] } = true := by decide

/-! ### placeholders: the one transaction type whose merkle leaf is not a hash of its content

The leaf of an `SPV`-typed transaction is a field its sender chooses (the first half of its signature field), so a placeholder
can be made to hash like ANY transaction it displaces: `InjHashes.l` (leaf = hash of content and input keys) is the right
assumption only for blocks without placeholders. The rule `fullBlockNoSpv` — a block validated by a full node contains none,
whatever their replacement count — is what closes this; the correspondence suite measures it (flag `nospv`) and offers blocks in
which a transaction was swapped for a placeholder with the same leaf. -/

/-- with the rule in force no transaction of a block that passes block validation is a placeholder -/
theorem accepted_block_has_no_placeholder (fl : Flags) (hf : fl.fullBlockNoSpv = true) (bc : BCtx) (u : List Nat) (txs : List Tx)
    (h : blockValidate fl bc u txs = true) : txs.any (isType .spv) = false := by
  simp only [blockValidate, hf, Bool.and_eq_true, Bool.true_and, Bool.not_eq_true'] at h
  exact h.1.1.2

/-- … and for every outcome of `addBlock` other than "invalid" / "generate fails" -/
theorem added_block_has_no_placeholder (fl : Flags) (hf : fl.fullBlockNoSpv = true) (bc : BCtx) (u : List Nat) (txs : List Tx)
    (h : addBlock fl bc u txs = .accepted ∨ addBlock fl bc u txs = .supplyPanic) : txs.any (isType .spv) = false := by
  by_cases hv : blockValidate fl bc u txs = true
  · exact accepted_block_has_no_placeholder fl hf bc u txs hv
  · exfalso
    unfold addBlock at h
    split at h
    · rcases h with h | h <;> cases h
    · simp only [hv, Bool.not_true, Bool.false_eq_true, not_false_eq_true, if_true, Bool.not_false] at h
      rcases h with h | h <;> cases h

/-- without the rule (the pinned behaviour, and a tree that exempts placeholders with replacement count 1) a block holding a
    value-less placeholder passes block validation: concrete witness on the otherwise repaired vector -/
theorem placeholder_witness :
    let p : Tx := { typ := .spv, sigOk := false, signer := 99, inputs := [], outputs := [] }
    let bc : BCtx := { id := 3, hsig := true, hdr := true, atrOk := true, rootMatches := true, cx := { vau := true, ssr := 0 } }
    blockValidate { Flags.fixed with fullBlockNoSpv := false } bc [] [p] = true
    ∧ blockValidate Flags.fixed bc [] [p] = false := by decide

end Saito.C06
