import Saito.Lemmas.ChainState
import Saito.Lemmas.StateInv
/-!
# C05 — fork choice
Decision logic of `is_new_chain_the_longest_chain` and `is_golden_ticket_count_valid_` stated outright, the
ticket-window constants tied to defs.rs by `Gen/Consts`, and kernel-checked witnesses of the two defects of the
pinned tree (orphan branch edits the index; ticket density checked at the new tip only).
-/
namespace Saito.C05
open Saito.Chain

/-- the tip is only ever asked to move to a chain that is strictly longer, at least as heavy over the
    diverging segment, and whose tip id is above the current one (or the node has no chain yet) -/
theorem longest_only_if (st : State) (newC oldC : List Nat) (lid : Nat) (h : isLongest st newC oldC lid = true) :
    st.ringEmpty = true ∨
      (oldC.length < newC.length ∧ sumBf st oldC ≤ sumBf st newC ∧
        ∃ h0 e0, newC.head? = some h0 ∧ getB st h0 = some e0 ∧ lid < e0.b.id) := by
  unfold isLongest at h
  split at h
  · left; assumption
  · right
    split at h
    · simp at h
    · split at h
      · simp at h
      · rename_i h0 hh
        split at h
        · simp at h
        · rename_i e0 he
          split at h
          · simp at h
          · rename_i hlt
            simp only [Bool.and_eq_true, decide_eq_true_eq] at h
            exact ⟨h.1, h.2, h0, e0, hh, he, by omega⟩

/-- conversely: a strictly longer, at-least-as-heavy candidate with a higher tip is chosen -/
theorem longest_if (st : State) (newC oldC : List Nat) (lid h0 : Nat) (e0 : BEntry)
    (hne : st.ringEmpty = false) (hh : newC.head? = some h0) (he : getB st h0 = some e0)
    (hlen : oldC.length < newC.length) (hbf : sumBf st oldC ≤ sumBf st newC) (hid : lid < e0.b.id) :
    isLongest st newC oldC lid = true := by
  unfold isLongest
  simp [hne, hh, he, hlen, hbf]
  constructor <;> omega

/-- an equally long candidate never wins (no flip-flopping between equal forks) -/
theorem equal_length_never_wins (st : State) (newC oldC : List Nat) (lid : Nat)
    (hne : st.ringEmpty = false) (hlen : oldC.length = newC.length) :
    isLongest st newC oldC lid = false := by
  unfold isLongest
  simp only [hne, hlen]
  split
  · simp_all
  · split
    · rfl
    · split
      · rfl
      · split
        · rfl
        · simp

/-- ticket rule as the code applies it: with five predecessors available (past start-up) a block passes only
    if its six-block window holds at least two tickets; with exactly four, at least one -/
theorem ticket_rule (st : State) (prev : Nat) (hasGT : Bool) (h : gtCountValid st prev hasGT = true) :
    ((gtWalk st 5 prev).1 = 5 → (gtWalk st 5 prev).2 + (if hasGT then 1 else 0) ≥ 2) ∧
    ((gtWalk st 5 prev).1 = 4 → (gtWalk st 5 prev).2 + (if hasGT then 1 else 0) ≥ 1) := by
  unfold gtCountValid at h
  generalize gtWalk st 5 prev = w at *
  obtain ⟨d, f⟩ := w
  simp only at h ⊢
  constructor
  · intro hd
    subst hd
    cases hasGT <;> simp at h ⊢ <;> omega
  · intro hd
    subst hd
    cases hasGT <;> simp at h ⊢ <;> omega

/-- start-up escape quoted from the code: fewer than `DENOMINATOR − NUMERATOR = 4` predecessors ⇒ accepted -/
theorem ticket_rule_startup (st : State) (prev : Nat) (hasGT : Bool) (h : (gtWalk st 5 prev).1 < 4) :
    gtCountValid st prev hasGT = true := by
  unfold gtCountValid
  generalize gtWalk st 5 prev = w at *
  obtain ⟨d, f⟩ := w
  simp only at h ⊢
  simp [h]

/-! ### witnesses of the pinned defects (model states produced by the model's own `addBlock`) -/
def blk (h p i : Nat) (gt : Bool := true) (bf : Nat := 10) : ABlock :=
  { hash := h, prev := p, id := i, burnfee := bf, hasGT := gt, ok := true, ins := [], outs := [] }

def deliver (fl : Flags) (bs : List ABlock) : State :=
  bs.foldl (fun s b => (addBlock fl s b []).1) { gp := 100 }

/-- chain 1←2←3←4 is the tip; block 6 (id 3, parent 5 unknown) arrives: the pinned orphan branch clears the
    index entry of height 4 and the reported tip height DROPS from 4 to 3 -/
theorem orphan_witness :
    latest (deliver {} [blk 1 0 1, blk 2 1 2, blk 3 2 3, blk 4 3 4]) = some (4, 4) ∧
    latest (deliver {} [blk 1 0 1, blk 2 1 2, blk 3 2 3, blk 4 3 4, blk 6 5 3]) = some (3, 3) := by
  decide +kernel

/-- with the repaired orphan handling the same delivery leaves tip and index untouched -/
theorem orphan_fixed_example :
    let fl : Flags := { orphanInert := true }
    latest (deliver fl [blk 1 0 1, blk 2 1 2, blk 3 2 3, blk 4 3 4, blk 6 5 3]) = some (4, 4) ∧
    lcDump (deliver fl [blk 1 0 1, blk 2 1 2, blk 3 2 3, blk 4 3 4, blk 6 5 3]) =
      lcDump (deliver fl [blk 1 0 1, blk 2 1 2, blk 3 2 3, blk 4 3 4]) := by
  decide +kernel

/-- main chain 1←2←…←9 with tickets, side chain 11…19 from genesis: seven ticket-less blocks then two with
    tickets, each heavier. Pinned rule (density at the new tip only) adopts the side chain although its
    interior six-block windows hold no ticket at all; the repaired rule (`gtEveryBlock`) does not. -/
def gtMain : List ABlock := [blk 1 0 1, blk 2 1 2, blk 3 2 3, blk 4 3 4, blk 5 4 5, blk 6 5 6, blk 7 6 7, blk 8 7 8, blk 9 8 9]
def gtSide : List ABlock :=
  [blk 11 1 2 false 20, blk 12 11 3 false 20, blk 13 12 4 false 20, blk 14 13 5 false 20, blk 15 14 6 false 20,
   blk 16 15 7 false 20, blk 17 16 8 false 20, blk 18 17 9 true 20, blk 19 18 10 true 20]

theorem ticket_density_witness :
    latest (deliver {} (gtMain ++ gtSide)) = some (10, 19) ∧
    latest (deliver { gtEveryBlock := true } (gtMain ++ gtSide)) = some (9, 9) := by
  decide +kernel


def wblk (h p i : Nat) (ins outs : List Nat) : ABlock :=
  { hash := h, prev := p, id := i, burnfee := 10, hasGT := true, ok := true, ins := ins, outs := outs }

/-- the first `n` deliveries of: genesis 1, chain 1←2←3, side blocks 4 (child of 1) and 5 (child of 4) -/
def deliverW (n : Nat) : State :=
  ([wblk 1 0 1 [] [10, 11], wblk 2 1 2 [10] [12], wblk 3 2 3 [12] [13], wblk 4 1 2 [10] [14],
    wblk 5 4 3 [14, 11] [15]].take n).foldl
    (fun s b => (addBlock { ringDeleteKeepsNone := true, windFailureRestores := true, txVerdict := true } s b []).1)
    { gp := 100 }

/-! ### fork choice at state level (under the state invariant, `Saito/Lemmas/StateInv.lean`) -/

/-- **The tip height never drops.**  Repaired tree, state satisfying the invariant, non-orphan delivery: the
    id reported by `latest` after `add_block` is at least the id reported before — whatever the outcome. -/
theorem tip_height_monotone (fl : Flags) (hd : fl.ringDeleteKeepsNone = true) (hf : fl.windFailureRestores = true)
    (hv : fl.txVerdict = true) (st : State) (b : ABlock) (q : List Nat) (h : StInv st) (d : Deliverable st b) :
    ∃ i hi j hj, latest st = some (i, hi) ∧ latest (addBlock fl st b q).1 = some (j, hj) ∧ i ≤ j := by
  obtain ⟨lc, h⟩ := h
  obtain ⟨hi, hlat⟩ := h.latest_len
  rcases addBlock_cases fl hd hf hv h d q with h1 | h1 | ⟨_, P, O, N, e1, h2, hlen, _⟩
  · obtain ⟨hj, hlat'⟩ := h1.2.latest_len
    exact ⟨_, hi, _, hj, hlat, hlat', Nat.le_refl _⟩
  · obtain ⟨hj, hlat'⟩ := h1.2.1.latest_len
    exact ⟨_, hi, _, hj, hlat, hlat', Nat.le_refl _⟩
  · obtain ⟨hj, hlat'⟩ := h2.latest_len
    refine ⟨_, hi, _, hj, hlat, hlat', ?_⟩
    rw [e1]; simp only [List.length_append]; omega

/-- **The tip moves only to a strictly longer chain.**  If the tip hash reported by `latest` changes, then the
    longest chain `P ++ O` became `P ++ N` (same prefix `P` up to the fork point) with the new segment `N`
    strictly longer than the segment `O` it replaces — the strict inequality is the one
    `is_new_chain_the_longest_chain` tests (`longest_only_if`), carried through the Wind/Unwind loop. -/
theorem tip_moves_only_to_longer (fl : Flags) (hd : fl.ringDeleteKeepsNone = true) (hf : fl.windFailureRestores = true)
    (hv : fl.txVerdict = true) (st : State) (b : ABlock) (q : List Nat) (h : StInv st) (d : Deliverable st b)
    (hchg : (latest (addBlock fl st b q).1).map (·.2) ≠ (latest st).map (·.2)) :
    ∃ P O N : List ABlock,
      lcDump st = (P ++ O).map (fun b => (b.id, b.hash)) ∧
      lcDump (addBlock fl st b q).1 = (P ++ N).map (fun b => (b.id, b.hash)) ∧
      O.length < N.length ∧ N.getLast? = some b := by
  obtain ⟨lc, h⟩ := h
  rcases addBlock_cases fl hd hf hv h d q with h1 | h1 | ⟨_, P, O, N, e1, h2, hlen, hlast, _⟩
  · exact absurd (by rw [h1.2.latest, h.latest]) hchg
  · exact absurd (by rw [h1.2.1.latest, h.latest]) hchg
  · exact ⟨P, O, N, by rw [h.lcDump, e1], h2.lcDump, hlen, hlast⟩

/-- non-vacuity (the witness history of C03): block 6 makes the side branch 4←5←6 overtake 2←3 -/
example :
    (latest (addBlock { ringDeleteKeepsNone := true, windFailureRestores := true, txVerdict := true }
      (deliverW 5) (wblk 6 5 4 [15] [16]) []).1).map (·.2) ≠ (latest (deliverW 5)).map (·.2) := by
  decide +kernel

end Saito.C05
