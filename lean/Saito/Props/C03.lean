import Saito.Lemmas.ChainState
import Saito.Lemmas.LoopRefine
/-!
# C03 — ledger state equals a replay of the longest chain
Theorems over the chain model (`Saito/Model/Chain.lean`, tied to `Blockchain::add_block` by the `chain`
correspondence suite). `SameSet` is equality of spendable sets; segments are oldest-first lists of blocks.
`CleanSeg u c`: every block of `c` spends only spendable outputs and creates fresh ones at its turn — what
validation with a propagated transaction verdict plus uniqueness of utxo keys provides.
-/
namespace Saito.C03
open Saito.Chain

/-- wind then unwind of one block is the identity on the spendable set -/
theorem unwind_wind_id (b : ABlock) (u : List Nat) (h : CleanAt b u) : SameSet (unwindU b (windU b u)) u :=
  unwind_wind b u h

/-- unwinding a segment of ANY length, newest first, undoes its winding exactly -/
theorem unwind_segment_exact (u : List Nat) (c : List ABlock) (h : CleanSeg u c) :
    SameSet (unwindSeg (replayFrom u c) c) u := unwindSeg_replayFrom u c h

/-- reorganisation at the level of the spendable set: from the replay of `P ++ O` to the replay of `P ++ N` -/
theorem reorg_is_replay (P O N : List ABlock) (u : List Nat)
    (hu : SameSet u (replay (P ++ O))) (hc : CleanSeg (replay P) O) :
    SameSet (replayFrom (unwindSeg u O) N) (replay (P ++ N)) := reorg_replay P O N u hu hc

/-- C03 for the repaired reorganisation of the model: if the ledger is the replay of the current chain
    `P ++ O` (`O` = the old segment above the fork point) then after a successful reorganisation it is the
    replay of `P ++ N`, for every fork shape and every segment length. -/
theorem reorg_success_ledger (fl : Flags) (newC oldC : List Nat) (st st' : State) (P : List ABlock)
    (h : reorgFixed fl newC oldC st = (st', true))
    (hu : SameSet st.utxo (replay (P ++ (blocksOf st oldC).reverse)))
    (hc : CleanSeg (replay P) (blocksOf st oldC).reverse) :
    SameSet st'.utxo (replay (P ++ (blocksOf st newC).reverse)) := by
  rw [reorgFixed_success_utxo fl newC oldC st st' h]
  exact reorg_replay P _ _ st.utxo hu hc

/-! ### the same for the repaired LOOP (what `validate` runs), via the refinement `runWRF_refines` -/

/-- C03 for the repaired Wind/Unwind loop itself: if the loop (started as `Blockchain::validate` starts it, with
    at least the fuel `validate` gives it, every hash of both chains in the store) returns `true`, and the
    ledger was the replay of the current chain `P ++ O`, then afterwards it is the replay of `P ++ N` — for
    every flag setting, fork shape, segment length and validity pattern.  No hypothesis about validity is
    needed for this direction. -/
theorem loop_reorg_success_ledger (fl : Flags) (newC oldC : List Nat) (st st' : State) (P : List ABlock)
    (fuel : Nat) (hfuel : 2 * (newC.length + oldC.length) + 4 ≤ fuel)
    (hne : newC ≠ []) (hres : ∀ h ∈ newC ++ oldC, (blkOf st h).isSome)
    (h : runWRF fl newC oldC fuel st (startWRF newC oldC) = some (st', true))
    (hu : SameSet st.utxo (replay (P ++ (blocksOf st oldC).reverse)))
    (hc : CleanSeg (replay P) (blocksOf st oldC).reverse) :
    SameSet st'.utxo (replay (P ++ (blocksOf st newC).reverse)) := by
  rw [runWRF_refines fl st newC oldC hne hres fuel hfuel] at h
  rw [reorgSpec_success_utxo _ _ _ st st' (Option.some.inj h)]
  simpa using reorg_replay P _ _ st.utxo hu hc

/-- … and the invariant is re-established for the next reorganisation: if validity checks the inputs in the
    states the winding visits (`InsChecked`; see `insChecked_after_unwind` for when `validB` does) and the
    candidate's outputs are fresh, the new segment was wound cleanly on top of `P`. -/
theorem loop_reorg_success_clean (fl : Flags) (newC oldC : List Nat) (st st' : State) (P : List ABlock)
    (fuel : Nat) (hfuel : 2 * (newC.length + oldC.length) + 4 ≤ fuel)
    (hne : newC ≠ []) (hres : ∀ h ∈ newC ++ oldC, (blkOf st h).isSome)
    (h : runWRF fl newC oldC fuel st (startWRF newC oldC) = some (st', true))
    (hu : SameSet st.utxo (replay (P ++ (blocksOf st oldC).reverse)))
    (hc : CleanSeg (replay P) (blocksOf st oldC).reverse)
    (hins : InsChecked (validB fl) ((blocksOf st oldC).foldl unwindBlock st) (blocksOf st newC).reverse)
    (hfresh : FreshSeg (unwindSeg st.utxo (blocksOf st oldC).reverse) (blocksOf st newC).reverse) :
    CleanSeg (replay P) (blocksOf st newC).reverse := by
  rw [runWRF_refines fl st newC oldC hne hres fuel hfuel] at h
  have hcl := reorgSpec_success_clean _ _ _ st st' (Option.some.inj h) hins hfresh
  have h0 : replay (P ++ (blocksOf st oldC).reverse) = replayFrom (replay P) (blocksOf st oldC).reverse := by
    simp [replay, replayFrom, List.foldl_append]
  rw [h0] at hu
  exact CleanSeg_congr _ ((unwindSeg_congr _ hu).trans (unwindSeg_replayFrom (replay P) _ hc)) hcl

/-- the same at the level of `Blockchain::validate` (flag `windFailureRestores` on) -/
theorem validate_reorg_success_ledger (fl : Flags) (hf : fl.windFailureRestores = true)
    (newC oldC : List Nat) (st st' : State) (P : List ABlock)
    (hres : ∀ h ∈ newC ++ oldC, (blkOf st h).isSome)
    (h : validate fl st newC oldC = some (st', true))
    (hu : SameSet st.utxo (replay (P ++ (blocksOf st oldC).reverse)))
    (hc : CleanSeg (replay P) (blocksOf st oldC).reverse) :
    SameSet st'.utxo (replay (P ++ (blocksOf st newC).reverse)) := by
  obtain ⟨r, hr, hcase⟩ := validate_refines fl hf st newC oldC hres
  rw [hr] at h
  have hr' : r = (st', true) := Option.some.inj h
  rcases hcase with h1 | h1
  · rw [hr'] at h1; simp at h1
  · rw [hr'] at h1
    rw [reorgSpec_success_utxo _ _ _ st st' h1.symm]
    simpa using reorg_replay P _ _ st.utxo hu hc

/-- the by-height index entry: deleting the block that was just added restores the ring item (repaired
    `RingItem::delete_block`), provided the item's on-chain mark is in range -/
theorem ritem_delete_add (fl : Flags) (hf : fl.ringDeleteKeepsNone = true) (it : RItem) (id h : Nat)
    (hnew : ∀ e ∈ it.ents, ¬(e.2 = id ∧ e.1 = h))
    (hlc : ∀ p, it.lc = some p → p < it.ents.length) :
    (it.add id h).delete fl id h = it := by
  have hfilter : (it.ents ++ [(h, id)]).filter (fun e => !(e.2 == id && e.1 == h)) = it.ents := by
    rw [List.filter_append]
    have h1 : it.ents.filter (fun e => !(e.2 == id && e.1 == h)) = it.ents := by
      apply List.filter_eq_self.2
      intro e he
      have := hnew e he
      simp only [Bool.not_eq_true', Bool.and_eq_false_iff, beq_eq_false_iff_ne]
      by_cases h2 : e.2 = id
      · right; intro h1; exact this ⟨h2, h1⟩
      · left; exact h2
    rw [h1]; simp
  cases hl : it.lc with
  | none =>
    simp [RItem.delete, RItem.add, hl, hf]
    cases it; simp_all
  | some p =>
    have hp := hlc p hl
    have hget : (it.ents ++ [(h, id)])[p]? = it.ents[p]? := by
      rw [List.getElem?_append_left hp]
    obtain ⟨e, he⟩ : ∃ e, it.ents[p]? = some e := ⟨it.ents[p], by simp [hp]⟩
    have hmem : e ∈ it.ents := List.mem_of_getElem? he
    have hne := hnew e hmem
    have hcond : (e.2 == id && e.1 == h) = false := by
      simp only [Bool.and_eq_false_iff, beq_eq_false_iff_ne]
      by_cases h2 : e.2 = id
      · right; intro h1; exact hne ⟨h2, h1⟩
      · left; exact h2
    have htake : ((it.ents ++ [(h, id)]).take p).filter (fun x => !(x.2 == id && x.1 == h)) = it.ents.take p := by
      rw [List.take_append_of_le_length (Nat.le_of_lt hp)]
      apply List.filter_eq_self.2
      intro x hx
      have hx' : x ∈ it.ents := List.mem_of_mem_take hx
      have := hnew x hx'
      simp only [Bool.not_eq_true', Bool.and_eq_false_iff, beq_eq_false_iff_ne]
      by_cases h2 : x.2 = id
      · right; intro h1; exact this ⟨h2, h1⟩
      · left; exact h2
    simp only [RItem.delete, RItem.add, hl, survivorPos, hget, he, hcond, hfilter, htake]
    simp [List.length_take, Nat.min_eq_left (Nat.le_of_lt hp)]
    cases it; simp_all

/-- pinned `RingItem::delete_block`: deleting a rejected sibling from an item that carried no on-chain mark
    marks index 0 as on-chain (the defect behind "deleting a rejected sibling marks an unrelated block") -/
theorem ritem_delete_witness :
    ((({} : RItem).add 5 1).add 5 2).delete {} 5 2 = { lc := some 0, ents := [(1, 5)] } := by decide

/-- non-vacuity: a two-block segment wound cleanly on a two-output ledger -/
example : CleanSeg [1, 2] [{ hash := 7, prev := 1, id := 2, burnfee := 0, hasGT := false, ok := true, ins := [1], outs := [3] },
    { hash := 8, prev := 7, id := 3, burnfee := 0, hasGT := false, ok := true, ins := [3, 2], outs := [4] }] := by
  simp [CleanSeg, CleanAt, mem_windU]

end Saito.C03
