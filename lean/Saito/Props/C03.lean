import Saito.Lemmas.ChainState
/-!
# C03 — ledger state equals a replay of the longest chain
Theorems over the chain model (`Saito/Model/Chain.lean`, tied to `Blockchain::add_block` by the `chain`
correspondence suite). `SameSet` is equality of spendable sets; segments are oldest-first lists of blocks.
`CleanSeg u c`: every block of `c` spends only spendable outputs and creates fresh ones at its turn — what
validation with a propagated transaction verdict plus uniqueness of utxo keys provides.
-/
namespace Saito.C03
open Saito.Chain

/-- wind then unwind of one block is the identity on the spendable set -/
theorem unwind_wind_id (b : ABlock) (u : List Nat) (h : CleanAt b u) : SameSet (unwindU b (windU b u)) u :=
  unwind_wind b u h

/-- unwinding a segment of ANY length, newest first, undoes its winding exactly -/
theorem unwind_segment_exact (u : List Nat) (c : List ABlock) (h : CleanSeg u c) :
    SameSet (unwindSeg (replayFrom u c) c) u := unwindSeg_replayFrom u c h

/-- reorganisation at the level of the spendable set: from the replay of `P ++ O` to the replay of `P ++ N` -/
theorem reorg_is_replay (P O N : List ABlock) (u : List Nat)
    (hu : SameSet u (replay (P ++ O))) (hc : CleanSeg (replay P) O) :
    SameSet (replayFrom (unwindSeg u O) N) (replay (P ++ N)) := reorg_replay P O N u hu hc

/-- C03 for the repaired reorganisation of the model: if the ledger is the replay of the current chain
    `P ++ O` (`O` = the old segment above the fork point) then after a successful reorganisation it is the
    replay of `P ++ N`, for every fork shape and every segment length. -/
theorem reorg_success_ledger (fl : Flags) (newC oldC : List Nat) (st st' : State) (P : List ABlock)
    (h : reorgFixed fl newC oldC st = (st', true))
    (hu : SameSet st.utxo (replay (P ++ (blocksOf st oldC).reverse)))
    (hc : CleanSeg (replay P) (blocksOf st oldC).reverse) :
    SameSet st'.utxo (replay (P ++ (blocksOf st newC).reverse)) := by
  rw [reorgFixed_success_utxo fl newC oldC st st' h]
  exact reorg_replay P _ _ st.utxo hu hc

/-- the by-height index entry: deleting the block that was just added restores the ring item (repaired
    `RingItem::delete_block`), provided the item's on-chain mark is in range -/
theorem ritem_delete_add (fl : Flags) (hf : fl.ringDeleteKeepsNone = true) (it : RItem) (id h : Nat)
    (hnew : ∀ e ∈ it.ents, ¬(e.2 = id ∧ e.1 = h))
    (hlc : ∀ p, it.lc = some p → p < it.ents.length) :
    (it.add id h).delete fl id h = it := by
  have hfilter : (it.ents ++ [(h, id)]).filter (fun e => !(e.2 == id && e.1 == h)) = it.ents := by
    rw [List.filter_append]
    have h1 : it.ents.filter (fun e => !(e.2 == id && e.1 == h)) = it.ents := by
      apply List.filter_eq_self.2
      intro e he
      have := hnew e he
      simp only [Bool.not_eq_true', Bool.and_eq_false_iff, beq_eq_false_iff_ne]
      by_cases h2 : e.2 = id
      · right; intro h1; exact this ⟨h2, h1⟩
      · left; exact h2
    rw [h1]; simp
  cases hl : it.lc with
  | none =>
    simp [RItem.delete, RItem.add, hl, hf]
    cases it; simp_all
  | some p =>
    have hp := hlc p hl
    have hget : (it.ents ++ [(h, id)])[p]? = it.ents[p]? := by
      rw [List.getElem?_append_left hp]
    obtain ⟨e, he⟩ : ∃ e, it.ents[p]? = some e := ⟨it.ents[p], by simp [hp]⟩
    have hmem : e ∈ it.ents := List.mem_of_getElem? he
    have hne := hnew e hmem
    have hcond : (e.2 == id && e.1 == h) = false := by
      simp only [Bool.and_eq_false_iff, beq_eq_false_iff_ne]
      by_cases h2 : e.2 = id
      · right; intro h1; exact hne ⟨h2, h1⟩
      · left; exact h2
    have htake : ((it.ents ++ [(h, id)]).take p).filter (fun x => !(x.2 == id && x.1 == h)) = it.ents.take p := by
      rw [List.take_append_of_le_length (Nat.le_of_lt hp)]
      apply List.filter_eq_self.2
      intro x hx
      have hx' : x ∈ it.ents := List.mem_of_mem_take hx
      have := hnew x hx'
      simp only [Bool.not_eq_true', Bool.and_eq_false_iff, beq_eq_false_iff_ne]
      by_cases h2 : x.2 = id
      · right; intro h1; exact this ⟨h2, h1⟩
      · left; exact h2
    simp only [RItem.delete, RItem.add, hl, survivorPos, hget, he, hcond, hfilter, htake]
    simp [List.length_take, Nat.min_eq_left (Nat.le_of_lt hp)]
    cases it; simp_all

/-- pinned `RingItem::delete_block`: deleting a rejected sibling from an item that carried no on-chain mark
    marks index 0 as on-chain (the defect behind "deleting a rejected sibling marks an unrelated block") -/
theorem ritem_delete_witness :
    ((({} : RItem).add 5 1).add 5 2).delete {} 5 2 = { lc := some 0, ents := [(1, 5)] } := by decide

/-- non-vacuity: a two-block segment wound cleanly on a two-output ledger -/
example : CleanSeg [1, 2] [{ hash := 7, prev := 1, id := 2, burnfee := 0, hasGT := false, ok := true, ins := [1], outs := [3] },
    { hash := 8, prev := 7, id := 3, burnfee := 0, hasGT := false, ok := true, ins := [3, 2], outs := [4] }] := by
  simp [CleanSeg, CleanAt, mem_windU]

end Saito.C03
