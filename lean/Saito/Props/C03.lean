import Saito.Lemmas.ChainState
import Saito.Lemmas.LoopRefine
import Saito.Lemmas.StateInv
/-!
# C03 — ledger state equals a replay of the longest chain
Theorems over the chain model (`Saito/Model/Chain.lean`, tied to `Blockchain::add_block` by the `chain`
correspondence suite). `SameSet` is equality of spendable sets; segments are oldest-first lists of blocks.
`CleanSeg u c`: every block of `c` spends only spendable outputs and creates fresh ones at its turn — what
validation with a propagated transaction verdict plus uniqueness of utxo keys provides.
-/
namespace Saito.C03
open Saito.Chain

/-- wind then unwind of one block is the identity on the spendable set -/
theorem unwind_wind_id (b : ABlock) (u : List Nat) (h : CleanAt b u) : SameSet (unwindU b (windU b u)) u :=
  unwind_wind b u h

/-- unwinding a segment of ANY length, newest first, undoes its winding exactly -/
theorem unwind_segment_exact (u : List Nat) (c : List ABlock) (h : CleanSeg u c) :
    SameSet (unwindSeg (replayFrom u c) c) u := unwindSeg_replayFrom u c h

/-- reorganisation at the level of the spendable set: from the replay of `P ++ O` to the replay of `P ++ N` -/
theorem reorg_is_replay (P O N : List ABlock) (u : List Nat)
    (hu : SameSet u (replay (P ++ O))) (hc : CleanSeg (replay P) O) :
    SameSet (replayFrom (unwindSeg u O) N) (replay (P ++ N)) := reorg_replay P O N u hu hc

/-- C03 for the repaired reorganisation of the model: if the ledger is the replay of the current chain
    `P ++ O` (`O` = the old segment above the fork point) then after a successful reorganisation it is the
    replay of `P ++ N`, for every fork shape and every segment length. -/
theorem reorg_success_ledger (fl : Flags) (newC oldC : List Nat) (st st' : State) (P : List ABlock)
    (h : reorgFixed fl newC oldC st = (st', true))
    (hu : SameSet st.utxo (replay (P ++ (blocksOf st oldC).reverse)))
    (hc : CleanSeg (replay P) (blocksOf st oldC).reverse) :
    SameSet st'.utxo (replay (P ++ (blocksOf st newC).reverse)) := by
  rw [reorgFixed_success_utxo fl newC oldC st st' h]
  exact reorg_replay P _ _ st.utxo hu hc

/-! ### the same for the repaired LOOP (what `validate` runs), via the refinement `runWRF_refines` -/

/-- C03 for the repaired Wind/Unwind loop itself: if the loop (started as `Blockchain::validate` starts it, with
    at least the fuel `validate` gives it, every hash of both chains in the store) returns `true`, and the
    ledger was the replay of the current chain `P ++ O`, then afterwards it is the replay of `P ++ N` — for
    every flag setting, fork shape, segment length and validity pattern.  No hypothesis about validity is
    needed for this direction. -/
theorem loop_reorg_success_ledger (fl : Flags) (newC oldC : List Nat) (st st' : State) (P : List ABlock)
    (fuel : Nat) (hfuel : 2 * (newC.length + oldC.length) + 4 ≤ fuel)
    (hne : newC ≠ []) (hres : ∀ h ∈ newC ++ oldC, (blkOf st h).isSome)
    (h : runWRF fl newC oldC fuel st (startWRF newC oldC) = some (st', true))
    (hu : SameSet st.utxo (replay (P ++ (blocksOf st oldC).reverse)))
    (hc : CleanSeg (replay P) (blocksOf st oldC).reverse) :
    SameSet st'.utxo (replay (P ++ (blocksOf st newC).reverse)) := by
  rw [runWRF_refines fl st newC oldC hne hres fuel hfuel] at h
  rw [reorgSpec_success_utxo _ _ _ st st' (Option.some.inj h)]
  simpa using reorg_replay P _ _ st.utxo hu hc

/-- … and the invariant is re-established for the next reorganisation: if validity checks the inputs in the
    states the winding visits (`InsChecked`; see `insChecked_after_unwind` for when `validB` does) and the
    candidate's outputs are fresh, the new segment was wound cleanly on top of `P`. -/
theorem loop_reorg_success_clean (fl : Flags) (newC oldC : List Nat) (st st' : State) (P : List ABlock)
    (fuel : Nat) (hfuel : 2 * (newC.length + oldC.length) + 4 ≤ fuel)
    (hne : newC ≠ []) (hres : ∀ h ∈ newC ++ oldC, (blkOf st h).isSome)
    (h : runWRF fl newC oldC fuel st (startWRF newC oldC) = some (st', true))
    (hu : SameSet st.utxo (replay (P ++ (blocksOf st oldC).reverse)))
    (hc : CleanSeg (replay P) (blocksOf st oldC).reverse)
    (hins : InsChecked (validB fl) ((blocksOf st oldC).foldl unwindBlock st) (blocksOf st newC).reverse)
    (hfresh : FreshSeg (unwindSeg st.utxo (blocksOf st oldC).reverse) (blocksOf st newC).reverse) :
    CleanSeg (replay P) (blocksOf st newC).reverse := by
  rw [runWRF_refines fl st newC oldC hne hres fuel hfuel] at h
  have hcl := reorgSpec_success_clean _ _ _ st st' (Option.some.inj h) hins hfresh
  have h0 : replay (P ++ (blocksOf st oldC).reverse) = replayFrom (replay P) (blocksOf st oldC).reverse := by
    simp [replay, replayFrom, List.foldl_append]
  rw [h0] at hu
  exact CleanSeg_congr _ ((unwindSeg_congr _ hu).trans (unwindSeg_replayFrom (replay P) _ hc)) hcl

/-- the same at the level of `Blockchain::validate` (flag `windFailureRestores` on) -/
theorem validate_reorg_success_ledger (fl : Flags) (hf : fl.windFailureRestores = true)
    (newC oldC : List Nat) (st st' : State) (P : List ABlock)
    (hres : ∀ h ∈ newC ++ oldC, (blkOf st h).isSome)
    (h : validate fl st newC oldC = some (st', true))
    (hu : SameSet st.utxo (replay (P ++ (blocksOf st oldC).reverse)))
    (hc : CleanSeg (replay P) (blocksOf st oldC).reverse) :
    SameSet st'.utxo (replay (P ++ (blocksOf st newC).reverse)) := by
  obtain ⟨r, hr, hcase⟩ := validate_refines fl hf st newC oldC hres
  rw [hr] at h
  have hr' : r = (st', true) := Option.some.inj h
  rcases hcase with h1 | h1
  · rw [hr'] at h1; simp at h1
  · rw [hr'] at h1
    rw [reorgSpec_success_utxo _ _ _ st st' h1.symm]
    simpa using reorg_replay P _ _ st.utxo hu hc

/-- the by-height index entry: deleting the block that was just added restores the ring item (repaired
    `RingItem::delete_block`), provided the item's on-chain mark is in range -/
theorem ritem_delete_add (fl : Flags) (hf : fl.ringDeleteKeepsNone = true) (it : RItem) (id h : Nat)
    (hnew : ∀ e ∈ it.ents, ¬(e.2 = id ∧ e.1 = h))
    (hlc : ∀ p, it.lc = some p → p < it.ents.length) :
    (it.add id h).delete fl id h = it :=
  Saito.Chain.RItem.delete_add fl hf it id h hnew hlc

/-- pinned `RingItem::delete_block`: deleting a rejected sibling from an item that carried no on-chain mark
    marks index 0 as on-chain (the defect behind "deleting a rejected sibling marks an unrelated block") -/
theorem ritem_delete_witness :
    ((({} : RItem).add 5 1).add 5 2).delete {} 5 2 = { lc := some 0, ents := [(1, 5)] } := by decide

/-- non-vacuity: a two-block segment wound cleanly on a two-output ledger -/
example : CleanSeg [1, 2] [{ hash := 7, prev := 1, id := 2, burnfee := 0, hasGT := false, ok := true, ins := [1], outs := [3] },
    { hash := 8, prev := 7, id := 3, burnfee := 0, hasGT := false, ok := true, ins := [3, 2], outs := [4] }] := by
  simp [CleanSeg, CleanAt, mem_windU]


/-! ### the state invariant across `add_block` (`Saito/Lemmas/StateInv.lean`)
`StInv st`: some list `lc` of stored blocks is the longest chain of `st` — `lcDump`, `latest`, the on-chain flags,
the spendable set (= replay of `lc`, wound cleanly) and the by-height index all agree with it
(`StInv.observables`).  `InvX 0 st lc` is the same statement with the chain named.
Side conditions carried by the invariant: `loadingDone = false`, every stored id in `1 … gp − 1`.
Flags: `ringDeleteKeepsNone`, `windFailureRestores` (the repaired tree) and `txVerdict` (without the
per-transaction verdict a block with unspendable inputs is wound and the ledger stops being a clean replay);
`orphanInert` and `gtEveryBlock` are arbitrary.  Deliveries: `Deliverable st b` (non-orphan, fresh hash,
`id < gp`, unique utxo keys; the first block has id 1 and no inputs). -/

/-- (i) a block that is already stored: outcome `exists_`, nothing changes -/
theorem addBlock_exists_unchanged (fl : Flags) (st : State) (b : ABlock) (q : List Nat) (h : StInv st)
    (he : (getB st b.hash).isSome = true) : addBlock fl st b q = (st, .exists_) := by
  obtain ⟨lc, h⟩ := h
  rw [addBlock_eq']
  unfold addBlock'
  simp only [h.latest, he, if_true]

/-- (i) outcome `addedSide`: the chain is the one before the call -/
theorem addBlock_addedSide_inv (fl : Flags) (hd : fl.ringDeleteKeepsNone = true) (hf : fl.windFailureRestores = true)
    (hv : fl.txVerdict = true) (st : State) (lc : List ABlock) (b : ABlock) (q : List Nat)
    (h : InvX 0 st lc) (d : Deliverable st b) (ho : (addBlock fl st b q).2 = .addedSide) :
    InvX 0 (addBlock fl st b q).1 lc ∧ lcDump (addBlock fl st b q).1 = lcDump st ∧
      latest (addBlock fl st b q).1 = latest st := by
  rcases addBlock_cases fl hd hf hv h d q with h1 | h1 | h1
  · exact ⟨h1.2, by rw [h1.2.lcDump, h.lcDump], by rw [h1.2.latest, h.latest]⟩
  · rw [ho] at h1; exact absurd h1.1 (by decide)
  · rw [ho] at h1; rcases h1.1 with h2 | h2 <;> exact absurd h2 (by decide)

/-- (ii)+(iv) outcome `addedLc`: the chain `P ++ O` became `P ++ N`, where `N` ends in the delivered block, is
    strictly longer than the segment `O` it replaces, and its other blocks were stored but off the chain
    (tip extension: `O = []`, `N = [b]`, see `addBlock_extends_tip`) -/
theorem addBlock_addedLc_inv (fl : Flags) (hd : fl.ringDeleteKeepsNone = true) (hf : fl.windFailureRestores = true)
    (hv : fl.txVerdict = true) (st : State) (lc : List ABlock) (b : ABlock) (q : List Nat)
    (h : InvX 0 st lc) (d : Deliverable st b) (ho : (addBlock fl st b q).2 = .addedLc) :
    ∃ P O N, lc = P ++ O ∧ InvX 0 (addBlock fl st b q).1 (P ++ N) ∧ O.length < N.length ∧ N.getLast? = some b ∧
      ∀ c ∈ N.dropLast, c ∈ stored st ∧ c ∉ lc := by
  rcases addBlock_cases fl hd hf hv h d q with h1 | h1 | h1
  · rw [ho] at h1; exact absurd h1.1 (by decide)
  · rw [ho] at h1; exact absurd h1.1 (by decide)
  · exact h1.2

/-- (ii) tip extension: the delivered block's parent is the tip (or it is the first block) and the outcome is
    `addedLc` — the old chain is empty and the new chain is the old one plus `b` -/
theorem addBlock_extends_tip (fl : Flags) (hd : fl.ringDeleteKeepsNone = true) (hf : fl.windFailureRestores = true)
    (hv : fl.txVerdict = true) (st : State) (lc : List ABlock) (b : ABlock) (q : List Nat)
    (h : InvX 0 st lc) (d : Deliverable st b) (ho : (addBlock fl st b q).2 = .addedLc)
    (htip : lc = [] ∨ ∃ t, lc.getLast? = some t ∧ b.prev = t.hash) :
    InvX 0 (addBlock fl st b q).1 (lc ++ [b]) := by
  obtain ⟨P, O, N, e1, hinv, hlen, hlast, hoff⟩ := addBlock_addedLc_inv fl hd hf hv st lc b q h d ho
  have hN : N = N.dropLast ++ [b] := by
    have hne : N ≠ [] := by intro e; subst e; simp at hlen
    have := (List.dropLast_concat_getLast hne).symm
    rw [List.getLast?_eq_some_getLast hne] at hlast
    rw [Option.some.inj hlast] at this
    exact this
  -- no off-chain block below `b`
  have hdrop : N.dropLast = [] := by
    cases hdl : N.dropLast.reverse with
    | nil => exact List.reverse_eq_nil_iff.1 hdl
    | cons z zs =>
      exfalso
      have hz : z ∈ N.dropLast := by rw [← List.mem_reverse, hdl]; simp
      obtain ⟨hzS, hzl⟩ := hoff z hz
      have hch : ChainR (b :: z :: (zs ++ P.reverse)) := by
        have := hinv.chainOk.chain
        rw [hN, List.reverse_append, List.reverse_append, hdl] at this
        simpa using this
      rcases htip with h0 | ⟨t, ht, hbt⟩
      · subst h0
        cases hzS' : stored st with
        | nil => rw [hzS'] at hzS; cases hzS
        | cons a l =>
          -- the store is non-empty but the chain is empty: impossible for a reachable state … via `par`
          rcases d.parent with hp | ⟨p, hp, hp1, hp2⟩
          · rw [hp.1] at hzS'; cases hzS'
          · have hzp : z = p := h.store.uniq hzS hp (by rw [hp1]; exact hch.1.symm)
            subst hzp
            -- walk down from `z`: it is off the empty chain, so it has a stored parent of smaller id, forever
            have key : ∀ n (a : ABlock), a.id ≤ n → a ∈ stored st → False := by
              intro n
              induction n with
              | zero => intro a ha hs; have := (h.store.ids a hs).2.1; omega
              | succ n ih =>
                intro a ha hs
                rcases h.chainOk.par a hs with h1 | h1 | ⟨p', hp', _, hp2'⟩
                · cases h1
                · exact (h.store.ids a hs).1 h1
                · exact ih p' (by omega) hp'
            exact key z.id z (Nat.le_refl _) hzS
      · have htl : t ∈ lc := List.mem_of_getLast? ht
        have : z = t := h.store.uniq hzS (h.chainOk.lcStored t htl) (by rw [← hbt]; exact hch.1.symm)
        rw [this] at hzl; exact hzl htl
  rw [hdrop, List.nil_append] at hN
  subst hN
  rcases htip with h0 | ⟨t, ht, hbt⟩
  · subst h0
    have hP : P = [] := by
      cases P with
      | nil => rfl
      | cons a P => simp at e1
    subst hP
    simpa using hinv
  · -- the last block of `P` is the tip, so nothing is above it
    have hch : ChainR (b :: P.reverse) := by simpa using hinv.chainOk.chain
    have htl : t ∈ lc := List.mem_of_getLast? ht
    have hPne : P ≠ [] := by
      intro e; subst e
      rcases d.parent with hp | ⟨p, hp, hp1, hp2⟩
      · have := h.chainOk.lcStored t htl; rw [hp.1] at this; cases this
      · have h1 : b.id = 1 := by simpa [ChainR] using hch
        have := (h.store.ids p hp).2.1; omega
    obtain ⟨z, zs, hz⟩ : ∃ z zs, P.reverse = z :: zs := by
      cases hr : P.reverse with
      | nil => exact absurd (List.reverse_eq_nil_iff.1 hr) hPne
      | cons z zs => exact ⟨z, zs, rfl⟩
    rw [hz] at hch
    have hzP : z ∈ P := by rw [← List.mem_reverse, hz]; simp
    have hzl : z ∈ lc := by rw [e1]; simp [hzP]
    have hzt : z = t := h.store.uniq (h.chainOk.lcStored z hzl) (h.chainOk.lcStored t htl)
      (by rw [← hbt]; exact hch.1.symm)
    have hid1 : z.id = P.length := by
      have := ChainR_id hch.2.2
      have hl : P.length = zs.length + 1 := by rw [← List.length_reverse, hz]; rfl
      omega
    obtain ⟨hh, hlat⟩ := h.latest_len
    have hid2 : t.id = lc.length := by
      have := h.latest
      rw [ht, hlat] at this
      simp only [Option.some.injEq, Prod.mk.injEq] at this
      exact this.1.symm
    have hO : O = [] := by
      have : lc.length = P.length + O.length := by rw [e1]; simp
      have : O.length = 0 := by rw [hzt] at hid1; omega
      exact List.length_eq_zero_iff.1 this
    subst hO
    rw [e1, List.append_nil]
    exact hinv

/-- **The state invariant is preserved by `add_block`** — for every non-orphan delivery, whatever the outcome
    (`addedSide`, `invalid`, `addedLc`; `stall` and the `latest` panic cannot happen; the supply-audit panic
    happens after a completed reorganisation and also leaves a consistent state).  All four branches (i)–(iv)
    are covered; `exists_` is `addBlock_exists_unchanged`. -/
theorem addBlock_preserves_inv (fl : Flags) (hd : fl.ringDeleteKeepsNone = true) (hf : fl.windFailureRestores = true)
    (hv : fl.txVerdict = true) (st : State) (b : ABlock) (q : List Nat) (h : StInv st) (d : Deliverable st b) :
    StInv (addBlock fl st b q).1 := by
  obtain ⟨lc, h⟩ := h
  rcases addBlock_cases fl hd hf hv h d q with h1 | h1 | ⟨_, P, O, N, _, h2, _⟩
  · exact ⟨lc, h1.2⟩
  · exact ⟨lc, h1.2.1⟩
  · exact ⟨P ++ N, h2⟩

/-- the only outcomes of a non-orphan delivery -/
theorem addBlock_outcomes (fl : Flags) (hd : fl.ringDeleteKeepsNone = true) (hf : fl.windFailureRestores = true)
    (hv : fl.txVerdict = true) (st : State) (b : ABlock) (q : List Nat) (h : StInv st) (d : Deliverable st b) :
    (addBlock fl st b q).2 = .addedSide ∨ (addBlock fl st b q).2 = .invalid ∨ (addBlock fl st b q).2 = .addedLc ∨
      (addBlock fl st b q).2 = .panic := by
  obtain ⟨lc, h⟩ := h
  rcases addBlock_cases fl hd hf hv h d q with h1 | h1 | h1
  · exact Or.inl h1.1
  · exact Or.inr (Or.inl h1.1)
  · exact Or.inr (Or.inr h1.1)

/-- the invariant holds in the empty state -/
theorem inv_empty (g : Nat) : StInv { gp := g } := StInv.empty g


/-! ### non-vacuity: a concrete history with a side branch, a successful reorganisation and a rejected block -/
def ifl : Flags := { ringDeleteKeepsNone := true, windFailureRestores := true, txVerdict := true }

def ib (h p i : Nat) (ins outs : List Nat) (ok : Bool := true) : ABlock :=
  { hash := h, prev := p, id := i, burnfee := 10, hasGT := true, ok := ok, ins := ins, outs := outs }

/-- genesis 1 (creates keys 10, 11), chain 1←2←3, side blocks 4 (child of 1, spends 10 like block 2) and 5,
    then 6 (child of 5: the side branch overtakes — reorganisation), then 7 (child of 6, header invalid) -/
def iblocks : List ABlock :=
  [ib 1 0 1 [] [10, 11], ib 2 1 2 [10] [12], ib 3 2 3 [12] [13], ib 4 1 2 [10] [14], ib 5 4 3 [14, 11] [15],
   ib 6 5 4 [15] [16], ib 7 6 5 [16] [17] false]

def istate (n : Nat) : State := (iblocks.take n).foldl (fun s b => (addBlock ifl s b []).1) { gp := 100 }

/-- what the model answers along the history, and the final observables -/
theorem inv_witness_run :
    iblocks.zipIdx.map (fun p => (addBlock ifl (istate p.2) p.1 []).2) =
      [.addedLc, .addedLc, .addedLc, .addedSide, .addedSide, .addedLc, .invalid] ∧
    lcDump (istate 5) = [(1, 1), (2, 2), (3, 3)] ∧
    lcDump (istate 6) = [(1, 1), (2, 4), (3, 5), (4, 6)] ∧
    lcDump (istate 7) = [(1, 1), (2, 4), (3, 5), (4, 6)] ∧
    ringDump (istate 7) = [(1, 1), (2, 2), (2, 4), (3, 3), (3, 5), (4, 6)] ∧
    (istate 7).utxo = (istate 6).utxo := by decide +kernel

/-- the final state satisfies the invariant — by seven applications of the preservation theorem (every
    delivery is `Deliverable`) -/
theorem inv_witness6 : StInv (istate 6) := by
  have h0 : StInv (istate 0) := StInv.empty 100
  have h1 : StInv (istate 1) := addBlock_preserves_inv ifl rfl rfl rfl (istate 0) (ib 1 0 1 [] [10, 11]) [] h0
    (by constructor <;> decide +kernel)
  have h2 : StInv (istate 2) := addBlock_preserves_inv ifl rfl rfl rfl (istate 1) (ib 2 1 2 [10] [12]) [] h1
    (by constructor <;> decide +kernel)
  have h3 : StInv (istate 3) := addBlock_preserves_inv ifl rfl rfl rfl (istate 2) (ib 3 2 3 [12] [13]) [] h2
    (by constructor <;> decide +kernel)
  have h4 : StInv (istate 4) := addBlock_preserves_inv ifl rfl rfl rfl (istate 3) (ib 4 1 2 [10] [14]) [] h3
    (by constructor <;> decide +kernel)
  have h5 : StInv (istate 5) := addBlock_preserves_inv ifl rfl rfl rfl (istate 4) (ib 5 4 3 [14, 11] [15]) [] h4
    (by constructor <;> decide +kernel)
  exact addBlock_preserves_inv ifl rfl rfl rfl (istate 5) (ib 6 5 4 [15] [16]) [] h5
    (by constructor <;> decide +kernel)

theorem inv_witness : StInv (istate 7) :=
  addBlock_preserves_inv ifl rfl rfl rfl (istate 6) (ib 7 6 5 [16] [17] false) [] inv_witness6
    (by constructor <;> decide +kernel)


/-- why `txVerdict = true` is a hypothesis: with the verdict not propagated, block 2 (honest header, input 99
    that nobody created) is wound; when the side branch 3←4 overtakes it, unwinding block 2 "returns" key 99 —
    the spendable set is no longer the replay of the longest chain -/
theorem txVerdict_needed_witness :
    let fl : Flags := { ringDeleteKeepsNone := true, windFailureRestores := true, txVerdict := false }
    let st := [ib 1 0 1 [] [10], ib 2 1 2 [99] [12], ib 3 1 2 [] [13], ib 4 3 3 [] [14]].foldl
      (fun s b => (addBlock fl s b []).1) { gp := 100 }
    lcDump st = [(1, 1), (2, 3), (3, 4)] ∧ 99 ∈ st.utxo ∧
      99 ∉ replay [ib 1 0 1 [] [10], ib 3 1 2 [] [13], ib 4 3 3 [] [14]] := by
  decide +kernel

end Saito.C03
