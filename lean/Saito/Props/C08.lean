import Saito.Lemmas.Routing
/-!
# C08 — routing work gates block production; payouts go only to eligible parties

Model: `Saito/Model/BurnFee.lean` (both burn-fee functions over abstract float operations `FloatOps`, and over
native binary64 for the bit-exact correspondence run), `Saito/Model/Routing.lean` (`generate_total_work`,
`validate_routing_path`, `get_winning_routing_node`, `find_winning_router`, the payout section of
`generate_consensus_values`, the work gate / transaction sweep / fee-transaction test of `Block::validate`).

What is proved here, and at which strength:
* `workNeeded_zero`, `workNeeded_misordered` — outright (explicit branches, no float reasoning).
* `workNeeded_antitone_pos`, `workNeeded_antitone`, `burnfee_antitone_pos` — from the hypotheses `FloatLaws F`
  (monotonicity facts of IEEE-754 arithmetic, ASSUMED, not proved about native floats: PARTIAL in that sense).
  The `prev ≥ current` branch returns 10^19 < 2^64−1: antitonicity from elapsed 0 needs the requirement at one
  millisecond to stay ≤ 10^19 (`hcap`); without it the statement is false (`antitone_sentinel_witness`, and on the
  real code for every burn fee ≥ 10^19).
* `accepted_has_work` (every flag vector, both kinds of validating node: the work gate is not gated by
  `validate_against_utxo`), `accepted_has_valid_work_fixed` (with `txVerdictPropagated`),
  witnesses `forged_work_witness`, `selfhop_work_witness` for the pinned tree.
* `workForMe_le_fees`, `workForMe_char`, `halveN_closed` — the halving law, outright.
* `winning_router_on_path`, `winningRouter_unreachable`, `find_winning_router_on_path` — outright.
* `payout_eligible`, `payout_bounded`, `payout_shares` — outright, for an arbitrary cap.
* `accepted_pays_only_eligible_fixed` (with `feeTxExact`), witnesses `second_fee_tx_witness`,
  `fee_without_ticket_witness`, and what still holds on the pinned tree (`last_fee_tx_checked_partial`); these three
  need a node that validates against its ledger (`vau = true`): a node that joined mid-chain compares no fee
  transaction (`midchain_fee_unchecked_witness`).
-/
namespace Saito.C08
open Saito.BurnFee Saito.Routing

/-! ## 1. The requirement as a function of elapsed time -/

/-- from two heartbeats on, no routing work is required (explicit branch; no float hypothesis) -/
theorem workNeeded_zero (O : FloatOps) (bf p t hb : Nat) (h : 2 * hb ≤ t) (ht : 0 < t) :
    workNeeded O bf (p + t) p hb = 0 := by
  unfold workNeeded
  have h1 : ¬ (p ≥ p + t) := by omega
  have h2 : max (p + t - p) 1 ≥ 2 * hb := by omega
  simp only [h1, if_false, h2, if_true]

example : workNeeded natOps 50000000 (1000 + 200) 1000 100 = 0 := workNeeded_zero _ _ _ _ _ (by decide) (by decide)

/-- a block that is not later than its parent needs the sentinel 10^19 -/
theorem workNeeded_misordered (O : FloatOps) (bf cur prev hb : Nat) (h : cur ≤ prev) :
    workNeeded O bf cur prev hb = sentinel := by
  unfold workNeeded
  simp only [ge_iff_le, h, if_true]

/-- on the curve the model is the float expression -/
theorem workNeeded_curve (O : FloatOps) (bf p t hb : Nat) (ht : 0 < t) (h : t < 2 * hb) :
    workNeeded O bf (p + t) p hb =
      O.roundToU64 (O.mul (O.div (O.div (O.ofU64 bf) O.c1e8) (O.ofU64 t)) O.c1e8) := by
  unfold workNeeded
  have h1 : ¬ (p ≥ p + t) := by omega
  have h2 : max (p + t - p) 1 = t := by omega
  have h3 : ¬ (t ≥ 2 * hb) := by omega
  simp only [h1, if_false, h2, h3]

/-- **antitone for positive elapsed times**, from the IEEE monotonicity laws -/
theorem workNeeded_antitone_pos (O : FloatOps) (L : FloatLaws O) (bf p hb t₁ t₂ : Nat)
    (h1 : 1 ≤ t₁) (h : t₁ ≤ t₂) :
    workNeeded O bf (p + t₂) p hb ≤ workNeeded O bf (p + t₁) p hb := by
  by_cases c2 : 2 * hb ≤ t₂
  · rw [workNeeded_zero O bf p t₂ hb c2 (by omega)]
    exact Nat.zero_le _
  · rw [workNeeded_curve O bf p t₂ hb (by omega) (by omega), workNeeded_curve O bf p t₁ hb (by omega) (by omega)]
    apply L.round_mono
    apply L.mul_mono (L.ofU64_nonneg _)
    apply L.div_antitone
    · exact L.div_nonneg (L.ofU64_nonneg bf) (L.ofU64_pos (by decide))
    · exact L.ofU64_pos (by omega)
    · exact L.ofU64_mono h

/-- **antitone over every offset from the parent** (offset 0 = the `prev ≥ current` branch returning 10^19),
    provided the requirement one millisecond after the parent does not exceed the sentinel -/
theorem workNeeded_antitone (O : FloatOps) (L : FloatLaws O) (bf p hb t₁ t₂ : Nat)
    (hcap : workNeeded O bf (p + 1) p hb ≤ sentinel) (h : t₁ ≤ t₂) :
    workNeeded O bf (p + t₂) p hb ≤ workNeeded O bf (p + t₁) p hb := by
  by_cases z1 : t₁ = 0
  · subst z1
    rw [workNeeded_misordered O bf (p + 0) p hb (by omega)]
    by_cases z2 : t₂ = 0
    · subst z2
      rw [workNeeded_misordered O bf (p + 0) p hb (by omega)]
      exact Nat.le_refl _
    · exact Nat.le_trans (workNeeded_antitone_pos O L bf p hb 1 t₂ (Nat.le_refl 1) (by omega)) hcap
  · exact workNeeded_antitone_pos O L bf p hb t₁ t₂ (by omega) h

/-- the cap hypothesis is also necessary: it is the instance `t₁ = 0, t₂ = 1` -/
theorem workNeeded_antitone_needs_cap (O : FloatOps) (bf p hb : Nat)
    (h : ∀ t₁ t₂, t₁ ≤ t₂ → workNeeded O bf (p + t₂) p hb ≤ workNeeded O bf (p + t₁) p hb) :
    workNeeded O bf (p + 1) p hb ≤ sentinel := by
  have := h 0 1 (by decide)
  rwa [workNeeded_misordered O bf (p + 0) p hb (by omega)] at this

/-- every offset ≤ 0 (block not later than its parent) gives the same value -/
theorem workNeeded_constant_before_parent (O : FloatOps) (bf p hb c₁ c₂ : Nat) (h1 : c₁ ≤ p) (h2 : c₂ ≤ p) :
    workNeeded O bf c₁ p hb = workNeeded O bf c₂ p hb := by
  rw [workNeeded_misordered O bf c₁ p hb h1, workNeeded_misordered O bf c₂ p hb h2]

/-! ### the laws are satisfiable; the sentinel defect is visible in an exact arithmetic -/

/-- the exact integer instance satisfies the laws (so the theorems above are not vacuous) -/
theorem natOps_laws : FloatLaws natOps :=
  { lt_le := @fun (x y : Nat) (h : x < y) => Nat.le_of_lt h
    ofU64_mono := @fun (a b : Nat) (h : a ≤ b) => h
    ofU64_nonneg := fun (a : Nat) => Nat.zero_le a
    ofU64_pos := @fun (a : Nat) (h : 0 < a) => h
    div_nonneg := @fun (x d : Nat) _ _ => Nat.zero_le (x / d)
    div_antitone := @fun (_ d₁ d₂ : Nat) _ (h1 : 0 < d₁) (h2 : d₁ ≤ d₂) => Nat.div_le_div_left h2 h1
    mul_mono := @fun (x y c : Nat) _ (h : x ≤ y) => Nat.mul_le_mul_right c h
    round_mono := @fun (x y : Nat) (h : x ≤ y) => min_mono_nat x y u64Max h }

example : workNeeded natOps 10000000000 (0 + 150) 0 100 ≤ workNeeded natOps 10000000000 (0 + 50) 0 100 :=
  workNeeded_antitone_pos natOps natOps_laws _ _ _ _ _ (by decide) (by decide)

/-- **witness of the sentinel defect** (burnfee.rs:47): with a burn fee above 10^19 the requirement RISES from
    10^19 at elapsed 0 to the saturated 2^64−1 at elapsed 1, in an arithmetic that satisfies every law.
    Reproduced on the real function for every burn fee ≥ 10^19 (finding C08/work-needed-not-antitone/…). -/
theorem antitone_sentinel_witness :
    FloatLaws natOps ∧
    workNeeded natOps 20000000000000000000 (0 + 0) 0 100 = 10000000000000000000 ∧
    workNeeded natOps 20000000000000000000 (0 + 1) 0 100 = 18446744073709551615 := by
  refine ⟨natOps_laws, ?_, ?_⟩ <;> decide

/-- with any burn fee up to 10^19 the exact arithmetic meets the cap hypothesis -/
example : workNeeded natOps 10000000000000000000 (7 + 1) 7 100 ≤ sentinel := by decide

/-! ### the burn fee of the next block (same laws plus square root) -/

theorem burnfee_curve (O : FloatOps) (bf p t hb : Nat) (ht : 0 < t) (hbf : bf ≠ 0) :
    burnfeeForBlock O bf (p + t) p hb =
      O.roundToU64 (O.mul (O.mul (O.div (O.ofU64 bf) O.c1e8) (O.sqrt (O.div (O.ofU64 hb) (O.ofU64 t)))) O.c1e8) := by
  unfold burnfeeForBlock
  have h1 : ¬ (p ≥ p + t) := by omega
  have h2 : max 1 (p + t - p) = t := by omega
  simp only [h1, if_false, h2, hbf]

/-- the longer a block waits, the lower the burn fee it sets (positive elapsed times) -/
theorem burnfee_antitone_pos (O : FloatOps) (L : FloatLawsSqrt O) (bf p hb t₁ t₂ : Nat)
    (h1 : 1 ≤ t₁) (h : t₁ ≤ t₂) :
    burnfeeForBlock O bf (p + t₂) p hb ≤ burnfeeForBlock O bf (p + t₁) p hb := by
  by_cases hbf : bf = 0
  · subst hbf
    unfold burnfeeForBlock
    have e1 : ¬ (p ≥ p + t₁) := by omega
    have e2 : ¬ (p ≥ p + t₂) := by omega
    simp only [e1, e2, if_false, if_true]
    exact Nat.le_refl _
  · rw [burnfee_curve O bf p t₂ hb (by omega) hbf, burnfee_curve O bf p t₁ hb (by omega) hbf]
    have L' := L.toFloatLaws
    apply L'.round_mono
    apply L'.mul_mono (L'.ofU64_nonneg _)
    apply L.mul_mono_right (L'.div_nonneg (L'.ofU64_nonneg bf) (L'.ofU64_pos (by decide)))
    apply L.sqrt_mono (L'.div_nonneg (L'.ofU64_nonneg hb) (L'.ofU64_pos (by omega)))
    exact L'.div_antitone (L'.ofU64_nonneg hb) (L'.ofU64_pos (by omega)) (L'.ofU64_mono h)

/-- the exact integer instance also satisfies the square-root laws -/
theorem natOps_laws_sqrt : FloatLawsSqrt natOps :=
  { toFloatLaws := natOps_laws
    div_mono_left := @fun (x y _ : Nat) (h : x ≤ y) _ => Nat.div_le_div_right h
    sqrt_mono := @fun (x y : Nat) _ (h : x ≤ y) => isqrt_mono x y h
    mul_mono_right := @fun (x y c : Nat) _ (h : x ≤ y) => Nat.mul_le_mul_left c h }

example : burnfeeForBlock natOps 400000000 (0 + 400) 0 100 ≤ burnfeeForBlock natOps 400000000 (0 + 25) 0 100 :=
  burnfee_antitone_pos natOps natOps_laws_sqrt _ _ _ _ _ (by decide) (by decide)

/-- the burn fee used after a zero burn fee, and the sentinel -/
theorem burnfee_branches (O : FloatOps) (bf cur prev hb : Nat) :
    (cur ≤ prev → burnfeeForBlock O bf cur prev hb = sentinel) ∧
    (prev < cur → bf = 0 → burnfeeForBlock O bf cur prev hb = defaultBf) := by
  constructor
  · intro h
    unfold burnfeeForBlock
    simp only [ge_iff_le, h, if_true]
  · intro h hb0
    unfold burnfeeForBlock
    have : ¬ (prev ≥ cur) := by omega
    simp only [this, if_false, hb0, if_true]

/-! ## 2. Routing work of a transaction -/

/-- **routing work never exceeds the fees of the transaction** -/
theorem workForMe_le_fees (c : Nat) (tx : Tx) : workForMe c tx ≤ tx.fees := by
  unfold workForMe
  split
  · exact Nat.zero_le _
  · split
    · exact Nat.zero_le _
    · split
      · exact Nat.zero_le _
      · exact workLoop_le _ _ _

/-- **the halving law**: a transaction counts iff its path is non-empty, ends at the creator and is contiguous;
    then the first hop carries all the fees and every further hop halves them (rounding up) -/
theorem workForMe_char (c : Nat) (tx : Tx) :
    workForMe c tx =
      if (tx.path.getLast?.map (·.to) = some c ∧ contiguous tx.path = true)
      then halveN (tx.path.length - 1) tx.fees else 0 := by
  unfold workForMe
  cases hp : tx.path with
  | nil => simp
  | cons h0 r =>
    simp only
    cases hl : (h0 :: r).getLast? with
    | none => simp at hl
    | some l =>
      simp only [Option.map_some, Option.some.injEq, contiguous, List.length_cons, Nat.add_sub_cancel]
      by_cases hc : l.to = c
      · simp only [hc, ne_eq, not_true_eq_false, if_false, true_and]
        exact workLoop_eq r h0.to tx.fees
      · simp [hc]

/-- closed form of iterated halving: `ceil (w / 2^k)` -/
theorem halveN_closed : ∀ (k w : Nat), halveN k w = (w + 2 ^ k - 1) / 2 ^ k
  | 0, w => by simp [halveN]
  | k + 1, w => by
    have hm : 0 < 2 ^ k := Nat.two_pow_pos k
    rw [halveN, halveN_closed k (halve w), Nat.pow_succ]
    generalize 2 ^ k = m at *
    have e : halve w + m - 1 = (w + m * 2 - 1) / 2 := by unfold halve; omega
    rw [e, Nat.div_div_eq_div_mul, Nat.mul_comm 2 m]

/-- a transaction that counts at all has a non-empty contiguous path ending at the creator -/
theorem counted_only_if (c : Nat) (tx : Tx) (h : workForMe c tx ≠ 0) :
    tx.path ≠ [] ∧ tx.path.getLast?.map (·.to) = some c ∧ contiguous tx.path = true := by
  rw [workForMe_char] at h
  split at h
  · rename_i hh
    refine ⟨?_, hh.1, hh.2⟩
    intro e
    rw [e] at hh
    simp at hh
  · exact absurd rfl h

example : workForMe 3 { sender := some 1, fees := 1001, path := [⟨1, 2, true⟩, ⟨2, 3, true⟩] } = 501 := by decide
example : workForMe 3 { sender := some 1, fees := 1001, path := [⟨1, 2, true⟩, ⟨4, 3, true⟩] } = 0 := by decide
example : workForMe 3 { sender := some 1, fees := 1001, path := [⟨1, 2, true⟩, ⟨2, 5, true⟩] } = 0 := by decide

/-! ## 3. `validate_routing_path` -/

/-- what the model's "valid path" means: non-empty, ends at the creator, every hop signature verifies,
    no hop is a self-hop, contiguous -/
theorem pathValidFor_spec (c : Nat) (tx : Tx) (h : pathValidFor c tx = true) :
    tx.path ≠ [] ∧ tx.path.getLast?.map (·.to) = some c ∧
      (∀ hop ∈ tx.path, hop.sigOk = true ∧ hop.frm ≠ hop.to) ∧ contiguous tx.path = true := by
  unfold pathValidFor at h
  cases hl : tx.path.getLast? with
  | none => simp [hl] at h
  | some l =>
    simp only [hl, Bool.and_eq_true, beq_iff_eq] at h
    have hv := h.2
    unfold validateRoutingPath at hv
    refine ⟨?_, by simp [h.1], vrpLoop_hops _ _ hv, ?_⟩
    · intro e; rw [e] at hl; simp at hl
    · cases hp : tx.path with
      | nil => rfl
      | cons a r =>
        rw [hp] at hv
        unfold vrpLoop at hv
        simp only [Bool.and_eq_true] at hv
        exact vrpLoop_contig r a.to hv.2

theorem validWork_le (c : Nat) (tx : Tx) : validWork c tx ≤ workForMe c tx := by
  unfold validWork
  split
  · exact Nat.le_refl _
  · exact Nat.zero_le _

theorem validWork_eq_of_vrp (c : Nat) (tx : Tx) (h : validateRoutingPath tx = true) :
    validWork c tx = workForMe c tx := by
  unfold validWork pathValidFor
  cases hl : tx.path.getLast? with
  | none =>
    have : tx.path = [] := by
      cases hp : tx.path with
      | nil => rfl
      | cons a r => rw [hp] at hl; simp at hl
    simp [workForMe, this]
  | some l =>
    by_cases hc : l.to = c
    · simp [hc, h]
    · have hz : workForMe c tx = 0 := by
        rw [workForMe_char]
        simp [hl, hc]
      simp [hc, hz]

/-! ## 4. The work gate of `Block::validate` -/

theorem totalValidWork_le (b : Blk) : totalValidWork b ≤ totalWork b :=
  sumList_le _ _ _ (validWork_le b.creator)

/-- **a block is accepted only if the routing work the node counts meets the requirement** — every flag vector,
    and BOTH kinds of validating node (`vau` = `validate_against_utxo`: a node holding block 1, or one that joined
    mid-chain): the work gate of block.rs:2986-2996 is not gated by `validate_against_utxo`.
    "Counts" = `workForMe_char`: non-empty contiguous path ending at the creator, halved per hop. -/
theorem accepted_has_work (fl : Flags) (O : FloatOps) (bf ts pts hb : Nat) (b : Blk) (rest : Bool)
    (exp : Option (List (Nat × Nat))) (vau : Bool)
    (h : blockAccepts fl O bf ts pts hb b rest exp vau = true) :
    workNeeded O bf ts pts hb ≤ totalWork b := by
  unfold blockAccepts blockAcceptsN at h
  simp only [Bool.and_eq_true, decide_eq_true_eq] at h
  exact h.1.1.2

/-- what holds on the pinned tree (PARTIAL: hop signatures and self-hops are NOT part of it): an accepted block
    meets the requirement with work counted only for transactions whose path is non-empty, contiguous and ends
    at the block's creator, each worth its fees halved once per further hop -/
theorem accepted_counts_only_shaped_paths_partial (fl : Flags) (O : FloatOps) (bf ts pts hb : Nat) (b : Blk)
    (rest : Bool) (exp : Option (List (Nat × Nat))) (vau : Bool)
    (h : blockAccepts fl O bf ts pts hb b rest exp vau = true) :
    workNeeded O bf ts pts hb ≤ totalWork b ∧
      ∀ tx ∈ b.txs, workForMe b.creator tx ≠ 0 →
        (tx.path ≠ [] ∧ tx.path.getLast?.map (·.to) = some b.creator ∧ contiguous tx.path = true ∧
          workForMe b.creator tx = halveN (tx.path.length - 1) tx.fees) := by
  refine ⟨accepted_has_work fl O bf ts pts hb b rest exp vau h, ?_⟩
  intro tx _ hne
  obtain ⟨h1, h2, h3⟩ := counted_only_if b.creator tx hne
  refine ⟨h1, h2, h3, ?_⟩
  rw [workForMe_char]
  simp [h2, h3]

/-- **with the transaction verdict propagated**: the requirement is met by work delivered through
    cryptographically valid, contiguous, self-hop-free paths, and every hop signature in the block verifies -/
theorem accepted_has_valid_work_fixed (fl : Flags) (hfl : fl.txVerdictPropagated = true) (O : FloatOps)
    (bf ts pts hb : Nat) (b : Blk) (rest : Bool) (exp : Option (List (Nat × Nat))) (vau : Bool)
    (h : blockAccepts fl O bf ts pts hb b rest exp vau = true) :
    workNeeded O bf ts pts hb ≤ totalValidWork b ∧
      ∀ tx ∈ b.txs, ∀ hop ∈ tx.path, hop.sigOk = true ∧ hop.frm ≠ hop.to := by
  unfold blockAccepts blockAcceptsN at h
  simp only [Bool.and_eq_true, decide_eq_true_eq, hfl, Bool.not_true, Bool.false_or, List.all_eq_true] at h
  have hall : ∀ tx ∈ b.txs, validateRoutingPath tx = true := by
    intro tx htx
    have := h.1.2 tx htx
    unfold txValidate at this
    simp only [Bool.and_eq_true] at this
    exact this.2
  constructor
  · have e : totalValidWork b = totalWork b :=
      sumList_congr _ _ _ (fun tx htx => validWork_eq_of_vrp b.creator tx (hall tx htx))
    rw [e]
    exact h.1.1.2
  · intro tx htx
    exact vrpLoop_hops _ _ (hall tx htx)

/-- non-vacuity: a block with one properly routed transaction is accepted by the repaired validator -/
example : blockAcceptsN Flags.fixed 500000
    { creator := 1, txs := [{ sender := some 7, fees := 500000, path := [⟨7, 1, true⟩] }] } true = true := by decide

/-- **witness (pinned tree)**: the only routing work of the block comes through a hop whose signature does not
    verify; the block is accepted although no valid work was delivered. Reproduced on the real node
    (finding C08/accepted-without-enough-valid-work/forged-hop-signature). -/
theorem forged_work_witness :
    let b : Blk := { creator := 1, txs := [{ sender := some 7, fees := 500000, path := [⟨5, 1, false⟩] }] }
    blockAcceptsN {} 500000 b true = true ∧ totalValidWork b = 0 ∧
    blockAcceptsN { txVerdictPropagated := true } 500000 b true = false := by decide

/-- **witness (pinned tree)**: work routed through a self-hop (rejected by `validate_routing_path`) counts -/
theorem selfhop_work_witness :
    let b : Blk := { creator := 1, txs := [{ sender := some 7, fees := 2000000, path := [⟨7, 5, true⟩, ⟨5, 5, true⟩, ⟨5, 1, true⟩] }] }
    blockAcceptsN {} 500000 b true = true ∧ totalValidWork b = 0 ∧
    blockAcceptsN { txVerdictPropagated := true } 500000 b true = false := by decide

/-- one nolan short is rejected, whatever the flags and on both kinds of node -/
theorem one_short_rejected (fl : Flags) (needed : Nat) (b : Blk) (rest : Bool) (exp : Option (List (Nat × Nat)))
    (vau : Bool) (h : totalWork b < needed) : blockAcceptsN fl needed b rest exp vau = false := by
  unfold blockAcceptsN
  have : decide (needed ≤ totalWork b) = false := by simp; omega
  simp [this]

/-- a node that joined mid-chain (`validate_against_utxo = false`) rejects a block with no routing work offered
    inside two heartbeats just like a full node does; and a block that meets the requirement is accepted by both -/
example :
    let b : Blk := { creator := 1, txs := [{ sender := some 7, fees := 5, path := [] }] }
    blockAcceptsN {} 500000 b true none false = false ∧ blockAcceptsN {} 500000 b true none true = false ∧
    blockAcceptsN {} 0 b true none false = true := by decide

/-! ## 5. The lottery inside a transaction: `get_winning_routing_node` -/

/-- **the lottery winner of a transaction is on its path** (or its sender when there is no path, or nobody —
    key 0 — when a routed transaction paid no fee); in particular the `unreachable!` is unreachable, because the
    winning number `r mod aggregate` is below the aggregate, the last entry of `work_by_hop` -/
theorem winning_router_on_path (tx : Tx) (r : Nat) :
    ∃ k, winningRouter tx r = .key k ∧
      ((tx.path = [] ∧ k = tx.sender.getD 0) ∨ (tx.path ≠ [] ∧ tx.fees = 0 ∧ k = 0) ∨ (∃ h ∈ tx.path, h.to = k)) := by
  unfold winningRouter
  cases hp : tx.path with
  | nil => exact ⟨_, rfl, Or.inl ⟨rfl, rfl⟩⟩
  | cons h0 rest =>
    simp only
    by_cases hf : tx.fees = 0
    · exact ⟨0, by simp [hf], Or.inr (Or.inl ⟨by simp, hf, rfl⟩)⟩
    · simp only [hf, if_false]
      have hpos : 0 < lastD (workVec tx.fees (h0 :: rest).length) 0 := by
        unfold workVec lastD
        exact Nat.lt_of_lt_of_le (Nat.pos_of_ne_zero hf) (lastD_workByHop_ge _ _ _)
      have hlen : (workVec tx.fees (h0 :: rest).length).length = (h0 :: rest).length := by
        simp [workVec, workByHop_length]
      obtain ⟨h, hm, he⟩ := pickHop_key (r % lastD (workVec tx.fees (h0 :: rest).length) 0)
        (workVec tx.fees (h0 :: rest).length) (h0 :: rest) hlen (by simp [workVec])
        (Nat.le_of_lt (Nat.mod_lt _ hpos))
      exact ⟨h.to, he, Or.inr (Or.inr ⟨h, hm, rfl⟩)⟩

theorem winningRouter_unreachable (tx : Tx) (r : Nat) : winningRouter tx r ≠ .panic := by
  obtain ⟨k, hk, _⟩ := winning_router_on_path tx r
  rw [hk]
  intro h
  cases h

example : winningRouter { sender := some 1, fees := 1001, path := [⟨1, 2, true⟩, ⟨2, 3, true⟩] } 1700 = .key 2 := by decide
example : winningRouter { sender := some 1, fees := 1001, path := [⟨1, 2, true⟩, ⟨2, 3, true⟩] } 1002 = .key 3 := by decide
example : winningRouter { sender := some 9, fees := 5, path := [] } 3 = .key 9 := by decide

/-! ## 6. The lottery over a block: `find_winning_router` -/

/-- **the router paid for a block is on a routing path of that block** (or nobody: key 0, the payout is burnt);
    neither the `assert_ne!` nor the `unreachable!` can fire -/
theorem find_winning_router_on_path (b : PaidBlock) (r1 r2 : Nat) :
    ∃ k, findWinningRouter b r1 r2 = .key k ∧ (k = 0 ∨ OnPath b k) := by
  unfold findWinningRouter
  by_cases hy : b.totalFees = 0
  · exact ⟨0, by simp [hy], Or.inl rfl⟩
  · simp only [hy, if_false]
    cases hfc : firstCum (max (r1 % b.totalFees) 1) 0 b.txs with
    | none => exact ⟨0, rfl, Or.inl rfl⟩
    | some p =>
      obtain ⟨tx, cum⟩ := p
      obtain ⟨hm, hc⟩ := firstCum_spec _ _ _ _ _ hfc
      have hcum : cum ≠ 0 := by omega
      simp only [hcum, if_false]
      obtain ⟨k, hk, hcases⟩ := winning_router_on_path tx r2
      refine ⟨k, hk, ?_⟩
      rcases hcases with ⟨hp, hs⟩ | ⟨_, _, hz⟩ | ⟨h, hh, hto⟩
      · cases hsd : tx.sender with
        | none => left; simp [hs, hsd]
        | some s =>
          right
          exact ⟨tx, hm, Or.inr ⟨hp, by simp [hs, hsd]⟩⟩
      · exact Or.inl hz
      · exact Or.inr ⟨tx, hm, Or.inl ⟨h, hh, hto⟩⟩

theorem findWinningRouter_no_panic (b : PaidBlock) (r1 r2 : Nat) : findWinningRouter b r1 r2 ≠ .panic := by
  obtain ⟨k, hk, _⟩ := find_winning_router_on_path b r1 r2
  rw [hk]
  intro h
  cases h

example : findWinningRouter { totalFees := 10, txs := [{ sender := some 1, fees := 4, path := [] },
    { sender := some 2, fees := 6, path := [⟨2, 5, true⟩] }] } 3 7 = .key 1 := by decide

/-! ## 7. The expected fee transaction: who is paid, and how much -/

/-- fees collected by the blocks this payout settles -/
def paidFees (c : PayCtx) : Nat :=
  c.prev.totalFees + (if c.prevHasGT then 0 else match c.pp with
    | none => 0
    | some q => q.totalFees)

/-- a key that may be paid: the ticket's key, or a key on a routing path of a block being paid -/
def Eligible (c : PayCtx) (k : Nat) : Prop :=
  k = c.miner ∨ OnPath c.prev k ∨ (c.prevHasGT = false ∧ ∃ q, c.pp = some q ∧ OnPath q k)

theorem feeSlips_eligible (c : PayCtx) (k1 k2 : Nat) (h1 : k1 = 0 ∨ OnPath c.prev k1)
    (h2 : k2 = 0 ∨ (c.prevHasGT = false ∧ ∃ q, c.pp = some q ∧ OnPath q k2)) :
    ∀ o ∈ feeSlips c k1 k2, o.1 ≠ 0 ∧ 0 < o.2 ∧ Eligible c o.1 := by
  intro o ho
  unfold feeSlips at ho
  simp only [List.mem_append] at ho
  rcases ho with (ho | ho) | ho
  · obtain ⟨e, ha, hk⟩ := mem_slipIf ho
    subst e
    exact ⟨hk, ha, Or.inl rfl⟩
  · obtain ⟨e, ha, hk⟩ := mem_slipIf ho
    subst e
    rcases h1 with h1 | h1
    · exact absurd h1 hk
    · exact ⟨hk, ha, Or.inr (Or.inl h1)⟩
  · obtain ⟨e, ha, hk⟩ := mem_slipIf ho
    subst e
    rcases h2 with h2 | h2
    · exact absurd h2 hk
    · exact ⟨hk, ha, Or.inr (Or.inr h2)⟩

/-- **payouts go only to eligible parties**: the expected fee transaction always exists (no panic), every output
    carries value, goes to a real key, and that key is the golden ticket's or on a routing path (hop `to`, or the
    sender of a path-less transaction) of a block being paid — every lottery outcome -/
theorem payout_eligible (c : PayCtx) :
    ∃ l, feeOutputs c = .outs l ∧ ∀ o ∈ l, o.1 ≠ 0 ∧ 0 < o.2 ∧ Eligible c o.1 := by
  unfold feeOutputs
  obtain ⟨k1, hk1, he1⟩ := find_winning_router_on_path c.prev c.a1 c.a2
  rw [hk1]
  simp only
  by_cases hgt : c.prevHasGT = true
  · simp only [hgt, if_true]
    exact ⟨_, rfl, feeSlips_eligible c k1 0 he1 (Or.inl rfl)⟩
  · simp only [hgt]
    cases hpp : c.pp with
    | none => exact ⟨_, rfl, feeSlips_eligible c k1 0 he1 (Or.inl rfl)⟩
    | some q =>
      simp only
      obtain ⟨k2, hk2, he2⟩ := find_winning_router_on_path q c.b1 c.b2
      rw [hk2]
      refine ⟨_, rfl, feeSlips_eligible c k1 k2 he1 ?_⟩
      rcases he2 with he2 | he2
      · exact Or.inl he2
      · exact Or.inr ⟨by simpa using hgt, q, hpp, he2⟩

/-- the split of the fees (C02: each payout is at most its half of the fees, and at most the cap) -/
theorem payout_shares (c : PayCtx) :
    minerPayout c ≤ c.prev.totalFees / 2 ∧ router1Payout c ≤ c.prev.totalFees - c.prev.totalFees / 2 ∧
    minerPayout c ≤ c.cap ∧ router1Payout c ≤ c.cap ∧ router2Payout c ≤ c.cap ∧
    minerPayout c + router1Payout c ≤ c.prev.totalFees ∧
    router2Payout c ≤ paidFees c - c.prev.totalFees := by
  have h1 := Nat.min_le_left (c.prev.totalFees / 2) c.cap
  have h2 := Nat.min_le_left (c.prev.totalFees - c.prev.totalFees / 2) c.cap
  have h3 := Nat.min_le_right (c.prev.totalFees / 2) c.cap
  have h4 := Nat.min_le_right (c.prev.totalFees - c.prev.totalFees / 2) c.cap
  unfold minerPayout router1Payout router2Payout paidFees
  refine ⟨h1, h2, h3, h4, ?_, by omega, ?_⟩
  · cases c.prevHasGT with
    | true => exact Nat.zero_le _
    | false =>
      cases c.pp with
      | none => exact Nat.zero_le _
      | some q => exact Nat.min_le_right _ _
  · cases c.prevHasGT with
    | true => exact Nat.zero_le _
    | false =>
      cases c.pp with
      | none => exact Nat.zero_le _
      | some q =>
        have := Nat.min_le_left (q.totalFees - q.totalFees / 2) c.cap
        simp only [Bool.false_eq_true, if_false]
        omega

theorem feeSlips_sum (c : PayCtx) (k1 k2 : Nat) :
    sumAmt (feeSlips c k1 k2) ≤ minerPayout c + router1Payout c + router2Payout c := by
  unfold feeSlips
  rw [sumAmt_append, sumAmt_append]
  have h1 := sumAmt_slipIf c.miner (minerPayout c)
  have h2 := sumAmt_slipIf k1 (router1Payout c)
  have h3 := sumAmt_slipIf k2 (router2Payout c)
  omega

/-- **payouts never exceed what the paid blocks collected in fees** — for an arbitrary cap -/
theorem payout_bounded (c : PayCtx) (l : List (Nat × Nat)) (h : feeOutputs c = .outs l) :
    sumAmt l ≤ paidFees c := by
  have hs := payout_shares c
  have key : ∀ k1 k2, sumAmt (feeSlips c k1 k2) ≤ paidFees c := by
    intro k1 k2
    have := feeSlips_sum c k1 k2
    have hp : c.prev.totalFees ≤ paidFees c := by unfold paidFees; omega
    omega
  unfold feeOutputs at h
  split at h
  · cases h
  · split at h
    · cases h; exact key _ _
    · split at h
      · cases h; exact key _ _
      · split at h
        · cases h
        · cases h; exact key _ _

/-- non-vacuity: a ticket block paying its parent (fees 10: a path-less transaction of key 1 and a transaction
    routed 2 → 5) and, the parent carrying no ticket, the block before (fees 7, sender 3) -/
def exPrev : PaidBlock :=
  { totalFees := 10, txs := [{ sender := some 1, fees := 4, path := [] }, { sender := some 2, fees := 6, path := [⟨2, 5, true⟩] }] }
def exPP : PaidBlock := { totalFees := 7, txs := [{ sender := some 3, fees := 7, path := [] }] }
def exCtx : PayCtx :=
  { miner := 9, prev := exPrev, prevHasGT := false, pp := some exPP, cap := 150, a1 := 3, a2 := 7, b1 := 1, b2 := 1 }
example : feeOutputs exCtx = .outs [(9, 5), (1, 5), (3, 4)] := by decide

/-! ## 8. The fee transactions a block may carry -/

/-- **with the fee-transaction test exact, on a node that validates against its ledger** (`vau = true`, the
    default argument: the node holds block 1 or a full genesis period): an accepted block carries no Fee transaction
    without a ticket and exactly the expected one with a ticket — so every fee output it creates is eligible and the
    outputs together stay within the fees of the paid blocks. The hypothesis on the node is needed: the hash
    comparison is gated by `validate_against_utxo` (`midchain_fee_unchecked_witness`). -/
theorem accepted_pays_only_eligible_fixed (fl : Flags) (hfl : fl.feeTxExact = true) (needed : Nat) (b : Blk)
    (rest : Bool) (c : PayCtx) (hasTicket : Bool)
    (h : blockAcceptsN fl needed b rest
          (if hasTicket then (match feeOutputs c with | .outs l => some l | .panic => none) else none) = true) :
    (hasTicket = false → b.feeTxs = []) ∧
    (∀ o ∈ b.feeTxs.flatten, o.1 ≠ 0 ∧ 0 < o.2 ∧ Eligible c o.1) ∧
    sumAmt b.feeTxs.flatten ≤ paidFees c := by
  obtain ⟨l, hl, hel⟩ := payout_eligible c
  unfold blockAcceptsN feeTxOk at h
  simp only [Bool.and_eq_true, hfl, if_true, hl] at h
  have hfee := h.2
  cases ht : hasTicket with
  | false =>
    simp only [ht, Bool.false_eq_true, if_false, beq_iff_eq] at hfee
    refine ⟨fun _ => hfee, ?_, ?_⟩
    · intro o ho; rw [hfee] at ho; simp at ho
    · rw [hfee]; simp [sumAmt]
  | true =>
    simp only [ht, if_true, beq_iff_eq, Bool.not_true, Bool.false_or, Bool.and_eq_true] at hfee
    replace hfee := hfee.2
    refine ⟨fun hh => (by cases hh), ?_, ?_⟩
    · intro o ho
      rw [hfee] at ho
      simp only [List.flatten_cons, List.flatten_nil, List.append_nil] at ho
      exact hel o ho
    · rw [hfee]
      simp only [List.flatten_cons, List.flatten_nil, List.append_nil]
      exact payout_bounded c l hl

/-- **witness (pinned tree)**: a forged second Fee transaction paying key 99 in front of the legitimate one passes
    the fee-transaction test (only the last one is compared); the repaired test rejects it. Reproduced on the real
    node: the forged output is wound into the ledger, then `check_total_supply` panics
    (finding C08/fee-output-to-ineligible-key/second-fee-transaction). -/
theorem second_fee_tx_witness :
    let b : Blk := { creator := 1, txs := [], feeTxs := [[(99, 5)], [(9, 5), (1, 5)]] }
    blockAcceptsN {} 0 b true (some [(9, 5), (1, 5)]) = true ∧
    blockOutcome {} 0 b true (some [(9, 5), (1, 5)]) = .supplyPanic ∧
    blockAcceptsN { feeTxExact := true } 0 b true (some [(9, 5), (1, 5)]) = false := by decide

/-- **witness (pinned tree)**: without a golden ticket no fee transaction is expected, and none is compared: a block
    carrying one passes (finding C08/fee-output-to-ineligible-key/fee-transaction-without-ticket) -/
theorem fee_without_ticket_witness :
    let b : Blk := { creator := 1, txs := [], feeTxs := [[(99, 5)]] }
    blockAcceptsN {} 0 b true none = true ∧ blockOutcome {} 0 b true none = .supplyPanic ∧
    blockAcceptsN { feeTxExact := true } 0 b true none = false := by decide

/-- what still holds on the pinned tree, on a node that holds block 1 (`vau = true`): if the block carries a ticket
    and any Fee transaction, its LAST Fee transaction is the expected one (so a tampered key or amount in a single
    fee transaction is rejected) -/
theorem last_fee_tx_checked_partial (fl : Flags) (needed : Nat) (b : Blk) (rest : Bool) (e last : List (Nat × Nat))
    (hl : b.feeTxs.getLast? = some last)
    (h : blockAcceptsN fl needed b rest (some e) = true) : last = e := by
  unfold blockAcceptsN feeTxOk at h
  simp only [Bool.and_eq_true] at h
  have hfee := h.2
  cases hx : fl.feeTxExact with
  | true =>
    simp only [hx, if_true, beq_iff_eq, Bool.not_true, Bool.false_or, Bool.and_eq_true] at hfee
    rw [hfee.2] at hl
    simp at hl
    exact hl.symm
  | false =>
    simp [hx, hl] at hfee
    exact hfee

/-- **witness (pinned tree, node that joined mid-chain)**: with `validate_against_utxo = false` the fee transaction
    is not compared at all — a single fee transaction paying key 99 instead of the expected parties passes, even
    with the count repaired (`feeTxExact`), and no supply check follows. A full node rejects the same block.
    Reproduced on the real node (finding C08/fee-output-to-ineligible-key/node-without-block-1). -/
theorem midchain_fee_unchecked_witness :
    let b : Blk := { creator := 1, txs := [], feeTxs := [[(99, 5)]] }
    blockOutcome {} 0 b true (some [(9, 5), (1, 5)]) false = .accepted ∧
    blockOutcome Flags.fixed 0 b true (some [(9, 5), (1, 5)]) false = .accepted ∧
    blockOutcome {} 0 b true (some [(9, 5), (1, 5)]) true = .rejected := by decide

/-- an honest block (one expected fee transaction) is accepted and the supply check passes -/
example : blockOutcome Flags.fixed 0 { creator := 1, txs := [], feeTxs := [[(9, 5), (1, 5)]] } true (some [(9, 5), (1, 5)]) = .accepted := by
  decide

end Saito.C08
