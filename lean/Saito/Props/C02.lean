import Saito.Lemmas.Supply
/-!
# C02 — token supply is conserved (no inflation, no silent loss)

Model: `Saito/Model/Supply.lean` (per-transaction sums of `Transaction::generate_total_fees` / the `out ≤ in` guard of
`Transaction::validate`; the payout partition of `Block::generate_consensus_values`; the header arithmetic of
`Block::create`; winding of a block into the spendable set; `supply` = what `Blockchain::check_total_supply` sums).
It is tied to the real code by the `supply` correspondence suite (real transactions in both build profiles; real nodes
producing and exchanging real blocks, every accounting field of every block diffed against `account`, the node's
supply recomputed in `u128` after every accepted block).

PROVED here (kernel-checked, for all inputs): everything stated as `theorem`.
HYPOTHESES of the block-level theorems (`Inv`, `Honest`, see `Lemmas/Supply.lean`):
 * the block's header fields / fee transaction / rebroadcasts are the ones `account` computes — this is not a
   hypothesis inside Lean (the new ledger is *defined* from `account`) but it is the point where the model meets
   the code: the correspondence run compares every such field of every real block with `account`;
 * each transaction is balanced in unbounded arithmetic (`tx_no_wrap_fixed` derives this from acceptance once the
   sums are checked; on the pinned tree it holds only when the sums stay below 2^64 — `tx_partial`);
 * inputs are spendable, distinct, inside the window; new keys are fresh; the treasury subtraction does not underflow;
 * no ticket carries the all-zero public key (or the repair `minerZeroKeyBurns` is applied).
-/
namespace Saito.C02
open Saito.Supply

/-! ## per-transaction arithmetic -/

/-- the production (`release`) sum is the unbounded sum modulo 2^64 — for every amount vector -/
theorem sum_wraps (l : List Nat) : sumU64 l = sumNat l % two64 := sumU64_eq_mod l

/-- FULL (repaired sums): whatever the amounts and the build profile, an accepted transaction does not pay out more
    than it consumes in UNBOUNDED arithmetic, the reported totals are the true sums, and the fee is their difference -/
theorem tx_no_wrap_fixed (fl : Flags) (hf : fl.sumsChecked = true) (prof : Profile) (ins outs : List Nat)
    (tin tout fees : Nat) (h : txEval fl prof ins outs = .done tin tout fees true) :
    sumNat outs ≤ sumNat ins ∧ tin = sumNat ins ∧ tout = sumNat outs ∧ fees + sumNat outs = sumNat ins := by
  unfold txEval at h
  simp only [hf, overflows, Bool.or_eq_true, decide_eq_true_eq] at h
  split at h
  · cases h
  · rename_i hno
    have h1 : sumNat ins < two64 := by omega
    have h2 : sumNat outs < two64 := by omega
    rw [sumU64_eq_of_lt ins h1, sumU64_eq_of_lt outs h2] at h
    injection h with e1 e2 e3 e4
    simp only [txVerdict, Bool.and_eq_true, decide_eq_true_eq] at e4
    subst e1 e2 e3
    refine ⟨e4.2, rfl, rfl, ?_⟩
    unfold txFees; split <;> omega

/-- the dev profile (overflow checks on) never accepts a wrapped sum either: it panics instead -/
theorem tx_dev_sound (fl : Flags) (ins outs : List Nat) (tin tout fees : Nat)
    (h : txEval fl .dev ins outs = .done tin tout fees true) : sumNat outs ≤ sumNat ins := by
  unfold txEval at h
  simp only [overflows, Bool.or_eq_true, decide_eq_true_eq] at h
  split at h
  · split at h <;> cases h
  · rename_i hno
    have h1 : sumNat ins < two64 := by omega
    have h2 : sumNat outs < two64 := by omega
    rw [sumU64_eq_of_lt ins h1, sumU64_eq_of_lt outs h2] at h
    injection h with e1 e2 e3 e4
    simp only [txVerdict, Bool.and_eq_true, decide_eq_true_eq] at e4
    exact e4.2

/-- PARTIAL (pinned tree, production profile): acceptance implies `out ≤ in` only while both sums stay below 2^64 -/
theorem tx_partial (prof : Profile) (ins outs : List Nat) (tin tout fees : Nat)
    (hi : sumNat ins < two64) (ho : sumNat outs < two64)
    (h : txEval {} prof ins outs = .done tin tout fees true) : sumNat outs ≤ sumNat ins := by
  unfold txEval at h
  have hno : (overflows ins || overflows outs) = false := by
    simp only [overflows, Bool.or_eq_false_iff, decide_eq_false_iff_not]; omega
  rw [hno] at h
  simp only [Bool.false_eq_true, if_false] at h
  rw [sumU64_eq_of_lt ins hi, sumU64_eq_of_lt outs ho] at h
  injection h with e1 e2 e3 e4
  simp only [txVerdict, Bool.and_eq_true, decide_eq_true_eq] at e4
  exact e4.2

/-- WITNESS (flag `sumsChecked = false`, production profile): outputs `[2^64 − 1, 2]` against one input of `1` are
    ACCEPTED with `total_in = 1, total_out = 1, total_fees = 0`: 2^64 units are created -/
theorem tx_wrap_witness :
    txEval {} .release [1] [18446744073709551615, 2] = .done 1 1 0 true
    ∧ ¬ (sumNat [18446744073709551615, 2] ≤ sumNat [1]) := by decide

/-- the same input in the dev profile panics (`attempt to add with overflow`) -/
theorem tx_wrap_witness_dev : txEval {} .dev [1] [18446744073709551615, 2] = .panic := by decide

/-- and is rejected by the repaired code in either profile -/
theorem tx_wrap_witness_fixed (prof : Profile) :
    txEval Flags.fixed prof [1] [18446744073709551615, 2] = .rejectedOverflow := by
  cases prof <;> decide

/-! ## payout partition -/

theorem capped_sum (c x : Nat) : (capped c x).1 + (capped c x).2 = x := by
  unfold capped; split <;> simp <;> omega

/-- CONSERVATION LEMMA of `generate_consensus_values`: for every fee amount, EVERY cap function and every case of the
    ticket pattern (ticket / no ticket × previous block with / without ticket × grandparent known or not × each of
    the three keys all-zero or not), the outputs of the fee transaction + the treasury and graveyard increments
    + what the pinned code drops (`lost`) = the fees being distributed. -/
theorem payout_partition (fl : Flags) (cap : Nat → Nat) (p : PayIn) :
    (payouts fl cap p).minerPaid + (payouts fl cap p).r1Paid + (payouts fl cap p).r2Paid
      + (payouts fl cap p).treasury + (payouts fl cap p).graveyard + lost fl cap p = distributed p := by
  obtain ⟨hasGT, prevPresent, prevGT, ppPresent, feesP, feesPP, unpaidP, avgP, mz, r1z, r2z⟩ := p
  obtain ⟨sc, mzb, acs⟩ := fl
  cases hasGT
  · -- no ticket: the graveyard sweep of `previous_block_unpaid`, or nothing
    simp [payouts, distributed, lost]
  · cases prevPresent
    · simp [payouts, distributed, lost]
    · -- ticket, previous block known
      have h1 := capped_sum (cap avgP) (feesP / 2)
      have h2 := capped_sum (cap avgP) (feesP - feesP / 2)
      have h3 := capped_sum (cap avgP) (feesPP / 2)
      have h4 := capped_sum (cap avgP) (feesPP - feesPP / 2)
      simp only [payouts, distributed, lost, PayIn.second, if_true, Bool.and_true, Bool.true_and]
      generalize capped (cap avgP) (feesP / 2) = m at h1 ⊢
      generalize capped (cap avgP) (feesP - feesP / 2) = r1 at h2 ⊢
      generalize capped (cap avgP) (feesPP / 2) = t at h3 ⊢
      generalize capped (cap avgP) (feesPP - feesPP / 2) = r2 at h4 ⊢
      cases prevGT <;> cases ppPresent <;> cases mz <;> cases r1z <;> cases r2z <;> cases mzb <;> simp <;> omega

/-- with the zero-key repair (or a non-zero ticket key) nothing is dropped -/
theorem lost_zero (fl : Flags) (cap : Nat → Nat) (p : PayIn)
    (h : p.hasGT = true → p.minerZero = true → fl.minerZeroKeyBurns = true) : lost fl cap p = 0 := by
  unfold lost
  split
  · rename_i hc
    simp only [Bool.and_eq_true, Bool.not_eq_true'] at hc
    have := h hc.1.1.1 hc.1.2
    rw [this] at hc; exact absurd hc.2 (by simp)
  · rfl

/-- payouts never exceed their half: miner ≤ ⌊F/2⌋, router1 ≤ F − ⌊F/2⌋, and each is at most the cap -/
theorem payout_bounds (fl : Flags) (cap : Nat → Nat) (p : PayIn) (hg : p.hasGT = true) (hp : p.prevPresent = true) :
    (payouts fl cap p).miner ≤ p.feesP / 2 ∧ (payouts fl cap p).router1 ≤ p.feesP - p.feesP / 2
    ∧ (payouts fl cap p).miner ≤ cap p.avgP ∧ (payouts fl cap p).router1 ≤ cap p.avgP := by
  simp only [payouts, hg, hp, if_true, capped]
  generalize cap p.avgP = c
  refine ⟨?_, ?_, ?_, ?_⟩ <;> split <;> simp <;> omega

/-- WITNESS (flag `minerZeroKeyBurns = false`): a ticket with the all-zero key after a block that collected 100 in
    fees: 50 is paid to the router, 50 is neither paid nor sent to the graveyard -/
theorem miner_zero_witness :
    let p : PayIn := { hasGT := true, prevPresent := true, prevGT := true, ppPresent := true, feesP := 100, feesPP := 0,
                       unpaidP := 0, avgP := 0, minerZero := true, r1Zero := false, r2Zero := false }
    let o := payouts {} (fun _ => 1000) p
    o.minerPaid + o.r1Paid + o.r2Paid + o.treasury + o.graveyard = 50 ∧ distributed p = 100 := by decide

/-! ## one block -/

/-- EXACT accounting of one accepted block: the supply after the block plus what the zero-key defect drops equals the
    supply before — unbounded arithmetic, every amount vector, every cap function, every ticket pattern,
    rebroadcasts with any multiplier ≥ 1 and any fee. -/
theorem block_supply_exact (fl : Flags) (cap : Nat → Nat) (st : St) (b : BlockIn) (hi : Inv st)
    (hh : Honest fl cap st b) :
    supply (applyBlock fl cap st b) + lost fl cap (payInOf st b) = supply st := by
  have e1 : (account fl cap st b).atr = atrRun (atrMultiplier st.gp st.tip) (st.tip.id + 1) b.atrFee b.atrOutKey
      (st.utxo.filter (expiring st.gp (st.tip.id + 1))) := capBranch_id _ _ hh.atrUncapped
  have hpart := payout_partition fl cap (payInOf st b)
  have hatr := atrRun_balance (atrMultiplier st.gp st.tip) (st.tip.id + 1) b.atrFee b.atrOutKey
    (atrMultiplier_pos _ _) (st.utxo.filter (expiring st.gp (st.tip.id + 1))) hh.atrFits
  have hwin := window_split st.gp st.tip.id st.utxo
  have hfee := txs_fee_sum b.txs hh.txBalanced hh.txFits
  have hrem := sum_removeKeys (inWin st.gp (st.tip.id + 1)) (txIns b.txs) st.utxo hi.keysNodup hh.insPresent hh.insDistinct
  rw [sumAmt_filter_self _ _ hh.insInWindow] at hrem
  have hsub : (removeKeys st.utxo (txInKeys b.txs)).Sublist st.utxo := removeKeys_sublist _ _
  have hrem2 : sumAmt ((removeKeys (removeKeys st.utxo (txInKeys b.txs)) (account fl cap st b).atr.spent).filter
        (inWin st.gp (st.tip.id + 1)))
      = sumAmt ((removeKeys st.utxo (txInKeys b.txs)).filter (inWin st.gp (st.tip.id + 1))) := by
    apply sum_removeKeys_outside
    intro k hk x hx hxk
    rw [e1] at hk
    obtain ⟨e, he, hek⟩ := atrRun_spent _ _ _ _ _ k hk
    have hxu : x ∈ st.utxo := hsub.subset hx
    have heu := List.mem_filter.1 he
    have : x = e := key_inj hi.keysNodup hxu heu.1 (by rw [hxk, hek])
    rw [this]
    exact expiring_not_inWin _ _ _ heu.2
  have hO1 : sumAmt ((txOuts b.txs).filter (inWin st.gp (st.tip.id + 1))) = sumAmt (txOuts b.txs) :=
    sumAmt_filter_self _ _ (fun o ho => by simp [inWin, hh.outsBid o ho])
  have hO2 : sumAmt ((account fl cap st b).atr.outs.filter (inWin st.gp (st.tip.id + 1)))
      = sumAmt (account fl cap st b).atr.outs :=
    sumAmt_filter_self _ _ (fun o ho => by
      rw [e1] at ho
      have := atrRun_outs_bid _ _ _ _ _ o ho
      simp [inWin, this])
  have hO3 : sumAmt ((account fl cap st b).feeOuts.filter (inWin st.gp (st.tip.id + 1)))
      = sumAmt (account fl cap st b).feeOuts :=
    sumAmt_filter_self _ _ (fun o ho => by
      have := mkOuts_bid _ _ _ _ o ho
      simp [inWin, this])
  have hfo : sumAmt (account fl cap st b).feeOuts
      = (account fl cap st b).pay.minerPaid + (account fl cap st b).pay.r1Paid + (account fl cap st b).pay.r2Paid := by
    simp only [account, sumAmt_mkOuts, sumNat_filter_pos, sumNat]; omega
  have htc := hh.treasuryCovers
  have hun := hi.unpaidOk
  -- what the new ledger is
  have hs : supply (applyBlock fl cap st b)
      = sumAmt ((removeKeys (removeKeys st.utxo (txInKeys b.txs)) (account fl cap st b).atr.spent).filter
            (inWin st.gp (st.tip.id + 1)))
        + (sumAmt ((txOuts b.txs).filter (inWin st.gp (st.tip.id + 1)))
           + sumAmt ((account fl cap st b).atr.outs.filter (inWin st.gp (st.tip.id + 1)))
           + sumAmt ((account fl cap st b).feeOuts.filter (inWin st.gp (st.tip.id + 1))))
        + (st.tip.treasury + (account fl cap st b).pay.treasury - (account fl cap st b).atr.payoutAtr)
        + (st.tip.graveyard + (account fl cap st b).pay.graveyard)
        + (if b.hasGT then 0 else st.tip.fees)
        + ((account fl cap st b).feesNew + (account fl cap st b).atr.feesAtr) := by
    simp only [supply, utxoValue, applyBlock, List.filter_append, sumAmt_append]
    rfl
  rw [hs, hrem2, hO1, hO2, hO3, hfo]
  have e2 : (account fl cap st b).pay = payouts fl cap (payInOf st b) := rfl
  have e3 : (account fl cap st b).feesNew = sumNat (b.txs.map TxIO.fee) := rfl
  have e4 : txInKeys b.txs = keys (txIns b.txs) := rfl
  rw [e1] at htc ⊢
  rw [e2] at htc ⊢
  rw [e3, e4]
  -- the distributed amount in terms of the old tip
  have hdist : distributed (payInOf st b)
      = if b.hasGT then st.tip.fees + st.tip.unpaid else st.tip.unpaid := by
    cases hg : b.hasGT <;> cases ht : st.tip.hasGT <;> cases hp : st.prev <;>
      simp [distributed, payInOf, PayIn.second, hg, ht, hp] <;> simp [ht, hp] at hun <;> omega
  simp only [supply, utxoValue]
  cases hg : b.hasGT <;> simp only [hg, if_true, if_false, Bool.false_eq_true] at hdist ⊢ <;> omega

/-- C02 for one block: `Inv st → accepted block with honest accounting → supply st' = supply st` -/
theorem block_conserves (fl : Flags) (cap : Nat → Nat) (st : St) (b : BlockIn) (hi : Inv st)
    (hh : Honest fl cap st b) (hz : b.hasGT = true → b.minerZero = true → fl.minerZeroKeyBurns = true) :
    supply (applyBlock fl cap st b) = supply st := by
  have h := block_supply_exact fl cap st b hi hh
  have : lost fl cap (payInOf st b) = 0 := lost_zero fl cap (payInOf st b) hz
  omega

/-- the invariant is preserved -/
theorem block_inv (fl : Flags) (cap : Nat → Nat) (st : St) (b : BlockIn) (_hi : Inv st) (hh : Honest fl cap st b) :
    Inv (applyBlock fl cap st b) := by
  constructor
  · have hf := hh.fresh
    have hsub : (removeKeys (removeKeys st.utxo (txInKeys b.txs)) (account fl cap st b).atr.spent).Sublist st.utxo :=
      (removeKeys_sublist _ _).trans (removeKeys_sublist _ _)
    exact keys_nodup_sublist (List.Sublist.append hsub (List.Sublist.refl _)) hf
  · simp [applyBlock, account]

/-- WITNESS (flag `atrCapSound = false`): a ledger whose tip holds a treasury of 150 with
    `avg_nolan_rebroadcast_per_block = 10`, window of one block; the next block rebroadcasts an output of 5 with
    multiplier `1 + 150/10 = 16` and fee 0. Pinned `Block::create` takes the 5% branch (its own treasury field is still
    0): the output becomes 80, nothing is charged to the treasury — 75 units are created. With the branch repaired the
    treasury pays the 75 and the supply is unchanged. -/
theorem atr_cap_witness :
    let st : St := { gp := 1, utxo := [⟨1, 5, 1⟩],
                     tip := { id := 2, hasGT := true, treasury := 150, graveyard := 0, unpaid := 0, fees := 0, avgNR := 10 },
                     prev := none }
    let b : BlockIn := { hasGT := true, txs := [], atrOutKey := [(1, 2)] }
    supply st = 155
    ∧ supply (applyBlock {} (fun _ => 0) st b) = 230
    ∧ supply (applyBlock Flags.fixed (fun _ => 0) st b) = 155 := by decide

/-! ## every history, every reorganisation -/

/-- C02 for EVERY sequence of accepted blocks (linear growth of any length): induction over the list -/
theorem history_conserves (fl : Flags) (cap : Nat → Nat) (bs : List BlockIn) (st : St) (hi : Inv st)
    (hh : HonestSeq fl cap st bs) (hz : NoZeroMiner fl bs) :
    supply (run fl cap st bs) = supply st ∧ Inv (run fl cap st bs) := by
  induction bs generalizing st with
  | nil => exact ⟨rfl, hi⟩
  | cons b bs ih =>
    obtain ⟨hb, hrest⟩ := hh
    have h1 := block_conserves fl cap st b hi hb (hz b (List.mem_cons_self ..))
    have h2 := block_inv fl cap st b hi hb
    have h3 := ih (applyBlock fl cap st b) h2 hrest (fun b' hb' => hz b' (List.mem_cons_of_mem _ hb'))
    exact ⟨by simpa [run] using h3.1.trans h1, by simpa [run] using h3.2⟩

/-- the ledger after the genesis block holds exactly the issued amount -/
theorem genesis_supply (gp : Nat) (issued : List Utx) (h : ∀ x ∈ issued, x.bid = 1) :
    supply (genesis gp issued) = sumAmt issued := by
  have : sumAmt (issued.filter (inWin gp 1)) = sumAmt issued :=
    sumAmt_filter_self _ _ (fun x hx => by simp [inWin, h x hx])
  simp [supply, utxoValue, genesis, this]

/-- C02 as stated: after every accepted block of every history the supply equals the amount issued in the genesis block -/
theorem supply_is_issuance (fl : Flags) (cap : Nat → Nat) (gp : Nat) (issued : List Utx) (bs : List BlockIn)
    (hb : ∀ x ∈ issued, x.bid = 1) (hk : (keys issued).Nodup)
    (hh : HonestSeq fl cap (genesis gp issued) bs) (hz : NoZeroMiner fl bs) :
    supply (run fl cap (genesis gp issued) bs) = sumAmt issued := by
  have hi : Inv (genesis gp issued) := ⟨hk, by simp [genesis]⟩
  rw [(history_conserves fl cap bs _ hi hh hz).1, genesis_supply gp issued hb]

/-- forks and reorganisations: the ledger of a chain is `run` of its blocks from the genesis ledger (C03: the real
    ledger equals the replay of the longest chain), so moving from `P ++ O` to `P ++ N` — unwinding `O`, winding `N`,
    for any fork depth — leaves the supply unchanged -/
theorem reorg_conserves (fl : Flags) (cap : Nat → Nat) (g : St) (P O N : List BlockIn) (hi : Inv g)
    (ho : HonestSeq fl cap g (P ++ O)) (hn : HonestSeq fl cap g (P ++ N))
    (hzo : NoZeroMiner fl (P ++ O)) (hzn : NoZeroMiner fl (P ++ N)) :
    supply (run fl cap g (P ++ N)) = supply (run fl cap g (P ++ O)) := by
  rw [(history_conserves fl cap _ g hi hn hzn).1, (history_conserves fl cap _ g hi ho hzo).1]

/-! ## non-vacuity -/

/-- a ledger after genesis with three outputs (window of 5 blocks) -/
def exG : St := genesis 5 [⟨1, 1000, 1⟩, ⟨2, 2000, 1⟩, ⟨3, 50, 1⟩]
/-- block 2: no ticket, one transaction spending output 1 with a fee of 100 -/
def exB2 : BlockIn := { hasGT := false, txs := [⟨[⟨1, 1000, 1⟩], [⟨4, 900, 2⟩]⟩] }
/-- block 3: ticket; pays the fees of block 2 (cap 30 per half → 30 + 30 paid, 40 to the graveyard) -/
def exB3 : BlockIn := { hasGT := true, txs := [⟨[⟨2, 2000, 1⟩], [⟨5, 1500, 3⟩, ⟨6, 493, 3⟩]⟩], feeKeys := [7, 8] }

example : Inv exG := ⟨by decide, by decide⟩
example : Honest {} (fun _ => 30) exG exB2 :=
  ⟨by decide, by decide, by decide, by decide, by decide, by decide, by decide, by decide, by decide, by decide⟩
example : Honest {} (fun _ => 30) (applyBlock {} (fun _ => 30) exG exB2) exB3 :=
  ⟨by decide, by decide, by decide, by decide, by decide, by decide, by decide, by decide, by decide, by decide⟩
example : HonestSeq {} (fun _ => 30) exG [exB2, exB3] :=
  ⟨⟨by decide, by decide, by decide, by decide, by decide, by decide, by decide, by decide, by decide, by decide⟩,
   ⟨by decide, by decide, by decide, by decide, by decide, by decide, by decide, by decide, by decide, by decide⟩, trivial⟩
example : supply (run {} (fun _ => 30) exG [exB2, exB3]) = 3050 := by decide
example : (account {} (fun _ => 30) (applyBlock {} (fun _ => 30) exG exB2) exB3).pay.graveyard = 40 := by decide
/-- a window that wraps: with gp = 1 the genesis outputs expire at block 3; output 3 (50) is rebroadcast for a fee of
    20, the others were spent or are rebroadcast too — the supply is still 3050 -/
example : supply (run {} (fun _ => 30) (genesis 1 [⟨1, 1000, 1⟩, ⟨2, 2000, 1⟩, ⟨3, 50, 1⟩])
    [exB2, { hasGT := true, txs := [], atrFee := [(3, 20), (2, 2500)], atrOutKey := [(3, 9)], feeKeys := [7, 8] }]) = 3050 := by
  decide

end Saito.C02
