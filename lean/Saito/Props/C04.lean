import Saito.Lemmas.LoopFixed
import Saito.Lemmas.LoopRefine
import Saito.Lemmas.StateInv
import Saito.Props.C03
/-!
# C04 — a rejected block leaves no trace; block processing always returns
* `fixed_*`: the repaired reorganisation (flag `windFailureRestores`) is total and restores the ledger.
* `livelock_*`: on the pinned control flow a three-block candidate whose last block is invalid makes the
  Wind/Unwind loop cycle with period 5 — proved for EVERY amount of fuel, via the cycle, not by sampling.
* `pinned_partial_*`: what the pinned loop still guarantees.
-/
namespace Saito.C04
open Saito.Chain

/-- the repaired Wind/Unwind loop returns from EVERY loop state, for every pair of chains and every validity
    pattern, once the fuel exceeds the measure `muF` (at most `2·(|new| + |old|) + 3` at the loop's start) -/
theorem fixed_loop_returns (fl : Flags) (newC oldC : List Nat) (fuel : Nat) (st : State) (w : WR)
    (h : muF newC.length oldC.length w < fuel) : runWRF fl newC oldC fuel st w ≠ none :=
  runWRF_returns fl newC oldC fuel st w h

theorem fixed_loop_start_returns (fl : Flags) (st : State) (newC oldC : List Nat) :
    (if oldC.isEmpty = true then
        runWRF fl newC oldC (2 * (newC.length + oldC.length) + 4) st (WR.wind (newC.length - 1) false)
      else runWRF fl newC oldC (2 * (newC.length + oldC.length) + 4) st (WR.unwind 0 false oldC)) ≠ none := by
  split
  · rename_i he
    have ho : oldC.length = 0 := by
      cases oldC with
      | nil => rfl
      | cons _ _ => simp at he
    apply runWRF_returns
    simp only [muF, ho]; omega
  · apply runWRF_returns
    simp only [muF]; omega

/-- with the repaired failure path `Blockchain::validate` always returns: the fuel the model gives the repaired
    loop is never exhausted, so the answer `stall` is impossible -/
theorem fixed_validate_returns (fl : Flags) (hf : fl.windFailureRestores = true) (st : State) (newC oldC : List Nat) :
    validate fl st newC oldC ≠ none := by
  unfold validate
  split
  · simp
  · split
    · simp
    · simp only [hf, if_true]
      split
      · split
        · simp
        · exact fixed_loop_start_returns fl st newC oldC
      · split
        · simp
        · exact fixed_loop_start_returns fl st newC oldC

/-- C04 (ledger part), repaired failure path: a reorganisation that fails part-way leaves the spendable set
    exactly as it was, for every fork shape, every position of the offending block and every segment length. -/
theorem fixed_failed_reorg_no_trace (fl : Flags) (hv : fl.txVerdict = true) (newC oldC : List Nat) (st st' : State)
    (P : List ABlock)
    (h : reorgFixed fl newC oldC st = (st', false))
    (hu : SameSet st.utxo (replay (P ++ (blocksOf st oldC).reverse)))
    (hc : CleanSeg (replay P) (blocksOf st oldC).reverse)
    (hfresh : FreshSeg (unwindSeg st.utxo (blocksOf st oldC).reverse) (blocksOf st newC).reverse) :
    SameSet st'.utxo st.utxo := by
  obtain ⟨pre, hclean, e⟩ := reorgFixed_failure_utxo fl newC oldC st st' hv h hfresh
  rw [e]
  exact failed_reorg_restores P _ pre st.utxo hu hc hclean

/-! ### the same for the repaired LOOP (what `validate` runs), via the refinement `runWRF_refines` -/

/-- C04 (ledger part) for the repaired Wind/Unwind loop itself.  If the loop (started as `Blockchain::validate`
    starts it, with at least the fuel `validate` gives it, every hash of both chains in the store) returns
    `false`, the old chain re-validates while it is wound back (`hrest`: the restoration phase of the
    specification the loop refines runs to the end), validity checks the inputs in the states the candidate's
    winding visits (`hins`; discharged for `validB` by `insChecked_after_unwind`, see
    `loop_failed_reorg_no_trace_checked`) and the candidate's outputs are fresh, then the spendable set is exactly
    what it was — for every fork shape, every position of the offending block and every segment length. -/
theorem loop_failed_reorg_no_trace (fl : Flags) (newC oldC : List Nat) (st st' : State) (P : List ABlock)
    (fuel : Nat) (hfuel : 2 * (newC.length + oldC.length) + 4 ≤ fuel)
    (hne : newC ≠ []) (hres : ∀ h ∈ newC ++ oldC, (blkOf st h).isSome)
    (h : runWRF fl newC oldC fuel st (startWRF newC oldC) = some (st', false))
    (hrest : (specRestore (validB fl) (blocksOf st newC).reverse (blocksOf st oldC) st).2.1 = true)
    (hins : InsChecked (validB fl) ((blocksOf st oldC).foldl unwindBlock st) (blocksOf st newC).reverse)
    (hu : SameSet st.utxo (replay (P ++ (blocksOf st oldC).reverse)))
    (hc : CleanSeg (replay P) (blocksOf st oldC).reverse)
    (hfresh : FreshSeg (unwindSeg st.utxo (blocksOf st oldC).reverse) (blocksOf st newC).reverse) :
    SameSet st'.utxo st.utxo := by
  rw [runWRF_refines fl st newC oldC hne hres fuel hfuel] at h
  obtain ⟨pre, hclean, e⟩ := reorgSpec_failure_utxo _ _ _ st st' (Option.some.inj h) hrest hins hfresh
  rw [e]
  exact failed_reorg_restores P _ pre st.utxo hu hc hclean

/-- the same with the hypothesis about validity discharged: the transaction verdict gates validity
    (`txVerdict`), the node checks inputs against its utxo set (`againstUtxo`: it holds block 1) and no block
    of either chain lives in the by-height slot of block id 1 (so the reorganisation cannot switch that check
    off).  WITHOUT `againstUtxo` the statement is not provable: `Block::validate` then skips the utxo check
    (`validB_ins_global_false`), an unspendable input is wound and its unwinding inserts a key that was never
    in the ledger. -/
theorem loop_failed_reorg_no_trace_checked (fl : Flags) (hv : fl.txVerdict = true)
    (newC oldC : List Nat) (st st' : State) (P : List ABlock)
    (fuel : Nat) (hfuel : 2 * (newC.length + oldC.length) + 4 ≤ fuel)
    (hne : newC ≠ []) (hres : ∀ h ∈ newC ++ oldC, (blkOf st h).isSome)
    (h : runWRF fl newC oldC fuel st (startWRF newC oldC) = some (st', false))
    (hrest : (specRestore (validB fl) (blocksOf st newC).reverse (blocksOf st oldC) st).2.1 = true)
    (ha : againstUtxo st = true)
    (hslot : ∀ b ∈ (blocksOf st newC).reverse ++ blocksOf st oldC, slotOf st 1 ≠ slotOf st b.id)
    (hu : SameSet st.utxo (replay (P ++ (blocksOf st oldC).reverse)))
    (hc : CleanSeg (replay P) (blocksOf st oldC).reverse)
    (hfresh : FreshSeg (unwindSeg st.utxo (blocksOf st oldC).reverse) (blocksOf st newC).reverse) :
    SameSet st'.utxo st.utxo :=
  loop_failed_reorg_no_trace fl newC oldC st st' P fuel hfuel hne hres h hrest
    (insChecked_after_unwind fl hv _ _ st ha hslot) hu hc hfresh

/-- the same at the level of `Blockchain::validate` (flag `windFailureRestores` on): whatever the reason for
    the verdict `false` (ticket density or a block of the candidate) -/
theorem validate_failed_reorg_no_trace (fl : Flags) (hf : fl.windFailureRestores = true)
    (newC oldC : List Nat) (st st' : State) (P : List ABlock)
    (hres : ∀ h ∈ newC ++ oldC, (blkOf st h).isSome)
    (h : validate fl st newC oldC = some (st', false))
    (hrest : (specRestore (validB fl) (blocksOf st newC).reverse (blocksOf st oldC) st).2.1 = true)
    (hins : InsChecked (validB fl) ((blocksOf st oldC).foldl unwindBlock st) (blocksOf st newC).reverse)
    (hu : SameSet st.utxo (replay (P ++ (blocksOf st oldC).reverse)))
    (hc : CleanSeg (replay P) (blocksOf st oldC).reverse)
    (hfresh : FreshSeg (unwindSeg st.utxo (blocksOf st oldC).reverse) (blocksOf st newC).reverse) :
    SameSet st'.utxo st.utxo := by
  obtain ⟨r, hr, hcase⟩ := validate_refines fl hf st newC oldC hres
  rw [hr] at h
  have hr' : r = (st', false) := Option.some.inj h
  rcases hcase with h1 | h1
  · rw [hr'] at h1
    rw [(Prod.mk.inj h1).1]
    exact SameSet.refl _
  · rw [hr'] at h1
    obtain ⟨pre, hclean, e⟩ := reorgSpec_failure_utxo _ _ _ st st' h1.symm hrest hins hfresh
    rw [e]
    exact failed_reorg_restores P _ pre st.utxo hu hc hclean

/-! ### the livelock of the pinned loop -/
def blk (h p i : Nat) (ok : Bool := true) : ABlock :=
  { hash := h, prev := p, id := i, burnfee := 10, hasGT := true, ok := ok, ins := [], outs := [] }

/-- genesis 1, chain 1←2←3 on top, side blocks 4 (child of 1) and 5 (child of 4) delivered -/
def s5 : State :=
  [blk 1 0 1, blk 2 1 2, blk 3 2 3, blk 4 1 2, blk 5 4 3].foldl (fun s b => (addBlock {} s b []).1) { gp := 100 }

/-- offering block 6 (child of 5, invalid): candidate [4,5,6] against [2,3]. On the model of the pinned tree
    `add_block` does not return within the fuel bound (outcome `stall`); the real code spins (harness: watchdog). -/
theorem livelock_addBlock_witness : (addBlock {} s5 (blk 6 5 4 false) []).2 = .stall := by decide +kernel

/-- the state in which `validate` starts for that call -/
def sPre : State :=
  let b := blk 6 5 4 false
  let st := s5
  let slot := slotOf st b.id
  let st := { st with ring := setItem st.ring slot ((getItem st.ring slot).add b.id b.hash) }
  let st := { st with blocks := st.blocks ++ [BEntry.mk b false], ringEmpty := false }
  setLC st 6 true

def p0 : State × WR := iter {} [6, 5, 4] [3, 2] 2 (sPre, .unwind 0 true [3, 2])

/-- period-5 cycle W2 W1 W0 U0 U1 of the loop state (full state equality, decided by the kernel) -/
theorem livelock_cycle : iter {} [6, 5, 4] [3, 2] 5 p0 = p0 := by decide +kernel

/-- the loop never returns from there: for EVERY amount of fuel the run is still going -/
theorem livelock_forever : ∀ n, runWR {} [6, 5, 4] [3, 2] n p0.1 p0.2 = none :=
  runWR_cycle_none {} [6, 5, 4] [3, 2] 5 p0 (by decide) livelock_cycle (by decide +kernel)

/-- … and neither from the loop's actual start state -/
theorem livelock_from_start : ∀ n, runWR {} [6, 5, 4] [3, 2] n sPre (.unwind 0 true [3, 2]) = none := by
  intro n
  by_cases hn : n < 2
  · exact runWR_short {} [6, 5, 4] [3, 2] n (sPre, .unwind 0 true [3, 2]) (by
      intro i hi
      have : i = 0 ∨ i = 1 := by omega
      rcases this with rfl | rfl <;> decide +kernel)
  · have e : n = (n - 2) + 2 := by omega
    rw [e]
    have := runWR_iter {} [6, 5, 4] [3, 2] 2 (n - 2) (sPre, .unwind 0 true [3, 2]) (by
      intro i hi
      have : i = 0 ∨ i = 1 := by omega
      rcases this with rfl | rfl <;> decide +kernel)
    rw [this]
    exact livelock_forever (n - 2)

/-- pinned partial result: a single invalid block offered on top of the tip (no competitor, nothing wound)
    is rejected by the loop in one step and the loop itself changes nothing -/
theorem pinned_partial_single_block (fl : Flags) (st : State) (h : Nat) (e : BEntry)
    (hg : getB st h = some e) (hbad : validB fl st e.b = false) :
    runWR fl [h] [] 1 st (.wind 0 false) = some (st, false) := by
  simp [runWR, stepWR, hg, hbad]

/-- pinned partial result (termination bound): when every block of the candidate validates, the pinned loop
    returns with success after exactly `|new|` wind steps — for candidates of ANY length -/
theorem pinned_partial_extend_terminates (fl : Flags) (hfl : fl.txVerdict = false) (st : State) (newC : List Nat)
    (hne : newC ≠ []) (hnew : ∀ h ∈ newC, ∃ b, blkOf st h = some b ∧ b.ok = true ∧ b.okNoParent = true) :
    ∃ st', runWR fl newC [] (newC.length + 1) st (.wind (newC.length - 1) false) = some (st', true) :=
  pinned_extend_succeeds fl hfl st newC hne hnew

/-- pinned partial result (termination bound): an all-valid reorganisation against a non-empty competitor
    returns with success after exactly `|old| + |new|` steps — for segments of ANY length. The livelock and the
    wrong restoration need an INVALID block in the candidate. -/
theorem pinned_partial_reorg_terminates (fl : Flags) (hfl : fl.txVerdict = false) (st : State) (newC oldC : List Nat)
    (hold : ∀ h ∈ oldC, (blkOf st h).isSome) (hnew : ∀ h ∈ newC, ∃ b, blkOf st h = some b ∧ b.ok = true ∧ b.okNoParent = true)
    (hne : oldC ≠ []) (hlen : oldC.length < newC.length) :
    ∃ st', runWR fl newC oldC (oldC.length + newC.length + 1) st (.unwind 0 true oldC) = some (st', true) :=
  pinned_reorg_succeeds fl hfl st newC oldC hold hnew hne hlen

/-- non-vacuity: the witness state `s5` offers the all-valid candidate [5,4] against [3,2]... which is not longer;
    with one more valid block 6' the hypotheses of `pinned_partial_reorg_terminates` hold -/
example : let st := (addBlock {} s5 (blk 7 5 4) []).1
    (∀ h ∈ [3, 2], (blkOf st h).isSome) ∧ (∀ h ∈ [7, 5, 4], ∃ b, blkOf st h = some b ∧ b.ok = true ∧ b.okNoParent = true) := by
  decide +kernel

/-! ### witness: a NON-trivial failing reorganisation satisfies the hypotheses of `loop_failed_reorg_no_trace`
The shape of the pinned livelock (`s5` / `blk 6 5 4 false`): candidate [4,5,6] with an invalid LAST block against
the old chain [2,3], but with real inputs/outputs and the repaired flags. -/
def wfl : Flags := { windFailureRestores := true, txVerdict := true }

def wb (h p i : Nat) (ins outs : List Nat) (ok : Bool := true) : ABlock :=
  { hash := h, prev := p, id := i, burnfee := 10, hasGT := true, ok := ok, ins := ins, outs := outs }

/-- genesis 1 (creates keys 10, 11), chain 1←2←3 on top, side blocks 4 (child of 1, spends 10 like block 2)
    and 5 (child of 4) delivered -/
def w5 : State :=
  [wb 1 0 1 [] [10, 11], wb 2 1 2 [10] [12], wb 3 2 3 [12] [13], wb 4 1 2 [10] [14], wb 5 4 3 [14, 11] [15]].foldl
    (fun s b => (addBlock wfl s b []).1) { gp := 100 }

/-- the offending block: child of 5, header invalid -/
def wb6 : ABlock := wb 6 5 4 [15] [16] false

/-- the state in which `validate` starts when block 6 is offered -/
def wPre : State :=
  let b := wb6
  let st := w5
  let slot := slotOf st b.id
  let st := { st with ring := setItem st.ring slot ((getItem st.ring slot).add b.id b.hash) }
  let st := { st with blocks := st.blocks ++ [BEntry.mk b false], ringEmpty := false }
  setLC st 6 true

/-- where the pinned tree stalls (`livelock_addBlock_witness`) the repaired one answers `invalid`, and the
    ledger and the longest-chain index are what they were -/
theorem loop_failed_reorg_witness_addBlock :
    (addBlock wfl w5 wb6 []).2 = .invalid ∧ (addBlock wfl w5 wb6 []).1.utxo = w5.utxo ∧
      lcDump (addBlock wfl w5 wb6 []).1 = lcDump w5 := by decide +kernel

/-- the repaired loop on the witness: two candidate blocks (4, 5) are wound, block 6 is rejected, 5 and 4 are
    unwound, 2 and 3 are wound back; verdict `false`; utxo list, block store (with its on-chain marks),
    longest-chain index (`lcDump`, `ringLc`) and by-height index (`ringDump`) are exactly restored -/
theorem loop_failed_reorg_witness_run :
    let r := runWRF wfl [6, 5, 4] [3, 2] (2 * (3 + 2) + 4) wPre (startWRF [6, 5, 4] [3, 2])
    r.map (·.2) = some false ∧
    r.map (·.1.utxo) = some wPre.utxo ∧
    r.map (·.1.blocks) = some wPre.blocks ∧
    r.map (lcDump ·.1) = some (lcDump wPre) ∧
    r.map (·.1.ringLc) = some wPre.ringLc ∧
    r.map (ringDump ·.1) = some (ringDump wPre) ∧
    wPre.utxo = [13, 11] ∧ lcDump wPre = [(1, 1), (2, 2), (3, 3)] ∧
    (wPre.blocks.map fun e => (e.b.hash, e.inLC)) = [(1, true), (2, true), (3, true), (4, false), (5, false), (6, true)] ∧
    (specWound (validB wfl) (blocksOf wPre [6, 5, 4]).reverse (blocksOf wPre [3, 2]) wPre).2.1 = false ∧
    (specWound (validB wfl) (blocksOf wPre [6, 5, 4]).reverse (blocksOf wPre [3, 2]) wPre).2.2.map (·.hash) = [5, 4] := by
  decide +kernel

/-- every hypothesis of `loop_failed_reorg_no_trace` / `loop_failed_reorg_no_trace_checked` holds on the witness
    (with `P` = the genesis block) -/
theorem loop_failed_reorg_witness_hyps :
    ([6, 5, 4] : List Nat) ≠ [] ∧
    (∀ h ∈ [6, 5, 4] ++ [3, 2], (blkOf wPre h).isSome) ∧
    (specRestore (validB wfl) (blocksOf wPre [6, 5, 4]).reverse (blocksOf wPre [3, 2]) wPre).2.1 = true ∧
    InsChecked (validB wfl) ((blocksOf wPre [3, 2]).foldl unwindBlock wPre) (blocksOf wPre [6, 5, 4]).reverse ∧
    SameSet wPre.utxo (replay ([wb 1 0 1 [] [10, 11]] ++ (blocksOf wPre [3, 2]).reverse)) ∧
    CleanSeg (replay [wb 1 0 1 [] [10, 11]]) (blocksOf wPre [3, 2]).reverse ∧
    FreshSeg (unwindSeg wPre.utxo (blocksOf wPre [3, 2]).reverse) (blocksOf wPre [6, 5, 4]).reverse := by
  have hn : blocksOf wPre [6, 5, 4] = [wb6, wb 5 4 3 [14, 11] [15], wb 4 1 2 [10] [14]] := by decide +kernel
  have ho : blocksOf wPre [3, 2] = [wb 3 2 3 [12] [13], wb 2 1 2 [10] [12]] := by decide +kernel
  have hu : wPre.utxo = [13, 11] := by decide +kernel
  refine ⟨by decide, by decide +kernel, by decide +kernel, ?_, ?_, ?_, ?_⟩
  · exact insChecked_after_unwind wfl rfl _ _ wPre (by decide +kernel) (by decide +kernel)
  · rw [ho, hu]
    intro x
    simp [replay, replayFrom, wb, mem_windU]
    omega
  · rw [ho]
    simp [CleanSeg, CleanAt, replay, replayFrom, wb, mem_windU]
  · rw [ho, hn, hu]
    simp [FreshSeg, unwindSeg, wb, wb6, mem_windU, mem_unwindU]

/-- the general theorem applied to the witness -/
theorem loop_failed_reorg_witness :
    ∃ st', runWRF wfl [6, 5, 4] [3, 2] (2 * (3 + 2) + 4) wPre (startWRF [6, 5, 4] [3, 2]) = some (st', false) ∧
      SameSet st'.utxo wPre.utxo := by
  have hrun : ∃ st', runWRF wfl [6, 5, 4] [3, 2] (2 * (3 + 2) + 4) wPre (startWRF [6, 5, 4] [3, 2]) = some (st', false) := by
    have h := loop_failed_reorg_witness_run.1
    cases hr : runWRF wfl [6, 5, 4] [3, 2] (2 * (3 + 2) + 4) wPre (startWRF [6, 5, 4] [3, 2]) with
    | none => rw [hr] at h; simp at h
    | some r =>
      rw [hr] at h
      obtain ⟨s, v⟩ := r
      simp only [Option.map_some, Option.some.injEq] at h
      exact ⟨s, by rw [h]⟩
  obtain ⟨st', hst'⟩ := hrun
  obtain ⟨h1, h2, h3, h4, h5, h6, h7⟩ := loop_failed_reorg_witness_hyps
  exact ⟨st', hst', loop_failed_reorg_no_trace wfl [6, 5, 4] [3, 2] wPre st' [wb 1 0 1 [] [10, 11]] _
    (Nat.le_refl _) h1 h2 hst' h3 h4 h5 h6 h7⟩


/-! ### C04 at state level: a rejected block leaves no trace in the observable state -/

/-- **C04 (state level).**  Repaired tree (`ringDeleteKeepsNone`, `windFailureRestores`, `txVerdict`), state
    satisfying the invariant with chain `lc`, non-orphan delivery.  If `add_block` answers `invalid` then the
    state is what it was before the call (`SameObs`): the store with its on-chain flags is the same list, every
    item of the by-height index is the same (entries and on-chain mark), the tip pointer is the same, the
    spendable SET is the same; consequently `lcDump`, `ringDump` and `latest` are unchanged, the rejected block
    is not in the store, and the invariant holds again for the same chain.  No hypothesis that the old chain
    re-validates is needed: the invariant provides it (`InvX.windOld`).  What remains of the call: the amount
    table `amt` keeps the amounts of the rejected block's keys and `ringEmpty` is `false`. -/
theorem rejected_block_no_trace_state (fl : Flags) (hd : fl.ringDeleteKeepsNone = true)
    (hf : fl.windFailureRestores = true) (hv : fl.txVerdict = true) (st : State) (lc : List ABlock) (b : ABlock)
    (q : List Nat) (h : InvX 0 st lc) (d : Deliverable st b) (ho : (addBlock fl st b q).2 = .invalid) :
    SameObs st (addBlock fl st b q).1 ∧
      lcDump (addBlock fl st b q).1 = lcDump st ∧ ringDump (addBlock fl st b q).1 = ringDump st ∧
      latest (addBlock fl st b q).1 = latest st ∧ getB (addBlock fl st b q).1 b.hash = none ∧
      InvX 0 (addBlock fl st b q).1 lc := by
  rcases addBlock_cases fl hd hf hv h d q with h1 | h1 | h1
  · rw [ho] at h1; exact absurd h1.1 (by decide)
  · obtain ⟨_, hinv, hobs⟩ := h1
    refine ⟨hobs, by rw [hinv.lcDump, h.lcDump], ringDump_congr hobs, by rw [hinv.latest, h.latest], ?_, hinv⟩
    unfold getB
    rw [hobs.1]
    exact d.fresh
  · rw [ho] at h1; rcases h1.1 with h2 | h2 <;> exact absurd h2 (by decide)

/-- non-vacuity: the last delivery of the witness history of C03 (`C03.istate 6`, block 7 with an invalid header
    on top of the reorganised chain) is answered `invalid` and satisfies the hypotheses -/
example : ∃ lc, InvX 0 (Saito.C03.istate 6) lc ∧ Deliverable (Saito.C03.istate 6) (Saito.C03.ib 7 6 5 [16] [17] false) ∧
    (addBlock Saito.C03.ifl (Saito.C03.istate 6) (Saito.C03.ib 7 6 5 [16] [17] false) []).2 = .invalid := by
  have h6 : StInv (Saito.C03.istate 6) := Saito.C03.inv_witness6
  obtain ⟨lc, h⟩ := h6
  exact ⟨lc, h, by constructor <;> decide +kernel, by decide +kernel⟩

end Saito.C04

namespace Saito.C04
open Saito.Chain

/-! ### the by-height index across the ring boundary (what the `ring` sub-suite of the chain check compares) -/

/-- a ring of four slots (`gp = 2`) holding the chain 1←2←3←4←5, every block stored and wound; block 4 sits in slot 0 -/
def ringSt : State :=
  [(1, 11), (2, 12), (3, 13), (4, 14), (5, 15)].foldl
    (fun st p =>
      let slot := slotOf st p.1
      let st := { st with ring := setItem st.ring slot ((getItem st.ring slot).add p.1 p.2), ringEmpty := false }
      ringReorg st p.1 p.2 true)
    { gp := 2 }

/-- unwinding the tip, then the block in slot 0: the tip pointer rolls back from slot 1 to slot 0 and from slot 0 to the LAST
    slot, so the index reports 4 and then 3 as the tip (and the longest-chain entries below stay) -/
theorem ring_rollback_wraps :
    latest ringSt = some (5, 15) ∧
    latest (ringReorg ringSt 5 15 false) = some (4, 14) ∧
    latest (ringReorg (ringReorg ringSt 5 15 false) 4 14 false) = some (3, 13) ∧
    lcHashAt (ringReorg (ringReorg ringSt 5 15 false) 4 14 false) 3 = some 13 ∧
    lcHashAt (ringReorg (ringReorg ringSt 5 15 false) 4 14 false) 4 = none := by decide +kernel

/-- winding the two blocks back restores the index exactly -/
theorem ring_unwind_rewind_id :
    let u := ringReorg (ringReorg ringSt 5 15 false) 4 14 false
    let w := ringReorg (ringReorg u 4 14 true) 5 15 true
    latest w = latest ringSt ∧ (List.range 8).map (lcHashAt w) = (List.range 8).map (lcHashAt ringSt) := by decide +kernel


/-- the slot below `p` in a ring of `2·gp` slots -/
def prevSlot (gp p : Nat) : Nat := if p > 0 then p - 1 else 2 * gp - 1

/-- **roll-back of the tip pointer, every height and ring size**: when the tip (in slot `id % 2gp`) is unwound and the slot
    below it — the LAST slot when the tip sits in slot 0 — holds the block `id - 1` on the longest chain, the index reports
    that block as the new tip. -/
theorem ring_rollback (st : State) (id hash h' q : Nat) (hgp : 1 ≤ st.gp)
    (htip : st.ringLc = some (slotOf st id))
    (hlc : (getItem st.ring (prevSlot st.gp (slotOf st id))).lc = some q)
    (hent : (getItem st.ring (prevSlot st.gp (slotOf st id))).ents[q]? = some (h', id - 1)) (hid : 1 ≤ id) :
    latest (ringReorg st id hash false) = some (id - 1, h') := by
  have hne : prevSlot st.gp (slotOf st id) ≠ slotOf st id := by
    unfold prevSlot slotOf; split <;> omega
  have hget : getItem (setItem st.ring (slotOf st id) ((getItem st.ring (slotOf st id)).reorg hash false))
      (prevSlot st.gp (slotOf st id)) = getItem st.ring (prevSlot st.gp (slotOf st id)) := by
    rw [getItem_setItem, if_neg hne]
  unfold ringReorg
  simp only [Bool.false_eq_true, if_false, htip, beq_self_eq_true, if_true]
  have hp : (if slotOf st id > 0 then slotOf st id - 1 else 2 * st.gp - 1) = prevSlot st.gp (slotOf st id) := rfl
  rw [hp, hget, hlc]
  simp only [hent]
  have : (id - 1 + 1 == id) = true := by simp; omega
  simp only [this, if_true, latest, hget, hlc, hent]

/-- the hypotheses of `ring_rollback` are met by a block in slot 0 (the wrap-around case): block 4 of `ringSt` after block 5 was unwound -/
example : let st := ringReorg ringSt 5 15 false
    st.ringLc = some (slotOf st 4) ∧ slotOf st 4 = 0 ∧ prevSlot st.gp (slotOf st 4) = 3 ∧
    (getItem st.ring 3).lc = some 0 ∧ (getItem st.ring 3).ents[0]? = some (13, 3) := by decide +kernel

end Saito.C04
