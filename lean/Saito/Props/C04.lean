import Saito.Lemmas.LoopFixed
/-!
# C04 — a rejected block leaves no trace; block processing always returns
* `fixed_*`: the repaired reorganisation (flag `windFailureRestores`) is total and restores the ledger.
* `livelock_*`: on the pinned control flow a three-block candidate whose last block is invalid makes the
  Wind/Unwind loop cycle with period 5 — proved for EVERY amount of fuel, via the cycle, not by sampling.
* `pinned_partial_*`: what the pinned loop still guarantees.
-/
namespace Saito.C04
open Saito.Chain

/-- the repaired Wind/Unwind loop returns from EVERY loop state, for every pair of chains and every validity
    pattern, once the fuel exceeds the measure `muF` (at most `2·(|new| + |old|) + 3` at the loop's start) -/
theorem fixed_loop_returns (fl : Flags) (newC oldC : List Nat) (fuel : Nat) (st : State) (w : WR)
    (h : muF newC.length oldC.length w < fuel) : runWRF fl newC oldC fuel st w ≠ none :=
  runWRF_returns fl newC oldC fuel st w h

theorem fixed_loop_start_returns (fl : Flags) (st : State) (newC oldC : List Nat) :
    (if oldC.isEmpty = true then
        runWRF fl newC oldC (2 * (newC.length + oldC.length) + 4) st (WR.wind (newC.length - 1) false)
      else runWRF fl newC oldC (2 * (newC.length + oldC.length) + 4) st (WR.unwind 0 false oldC)) ≠ none := by
  split
  · rename_i he
    have ho : oldC.length = 0 := by
      cases oldC with
      | nil => rfl
      | cons _ _ => simp at he
    apply runWRF_returns
    simp only [muF, ho]; omega
  · apply runWRF_returns
    simp only [muF]; omega

/-- with the repaired failure path `Blockchain::validate` always returns: the fuel the model gives the repaired
    loop is never exhausted, so the answer `stall` is impossible -/
theorem fixed_validate_returns (fl : Flags) (hf : fl.windFailureRestores = true) (st : State) (newC oldC : List Nat) :
    validate fl st newC oldC ≠ none := by
  unfold validate
  split
  · simp
  · split
    · simp
    · simp only [hf, if_true]
      split
      · split
        · simp
        · exact fixed_loop_start_returns fl st newC oldC
      · split
        · simp
        · exact fixed_loop_start_returns fl st newC oldC

/-- C04 (ledger part), repaired failure path: a reorganisation that fails part-way leaves the spendable set
    exactly as it was, for every fork shape, every position of the offending block and every segment length. -/
theorem fixed_failed_reorg_no_trace (fl : Flags) (hv : fl.txVerdict = true) (newC oldC : List Nat) (st st' : State)
    (P : List ABlock)
    (h : reorgFixed fl newC oldC st = (st', false))
    (hu : SameSet st.utxo (replay (P ++ (blocksOf st oldC).reverse)))
    (hc : CleanSeg (replay P) (blocksOf st oldC).reverse)
    (hfresh : FreshSeg (unwindSeg st.utxo (blocksOf st oldC).reverse) (blocksOf st newC).reverse) :
    SameSet st'.utxo st.utxo := by
  obtain ⟨pre, hclean, e⟩ := reorgFixed_failure_utxo fl newC oldC st st' hv h hfresh
  rw [e]
  exact failed_reorg_restores P _ pre st.utxo hu hc hclean

/-! ### the livelock of the pinned loop -/
def blk (h p i : Nat) (ok : Bool := true) : ABlock :=
  { hash := h, prev := p, id := i, burnfee := 10, hasGT := true, ok := ok, ins := [], outs := [] }

/-- genesis 1, chain 1←2←3 on top, side blocks 4 (child of 1) and 5 (child of 4) delivered -/
def s5 : State :=
  [blk 1 0 1, blk 2 1 2, blk 3 2 3, blk 4 1 2, blk 5 4 3].foldl (fun s b => (addBlock {} s b []).1) { gp := 100 }

/-- offering block 6 (child of 5, invalid): candidate [4,5,6] against [2,3]. On the model of the pinned tree
    `add_block` does not return within the fuel bound (outcome `stall`); the real code spins (harness: watchdog). -/
theorem livelock_addBlock_witness : (addBlock {} s5 (blk 6 5 4 false) []).2 = .stall := by decide +kernel

/-- the state in which `validate` starts for that call -/
def sPre : State :=
  let b := blk 6 5 4 false
  let st := s5
  let slot := slotOf st b.id
  let st := { st with ring := setItem st.ring slot ((getItem st.ring slot).add b.id b.hash) }
  let st := { st with blocks := st.blocks ++ [BEntry.mk b false], ringEmpty := false }
  setLC st 6 true

def p0 : State × WR := iter {} [6, 5, 4] [3, 2] 2 (sPre, .unwind 0 true [3, 2])

/-- period-5 cycle W2 W1 W0 U0 U1 of the loop state (full state equality, decided by the kernel) -/
theorem livelock_cycle : iter {} [6, 5, 4] [3, 2] 5 p0 = p0 := by decide +kernel

/-- the loop never returns from there: for EVERY amount of fuel the run is still going -/
theorem livelock_forever : ∀ n, runWR {} [6, 5, 4] [3, 2] n p0.1 p0.2 = none :=
  runWR_cycle_none {} [6, 5, 4] [3, 2] 5 p0 (by decide) livelock_cycle (by decide +kernel)

/-- … and neither from the loop's actual start state -/
theorem livelock_from_start : ∀ n, runWR {} [6, 5, 4] [3, 2] n sPre (.unwind 0 true [3, 2]) = none := by
  intro n
  by_cases hn : n < 2
  · exact runWR_short {} [6, 5, 4] [3, 2] n (sPre, .unwind 0 true [3, 2]) (by
      intro i hi
      have : i = 0 ∨ i = 1 := by omega
      rcases this with rfl | rfl <;> decide +kernel)
  · have e : n = (n - 2) + 2 := by omega
    rw [e]
    have := runWR_iter {} [6, 5, 4] [3, 2] 2 (n - 2) (sPre, .unwind 0 true [3, 2]) (by
      intro i hi
      have : i = 0 ∨ i = 1 := by omega
      rcases this with rfl | rfl <;> decide +kernel)
    rw [this]
    exact livelock_forever (n - 2)

/-- pinned partial result: a single invalid block offered on top of the tip (no competitor, nothing wound)
    is rejected by the loop in one step and the loop itself changes nothing -/
theorem pinned_partial_single_block (fl : Flags) (st : State) (h : Nat) (e : BEntry)
    (hg : getB st h = some e) (hbad : validB fl st e.b = false) :
    runWR fl [h] [] 1 st (.wind 0 false) = some (st, false) := by
  simp [runWR, stepWR, hg, hbad]

/-- pinned partial result (termination bound): when every block of the candidate validates, the pinned loop
    returns with success after exactly `|new|` wind steps — for candidates of ANY length -/
theorem pinned_partial_extend_terminates (fl : Flags) (hfl : fl.txVerdict = false) (st : State) (newC : List Nat)
    (hne : newC ≠ []) (hnew : ∀ h ∈ newC, ∃ b, blkOf st h = some b ∧ b.ok = true ∧ b.okNoParent = true) :
    ∃ st', runWR fl newC [] (newC.length + 1) st (.wind (newC.length - 1) false) = some (st', true) :=
  pinned_extend_succeeds fl hfl st newC hne hnew

/-- pinned partial result (termination bound): an all-valid reorganisation against a non-empty competitor
    returns with success after exactly `|old| + |new|` steps — for segments of ANY length. The livelock and the
    wrong restoration need an INVALID block in the candidate. -/
theorem pinned_partial_reorg_terminates (fl : Flags) (hfl : fl.txVerdict = false) (st : State) (newC oldC : List Nat)
    (hold : ∀ h ∈ oldC, (blkOf st h).isSome) (hnew : ∀ h ∈ newC, ∃ b, blkOf st h = some b ∧ b.ok = true ∧ b.okNoParent = true)
    (hne : oldC ≠ []) (hlen : oldC.length < newC.length) :
    ∃ st', runWR fl newC oldC (oldC.length + newC.length + 1) st (.unwind 0 true oldC) = some (st', true) :=
  pinned_reorg_succeeds fl hfl st newC oldC hold hnew hne hlen

/-- non-vacuity: the witness state `s5` offers the all-valid candidate [5,4] against [3,2]... which is not longer;
    with one more valid block 6' the hypotheses of `pinned_partial_reorg_terminates` hold -/
example : let st := (addBlock {} s5 (blk 7 5 4) []).1
    (∀ h ∈ [3, 2], (blkOf st h).isSome) ∧ (∀ h ∈ [7, 5, 4], ∃ b, blkOf st h = some b ∧ b.ok = true ∧ b.okNoParent = true) := by
  decide +kernel

end Saito.C04
