import Saito.Gen.Layout
/-! C06 (Tie A): what the creator signs and what the block hash is computed from, regenerated from block.rs on every run.
    The model's `hash b = H2(prev, H1(signed header))` with the transaction commitment, creator, id, timestamp and parent
    inside the signed header is only as good as these two tables. -/
namespace Saito.C06Gen
open Saito.Gen

/-- `serialize_for_signature` covers the transaction commitment, the creator, the parent hash, id and timestamp -/
theorem signed_header_binds_content_and_creator :
    ("merkle_root", 32) ∈ blockSig ∧ ("creator", 33) ∈ blockSig ∧ ("previous_block_hash", 32) ∈ blockSig ∧
    ("id", 8) ∈ blockSig ∧ ("timestamp", 8) ∈ blockSig := by decide

/-- `serialize_for_hash` = parent hash ‖ pre_hash (the hash of the signed header) -/
theorem hash_input_is_parent_and_prehash : blockHashInput = [("previous_block_hash", 32), ("pre_hash", 32)] := by decide

end Saito.C06Gen
