import Saito.Lemmas.TxValidate
import Saito.Lemmas.Utxo
/-!
# C01 — only authorised, existing, unspent outputs are ever spent

Theorems over `Saito.TxV` (lean/Saito/Model/TxValidate.lean), the model of `Transaction::validate`, the pool entry
points and the transaction sweep of `Block::validate`; the model is tied to the real code by the `txv`
correspondence suite (harness/src/txv.rs).

* `C01_repaired`, `C01_repaired_pool`, `system_txs_repaired`, `edit_rejected_*_repaired` — the same theorems for EVERY
  flag vector with the eight repairs `Repaired8` (`inputLocationSigned`, `windowChecked`, `verifyDropsPrivilegedTypes`
  arbitrary; `Flags.measured` is the vector measured on the repaired tree), without the retention-window clause;
  `C01_repaired_window` adds it back under `windowChecked`. `windowChecked_witness_measured`,
  `window_clause_fails_measured`, `verifyDropsPrivilegedTypes_witness_measured` show the two omissions are necessary.
  The `Flags.fixed` theorems below are corollaries.
* `C01_full` — with every listed defect repaired, a block accepted by block validation spends, in each of its user
  transactions, only outputs that are in the pre-state spendable set, inside the retention window, owned by the key
  whose signature verified, and named once in the whole block. `C01_full_pool` is the same for the pool.
* `edit_rejected_*` — each edit of the adversarial catalogue is refused by block validation AND by the pool
  (repaired flags), at every position of every block.
* `*_witness` — for each defect flag: with the pinned behaviour a concrete bad transaction / block is accepted, and
  repairing that one flag refuses it.
* `C01_partial` — what the pinned pool path still guarantees.
* `created_on_chain` — "in the spendable set" means "created by an earlier block of this chain and not spent since"
  when the ledger is the replay of the chain (the C03 invariant).
-/
namespace Saito.C01
open Saito.TxV

/-- a transaction the protocol does not insert itself (Fee / ATR / Issuance are the producer's) -/
def isUser (tx : Tx) : Bool := tx.typ != .fee && tx.typ != .atr && tx.typ != .issuance

/-- a value-carrying input: positive amount, not an NFT `Bound` slip -/
def isValueInput (i : Input) : Bool := decide (i.amount > 0) && i.styp != stBound

/-- idealised signatures: a signature that verifies against the key of the first input was made by its owner -/
def SigSound (tx : Tx) : Prop := tx.sigOk = true → ∃ i0, tx.inputs.head? = some i0 ∧ i0.owner = tx.signer

/-- types whose validation goes through the "user-originated" block and the utxo check -/
def signedType : TxType → Bool
  | .normal | .goldenTicket | .vip | .bound => true
  | _ => false

/-! ## what a `true` verdict means -/

theorem userChecks_spec (fl : Flags) (tx : Tx) (h : userChecks fl tx = true) :
    tx.inputs ≠ [] ∧ tx.sigOk = true ∧ tx.pathOk = true ∧ totalOut tx ≤ totalIn tx ∧ ownOk fl tx = true := by
  simp only [userChecks, Bool.and_eq_true, Bool.not_eq_true', decide_eq_true_eq] at h
  obtain ⟨⟨⟨⟨h1, h2⟩, h3⟩, h4⟩, h5⟩ := h
  refine ⟨?_, h2, h3, h4, h5⟩
  intro he; rw [he] at h1; simp at h1

theorem ownedByFirst_spec (tx : Tx) (h : ownedByFirst tx = true) (i : Input) (hi : i ∈ tx.inputs)
    (hv : i.amount > 0) : ∃ i0, tx.inputs.head? = some i0 ∧ i.owner = i0.owner := by
  unfold ownedByFirst at h
  cases hin : tx.inputs with
  | nil => rw [hin] at hi; cases hi
  | cons i0 rest =>
    rw [hin] at h
    simp only [List.all_eq_true] at h
    have := h i (by rw [← hin]; exact hi)
    simp only [Input.isValue, Bool.or_eq_true, Bool.not_eq_true', decide_eq_false_iff_not, beq_iff_eq] at this
    rcases this with h1 | h1
    · exact absurd hv h1
    · exact ⟨i0, rfl, h1⟩

/-- the verdict of a Normal / GoldenTicket / Vip / Bound transaction -/
theorem signed_type_spec (fl : Flags) (cx : Ctx) (u : List Nat) (tx : Tx) (ht : signedType tx.typ = true)
    (h : txValidate fl cx u tx = true) :
    userChecks fl tx = true ∧ (cx.vau = true → tx.inputs.all (slipSpendable fl u) = true)
      ∧ (fl.dupInputsDetected = true → noDup (valueKeys tx) = true) := by
  unfold txValidate at h
  split at h
  · cases h
  · split at h
    · cases h
    · rename_i hdup
      have hd : fl.dupInputsDetected = true → noDup (valueKeys tx) = true := by
        intro hf
        cases hn : noDup (valueKeys tx) with
        | true => rfl
        | false => simp [hf, hn] at hdup
      cases hty : tx.typ <;> simp [hty, signedType] at ht <;> simp [hty] at h <;>
        exact ⟨h.1.1.1, fun hv => by simpa [hv] using h.2, hd⟩

/-- the verdict of a BlockStake transaction -/
theorem stake_type_spec (fl : Flags) (cx : Ctx) (u : List Nat) (tx : Tx) (ht : tx.typ = .blockStake)
    (h : txValidate fl cx u tx = true) :
    (∀ i ∈ tx.inputs, i.key ≠ 0 ∧ slipUnlocked fl u i = true) ∧ noDup (tx.inputs.map (·.key)) = true
      ∧ (fl.stakeTypeSigned = true → userChecks fl tx = true) := by
  unfold txValidate at h
  split at h
  · cases h
  · split at h
    · cases h
    · simp only [ht, stakeBranch, Bool.and_eq_true, List.all_eq_true, Bool.or_eq_true, Bool.not_eq_true',
        bne_iff_ne, ne_eq] at h
      obtain ⟨⟨⟨_, h3⟩, h4⟩, h5⟩ := h
      refine ⟨fun i hi => ?_, h4, ?_⟩
      · have := h3 i hi
        exact ⟨this.1, this.2⟩
      · intro hf
        rcases h5 with h5 | h5
        · rw [hf] at h5; cases h5
        · exact h5

theorem slipSpendable_spec (fl : Flags) (u : List Nat) (i : Input) (h : slipSpendable fl u i = true)
    (hv : i.amount > 0) : i.key ∈ u ∧ (fl.windowChecked = true → i.old = false) := by
  simp only [slipSpendable, Bool.or_eq_true, beq_iff_eq, Bool.and_eq_true, Bool.not_eq_true'] at h
  rcases h with h | ⟨h1, h2⟩
  · omega
  · refine ⟨List.contains_iff_mem.1 h1, fun hw => ?_⟩
    cases ho : i.old with
    | false => rfl
    | true => simp [hw, ho] at h2

theorem slipUnlocked_spec (fl : Flags) (u : List Nat) (i : Input) (h : slipUnlocked fl u i = true)
    (hv : i.amount > 0) : i.key ∈ u ∧ (fl.windowChecked = true → i.old = false) := by
  simp only [slipUnlocked, Bool.and_eq_true, Bool.not_eq_true'] at h
  obtain ⟨⟨h1, _⟩, h3⟩ := h
  refine ⟨List.contains_iff_mem.1 h1, fun hw => ?_⟩
  cases ho : i.old with
  | false => rfl
  | true => simp [hw, ho, Input.isValue, hv] at h3

/-- the four types that run through the "user-originated" block: needs `allInputsOwnedBySigner` only -/
theorem valid_signed_tx (fl : Flags) (hown : fl.allInputsOwnedBySigner = true) (cx : Ctx) (hvau : cx.vau = true)
    (u : List Nat) (tx : Tx) (ht : signedType tx.typ = true) (h : txValidate fl cx u tx = true)
    (i : Input) (hi : i ∈ tx.inputs) (hv : i.amount > 0) :
    i.key ∈ u ∧ (fl.windowChecked = true → i.old = false) ∧ tx.sigOk = true
      ∧ ∃ i0, tx.inputs.head? = some i0 ∧ i.owner = i0.owner := by
  obtain ⟨h1, h2, _⟩ := signed_type_spec fl cx u tx ht h
  obtain ⟨_, hs, _, _, ho⟩ := userChecks_spec _ _ h1
  obtain ⟨k1, k2⟩ := slipSpendable_spec _ _ _ (List.all_eq_true.1 (h2 hvau) i hi) hv
  exact ⟨k1, k2, hs, ownedByFirst_spec tx (by simpa [ownOk, hown] using ho) i hi hv⟩

/-- **One transaction, any flag vector with `allInputsOwnedBySigner`, `stakeTypeSigned` and
    `spvTypeCannotCreateOutputs` repaired.** A user transaction that validates against the spendable set `u` spends,
    with each value-carrying input, an output that is in `u`, owned by the key of the first input — against which the
    signature verified — and, if `windowChecked` is repaired too, inside the window. -/
theorem valid_user_tx_of (fl : Flags) (hown : fl.allInputsOwnedBySigner = true) (hstk : fl.stakeTypeSigned = true)
    (hspv : fl.spvTypeCannotCreateOutputs = true) (cx : Ctx) (hvau : cx.vau = true) (u : List Nat) (tx : Tx)
    (hu : isUser tx = true) (h : txValidate fl cx u tx = true) (i : Input) (hi : i ∈ tx.inputs) (hv : i.amount > 0) :
    i.key ∈ u ∧ (fl.windowChecked = true → i.old = false) ∧ tx.sigOk = true
      ∧ ∃ i0, tx.inputs.head? = some i0 ∧ i.owner = i0.owner := by
  cases hty : tx.typ with
  | fee => simp [isUser, hty] at hu
  | atr => simp [isUser, hty] at hu
  | issuance => simp [isUser, hty] at hu
  | spv =>
    -- repaired: an SPV-typed transaction with a value-carrying input is invalid
    exfalso
    unfold txValidate at h
    split at h
    · cases h
    · split at h
      · cases h
      · simp only [hty] at h
        have hany : tx.inputs.any Input.isValue = true :=
          List.any_eq_true.2 ⟨i, hi, by simp [Input.isValue, hv]⟩
        simp [hspv, hany] at h
  | blockStake =>
    obtain ⟨h1, _, h3⟩ := stake_type_spec fl cx u tx hty h
    obtain ⟨_, hs, _, _, ho⟩ := userChecks_spec _ _ (h3 hstk)
    obtain ⟨k1, k2⟩ := slipUnlocked_spec _ _ _ (h1 i hi).2 hv
    exact ⟨k1, k2, hs, ownedByFirst_spec tx (by simpa [ownOk, hown] using ho) i hi hv⟩
  | normal => exact valid_signed_tx fl hown cx hvau u tx (by simp [hty, signedType]) h i hi hv
  | goldenTicket => exact valid_signed_tx fl hown cx hvau u tx (by simp [hty, signedType]) h i hi hv
  | vip => exact valid_signed_tx fl hown cx hvau u tx (by simp [hty, signedType]) h i hi hv
  | bound => exact valid_signed_tx fl hown cx hvau u tx (by simp [hty, signedType]) h i hi hv

/-- **One transaction, repaired validation.** A user transaction that validates against the spendable set `u`
    spends, with each value-carrying input, an output that is in `u`, inside the window, and owned by the key of the
    first input — against which the signature verified. -/
theorem valid_user_tx (cx : Ctx) (hvau : cx.vau = true) (u : List Nat) (tx : Tx) (hu : isUser tx = true)
    (h : txValidate Flags.fixed cx u tx = true) (i : Input) (hi : i ∈ tx.inputs) (hv : i.amount > 0) :
    i.key ∈ u ∧ i.old = false ∧ tx.sigOk = true ∧ ∃ i0, tx.inputs.head? = some i0 ∧ i.owner = i0.owner := by
  obtain ⟨k1, k2, k3, k4⟩ := valid_user_tx_of Flags.fixed rfl rfl rfl cx hvau u tx hu h i hi hv
  exact ⟨k1, k2 rfl, k3, k4⟩

/-! ## C01 for every flag vector with the eight repairs (`Repaired8`), and at full strength (`Flags.fixed`) -/

theorem blockAccepts_sweep (fl : Flags) (bc : BCtx) (u : List Nat) (txs : List Tx)
    (h : blockAccepts fl bc u txs = true) : blockSweep fl bc.cx u txs = true := by
  simp only [blockAccepts, blockValidate, Bool.and_eq_true] at h
  exact h.2.2

/-- the common core of `C01_repaired` and `C01_full`; the window clause is conditional on `windowChecked`.
    Flags used: `txVerdictPropagated`, `allInputsOwnedBySigner`, `stakeTypeSigned`, `spvTypeCannotCreateOutputs`. -/
theorem C01_core (fl : Flags) (hr : Repaired8 fl) (bc : BCtx) (u : List Nat) (txs : List Tx)
    (hvau : bc.cx.vau = true) (hsound : ∀ tx ∈ txs, SigSound tx) (hacc : blockAccepts fl bc u txs = true) :
    ∀ tx ∈ txs, isUser tx = true → ∀ i ∈ tx.inputs, isValueInput i = true →
      i.key ∈ u ∧ (fl.windowChecked = true → i.old = false) ∧ (tx.sigOk = true ∧ i.owner = tx.signer)
        ∧ (blockValueKeys txs).count i.key = 1 := by
  intro tx htx hu i hi hval
  have hsw := blockAccepts_sweep _ _ _ _ hacc
  obtain ⟨hall, hnd, _⟩ := sweepGo_propagated fl hr.txVerdictPropagated bc.cx u txs [] hsw
  simp only [isValueInput, Bool.and_eq_true, decide_eq_true_eq, bne_iff_ne, ne_eq] at hval
  obtain ⟨k1, k2, k3, i0, k4, k5⟩ := valid_user_tx_of fl hr.allInputsOwnedBySigner hr.stakeTypeSigned
    hr.spvTypeCannotCreateOutputs bc.cx hvau u tx hu (hall tx htx) i hi hval.1
  obtain ⟨j0, e1, e2⟩ := hsound tx htx k3
  rw [k4] at e1
  cases e1
  refine ⟨k1, k2, ⟨k3, by rw [k5, e2]⟩, ?_⟩
  -- the key is in the block's list of swept keys, which has no duplicates
  have hmem : i.key ∈ blockValueKeys txs := by
    unfold blockValueKeys
    refine List.mem_flatMap.2 ⟨tx, List.mem_filter.2 ⟨htx, ?_⟩, ?_⟩
    · simp only [isUser, Bool.and_eq_true] at hu; exact hu.1.1
    · unfold sweepKeys
      exact List.mem_map.2 ⟨i, List.mem_filter.2 ⟨hi, by simp [hval.1, hval.2]⟩, rfl⟩
  rw [hnd.count, if_pos hmem]

/-- **C01 on every tree with the eight repairs** (in particular the measured vector `Flags.measured`). Every
    value-carrying input of every user transaction of a block that block validation accepts refers to an output that is
    spendable in the pre-state (`∈ u`), belongs to the key whose signature authorises the transaction (`sigOk`,
    owner = signer), and is named exactly once among all value inputs of the block's transactions. For every block,
    every position, every pre-state; whatever `inputLocationSigned`, `windowChecked`, `verifyDropsPrivilegedTypes` are.
    NOT concluded: the output is inside the retention window (`windowChecked_witness_measured`). -/
theorem C01_repaired (fl : Flags) (hr : Repaired8 fl) (bc : BCtx) (u : List Nat) (txs : List Tx)
    (hvau : bc.cx.vau = true) (hsound : ∀ tx ∈ txs, SigSound tx) (hacc : blockAccepts fl bc u txs = true) :
    ∀ tx ∈ txs, isUser tx = true → ∀ i ∈ tx.inputs, isValueInput i = true →
      i.key ∈ u ∧ (tx.sigOk = true ∧ i.owner = tx.signer) ∧ (blockValueKeys txs).count i.key = 1 := by
  intro tx htx hu i hi hval
  obtain ⟨k1, _, k3, k4⟩ := C01_core fl hr bc u txs hvau hsound hacc tx htx hu i hi hval
  exact ⟨k1, k3, k4⟩

/-- … and once `windowChecked` is repaired as well, the output is inside the retention window: the statement of
    `C01_full` for every such vector -/
theorem C01_repaired_window (fl : Flags) (hr : Repaired8 fl) (hw : fl.windowChecked = true) (bc : BCtx) (u : List Nat)
    (txs : List Tx) (hvau : bc.cx.vau = true) (hsound : ∀ tx ∈ txs, SigSound tx)
    (hacc : blockAccepts fl bc u txs = true) :
    ∀ tx ∈ txs, isUser tx = true → ∀ i ∈ tx.inputs, isValueInput i = true →
      i.key ∈ u ∧ i.old = false ∧ (tx.sigOk = true ∧ i.owner = tx.signer)
        ∧ (blockValueKeys txs).count i.key = 1 := by
  intro tx htx hu i hi hval
  obtain ⟨k1, k2, k3, k4⟩ := C01_core fl hr bc u txs hvau hsound hacc tx htx hu i hi hval
  exact ⟨k1, k2 hw, k3, k4⟩

/-- **C01.** Every value-carrying input of every user transaction of a block that block validation accepts refers to
    an output that is spendable in the pre-state (`∈ u`), is inside the retention window, belongs to the key whose
    signature authorises the transaction (`sigOk`, owner = signer), and is named exactly once among all value inputs
    of the block's transactions. For every block, every position, every pre-state. -/
theorem C01_full (bc : BCtx) (u : List Nat) (txs : List Tx) (hvau : bc.cx.vau = true)
    (hsound : ∀ tx ∈ txs, SigSound tx) (hacc : blockAccepts Flags.fixed bc u txs = true) :
    ∀ tx ∈ txs, isUser tx = true → ∀ i ∈ tx.inputs, isValueInput i = true →
      i.key ∈ u ∧ i.old = false ∧ (tx.sigOk = true ∧ i.owner = tx.signer)
        ∧ (blockValueKeys txs).count i.key = 1 :=
  C01_repaired_window Flags.fixed Repaired8.fixed rfl bc u txs hvau hsound hacc

/-- the transactions C01 does not count as user transactions are exactly the protocol's own: in an accepted block
    every Fee-typed transaction is the expected one (at most one), ATR-typed ones are the expected rebroadcasts, and an
    Issuance-typed one occurs in block 1 only. Flag used: `singleFeeTx` (the ATR and Issuance rules carry no flag). -/
theorem system_txs_repaired (fl : Flags) (hr : Repaired8 fl) (bc : BCtx) (u : List Nat) (txs : List Tx)
    (hacc : blockAccepts fl bc u txs = true) :
    (∀ tx ∈ txs, tx.typ = .fee → tx.feeExp = true) ∧ (txs.filter (isType .fee)).length ≤ 1
    ∧ (bc.cx.vau = true → bc.atrOk = true) ∧ ((∃ tx ∈ txs, tx.typ = .issuance) → bc.id ≤ 1) := by
  simp only [blockAccepts, blockValidate, feeRule, hr.singleFeeTx, Bool.and_eq_true, Bool.not_eq_true',
    Bool.and_eq_false_iff, if_true, List.all_eq_true, decide_eq_true_eq, decide_eq_false_iff_not] at hacc
  obtain ⟨_, ⟨⟨⟨⟨⟨⟨⟨_, hiss⟩, _⟩, hatr⟩, _⟩, _⟩, hfee, hlen⟩, _⟩⟩ := hacc
  refine ⟨fun tx hm ht => hfee tx (List.mem_filter.2 ⟨hm, by simp [isType, ht]⟩), hlen, ?_, ?_⟩
  · intro hv
    rcases hatr with h | h
    · rw [hv] at h; cases h
    · cases ha : bc.atrOk with
      | true => rfl
      | false => simp [ha] at h
  · rintro ⟨tx, hm, ht⟩
    rcases hiss with h | h
    · have : txs.any (isType .issuance) = true := List.any_eq_true.2 ⟨tx, hm, by simp [isType, ht]⟩
      rw [this] at h; cases h
    · omega

theorem system_txs_fixed (bc : BCtx) (u : List Nat) (txs : List Tx) (hacc : blockAccepts Flags.fixed bc u txs = true) :
    (∀ tx ∈ txs, tx.typ = .fee → tx.feeExp = true) ∧ (txs.filter (isType .fee)).length ≤ 1
    ∧ (bc.cx.vau = true → bc.atrOk = true) ∧ ((∃ tx ∈ txs, tx.typ = .issuance) → bc.id ≤ 1) :=
  system_txs_repaired Flags.fixed Repaired8.fixed bc u txs hacc

/-! ### the transaction pool -/

/-- what `.accepted` means: the verdict was `true` (utxo check on) and, with `poolRejectsPrivilegedTypes`, the type
    is not Fee / SPV / ATR / Issuance -/
theorem pool_accepted_spec (fl : Flags) (hp : fl.poolRejectsPrivilegedTypes = true) (cx : Ctx) (u : List Nat) (tx : Tx)
    (h : poolAccepts fl cx u tx = .accepted) :
    txValidate fl { cx with vau := true } u tx = true ∧ tx.typ.privileged = false := by
  unfold poolAccepts at h
  split at h
  · cases h
  · rename_i h1
    split at h
    · cases h
    · rename_i h2
      refine ⟨by simpa using h1, ?_⟩
      cases hpr : tx.typ.privileged with
      | false => rfl
      | true => simp [hp, hpr] at h2

/-- what "forwarded" means: the verdict was `true`; the type is unprivileged only with `verifyDropsPrivilegedTypes` -/
theorem forwards_spec (fl : Flags) (cx : Ctx) (u : List Nat) (tx : Tx) (h : verifyTxForwards fl cx u tx = true) :
    txValidate fl { cx with vau := true } u tx = true
      ∧ (fl.verifyDropsPrivilegedTypes = true → tx.typ.privileged = false) := by
  simp only [verifyTxForwards, Bool.and_eq_true, Bool.not_eq_true'] at h
  refine ⟨h.1, fun hf => ?_⟩
  cases hp : tx.typ.privileged with
  | false => rfl
  | true => simp [hf, hp] at h

theorem isUser_of_not_privileged (tx : Tx) (hp : tx.typ.privileged = false) : isUser tx = true := by
  cases hty : tx.typ <;> simp [hty, TxType.privileged] at hp <;> simp [isUser, hty]

/-- a user transaction with verdict `true` (utxo check on), `Repaired8`: its value inputs are pairwise distinct,
    spendable, authorised by their owner (and in the window if `windowChecked`).
    Flags used: `dupInputsDetected`, `allInputsOwnedBySigner`, `stakeTypeSigned`, `spvTypeCannotCreateOutputs`. -/
theorem valid_tx_inputs (fl : Flags) (hr : Repaired8 fl) (cx : Ctx) (u : List Nat) (tx : Tx) (hsound : SigSound tx)
    (hu : isUser tx = true) (hv : txValidate fl { cx with vau := true } u tx = true) :
    (valueKeys tx).Nodup ∧ ∀ i ∈ tx.inputs, i.amount > 0 →
      i.key ∈ u ∧ (fl.windowChecked = true → i.old = false) ∧ tx.sigOk = true ∧ i.owner = tx.signer := by
  refine ⟨?_, ?_⟩
  · -- the repaired duplicate test runs before the type dispatch
    have hv' := hv
    unfold txValidate at hv'
    split at hv'
    · cases hv'
    · split at hv'
      · cases hv'
      · rename_i hd
        cases hn : noDup (valueKeys tx) with
        | true => exact (noDup_iff _).1 hn
        | false => simp [hr.dupInputsDetected, hn] at hd
  · intro i hi hval
    obtain ⟨k1, k2, k3, i0, k4, k5⟩ := valid_user_tx_of fl hr.allInputsOwnedBySigner hr.stakeTypeSigned
      hr.spvTypeCannotCreateOutputs { cx with vau := true } rfl u tx hu hv i hi hval
    obtain ⟨j0, e1, e2⟩ := hsound k3
    rw [k4] at e1
    cases e1
    exact ⟨k1, k2, k3, by rw [k5, e2]⟩

/-- **C01 for the pool, every tree with the eight repairs.** A peer transaction the pool accepts is a user
    transaction whose value inputs are spendable, authorised by their owner, and pairwise distinct. Only the pool is
    a hypothesis: with `verifyDropsPrivilegedTypes = false` the verification thread may forward a Fee / ATR /
    Issuance-typed transaction (`verifyDropsPrivilegedTypes_witness_measured`), which the pool then refuses —
    `C01_repaired_forwarded` says what a forwarded transaction still satisfies. NOT concluded: the window. -/
theorem C01_repaired_pool (fl : Flags) (hr : Repaired8 fl) (cx : Ctx) (u : List Nat) (tx : Tx) (hsound : SigSound tx)
    (hacc : poolAccepts fl cx u tx = .accepted) :
    isUser tx = true ∧ (valueKeys tx).Nodup ∧
    ∀ i ∈ tx.inputs, i.amount > 0 → i.key ∈ u ∧ tx.sigOk = true ∧ i.owner = tx.signer := by
  obtain ⟨hv, hp⟩ := pool_accepted_spec fl hr.poolRejectsPrivilegedTypes cx u tx hacc
  have hu := isUser_of_not_privileged tx hp
  obtain ⟨hn, hin⟩ := valid_tx_inputs fl hr cx u tx hsound hu hv
  exact ⟨hu, hn, fun i hi hval => ⟨(hin i hi hval).1, (hin i hi hval).2.2⟩⟩

/-- … with `windowChecked` repaired as well: the conclusion of `C01_full_pool` -/
theorem C01_repaired_pool_window (fl : Flags) (hr : Repaired8 fl) (hw : fl.windowChecked = true) (cx : Ctx)
    (u : List Nat) (tx : Tx) (hsound : SigSound tx) (hacc : poolAccepts fl cx u tx = .accepted) :
    isUser tx = true ∧ (valueKeys tx).Nodup ∧
    ∀ i ∈ tx.inputs, i.amount > 0 → i.key ∈ u ∧ i.old = false ∧ tx.sigOk = true ∧ i.owner = tx.signer := by
  obtain ⟨hv, hp⟩ := pool_accepted_spec fl hr.poolRejectsPrivilegedTypes cx u tx hacc
  have hu := isUser_of_not_privileged tx hp
  obtain ⟨hn, hin⟩ := valid_tx_inputs fl hr cx u tx hsound hu hv
  exact ⟨hu, hn, fun i hi hval => ⟨(hin i hi hval).1, (hin i hi hval).2.1 hw, (hin i hi hval).2.2⟩⟩

/-- what the verification thread guarantees on a tree with the eight repairs: a forwarded transaction *of a user
    type* has pairwise distinct, spendable, owner-authorised value inputs. (That it IS of a user type needs
    `verifyDropsPrivilegedTypes`; an SPV-typed one is forwarded too, but carries no value input.) -/
theorem C01_repaired_forwarded (fl : Flags) (hr : Repaired8 fl) (cx : Ctx) (u : List Nat) (tx : Tx)
    (hsound : SigSound tx) (hu : isUser tx = true) (hacc : verifyTxForwards fl cx u tx = true) :
    (valueKeys tx).Nodup ∧
    ∀ i ∈ tx.inputs, i.amount > 0 → i.key ∈ u ∧ tx.sigOk = true ∧ i.owner = tx.signer := by
  obtain ⟨hn, hin⟩ := valid_tx_inputs fl hr cx u tx hsound hu (forwards_spec fl cx u tx hacc).1
  exact ⟨hn, fun i hi hval => ⟨(hin i hi hval).1, (hin i hi hval).2.2⟩⟩

/-- the same for the transaction pool: an accepted (or forwarded) peer transaction is a user transaction whose value
    inputs are spendable, in the window, authorised by their owner, and pairwise distinct -/
theorem C01_full_pool (cx : Ctx) (u : List Nat) (tx : Tx) (hsound : SigSound tx)
    (hacc : poolAccepts Flags.fixed cx u tx = .accepted ∨ verifyTxForwards Flags.fixed cx u tx = true) :
    isUser tx = true ∧ (valueKeys tx).Nodup ∧
    ∀ i ∈ tx.inputs, i.amount > 0 → i.key ∈ u ∧ i.old = false ∧ tx.sigOk = true ∧ i.owner = tx.signer := by
  have hv : txValidate Flags.fixed { cx with vau := true } u tx = true ∧ tx.typ.privileged = false := by
    rcases hacc with h | h
    · exact pool_accepted_spec Flags.fixed rfl cx u tx h
    · exact ⟨(forwards_spec Flags.fixed cx u tx h).1, (forwards_spec Flags.fixed cx u tx h).2 rfl⟩
  obtain ⟨hv, hp⟩ := hv
  have hu := isUser_of_not_privileged tx hp
  obtain ⟨hn, hin⟩ := valid_tx_inputs Flags.fixed Repaired8.fixed cx u tx hsound hu hv
  exact ⟨hu, hn, fun i hi hval => ⟨(hin i hi hval).1, (hin i hi hval).2.1 rfl, (hin i hi hval).2.2⟩⟩

/-- non-vacuity of `C01_full`: a block of a golden ticket, two signed transactions and the expected fee transaction
    is accepted with every repair in place -/
example : blockAccepts Flags.fixed {} [1, 2, 3]
    [ { typ := .goldenTicket, inputs := [⟨0, 6, 0, 0, false, false⟩], outputs := [⟨6, 0, 0⟩], sigOk := true, signer := 6 },
      { inputs := [⟨1, 1, 1000, 0, false, false⟩, ⟨2, 1, 500, 0, false, false⟩], outputs := [⟨2, 1500, 0⟩], sigOk := true, signer := 1 },
      { inputs := [⟨3, 2, 700, 0, false, false⟩], outputs := [⟨1, 700, 0⟩], sigOk := true, signer := 2 },
      { typ := .fee, feeExp := true } ] = true := by decide

/-- non-vacuity of `C01_repaired` / `C01_repaired_pool`: the same block, and its second transaction, are accepted
    under the measured flag vector -/
example : blockAccepts Flags.measured {} [1, 2, 3]
    [ { typ := .goldenTicket, inputs := [⟨0, 6, 0, 0, false, false⟩], outputs := [⟨6, 0, 0⟩], sigOk := true, signer := 6 },
      { inputs := [⟨1, 1, 1000, 0, false, false⟩, ⟨2, 1, 500, 0, false, false⟩], outputs := [⟨2, 1500, 0⟩], sigOk := true, signer := 1 },
      { inputs := [⟨3, 2, 700, 0, false, false⟩], outputs := [⟨1, 700, 0⟩], sigOk := true, signer := 2 },
      { typ := .fee, feeExp := true } ] = true
    ∧ poolAccepts Flags.measured {} [1, 2, 3]
      { inputs := [⟨1, 1, 1000, 0, false, false⟩, ⟨2, 1, 500, 0, false, false⟩], outputs := [⟨2, 1500, 0⟩],
        sigOk := true, signer := 1 } = .accepted := by decide

/-! ## the catalogue of adversarial edits is refused, by block validation and by the pool alike

Each edit is stated twice: `*_repaired` for every flag vector with the eight repairs (`Repaired8 fl`, the three open
flags arbitrary) and, under the original name, for `Flags.fixed`. Two statements depend on an open flag and say so:
an *expired* input is refused only with `windowChecked` (the disjunct `fl.windowChecked = true ∧ i.old = true` of
`edit_rejected_bad_input_*_repaired`; unconditional for `Flags.fixed` only), and the verification thread drops a
privileged type only with `verifyDropsPrivilegedTypes` (`edit_rejected_privileged_pool_repaired`). -/

/-- glue: with the verdict propagated, a transaction with a `false` verdict makes the whole block unacceptable,
    wherever it stands -/
theorem block_rejects_invalid_tx_of (fl : Flags) (hf : fl.txVerdictPropagated = true) (bc : BCtx) (u : List Nat)
    (txs : List Tx) (tx : Tx) (hm : tx ∈ txs) (hv : txValidate fl bc.cx u tx = false) :
    blockAccepts fl bc u txs = false := by
  have : blockSweep fl bc.cx u txs = false := sweepGo_false_of_invalid _ hf _ _ _ _ _ hm hv
  simp [blockAccepts, blockValidate, this]

theorem block_rejects_invalid_tx (bc : BCtx) (u : List Nat) (txs : List Tx) (tx : Tx) (hm : tx ∈ txs)
    (hv : txValidate Flags.fixed bc.cx u tx = false) : blockAccepts Flags.fixed bc u txs = false :=
  block_rejects_invalid_tx_of Flags.fixed rfl bc u txs tx hm hv

/-- glue: pool and verification thread refuse what validation (with the utxo check) refuses — on every tree -/
theorem pool_rejects_invalid_tx_of (fl : Flags) (cx : Ctx) (u : List Nat) (tx : Tx)
    (hv : txValidate fl { cx with vau := true } u tx = false) :
    poolAccepts fl cx u tx = .rejected ∧ verifyTxForwards fl cx u tx = false := by
  simp [poolAccepts, verifyTxForwards, hv]

theorem pool_rejects_invalid_tx (cx : Ctx) (u : List Nat) (tx : Tx)
    (hv : txValidate Flags.fixed { cx with vau := true } u tx = false) :
    poolAccepts Flags.fixed cx u tx = .rejected ∧ verifyTxForwards Flags.fixed cx u tx = false :=
  pool_rejects_invalid_tx_of Flags.fixed cx u tx hv

/-- a verdict `true` of a type that needs a signature implies the signature verified
    (flag used: `stakeTypeSigned`, for the BlockStake type only) -/
theorem needs_sig_of (fl : Flags) (hstk : fl.stakeTypeSigned = true) (cx : Ctx) (u : List Nat) (tx : Tx)
    (ht : signedType tx.typ = true ∨ tx.typ = .blockStake) (hs : tx.sigOk = false) :
    txValidate fl cx u tx = false := by
  cases h : txValidate fl cx u tx with
  | false => rfl
  | true =>
    rcases ht with ht | ht
    · have := (userChecks_spec _ _ (signed_type_spec _ _ _ _ ht h).1).2.1
      rw [hs] at this; cases this
    · have := (userChecks_spec _ _ ((stake_type_spec _ _ _ _ ht h).2.2 hstk)).2.1
      rw [hs] at this; cases this

theorem needs_sig (cx : Ctx) (u : List Nat) (tx : Tx) (ht : signedType tx.typ = true ∨ tx.typ = .blockStake)
    (hs : tx.sigOk = false) : txValidate Flags.fixed cx u tx = false :=
  needs_sig_of Flags.fixed rfl cx u tx ht hs

/-- edit "forged / missing signature / signed by another key": refused by block validation at any position -/
theorem edit_rejected_bad_signature_block_repaired (fl : Flags) (hr : Repaired8 fl) (bc : BCtx) (u : List Nat)
    (txs : List Tx) (tx : Tx) (hm : tx ∈ txs) (ht : signedType tx.typ = true ∨ tx.typ = .blockStake)
    (hs : tx.sigOk = false) : blockAccepts fl bc u txs = false :=
  block_rejects_invalid_tx_of fl hr.txVerdictPropagated bc u txs tx hm (needs_sig_of fl hr.stakeTypeSigned _ _ _ ht hs)

theorem edit_rejected_bad_signature_block (bc : BCtx) (u : List Nat) (txs : List Tx) (tx : Tx) (hm : tx ∈ txs)
    (ht : signedType tx.typ = true ∨ tx.typ = .blockStake) (hs : tx.sigOk = false) :
    blockAccepts Flags.fixed bc u txs = false :=
  edit_rejected_bad_signature_block_repaired Flags.fixed Repaired8.fixed bc u txs tx hm ht hs

/-- … and by the pool and the verification thread (both conjuncts: the verdict itself is `false`) -/
theorem edit_rejected_bad_signature_pool_repaired (fl : Flags) (hr : Repaired8 fl) (cx : Ctx) (u : List Nat) (tx : Tx)
    (ht : signedType tx.typ = true ∨ tx.typ = .blockStake) (hs : tx.sigOk = false) :
    poolAccepts fl cx u tx = .rejected ∧ verifyTxForwards fl cx u tx = false :=
  pool_rejects_invalid_tx_of fl cx u tx (needs_sig_of fl hr.stakeTypeSigned _ _ _ ht hs)

theorem edit_rejected_bad_signature_pool (cx : Ctx) (u : List Nat) (tx : Tx)
    (ht : signedType tx.typ = true ∨ tx.typ = .blockStake) (hs : tx.sigOk = false) :
    poolAccepts Flags.fixed cx u tx = .rejected ∧ verifyTxForwards Flags.fixed cx u tx = false :=
  edit_rejected_bad_signature_pool_repaired Flags.fixed Repaired8.fixed cx u tx ht hs

/-- a user transaction with a value input that fails one of the C01 conditions has verdict `false`; the window
    condition counts only where `windowChecked` is repaired -/
theorem bad_input_invalid_of (fl : Flags) (hown : fl.allInputsOwnedBySigner = true) (hstk : fl.stakeTypeSigned = true)
    (hspv : fl.spvTypeCannotCreateOutputs = true) (cx : Ctx) (hvau : cx.vau = true) (u : List Nat) (tx : Tx)
    (hu : isUser tx = true) (i : Input) (hi : i ∈ tx.inputs) (hv : i.amount > 0)
    (hbad : i.key ∉ u ∨ (fl.windowChecked = true ∧ i.old = true)
              ∨ (∀ i0, tx.inputs.head? = some i0 → i.owner ≠ i0.owner)) :
    txValidate fl cx u tx = false := by
  cases h : txValidate fl cx u tx with
  | false => rfl
  | true =>
    obtain ⟨k1, k2, _, i0, k4, k5⟩ := valid_user_tx_of fl hown hstk hspv cx hvau u tx hu h i hi hv
    rcases hbad with hb | ⟨hw, hb⟩ | hb
    · exact absurd k1 hb
    · rw [k2 hw] at hb; cases hb
    · exact absurd k5 (hb i0 k4)

theorem bad_input_invalid (cx : Ctx) (hvau : cx.vau = true) (u : List Nat) (tx : Tx) (hu : isUser tx = true)
    (i : Input) (hi : i ∈ tx.inputs) (hv : i.amount > 0)
    (hbad : i.key ∉ u ∨ i.old = true ∨ (∀ i0, tx.inputs.head? = some i0 → i.owner ≠ i0.owner)) :
    txValidate Flags.fixed cx u tx = false :=
  bad_input_invalid_of Flags.fixed rfl rfl rfl cx hvau u tx hu i hi hv
    (hbad.imp_right (Or.imp_left fun h => ⟨rfl, h⟩))

/-- edits "non-existent input", "already-spent input", "input from an abandoned branch" (`key ∉ u`), "foreign-owned
    extra input" (owner differs from the first input's): refused by block validation on every tree with the eight
    repairs. "Expired input" (`old`): refused only where `windowChecked` is repaired — on the measured vector it is
    ACCEPTED (`windowChecked_witness_measured`); unconditional in `edit_rejected_bad_input_block` (`Flags.fixed`). -/
theorem edit_rejected_bad_input_block_repaired (fl : Flags) (hr : Repaired8 fl) (bc : BCtx) (hvau : bc.cx.vau = true)
    (u : List Nat) (txs : List Tx) (tx : Tx) (hm : tx ∈ txs) (hu : isUser tx = true) (i : Input) (hi : i ∈ tx.inputs)
    (hv : i.amount > 0)
    (hbad : i.key ∉ u ∨ (fl.windowChecked = true ∧ i.old = true)
              ∨ (∀ i0, tx.inputs.head? = some i0 → i.owner ≠ i0.owner)) :
    blockAccepts fl bc u txs = false :=
  block_rejects_invalid_tx_of fl hr.txVerdictPropagated bc u txs tx hm
    (bad_input_invalid_of fl hr.allInputsOwnedBySigner hr.stakeTypeSigned hr.spvTypeCannotCreateOutputs bc.cx hvau u tx
      hu i hi hv hbad)

/-- edits "non-existent input", "already-spent input", "input from an abandoned branch" (`key ∉ u`), "expired input"
    (`old`), "foreign-owned extra input" (owner differs from the first input's): refused by block validation -/
theorem edit_rejected_bad_input_block (bc : BCtx) (hvau : bc.cx.vau = true) (u : List Nat) (txs : List Tx) (tx : Tx)
    (hm : tx ∈ txs) (hu : isUser tx = true) (i : Input) (hi : i ∈ tx.inputs) (hv : i.amount > 0)
    (hbad : i.key ∉ u ∨ i.old = true ∨ (∀ i0, tx.inputs.head? = some i0 → i.owner ≠ i0.owner)) :
    blockAccepts Flags.fixed bc u txs = false :=
  block_rejects_invalid_tx bc u txs tx hm (bad_input_invalid bc.cx hvau u tx hu i hi hv hbad)

/-- … and by the pool and the verification thread (same remark on the expired input) -/
theorem edit_rejected_bad_input_pool_repaired (fl : Flags) (hr : Repaired8 fl) (cx : Ctx) (u : List Nat) (tx : Tx)
    (hu : isUser tx = true) (i : Input) (hi : i ∈ tx.inputs) (hv : i.amount > 0)
    (hbad : i.key ∉ u ∨ (fl.windowChecked = true ∧ i.old = true)
              ∨ (∀ i0, tx.inputs.head? = some i0 → i.owner ≠ i0.owner)) :
    poolAccepts fl cx u tx = .rejected ∧ verifyTxForwards fl cx u tx = false :=
  pool_rejects_invalid_tx_of fl cx u tx
    (bad_input_invalid_of fl hr.allInputsOwnedBySigner hr.stakeTypeSigned hr.spvTypeCannotCreateOutputs
      { cx with vau := true } rfl u tx hu i hi hv hbad)

/-- … and by the pool -/
theorem edit_rejected_bad_input_pool (cx : Ctx) (u : List Nat) (tx : Tx) (hu : isUser tx = true)
    (i : Input) (hi : i ∈ tx.inputs) (hv : i.amount > 0)
    (hbad : i.key ∉ u ∨ i.old = true ∨ (∀ i0, tx.inputs.head? = some i0 → i.owner ≠ i0.owner)) :
    poolAccepts Flags.fixed cx u tx = .rejected ∧ verifyTxForwards Flags.fixed cx u tx = false :=
  pool_rejects_invalid_tx cx u tx (bad_input_invalid { cx with vau := true } rfl u tx hu i hi hv hbad)

/-- the repaired duplicate test: a transaction of ANY type naming one output twice has verdict `false`
    (flag used: `dupInputsDetected`) -/
theorem dup_input_invalid_of (fl : Flags) (hdup : fl.dupInputsDetected = true) (cx : Ctx) (u : List Nat) (tx : Tx)
    (hd : ¬ (valueKeys tx).Nodup) : txValidate fl cx u tx = false := by
  have hn : noDup (valueKeys tx) = false := by
    cases h : noDup (valueKeys tx) with
    | false => rfl
    | true => exact absurd ((noDup_iff _).1 h) hd
  unfold txValidate
  split
  · rfl
  · simp [hdup, hn]

theorem dup_input_invalid (cx : Ctx) (u : List Nat) (tx : Tx) (hd : ¬ (valueKeys tx).Nodup) :
    txValidate Flags.fixed cx u tx = false :=
  dup_input_invalid_of Flags.fixed rfl cx u tx hd

/-- edit "duplicated input inside one transaction": refused by block validation, the pool and the verification
    thread, on every tree with the eight repairs -/
theorem edit_rejected_dup_input_repaired (fl : Flags) (hr : Repaired8 fl) (bc : BCtx) (u : List Nat) (txs : List Tx)
    (tx : Tx) (hm : tx ∈ txs) (hd : ¬ (valueKeys tx).Nodup) :
    blockAccepts fl bc u txs = false ∧ poolAccepts fl bc.cx u tx = .rejected
      ∧ verifyTxForwards fl bc.cx u tx = false :=
  ⟨block_rejects_invalid_tx_of fl hr.txVerdictPropagated bc u txs tx hm
     (dup_input_invalid_of fl hr.dupInputsDetected _ _ _ hd),
   pool_rejects_invalid_tx_of fl bc.cx u tx (dup_input_invalid_of fl hr.dupInputsDetected _ _ _ hd)⟩

/-- edit "duplicated input inside one transaction": refused by block validation and by the pool -/
theorem edit_rejected_dup_input (bc : BCtx) (u : List Nat) (txs : List Tx) (tx : Tx) (hm : tx ∈ txs)
    (hd : ¬ (valueKeys tx).Nodup) :
    blockAccepts Flags.fixed bc u txs = false ∧ poolAccepts Flags.fixed bc.cx u tx = .rejected
      ∧ verifyTxForwards Flags.fixed bc.cx u tx = false :=
  edit_rejected_dup_input_repaired Flags.fixed Repaired8.fixed bc u txs tx hm hd

/-- edit "the same output spent by two transactions of the block" (or twice by one): refused by block validation
    (flag used: `txVerdictPropagated`) -/
theorem edit_rejected_block_double_spend_repaired (fl : Flags) (hr : Repaired8 fl) (bc : BCtx) (u : List Nat)
    (txs : List Tx) (hd : ¬ (blockValueKeys txs).Nodup) : blockAccepts fl bc u txs = false := by
  have : blockSweep fl bc.cx u txs = false := sweepGo_false_of_dup _ hr.txVerdictPropagated _ _ _ _ hd
  simp [blockAccepts, blockValidate, this]

theorem edit_rejected_block_double_spend (bc : BCtx) (u : List Nat) (txs : List Tx)
    (hd : ¬ (blockValueKeys txs).Nodup) : blockAccepts Flags.fixed bc u txs = false :=
  edit_rejected_block_double_spend_repaired Flags.fixed Repaired8.fixed bc u txs hd

/-- edit "privileged type": a peer transaction typed Fee / SPV / ATR / Issuance never enters the pool on a tree with
    the eight repairs. That the verification thread does not forward it either needs `verifyDropsPrivilegedTypes`; on
    the measured vector it IS forwarded (`verifyDropsPrivilegedTypes_witness_measured`). -/
theorem edit_rejected_privileged_pool_repaired (fl : Flags) (hr : Repaired8 fl) (cx : Ctx) (u : List Nat) (tx : Tx)
    (hp : tx.typ.privileged = true) :
    poolAccepts fl cx u tx = .rejected
      ∧ (fl.verifyDropsPrivilegedTypes = true → verifyTxForwards fl cx u tx = false) := by
  constructor
  · unfold poolAccepts
    split
    · rfl
    · simp [hr.poolRejectsPrivilegedTypes, hp]
  · intro hf
    simp [verifyTxForwards, hf, hp]

/-- edit "privileged type": a peer transaction typed Fee / SPV / ATR / Issuance never enters the pool -/
theorem edit_rejected_privileged_pool (cx : Ctx) (u : List Nat) (tx : Tx) (hp : tx.typ.privileged = true) :
    poolAccepts Flags.fixed cx u tx = .rejected ∧ verifyTxForwards Flags.fixed cx u tx = false :=
  ⟨(edit_rejected_privileged_pool_repaired Flags.fixed Repaired8.fixed cx u tx hp).1,
   (edit_rejected_privileged_pool_repaired Flags.fixed Repaired8.fixed cx u tx hp).2 rfl⟩

/-- edit "privileged type" in a block: a Fee-typed transaction other than the expected one, an Issuance-typed one
    after block 1, an ATR-typed one that is not an expected rebroadcast (`atrOk = false`), an SPV-typed one that
    carries value — each makes the block unacceptable on every tree with the eight repairs
    (flags used: `singleFeeTx`, `txVerdictPropagated`, `spvTypeCannotCreateOutputs`) -/
theorem edit_rejected_privileged_block_repaired (fl : Flags) (hr : Repaired8 fl) (bc : BCtx) (u : List Nat)
    (txs : List Tx) (tx : Tx) (hm : tx ∈ txs)
    (h : (tx.typ = .fee ∧ tx.feeExp = false) ∨ (tx.typ = .issuance ∧ bc.id > 1)
        ∨ (tx.typ = .atr ∧ bc.cx.vau = true ∧ bc.atrOk = false)
        ∨ (tx.typ = .spv ∧ (tx.inputs.any Input.isValue = true ∨ tx.outputs.any (·.amount > 0) = true))) :
    blockAccepts fl bc u txs = false := by
  rcases h with ⟨ht, hf⟩ | ⟨ht, hid⟩ | ⟨_, hv, ha⟩ | ⟨ht, hval⟩
  · -- fee rule
    have : feeRule fl bc txs = false := by
      have hmem : tx ∈ txs.filter (isType .fee) := List.mem_filter.2 ⟨hm, by simp [isType, ht]⟩
      have : (txs.filter (isType .fee)).all (·.feeExp) = false := by
        cases hall : (txs.filter (isType .fee)).all (·.feeExp) with
        | false => rfl
        | true =>
          have := List.all_eq_true.1 hall tx hmem
          rw [hf] at this; cases this
      simp [feeRule, hr.singleFeeTx, this]
    simp [blockAccepts, blockValidate, this]
  · have hany : txs.any (isType .issuance) = true := List.any_eq_true.2 ⟨tx, hm, by simp [isType, ht]⟩
    simp [blockAccepts, blockValidate, hany, hid]
  · simp [blockAccepts, blockValidate, hv, ha]
  · apply block_rejects_invalid_tx_of fl hr.txVerdictPropagated bc u txs tx hm
    unfold txValidate
    split
    · rfl
    · split
      · rfl
      · rcases hval with hval | hval <;> simp [ht, hr.spvTypeCannotCreateOutputs, hval]

theorem edit_rejected_privileged_block (bc : BCtx) (u : List Nat) (txs : List Tx) (tx : Tx) (hm : tx ∈ txs)
    (h : (tx.typ = .fee ∧ tx.feeExp = false) ∨ (tx.typ = .issuance ∧ bc.id > 1)
        ∨ (tx.typ = .atr ∧ bc.cx.vau = true ∧ bc.atrOk = false)
        ∨ (tx.typ = .spv ∧ (tx.inputs.any Input.isValue = true ∨ tx.outputs.any (·.amount > 0) = true))) :
    blockAccepts Flags.fixed bc u txs = false :=
  edit_rejected_privileged_block_repaired Flags.fixed Repaired8.fixed bc u txs tx hm h

/-! ## one witness per defect flag: the pinned behaviour accepts, repairing that flag refuses -/

def inA : Input := { key := 1, owner := 1, amount := 1000 }
def inB : Input := { key := 2, owner := 1, amount := 1000 }
def inVictim : Input := { key := 3, owner := 4, amount := 4000 }
def u0 : List Nat := [1, 2, 3]

/-- a transaction of key 1 whose signature does not verify, spending two existing outputs of key 1 -/
def txForged : Tx := { inputs := [inA, inB], outputs := [⟨2, 2000, 0⟩], sigOk := false }

/-- block.rs:3194 — the verdict is discarded: a block carrying a transaction with a forged signature is accepted -/
theorem txVerdictPropagated_witness :
    txValidate Flags.pinned {} u0 txForged = false ∧ blockAccepts Flags.pinned {} u0 [txForged] = true
    ∧ blockAccepts { Flags.pinned with txVerdictPropagated := true } {} u0 [txForged] = false := by decide

/-- the verdict is discarded: a block spending an output that does not exist is accepted by validation, and the node
    then dies in `check_total_supply` (`supplyPanic`) -/
theorem nonexistent_input_witness :
    let tx : Tx := { inputs := [{ key := 9, owner := 1, amount := 1000 }], outputs := [⟨2, 1000, 0⟩],
                     sigOk := true, signer := 1 }
    addBlock Flags.pinned {} u0 [tx] = .supplyPanic := by decide

/-- transaction.rs:976 — one output named twice passes `Transaction::validate` and the pool (`out ≤ in` holds thanks
    to the doubled input) -/
theorem dupInputsDetected_witness :
    poolAccepts Flags.pinned {} u0 { inputs := [inA, inA], outputs := [⟨5, 2000, 0⟩], sigOk := true, signer := 1 } = .accepted
    ∧ poolAccepts { Flags.pinned with dupInputsDetected := true } {} u0
        { inputs := [inA, inA], outputs := [⟨5, 2000, 0⟩], sigOk := true, signer := 1 } = .rejected := by decide

/-- transaction.rs:1107 — the signature is checked against `from[0]` only: key 1 signs a transaction that also spends
    key 4's output; pool and (even with the verdict propagated) block validation accept it -/
theorem allInputsOwnedBySigner_witness :
    let tx : Tx := { inputs := [inA, inVictim], outputs := [⟨5, 5000, 0⟩], sigOk := true, signer := 1 }
    poolAccepts Flags.pinned {} u0 tx = .accepted
    ∧ blockAccepts { Flags.pinned with txVerdictPropagated := true } {} u0 [tx] = true
    ∧ poolAccepts { Flags.pinned with allInputsOwnedBySigner := true } {} u0 tx = .rejected := by decide

/-- transaction.rs:1020-1067 — an unsigned BlockStake-typed transaction moves key 4's output to key 5 and mints -/
theorem stakeTypeSigned_witness :
    let tx : Tx := { typ := .blockStake, inputs := [inVictim], outputs := [⟨5, 5000, 0⟩], sigOk := false }
    poolAccepts Flags.pinned {} u0 tx = .accepted
    ∧ blockAccepts { Flags.pinned with txVerdictPropagated := true } {} u0 [tx] = true
    ∧ poolAccepts { Flags.pinned with stakeTypeSigned := true } {} u0 tx = .rejected := by decide

/-- transaction.rs:1003-1010 — an unsigned SPV-typed transaction (`in ≤ out`) moves key 4's output to key 5; nothing
    about it is checked, and the block winds its slips -/
theorem spvTypeCannotCreateOutputs_witness :
    let tx : Tx := { typ := .spv, inputs := [inVictim], outputs := [⟨5, 4000, 0⟩], sigOk := false }
    blockAccepts { Flags.pinned with txVerdictPropagated := true } {} u0 [tx] = true
    ∧ addBlock { Flags.pinned with txVerdictPropagated := true } {} u0 [tx] = .accepted
    ∧ blockAccepts { Flags.pinned with spvTypeCannotCreateOutputs := true, txVerdictPropagated := true } {} u0 [tx] = false := by
  decide

/-- block.rs:3129 — a block without a golden ticket may carry any Fee-typed transaction: unsigned, it moves key 4's
    output to key 5 (supply unchanged, so the node keeps running) -/
theorem singleFeeTx_witness :
    let tx : Tx := { typ := .fee, inputs := [inVictim], outputs := [⟨5, 4000, 0⟩], sigOk := false }
    addBlock { Flags.pinned with txVerdictPropagated := true } {} u0 [tx] = .accepted
    ∧ addBlock { Flags.pinned with singleFeeTx := true } {} u0 [tx] = .invalid := by decide

/-- mempool.rs:103 — a peer-sent, unsigned Fee-typed transaction spending key 4's output enters the pool -/
theorem poolRejectsPrivilegedTypes_witness :
    let tx : Tx := { typ := .fee, inputs := [inVictim], outputs := [⟨5, 4000, 0⟩], sigOk := false }
    poolAccepts Flags.pinned {} u0 tx = .accepted ∧ verifyTxForwards Flags.pinned {} u0 tx = true
    ∧ poolAccepts { Flags.pinned with poolRejectsPrivilegedTypes := true } {} u0 tx = .rejected := by decide

/-- slip.rs:223 — an output older than the retention window that is still in the utxo set (too small to be
    rebroadcast) is spendable -/
theorem windowChecked_witness :
    let tx : Tx := { inputs := [{ key := 1, owner := 1, amount := 100, old := true }, inB], outputs := [⟨2, 1100, 0⟩],
                     sigOk := true, signer := 1 }
    poolAccepts Flags.pinned {} u0 tx = .accepted
    ∧ poolAccepts { Flags.pinned with windowChecked := true } {} u0 tx = .rejected := by decide

/-! ### the open flags on the measured vector (eight repairs in place) -/

/-- signed by key 1, spends two outputs of key 1 that are in the utxo set; the first one is older than the window -/
def txOld : Tx :=
  { inputs := [{ key := 1, owner := 1, amount := 100, old := true }, inB], outputs := [⟨2, 1100, 0⟩],
    sigOk := true, signer := 1 }

/-- slip.rs:223 with the eight repairs in place (the measured vector): the pool and block validation still accept a
    transaction that spends an output older than the retention window — the clause `i.old = false` of `C01_full` fails
    for a value-carrying input of a user transaction of an accepted block; repairing `windowChecked` refuses both -/
theorem windowChecked_witness_measured :
    let fl : Flags := { Flags.fixed with inputLocationSigned := false, windowChecked := false,
                                         verifyDropsPrivilegedTypes := false }
    fl = Flags.measured
    ∧ poolAccepts fl {} u0 txOld = .accepted ∧ verifyTxForwards fl {} u0 txOld = true
    ∧ blockAccepts fl {} u0 [txOld] = true
    ∧ isUser txOld = true ∧ (∃ i ∈ txOld.inputs, isValueInput i = true ∧ i.old = true)
    ∧ poolAccepts { fl with windowChecked := true } {} u0 txOld = .rejected
    ∧ blockAccepts { fl with windowChecked := true } {} u0 [txOld] = false := by decide

/-- … hence the statement of `C01_full` is FALSE of the measured vector: `C01_repaired` cannot be strengthened by
    the window clause without repairing `windowChecked` -/
theorem window_clause_fails_measured :
    ¬ (∀ (bc : BCtx) (u : List Nat) (txs : List Tx), bc.cx.vau = true → (∀ tx ∈ txs, SigSound tx) →
        blockAccepts Flags.measured bc u txs = true →
        ∀ tx ∈ txs, isUser tx = true → ∀ i ∈ tx.inputs, isValueInput i = true → i.old = false) := by
  intro h
  have hs : ∀ tx ∈ [txOld], SigSound tx := by
    intro tx hm
    rw [List.mem_singleton.1 hm]
    exact fun _ => ⟨_, rfl, rfl⟩
  have := h {} u0 [txOld] rfl hs (by decide) txOld (by simp) (by decide)
    { key := 1, owner := 1, amount := 100, old := true } (by simp [txOld]) (by decide)
  cases this

/-- verification_thread.rs:45 with the eight repairs in place: an unsigned Fee-typed peer transaction is forwarded by
    the verification thread although the pool refuses it — why `C01_repaired_pool` takes the pool's verdict only -/
theorem verifyDropsPrivilegedTypes_witness_measured :
    let tx : Tx := { typ := .fee, inputs := [inVictim], outputs := [⟨5, 4000, 0⟩], sigOk := false }
    verifyTxForwards Flags.measured {} u0 tx = true ∧ poolAccepts Flags.measured {} u0 tx = .rejected
    ∧ verifyTxForwards { Flags.measured with verifyDropsPrivilegedTypes := true } {} u0 tx = false := by decide

/-- `Block::generate` records the inputs of the FIRST non-fee transaction only: a duplicated input in the second
    transaction passes `generate`; with the verdict discarded AND a forged signature the sweep does not see it either -/
theorem generate_first_tx_only_witness :
    let t1 : Tx := { inputs := [inB], outputs := [⟨2, 1000, 0⟩], sigOk := true, signer := 1 }
    let t2 : Tx := { inputs := [inA, inA], outputs := [⟨5, 2000, 0⟩], sigOk := false }
    blockGenerateOk [t1, t2] = true ∧ blockGenerateOk [t2, t1] = false
    ∧ blockAccepts Flags.pinned {} u0 [t1, t2] = true := by decide

/-! ## what holds on the pinned tree -/

/-- **C01_partial (pinned flags).** A Normal / Vip / Bound transaction that the pool accepts (or `verify_tx` forwards)
    has a sender, a signature that verifies against the key of its FIRST input, `out ≤ in`, and every value-carrying
    input exists unspent in the current spendable set. Missing w.r.t. C01: ownership of the other inputs, distinctness
    of the inputs, the window, and anything at all for the types Fee / SPV / ATR / Issuance / BlockStake. -/
theorem C01_partial (cx : Ctx) (u : List Nat) (tx : Tx)
    (ht : tx.typ = .normal ∨ tx.typ = .vip ∨ tx.typ = .bound)
    (hacc : poolAccepts Flags.pinned cx u tx = .accepted ∨ verifyTxForwards Flags.pinned cx u tx = true) :
    tx.inputs ≠ [] ∧ tx.sigOk = true ∧ totalOut tx ≤ totalIn tx ∧ ∀ i ∈ tx.inputs, i.amount > 0 → i.key ∈ u := by
  have hv : txValidate Flags.pinned { cx with vau := true } u tx = true := by
    rcases hacc with h | h
    · unfold poolAccepts at h
      split at h
      · cases h
      · rename_i h1; simpa using h1
    · simp only [verifyTxForwards, Bool.and_eq_true] at h; exact h.1
  have hs : signedType tx.typ = true := by rcases ht with h | h | h <;> simp [h, signedType]
  obtain ⟨h1, h2, _⟩ := signed_type_spec _ _ _ _ hs hv
  obtain ⟨k1, k2, _, k4, _⟩ := userChecks_spec _ _ h1
  refine ⟨k1, k2, k4, fun i hi hval => ?_⟩
  exact (slipSpendable_spec _ _ _ (List.all_eq_true.1 (h2 rfl) i hi) hval).1

/-- on the pinned tree the sweep still refuses a double spend among the transactions whose verdict was `true` -/
theorem C01_partial_sweep (cx : Ctx) (u : List Nat) (txs : List Tx)
    (hall : ∀ tx ∈ txs, txValidate Flags.pinned cx u tx = true)
    (h : blockSweep Flags.pinned cx u txs = true) : (blockValueKeys txs).Nodup := by
  -- with every verdict `true` the pinned sweep and the repaired sweep coincide
  have key : ∀ (l : List Tx) (seen : List Nat), (∀ tx ∈ l, txValidate Flags.pinned cx u tx = true) →
      sweepGo Flags.pinned cx u l seen = true → (blockValueKeys l).Nodup ∧ ∀ k ∈ blockValueKeys l, k ∉ seen := by
    intro l
    induction l with
    | nil => intro seen _ _; simp [blockValueKeys]
    | cons tx rest ih =>
      intro seen hl hs
      have hv := hl tx List.mem_cons_self
      simp only [sweepGo, hv, Bool.not_true, Bool.false_and, Bool.false_eq_true, if_false, Bool.true_and] at hs
      by_cases hfee : (tx.typ != .fee) = true
      · simp only [hfee, if_true] at hs
        cases ha : addKeys seen (sweepKeys tx) with
        | none => simp [ha] at hs
        | some seen' =>
          simp only [ha] at hs
          obtain ⟨k1, k2, k3⟩ := addKeys_some _ _ _ ha
          obtain ⟨i2, i3⟩ := ih seen' (fun t ht => hl t (List.mem_cons_of_mem _ ht)) hs
          constructor
          · rw [blockValueKeys_cons, if_pos hfee, List.nodup_append]
            refine ⟨k1, i2, ?_⟩
            intro a ha' b hb hab
            subst hab
            exact i3 a hb ((k3 a).2 (Or.inl ha'))
          · rw [blockValueKeys_cons, if_pos hfee]
            intro k hk
            rcases List.mem_append.1 hk with hk | hk
            · exact k2 k hk
            · intro hs'
              exact i3 k hk ((k3 k).2 (Or.inr hs'))
      · simp only [hfee] at hs
        obtain ⟨i2, i3⟩ := ih seen (fun t ht => hl t (List.mem_cons_of_mem _ ht)) hs
        constructor
        · rw [blockValueKeys_cons, if_neg hfee]; simpa using i2
        · rw [blockValueKeys_cons, if_neg hfee]; simpa using i3
  exact (key txs [] hall h).1

/-! ## "in the spendable set" = "created earlier on this chain and not spent since" -/

open Saito.Chain in
/-- If the ledger is the replay of the chain (C03), an output in the spendable set was created by some block of the
    chain, and no later block of the chain spent or re-created it. -/
theorem created_on_chain (c : List ABlock) (u : List Nat) (hu : SameSet u (replay c)) (x : Nat) (hx : x ∈ u) :
    ∃ pre b post, c = pre ++ b :: post ∧ x ∈ b.outs ∧ ∀ b' ∈ post, x ∉ b'.ins ∧ x ∉ b'.outs := by
  have key : ∀ (c : List ABlock) (v : List Nat), x ∈ replayFrom v c →
      (x ∈ v ∧ ∀ b ∈ c, x ∉ b.ins ∧ x ∉ b.outs) ∨
      ∃ pre b post, c = pre ++ b :: post ∧ x ∈ b.outs ∧ ∀ b' ∈ post, x ∉ b'.ins ∧ x ∉ b'.outs := by
    intro c
    induction c with
    | nil => intro v h; left; exact ⟨by simpa [replayFrom] using h, by simp⟩
    | cons b rest ih =>
      intro v h
      have h' : x ∈ replayFrom (windU b v) rest := by simpa [replayFrom] using h
      rcases ih (windU b v) h' with ⟨hw, hr⟩ | ⟨pre, b0, post, e, ho, hp⟩
      · rcases (mem_windU b v x).1 hw with ho | ⟨hv, hni⟩
        · right; exact ⟨[], b, rest, rfl, ho, hr⟩
        · by_cases ho : x ∈ b.outs
          · right; exact ⟨[], b, rest, rfl, ho, hr⟩
          · left
            refine ⟨hv, ?_⟩
            intro b' hb'
            rcases List.mem_cons.1 hb' with rfl | hb'
            · exact ⟨hni, ho⟩
            · exact hr b' hb'
      · right; exact ⟨b :: pre, b0, post, by rw [e]; rfl, ho, hp⟩
  rcases key c [] ((hu x).1 hx) with ⟨h, _⟩ | h
  · cases h
  · exact h

end Saito.C01
