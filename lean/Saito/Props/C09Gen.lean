import Saito.Model.Codec2
import Saito.Gen.Layout
import Saito.Gen.Tags
import Saito.Gen.Consts
/-!
# C09 / C10 / C06 — obligations over tables REGENERATED from the Rust source on every run (Tie A)
`Saito/Gen/*.lean` is rewritten by `verif/extract` from /repo before every build; the theorems below are then
re-checked by `decide` against what the code says now. If someone reorders two fields, changes a width, moves a
decoder offset, adds or renumbers a message tag or changes a size constant, the regenerated table changes and the
obligation fails (or, for a consistent change, the correspondence run shows the model's layout is no longer the code's).
-/
namespace Saito.C09Gen
open Saito.Gen

/-- consecutive byte ranges of a list of widths -/
def ranges : Nat → List Nat → List (Nat × Nat)
  | _, [] => []
  | off, w :: ws => (off, off + w) :: ranges (off + w) ws

/-! ### the model's encoders follow the generated element order and widths -/
/-- `Slip::serialize_for_net` = `Slip.encode` of the model: same fields, same order, same widths -/
theorem slip_layout_tied : slipEnc =
    [("public_key", 33), ("amount", 8), ("block_id", 8), ("tx_ordinal", 8), ("slip_index", 1), ("slip_type", 1)] := by decide
theorem slip_sig_layout_tied : slipSigIn = [("public_key", 33), ("amount", 8), ("slip_index", 1), ("slip_type", 1)] ∧
    slipSigOut = slipSigIn := by decide
theorem hop_layout_tied : hopEnc = [("from", 33), ("to", 33), ("sig", 64)] := by decide
/-- transaction: 93-byte header then inputs, outputs, message, hops -/
theorem tx_layout_tied : txEnc =
    [("from.len", 4), ("to.len", 4), ("data.len", 4), ("path_len", 4), ("signature", 64), ("timestamp", 8),
     ("txs_replacements", 4), ("transaction_type", 1), ("inputs", 0), ("outputs", 0), ("data", 0), ("hops", 0)] := by decide
theorem gt_layout_tied : gtEnc = [("target", 32), ("random", 32), ("public_key", 33)] := by decide
theorem chain_request_layout_tied : chainReqEnc = [("latest_block_id", 8), ("latest_block_hash", 32), ("fork_id", 32)] := by decide
/-- block header: tx count, id, timestamp, 4 fixed byte fields, 26 u64 words (avg_total_fees written twice), txs -/
theorem block_layout_tied : blockEnc.map (·.1) =
    ["tx_len_buffer", "id", "timestamp", "previous_block_hash", "creator", "merkle_root", "signature", "graveyard",
     "treasury", "burnfee", "difficulty", "avg_total_fees", "avg_fee_per_byte", "avg_nolan_rebroadcast_per_block",
     "previous_block_unpaid", "avg_total_fees", "avg_total_fees_new", "avg_total_fees_atr", "avg_payout_routing",
     "avg_payout_mining", "avg_payout_treasury", "avg_payout_graveyard", "avg_payout_atr", "total_payout_routing",
     "total_payout_mining", "total_payout_treasury", "total_payout_graveyard", "total_payout_atr", "total_fees",
     "total_fees_new", "total_fees_atr", "fee_per_byte", "total_fees_cumulative", "tx_buf"] := by decide

/-! ### decoder offsets = prefix sums of encoder widths -/
theorem slip_offsets_consistent : slipDec = ranges 0 (slipEnc.map (·.2)) := by decide
theorem tx_header_offsets_consistent : txDec = ranges 0 ((txEnc.take 8).map (·.2)) := by decide
/-- (`tx_len_buffer` is a local 4-byte buffer in the encoder, hence the explicit 4) -/
theorem block_header_offsets_consistent :
    blockDec = ranges 0 (4 :: ((blockEnc.drop 1).dropLast.map (·.2))) := by decide
theorem gt_offsets_consistent : gtDec = ranges 0 (gtEnc.map (·.2)) := by decide
theorem chain_request_offsets_consistent : chainReqDec = ranges 0 (chainReqEnc.map (·.2)) := by decide

/-! ### size constants -/
theorem sizes_tied :
    const "SLIP_SIZE" = some Saito.SLIP_SIZE ∧ const "HOP_SIZE" = some Saito.HOP_SIZE ∧
    const "TRANSACTION_SIZE" = some Saito.TX_SIZE ∧ const "BLOCK_HEADER_SIZE" = some Saito.BLOCK_HEADER_SIZE ∧
    const "WALLET_SIZE" = some 65 ∧ const "UTXO_KEY_LENGTH" = some 59 := by decide
/-- the constants equal the sums of the generated widths -/
theorem sizes_are_layout_sums :
    (slipEnc.map (·.2)).sum = Saito.SLIP_SIZE ∧ (hopEnc.map (·.2)).sum = Saito.HOP_SIZE ∧
    ((txEnc.take 8).map (·.2)).sum = Saito.TX_SIZE ∧
    (4 :: ((blockEnc.drop 1).dropLast.map (·.2))).sum = Saito.BLOCK_HEADER_SIZE := by decide

/-! ### what is signed / hashed (C06) -/
/-- the signed header covers id, timestamp, parent hash, creator and the transaction commitment -/
theorem block_signed_fields : blockSig =
    [("id", 8), ("timestamp", 8), ("previous_block_hash", 32), ("creator", 33), ("merkle_root", 32), ("graveyard", 8),
     ("treasury", 8), ("burnfee", 8), ("difficulty", 8), ("avg_fee_per_byte", 8), ("avg_nolan_rebroadcast_per_block", 8),
     ("previous_block_unpaid", 8), ("avg_total_fees", 8), ("avg_total_fees_new", 8), ("avg_total_fees_atr", 8),
     ("avg_payout_routing", 8), ("avg_payout_mining", 8)] := by decide
/-- the block hash is computed over parent hash ‖ pre_hash -/
theorem block_hash_input : blockHashInput = [("previous_block_hash", 32), ("pre_hash", 32)] := by decide

/-! ### message tags -/
/-- `get_type_value` and the arms of `deserialize` are mutually inverse tables -/
theorem tags_bijective : variantOfTag.map (fun p => (p.2, p.1)) = tagOfVariant ∧
    (tagOfVariant.map (·.2)).Nodup ∧ (tagOfVariant.map (·.1)).Nodup := by decide
/-- and they are the 15 tags of the model's `Msg.tag` -/
theorem tags_tied : tagOfVariant =
    [("HandshakeChallenge", 1), ("HandshakeResponse", 2), ("Block", 3), ("Transaction", 4), ("BlockchainRequest", 5),
     ("BlockHeaderHash", 6), ("Ping", 7), ("SPVChain", 8), ("Services", 9), ("GhostChain", 10), ("GhostChainRequest", 11),
     ("ApplicationMessage", 12), ("Result", 13), ("Error", 14), ("KeyListUpdate", 15)] := by decide

end Saito.C09Gen
