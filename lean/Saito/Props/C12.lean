import Saito.Lemmas.Storage
import Saito.Lemmas.Utxo
import Saito.Lemmas.BlockPrefix
/-!
# C12 — restart rebuilds the same ledger; a crash at any storage step is survivable

Model: `Saito/Model/Storage.lean` (disk, journal, `crash k torn`, `restart` = `ConsensusThread::on_init` over the
`add_block` model of `Saito/Model/Chain.lean`), tied to the real loading path by the `disk` correspondence suite.

* `prefix_rejected`: the block decoder (`Saito.Block.decode`, the model of `Block::deserialize_from_net`) returns an
  error on EVERY strict prefix of the encoding of EVERY well-formed block — the justification for abstracting a torn
  file to `Content.torn` (never a block, never a panic). No gap remains for prefixes; what is not modelled is a file
  that is not a prefix of the content (`File::create` + `write_all` cannot produce one without OS reordering).
* `C12_clean`: for every history (forks and side branches included) whose blocks were all accepted and were
  delivered in the order in which a restart loads them (by block id, then file name), restart of the node's disk
  reproduces the node's state EXACTLY (whole chain state: tip, spendable set, amounts, block store, ring), for every
  setting of every defect flag. `C12_clean_linear`: every linear history is such a history.
* `C12_crash`: for those histories, for EVERY number `k` of completed storage operations and the interrupted write
  absent or torn, the restarted node is in exactly the state the live node had after its `k`-th block — so its tip
  is the pre-crash tip or a tip the node stood on before, its ledger is that state's ledger, supply is that state's
  supply — and (`C12_crash_continues`) the next block of the history is accepted again.
* `C12_torn_is_absent_fixed`: with the loader repaired (`loadSkipsBadFile`), for EVERY journal (any forks, removes,
  re-writes) and every crash point, a torn file is equivalent to an absent one.
* witnesses of the three reproduced defects (`skipbad_witness`, `rewrite_witness`, `order_witness`), kernel-decided.
* `C12_crash_partial` names what is NOT proved: for histories delivered out of loading order the full crash statement
  is false on the pinned tree (witnesses) and, with the loader repaired, reduces to the clean-restart statement of the
  durable prefix, which `order_witness` refutes for forks.
-/
namespace Saito.C12
open Saito.Chain Saito.Storage

/-! ### a torn file is never a block -/

/-- every strict prefix of the encoding of a well-formed block is rejected with `err` by the block decoder:
    `k < 389` by the header-length test, `k ≥ 389` by the per-transaction extent tests -/
theorem prefix_rejected (fl : CodecFlags) (b : Block) (h : b.wf) (k : Nat) (hk : k < (b.encode false).length) :
    Block.decode fl ((b.encode false).take k) = .err :=
  Block.decode_prefix_err fl b h k hk

/-- … in particular it is never read as any block and never panics the loader -/
theorem prefix_never_a_block (fl : CodecFlags) (b : Block) (h : b.wf) (k : Nat) (hk : k < (b.encode false).length) :
    (∀ b', Block.decode fl ((b.encode false).take k) ≠ .ok b') ∧ Block.decode fl ((b.encode false).take k) ≠ .panic := by
  rw [prefix_rejected fl b h k hk]
  exact ⟨fun _ => by simp, by simp⟩

/-- … while the complete file decodes to a block with the same identity fields and transactions -/
theorem complete_file_decodes (fl : CodecFlags) (b : Block) (h : b.wf) :
    ∃ b', Block.decode fl (b.encode false) = .ok b' ∧ b'.txs = b.txs ∧ b'.id = b.id ∧ b'.ts = b.ts ∧ b'.prev = b.prev :=
  Block.decode_encode_ok fl b h

/-! ### clean restart -/

/-- **C12 (clean restart).** Every block of the history was accepted by the live node, the blocks were delivered in
    loading order (ascending file names — i.e. timestamps — and non-decreasing ids), at most one loading batch.
    Then the restarted node has exactly the live node's chain state, for all flag settings (pinned or repaired). -/
theorem C12_clean (sf : Storage.Flags) (cf : Chain.Flags) (gp : Nat) (del : Bool) (h : History)
    (hacc : Accepted cf { gp := gp } h) (hn : AscN (asDisk h)) (hi : AscId h) (hlen : h.length ≤ 1000) :
    (restart sf cf gp del (diskOf cf gp h)).bad = none ∧
    (restart sf cf gp del (diskOf cf gp h)).st = (live cf gp h).st := by
  have hd : diskOf cf gp h = asDisk h := by
    unfold diskOf; rw [journalOf_accepted cf gp h hacc]; exact applyAll_writes_asc h hn
  rw [hd, live_accepted cf gp h hacc]
  apply restart_accepted sf cf gp del (asDisk h) h (by simpa [asDisk] using hlen) _ hacc
  rw [sortDisk_asc _ hn, loadBatch_allGood sf _ (allGood_asDisk h), goods_asDisk, sortById_asc h hi]

/-- the observables named by the property: same tip, same spendable outputs, same supply, same block store -/
theorem C12_clean_observables (sf : Storage.Flags) (cf : Chain.Flags) (gp : Nat) (del : Bool) (h : History)
    (hacc : Accepted cf { gp := gp } h) (hn : AscN (asDisk h)) (hi : AscId h) (hlen : h.length ≤ 1000) :
    let r := restart sf cf gp del (diskOf cf gp h)
    let lv := (live cf gp h).st
    tipOf r.st = tipOf lv ∧ SameSet r.st.utxo lv.utxo ∧ supplyOf r.st = supplyOf lv ∧ r.st.blocks = lv.blocks := by
  intro r lv
  have := (C12_clean sf cf gp del h hacc hn hi hlen).2
  have e : r.st = lv := this
  rw [e]
  exact ⟨rfl, SameSet.refl _, rfl, rfl⟩

/-- **C12 (clean restart), linear histories**: no ordering hypothesis is needed -/
theorem C12_clean_linear (sf : Storage.Flags) (cf : Chain.Flags) (gp : Nat) (del : Bool) (h : History)
    (hacc : Accepted cf { gp := gp } h) (hl : Linear h) (hlen : h.length ≤ 1000) :
    (restart sf cf gp del (diskOf cf gp h)).bad = none ∧
    (restart sf cf gp del (diskOf cf gp h)).st = (live cf gp h).st :=
  C12_clean sf cf gp del h hacc (linear_loading_order h hl).1 (linear_loading_order h hl).2 hlen

/-! ### crash at every storage step -/

/-- **C12 (crash).** For a history as in `C12_clean`, EVERY number `k` of completed storage operations, the
    interrupted write absent (`torn = false`) or torn at any byte (`torn = true`), and all flag settings: the
    loading path comes back, and the restarted node is in exactly the state the live node had after its first `k`
    blocks (for `k ≥` the journal length: the final state). -/
theorem C12_crash (sf : Storage.Flags) (cf : Chain.Flags) (gp : Nat) (del : Bool) (h : History)
    (hacc : Accepted cf { gp := gp } h) (hn : AscN (asDisk h)) (hi : AscId h) (hlen : h.length ≤ 1000)
    (k : Nat) (torn : Bool) :
    (restart sf cf gp del (crash k torn (journalOf cf gp h))).bad = none ∧
    (restart sf cf gp del (crash k torn (journalOf cf gp h))).st = run cf { gp := gp } (h.take k) := by
  rw [journalOf_accepted cf gp h hacc]
  have hacck := accepted_take cf { gp := gp } h k hacc
  have hnk : AscN (asDisk (h.take k)) := by rw [asDisk_take]; exact ascN_take _ k hn
  have hik := ascId_take h k hi
  have hdk : applyAll [] ((h.map fun p => Op.write p.1 p.2).take k) = asDisk (h.take k) := by
    rw [← List.map_take]; exact applyAll_writes_asc (h.take k) hnk
  have hlenk : (asDisk (h.take k)).length ≤ 1000 := by simp [asDisk]; omega
  -- the disk without a torn file
  have base : (restart sf cf gp del (asDisk (h.take k))).bad = none ∧
      (restart sf cf gp del (asDisk (h.take k))).st = run cf { gp := gp } (h.take k) := by
    apply restart_accepted sf cf gp del _ (h.take k) hlenk _ hacck
    rw [sortDisk_asc _ hnk, loadBatch_allGood sf _ (allGood_asDisk _), goods_asDisk, sortById_asc _ hik]
  unfold crash
  simp only [hdk]
  cases torn with
  | false => simpa using base
  | true =>
    simp only [↓reduceIte, List.getElem?_map]
    cases hk : h[k]? with
    | none => simpa using base
    | some p =>
      simp only [Option.map_some]
      have hklt : k < h.length := by
        rcases Nat.lt_or_ge k h.length with h' | h'
        · exact h'
        · rw [List.getElem?_eq_none h'] at hk; cases hk
      -- the interrupted file's name is above every complete file's name
      have habove : ∀ y ∈ asDisk (h.take k), y.1.lt p.1 = true := by
        have hk' : (asDisk h)[k]? = some (p.1, Content.good p.2) := by simp [asDisk, hk]
        have := ascN_getElem_above (asDisk h) k _ hn hk'
        rw [asDisk_take]; exact this
      have hfresh : p.1 ∉ names (asDisk (h.take k)) := by
        intro hm
        simp only [names, List.mem_map] at hm
        obtain ⟨e, he, e1⟩ := hm
        exact Name.ne_of_lt (habove e he) e1
      rw [put_fresh _ _ _ hfresh]
      apply restart_accepted sf cf gp del _ (h.take k) (by simp [asDisk]; omega) _ hacck
      rw [sortDisk_append_last _ _ hnk habove, loadBatch_torn_last sf _ _ (allGood_asDisk _), goods_asDisk,
        sortById_asc _ hik]

/-- … and the node can continue: the block the live node accepted next is accepted by the restarted node, with the
    same resulting state (`add_block` is a function of the chain state) -/
theorem C12_crash_continues (sf : Storage.Flags) (cf : Chain.Flags) (gp : Nat) (del : Bool) (h : History)
    (hacc : Accepted cf { gp := gp } h) (hn : AscN (asDisk h)) (hi : AscId h) (hlen : h.length ≤ 1000)
    (k : Nat) (torn : Bool) (p : Name × ABlock) (hk : h[k]? = some p) :
    let st := (restart sf cf gp del (crash k torn (journalOf cf gp h))).st
    ((addBlock cf st p.2 []).2 = .addedLc ∨ (addBlock cf st p.2 []).2 = .addedSide) ∧
    (addBlock cf st p.2 []).1 = run cf { gp := gp } (h.take (k + 1)) := by
  intro st
  have e : st = run cf { gp := gp } (h.take k) := (C12_crash sf cf gp del h hacc hn hi hlen k torn).2
  rw [e]
  refine ⟨accepted_next cf _ h k p hacc hk, ?_⟩
  have : h.take (k + 1) = h.take k ++ [p] := by
    rw [List.take_add_one, hk]; rfl
  rw [this, run_append]
  simp [run]

/-- the tip after a crash is a tip the live node stood on at or before the crash: the pre-crash tip when the
    interrupted block was a side block, else the tip before it (its parent on a linear history) -/
theorem C12_crash_tip (sf : Storage.Flags) (cf : Chain.Flags) (gp : Nat) (del : Bool) (h : History)
    (hacc : Accepted cf { gp := gp } h) (hn : AscN (asDisk h)) (hi : AscId h) (hlen : h.length ≤ 1000)
    (k : Nat) (torn : Bool) :
    tipOf (restart sf cf gp del (crash k torn (journalOf cf gp h))).st = tipOf (run cf { gp := gp } (h.take k)) ∧
    supplyOf (restart sf cf gp del (crash k torn (journalOf cf gp h))).st = supplyOf (run cf { gp := gp } (h.take k)) := by
  rw [(C12_crash sf cf gp del h hacc hn hi hlen k torn).2]
  exact ⟨rfl, rfl⟩

/-! ### the repaired loader: a torn file is an absent file, for every journal -/

/-- **C12 (crash, repaired loader), every journal** — forks, side branches written late, removes, anything: when the
    interrupted write created a new file, restarting with that file torn gives the same chain state as restarting
    with it absent. (At most one loading batch.) -/
theorem C12_torn_is_absent_fixed (sf : Storage.Flags) (hf : sf.loadSkipsBadFile = true) (cf : Chain.Flags) (gp : Nat)
    (del : Bool) (j : Journal) (k : Nat)
    (hfresh : ∀ n b, j[k]? = some (.write n b) → n ∉ names (applyAll [] (j.take k)))
    (hlen : (applyAll [] (j.take k)).length < 1000) :
    (restart sf cf gp del (crash k true j)).st = (restart sf cf gp del (crash k false j)).st ∧
    (restart sf cf gp del (crash k true j)).bad = (restart sf cf gp del (crash k false j)).bad := by
  unfold crash
  simp only [↓reduceIte, Bool.false_eq_true]
  cases hk : j[k]? with
  | none => exact ⟨rfl, rfl⟩
  | some op =>
    cases op with
    | remove n => exact ⟨rfl, rfl⟩
    | write n b =>
      simp only
      rw [put_fresh _ _ _ (hfresh n b hk)]
      obtain ⟨a1, a2⟩ := restart_loaded sf cf gp del (applyAll [] (j.take k) ++ [(n, .torn)]) (by simp; omega)
      obtain ⟨b1, b2⟩ := restart_loaded sf cf gp del (applyAll [] (j.take k)) (by omega)
      rw [a1, a2, b1, b2, loaded_torn_irrelevant sf hf]
      exact ⟨rfl, rfl⟩

/-- with both repairs and without `delete_old_blocks` a restart issues no storage operation at all, so a crash
    during a restart cannot damage the disk -/
theorem fixed_restart_issues_no_ops (sf : Storage.Flags) (hf : sf.reloadKeepsFiles = true) (cf : Chain.Flags) (gp : Nat) (d : Disk) :
    (restart sf cf gp false d).ops = [] ∧ (restart sf cf gp false d).disk = d := by
  unfold restart
  simp only
  generalize loadLoop sf cf 1000 (sortDisk d).length (sortDisk d) { st := { gp := gp } } = a
  cases hbad : a.bad with
  | some o => simp
  | none => simp [hf, applyAll]

/-- **pinned loader, exact loss** (`_partial`): the pinned loader hands over exactly the complete files whose names
    sort before the first torn file — every later file of the batch is dropped, whatever it contains -/
theorem pinned_loader_partial (sf : Storage.Flags) (hp : sf.loadSkipsBadFile = false) (a b : Disk) (n : Name)
    (ha : AllGood a) : loadBatch sf (a ++ (n, .torn) :: b) = goods a := by
  induction a with
  | nil => simp [loadBatch, goods, hp]
  | cons x a ih =>
    obtain ⟨m, c⟩ := x
    have hd : AllGood a := fun e he => ha e (List.mem_cons_of_mem _ he)
    cases c with
    | good blk => simp [loadBatch, goods, ih hd]
    | torn => exact absurd rfl (ha (m, .torn) (List.mem_cons_self ..))

/-! ### witnesses of the reproduced defects (pinned flags), decided by the kernel -/

def blk (h p i : Nat) (ins outs : List Nat) : ABlock :=
  { hash := h, prev := p, id := i, burnfee := 10, hasGT := true, ok := true, ins := ins, outs := outs,
    inAmts := ins.map (fun _ => 10), outAmts := outs.map (fun _ => 10) }
def nm (ts : Nat) : Name := ⟨ts, 7⟩
def G := blk 1 0 1 [] [1, 2]
def A1 := blk 2 1 2 [1] [3]
def A2 := blk 3 2 3 [] []
def A3 := blk 4 3 4 [3] [4]
/-- side block: child of the genesis block, timestamp older than `A1`'s -/
def B1 := blk 5 1 2 [2] [5]

/-- main chain G-A1-A2-A3, then the side block B1 (file name sorts second) delivered and written last -/
def lateSide : History := [(nm 1000, G), (nm 2000, A1), (nm 3000, A2), (nm 4000, A3), (nm 1500, B1)]

/-- **defect `loadSkipsBadFile`** (storage.rs:131-146 + consensus_thread.rs:566-590). The process dies while writing
    B1's file (journal prefix 4, file torn). Pinned: the loader stops at the torn file, the node comes up on the
    GENESIS block and the three complete files of A1, A2, A3 are deleted from disk. With the file absent, or with
    the loader repaired, it comes up on A3 with all four files kept. -/
theorem skipbad_witness :
    let j := journalOf {} 100 lateSide
    let pinned := restart {} {} 100 true (crash 4 true j)
    let absent := restart {} {} 100 true (crash 4 false j)
    let fixed := restart { loadSkipsBadFile := true } {} 100 true (crash 4 true j)
    tipOf (live {} 100 (lateSide.take 4)).st = some (4, 4) ∧
    tipOf pinned.st = some (1, 1) ∧ names pinned.disk = [nm 1000] ∧
    tipOf absent.st = some (4, 4) ∧ (names absent.disk).length = 4 ∧
    tipOf fixed.st = some (4, 4) ∧ (names fixed.disk).length = 4 := by decide +kernel

def linear4 : History := [(nm 1000, G), (nm 2000, A1), (nm 3000, A2), (nm 4000, A3)]

/-- **defect `reloadKeepsFiles`** (blockchain.rs:585 while loading). A clean restart of a LINEAR history issues four
    writes (it re-writes every file in place). If that restart dies during its second write (A1's file torn), the
    next restart comes up on the genesis block and deletes the files of A2 and A3. Repaired: the restart issues no
    operation. -/
theorem rewrite_witness :
    let d0 := diskOf {} 100 linear4
    let r0 := restart {} {} 100 true d0
    let d1 := put (applyAll d0 (r0.ops.take 1)) (nm 2000) .torn
    let r1 := restart {} {} 100 true d1
    r0.ops = [.write (nm 1000) G, .write (nm 2000) A1, .write (nm 3000) A2, .write (nm 4000) A3] ∧
    tipOf r0.st = some (4, 4) ∧ tipOf r1.st = some (1, 1) ∧ names r1.disk = [nm 1000] ∧
    (restart { reloadKeepsFiles := true } {} 100 true d0).ops = [] := by decide +kernel

def C1 := blk 6 1 2 [] []
def C2 := blk 7 6 3 [] []
/-- two branches of equal length; the branch delivered second carries the older timestamps -/
def equalBranches : History := [(nm 1000, G), (nm 3000, A1), (nm 6000, A2), (nm 1300, C1), (nm 1600, C2)]

/-- **loading order ≠ delivery order** (consensus_thread.rs:516-536, blockchain.rs:1854): every block was accepted,
    the live node stands on A2; a CLEAN restart stands on C2 with a different ledger. So the ordering hypothesis of
    `C12_clean` cannot be dropped, whatever the flags. -/
theorem order_witness :
    (live {} 100 equalBranches).written = equalBranches ∧
    tipOf (live {} 100 equalBranches).st = some (3, 3) ∧
    tipOf (restart {} {} 100 true (diskOf {} 100 equalBranches)).st = some (3, 7) ∧
    tipOf (restart Storage.Flags.fixed Chain.Flags.fixed 100 true (diskOf Chain.Flags.fixed 100 equalBranches)).st = some (3, 7) ∧
    (live {} 100 equalBranches).st.utxo ≠ (restart {} {} 100 true (diskOf {} 100 equalBranches)).st.utxo := by
  decide +kernel

/-- **what remains partial.** For a journal that is NOT in loading order the crash statement holds in this form
    only: (repaired loader) the restarted state is that of a clean restart of the complete files — which need not be
    a state the live node was in (`order_witness`). Pinned loader: not even that (`skipbad_witness`). -/
theorem C12_crash_partial (sf : Storage.Flags) (hf : sf.loadSkipsBadFile = true) (cf : Chain.Flags) (gp : Nat) (del : Bool)
    (j : Journal) (k : Nat) (torn : Bool)
    (hfresh : ∀ n b, j[k]? = some (.write n b) → n ∉ names (applyAll [] (j.take k)))
    (hlen : (applyAll [] (j.take k)).length < 1000) :
    (restart sf cf gp del (crash k torn j)).st = (restart sf cf gp del (applyAll [] (j.take k))).st := by
  cases torn with
  | true =>
    rw [(C12_torn_is_absent_fixed sf hf cf gp del j k hfresh hlen).1]
    simp [crash]
  | false => simp [crash]

/-! ### non-vacuity -/

instance decAccepted (cf : Chain.Flags) : (st : State) → (h : History) → Decidable (Accepted cf st h)
  | _, [] => isTrue trivial
  | st, p :: r =>
    have := decAccepted cf (addBlock cf st p.2 []).1 r
    inferInstanceAs (Decidable (_ ∧ _))

instance decAscN : (d : Disk) → Decidable (AscN d)
  | [] => isTrue trivial
  | x :: l =>
    have := decAscN l
    inferInstanceAs (Decidable ((∀ y ∈ l, x.1.lt y.1 = true) ∧ AscN l))

instance decAscId : (l : List (Name × ABlock)) → Decidable (AscId l)
  | [] => isTrue trivial
  | x :: l =>
    have := decAscId l
    inferInstanceAs (Decidable ((∀ y ∈ l, x.2.id ≤ y.2.id) ∧ AscId l))

/-- a fork delivered in loading order (the side block C1 arrives before A1's sibling height is passed): the
    hypotheses of `C12_clean` / `C12_crash` hold for a history with a side branch and value transfers -/
def forkInOrder : History := [(nm 1000, G), (nm 1300, C1), (nm 2000, A1), (nm 3000, A2), (nm 4000, A3)]

example : Accepted {} { gp := 100 } forkInOrder ∧ AscN (asDisk forkInOrder) ∧ AscId forkInOrder ∧
    forkInOrder.length ≤ 1000 := by decide +kernel
/-- … the live node reorganised onto the A branch (tip A3), the side block is in the store -/
example : tipOf (live {} 100 forkInOrder).st = some (4, 4) ∧ (live {} 100 forkInOrder).st.blocks.length = 5 := by
  decide +kernel
example : Accepted {} { gp := 100 } linear4 ∧ Linear linear4 := by
  refine ⟨by decide +kernel, ?_⟩
  simp [Linear, linear4, G, A1, A2, A3, blk, nm]
/-- … and every crash point of it gives a tip that is an ancestor of the pre-crash tip `(4,4)` -/
example : (List.range 5).map (fun k => tipOf (run {} { gp := 100 } (linear4.take k))) =
    [some (0, 0), some (1, 1), some (2, 2), some (3, 3), some (4, 4)] := by decide +kernel
/-- hypotheses of `C12_torn_is_absent_fixed` on the journal of the late-side-block history at the crash point -/
example : let j := journalOf {} 100 lateSide
    (∀ n b, j[4]? = some (.write n b) → n ∉ names (applyAll [] (j.take 4))) ∧ (applyAll [] (j.take 4)).length < 1000 := by
  intro j
  refine ⟨?_, by decide +kernel⟩
  intro n b h
  have e : j[4]? = some (.write (nm 1500) B1) := by decide +kernel
  rw [e] at h
  cases h
  decide +kernel
/-- a concrete well-formed block with one transaction for `prefix_rejected` -/
def sampleBlock : Block :=
  { id := 2, ts := 1700000000000, prev := List.replicate 32 1, creator := List.replicate 33 2, merkle := List.replicate 32 3,
    sig := List.replicate 64 4, nums := List.replicate 25 5,
    txs := [⟨List.replicate 64 9, 1700000000000, 0, 0, [], [⟨List.replicate 33 7, 5, 2, 1, 0, 0⟩], [1, 2, 3], []⟩],
    isHeader := false }
example : sampleBlock.wf := by
  unfold Block.wf sampleBlock
  refine ⟨by decide, by decide, by decide, by decide, by decide, by decide, ?_, by decide⟩
  intro t ht
  simp at ht; subst ht
  unfold Tx.wf
  refine ⟨by decide, by decide, by decide, by decide, by decide, by decide, ?_, ?_, ?_⟩ <;> simp [Slip.wf]

end Saito.C12
