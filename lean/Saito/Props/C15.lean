import Saito.Lemmas.ForkId
import Saito.Lemmas.SyncDelivery
import Saito.Lemmas.LinearChain
/-!
# C15 — a node that syncs from a peer converges to the peer's chain

Three layers, each tied to the real code by the `forkid` correspondence suite (harness/src/syncnodes.rs):

* fork id / ancestor estimate (`Saito.ForkId`, blockchain.rs:783-978): `ancestor_sound` — the estimate the peer
  derives from the requester's fork id is never later than the true fork point, **provided** the 16-bit window
  comparisons succeed only for equal blocks (`noWindowCollision`, explicit and decidable; a 16-bit comparison
  cannot give more — `collision_witness`, reproduced on real honest blocks, corpus/C15/collision.json);
* announcement (`announced`, routing_thread.rs:419-464): `announce_complete`, `needed_announced`,
  `request_complete` — every peer block the requester lacks is announced;
* delivery (`Saito.SyncDelivery` over `Chain.addBlock`): `delivery_order_free_linear` — a requester on a prefix
  of the peer's linear all-valid chain ends on the peer's tip under EVERY permutation of the deliveries, for every
  chain length below genesis_period, no hypothesis about `addBlock` left (Lemmas/LinearChain.lean evaluates
  `addBlock` symbolically on the closed-form state); `delivery_order_free_partial` — the same for any suffix
  (forked requester included) on which `addBlock` behaves as a ladder (checkable: `ladder_of_checks`, examples).
  Both need the retry rule, which is gated by `initial_loading_completed`, which the pinned tree never sets:
  `delivery_order_witness`, `empty_node_witness` are the kernel-checked counterparts of the schedules reproduced
  on the real nodes.
-/
namespace Saito.C15
open Saito.ForkId Saito.SyncDelivery Saito.Chain

/-! ## 1. the ancestor estimate -/

/-- **Soundness of the common-ancestor estimate.** `a` = the requester's chain, `b` = the peer's chain (both from
    genesis), `ws` = any weight table (the code uses `weightsConst`), `win` = any window function. If every
    window comparison the peer makes succeeds only for the block the requester sampled (`noWindowCollision`) and a
    hash determines its height (`heightInHash`), then `generate_last_shared_ancestor`, evaluated by the peer on the
    requester's `(latest id, fork id)`, is at most the last id at which the two chains agree — whichever of the two
    is longer (both branches, peer ahead / peer behind). -/
theorem ancestor_sound (win : Nat → Nat → Nat) (ws a b : List Nat)
    (hc : noWindowCollision win ws a b = true) (hh : heightInHash a b = true) :
    lastSharedAncestor win ws b a.length (forkId win ws a a.length) ≤ forkPoint a b := by
  unfold lastSharedAncestor
  cases hr : ancGo win b (forkId win ws a a.length) ws 0 (ancStart b a.length) with
  | none => simp
  | some r =>
    simp only [Option.getD_some]
    rcases ancGo_spec win b _ ws 0 _ r hr with h0 | ⟨j, h, hm, hbr, hv⟩
    · omega
    · unfold noWindowCollision at hc
      rw [List.all_eq_true] at hc
      have hp := hc (j, r) hm
      simp only [hbr, hv, beq_self_eq_true, if_true] at hp
      split at hp
      · rename_i x t hs
        have hax : hashAt a x = some h := by simpa using hp
        have hxr : x = r := heightInHash_spec hh hax hbr
        subst hxr
        exact agree_le_forkPoint (agreeAt_iff.2 ⟨h, hax, hbr⟩)
      · simp at hp

/-- the estimate is 0 or one of the ids the walk visits (checkpoint ids below the rounded starting point) -/
theorem ancestor_is_checkpoint (win : Nat → Nat → Nat) (ws b : List Nat) (peerLatest : Nat) (fid : List (Option Nat)) :
    lastSharedAncestor win ws b peerLatest fid = 0 ∨
      ∃ j, (j, lastSharedAncestor win ws b peerLatest fid) ∈ cmpGo ws 0 (ancStart b peerLatest) := by
  unfold lastSharedAncestor
  cases hr : ancGo win b fid ws 0 (ancStart b peerLatest) with
  | none => left; rfl
  | some r =>
    rcases ancGo_spec win b fid ws 0 _ r hr with h0 | ⟨j, _, hm, _, _⟩
    · left; simpa using h0
    · right; exact ⟨j, by simpa using hm⟩

/-! non-vacuity: requester 25 blocks, peer shares 13 of them and continues with 17 of its own (30 blocks); windows
    are the low 16 bits, hashes are distinct small numbers, so no window collides; the estimate is checkpoint 10. -/
def exWin (h _i : Nat) : Nat := h % 65536
def exA : List Nat := (List.range 25).map (· + 101)
def exB : List Nat := (List.range 13).map (· + 101) ++ (List.range 17).map (· + 214)

example : noWindowCollision exWin weightsConst exA exB = true ∧ heightInHash exA exB = true ∧
    forkPoint exA exB = 13 ∧ lastSharedAncestor exWin weightsConst exB exA.length (forkId exWin weightsConst exA exA.length) = 10 := by
  decide +kernel

/-- and the other branch (requester 15 blocks, peer 14: "peer ahead or level", the walk starts from the answering
    node's own tip; both tips lie in the same decade, so the same checkpoints are compared) -/
example : noWindowCollision exWin weightsConst (exA.take 15) (exB.take 14) = true ∧
    heightInHash (exA.take 15) (exB.take 14) = true ∧ forkPoint (exA.take 15) (exB.take 14) = 13 ∧
    lastSharedAncestor exWin weightsConst (exB.take 14) 15 (forkId exWin weightsConst (exA.take 15) 15) = 10 := by
  decide +kernel

/-- **Witness: the hypothesis is needed.** Requester 12 blocks, peer 14 blocks, common prefix of 5 blocks; the two
    DIFFERENT blocks at checkpoint id 10 (1010 / 2010) have the same window. The peer answers "ancestor 10", five ids
    past the fork point, and its announcement skips the blocks 6…9 the requester needs. (Same shape as the pair of
    real honest blocks in corpus/C15/collision.json, on which the real functions give the same numbers.) -/
def colWin (h _i : Nat) : Nat := h % 1000
def colA : List Nat := [1001, 1002, 1003, 1004, 1005, 1006, 1007, 1008, 1009, 1010, 1011, 1012]
def colB : List Nat := [1001, 1002, 1003, 1004, 1005, 2006, 2007, 2008, 2009, 2010, 2011, 2012, 2013, 2014]

theorem collision_witness :
    noWindowCollision colWin weightsConst colA colB = false ∧ heightInHash colA colB = true ∧
    forkPoint colA colB = 5 ∧
    lastSharedAncestor colWin weightsConst colB colA.length (forkId colWin weightsConst colA colA.length) = 10 ∧
    (6, 2006) ∉ announced colB 10 ∧ (9, 2009) ∉ announced colB 10 := by
  decide +kernel

/-! ## 2. the announcement -/

/-- `process_incoming_blockchain_request` announces every block of the peer above the ancestor it computed; so if
    the ancestor is not later than the fork point, every peer block above the fork point is announced -/
theorem announce_complete (a b : List Nat) (anc : Nat) (h : anc ≤ forkPoint a b) :
    ∀ id hB, forkPoint a b < id → hashAt b id = some hB → (id, hB) ∈ announced b anc := by
  intro id hB hid hh
  exact mem_announced hh (by omega)

/-- nothing else is announced: only longest-chain blocks of the peer, none below the ancestor -/
theorem announce_sound (b : List Nat) (anc id h : Nat) (hm : (id, h) ∈ announced b anc) :
    hashAt b id = some h ∧ anc ≤ id := announced_sound hm

/-- for hash chains (agreeing at an id ⇒ agreeing below it) every block the requester lacks is announced -/
theorem needed_announced (a b : List Nat) (anc : Nat) (h : anc ≤ forkPoint a b) (hp : prefixClosed a b = true) :
    ∀ id hB, hashAt b id = some hB → hashAt a id ≠ some hB → (id, hB) ∈ announced b anc := by
  intro id hB hh hne
  apply announce_complete a b anc h id hB _ hh
  rcases Nat.lt_or_ge (forkPoint a b) id with hlt | hge
  · exact hlt
  · exfalso
    have hid := hashAt_some_bounds hh
    have hpos : 0 < forkPoint a b := by omega
    have hag := forkPoint_agree a b hpos
    have hagid : agreeAt a b id = true := by
      rcases Nat.lt_or_ge id (forkPoint a b) with h1 | h1
      · exact prefixClosed_spec hp hag hid.1 h1
      · have : id = forkPoint a b := by omega
        rw [this]; exact hag
    obtain ⟨h', ha', hb'⟩ := agreeAt_iff.1 hagid
    rw [hh] at hb'
    have : h' = hB := by simpa using hb'.symm
    subst this
    exact hne ha'

/-- **Request/response completeness** (estimate + announcement composed): under the no-collision hypothesis the
    peer's answer to the requester's `(latest id, fork id)` announces every block of the peer's chain that the
    requester does not already hold at that height — no needed block is skipped. -/
theorem request_complete (win : Nat → Nat → Nat) (ws a b : List Nat)
    (hc : noWindowCollision win ws a b = true) (hh : heightInHash a b = true) (hp : prefixClosed a b = true) :
    ∀ id hB, hashAt b id = some hB → hashAt a id ≠ some hB →
      (id, hB) ∈ announced b (lastSharedAncestor win ws b a.length (forkId win ws a a.length)) :=
  needed_announced a b _ (ancestor_sound win ws a b hc hh) hp

example : prefixClosed exA exB = true := by decide +kernel

/-! ## 3. delivery of the fetched blocks -/

/-- **Delivery-order freedom (partial).** Let `blk 0 … blk (n-1)` be the peer's blocks above the fork point and
    `sts k` the requester's chain state after the first `k` of them were delivered in order (`sts 0` = its state
    when the peers met; forked or not). If `Chain.addBlock` behaves as a ladder on them (`Ladder`: block `k` is
    taken in at `sts k` — onto the longest chain or as a side block —, a block further up is answered "retry" by
    the rule of blockchain.rs:201-250 and leaves the state alone), then for EVERY permutation `σ` of the deliveries
    (`ConsensusEvent::BlockFetched` events, with `add_blocks_from_mempool` re-sorting and re-trying the queue each
    time) the node ends in exactly the state of the in-order delivery, with an empty queue; in particular its tip is
    the tip the in-order delivery reaches.

    Missing for the full statement when the requester is FORKED: (i) that the ladder conditions hold for every
    all-valid suffix (here: a hypothesis, discharged for concrete chains by `ladder_of_checks` + kernel evaluation,
    and compared with the real `ConsensusThread` on every delivery of the correspondence run; for a requester whose
    chain is a prefix of the peer's it is a theorem: `delivery_order_free_linear`); (ii) that the in-order delivery of
    a chain that wins fork choice ends on its tip (C05 adoption through unwind/wind — `C05.longest_if` covers the
    decision only); (iii) the retry rule itself is dead code in the pinned tree (see the witnesses below). -/
theorem delivery_order_free_partial (fl : Flags) (n : Nat) (sts : Nat → State) (blk : Nat → ABlock)
    (L : Ladder fl n sts blk) (σ : List Nat) (hσ : σ.Perm (List.range n)) :
    deliverAll fl { st := sts 0 } (σ.map blk) = { st := sts n, queue := [], dead := false } ∧
    tipOf (deliverAll fl { st := sts 0 } (σ.map blk)) = latest (sts n) := by
  have h := deliverAll_perm L σ hσ
  exact ⟨h, by rw [h]; rfl⟩

/-! ### non-vacuity: two concrete ladders (retry rule on) -/
def g0 : ABlock := plain 1 0 1 10
/-- requester holds [g0, 2]; the peer's suffix is 3 ← 4 ← 5 ← 6 (linear extension) -/
def exPrefix : List ABlock := chainFrom 0 1 [(1, 10), (2, 10)]
def exSuffix : List ABlock := chainFrom 2 3 [(3, 10), (4, 10), (5, 10), (6, 10)]
def exStart : State := (deliverAll {} { st := { gp := 100, loadingDone := true } } exPrefix).st
def exBlk (i : Nat) : ABlock := exSuffix.getD i g0
def exSts (k : Nat) : State := (deliverAll {} { st := exStart } (exSuffix.take k)).st

theorem ex_ladder : Ladder {} 4 exSts exBlk := ladder_of_checks _ _ _ _ (by decide +kernel)

/-- all 24 delivery orders of the four blocks end on the peer's tip (block 6 at height 6) -/
example (σ : List Nat) (hσ : σ.Perm (List.range 4)) :
    tipOf (deliverAll {} { st := exStart } (σ.map exBlk)) = some (6, 6) := by
  have h := (delivery_order_free_partial {} 4 exSts exBlk ex_ladder σ hσ).2
  have e : exSts 0 = exStart := by decide +kernel
  rw [e] at h
  rw [h]
  decide +kernel

/-- forked requester [g0, 2, 13, 14]; peer's chain [g0, 2, 3, 4, 5] is longer and heavier: the ladder holds too
    (3 and 4 are side blocks, 5 triggers the reorganisation) and every order ends on block 5 -/
def fkStart : State :=
  (deliverAll {} { st := { gp := 100, loadingDone := true } } (exPrefix ++ chainFrom 2 3 [(13, 10), (14, 10)])).st
def fkSuffix : List ABlock := chainFrom 2 3 [(3, 12), (4, 12), (5, 12)]
def fkBlk (i : Nat) : ABlock := fkSuffix.getD i g0
def fkSts (k : Nat) : State := (deliverAll {} { st := fkStart } (fkSuffix.take k)).st

theorem fk_ladder : Ladder {} 3 fkSts fkBlk := ladder_of_checks _ _ _ _ (by decide +kernel)

example (σ : List Nat) (hσ : σ.Perm (List.range 3)) :
    tipOf (deliverAll {} { st := fkStart } (σ.map fkBlk)) = some (5, 5) := by
  have h := (delivery_order_free_partial {} 3 fkSts fkBlk fk_ladder σ hσ).2
  have e : fkSts 0 = fkStart := by decide +kernel
  rw [e] at h
  rw [h]
  decide +kernel

/-! ### the linear case, for every length -/

/-- **Delivery-order freedom, requester on a prefix of the peer's chain (full, any length below genesis_period).**
    `c` = the peer's chain from genesis: linear (`Linked`), ids 1,2,…, distinct non-zero hashes, every block valid,
    ticket-carrying and value-free (`Lin`); the requester holds its first `m0 ≥ 1` blocks (its state is the closed
    form `linSt`, which is what the model's own in-order delivery produces — example below). With the retry rule
    on, for EVERY flag vector `fl` — the pinned flags, the tree carrying the fixes F1 = `txVerdict`, F3 =
    `ringDeleteKeepsNone`, and the trees with the repaired wind/unwind loop (`windFailureRestores`) and the repaired
    ticket rule (`gtEveryBlock`), `Flags.fixed` included: every adoption here is a tip extension with an empty old
    chain and a one-block candidate, on which the repaired loop and the every-block ticket rule coincide with the
    pinned ones (`validate_pre`) —, for EVERY permutation `σ` of the deliveries of the remaining blocks the node ends
    with exactly the peer's chain adopted, nothing queued, and the peer's tip. No hypothesis on `addBlock` is left:
    adoption of each next block (`addBlock_lin`: ring, fork choice, ticket window, wind, supply check — all
    evaluated symbolically) and the retry answers are proved in Lemmas/LinearChain.lean. -/
theorem delivery_order_free_linear (fl : Flags)
    (gp : Nat) (c : List ABlock) (m0 : Nat) (d : ABlock) (L : Lin gp c) (hl : Linked c)
    (hm1 : 1 ≤ m0) (hm : m0 ≤ c.length) (σ : List Nat) (hσ : σ.Perm (List.range (c.length - m0))) :
    deliverAll fl { st := linSt gp true (c.take m0) } (σ.map (linBlk c m0 d)) =
      { st := linSt gp true c, queue := [], dead := false } ∧
    tipOf (deliverAll fl { st := linSt gp true (c.take m0) } (σ.map (linBlk c m0 d))) =
      c.getLast?.map (fun b => (b.id, b.hash)) := by
  have h := deliverAll_perm (ladder_lin fl gp c m0 d L hl hm1 hm) σ hσ
  have e0 : linSts gp c m0 0 = linSt gp true (c.take m0) := rfl
  have en : linSts gp c m0 (c.length - m0) = linSt gp true c := by
    unfold linSts
    rw [show m0 + (c.length - m0) = c.length by omega, List.take_length]
  rw [e0, en] at h
  refine ⟨h, ?_⟩
  rw [h]
  have hne : c ≠ [] := by intro he; subst he; simp at hm; omega
  obtain ⟨bs, last, rfl⟩ : ∃ bs last, c = bs ++ [last] := ⟨c.dropLast, c.getLast hne, (List.dropLast_concat_getLast hne).symm⟩
  simp only [tipOf, latest_lin, List.getLast?_append, List.getLast?_singleton, Option.map_some, Option.some_or]

/-- the theorem instantiated at the flag sets of the trees the suite is run on: pinned (all false), the tree with the
    transaction verdict propagated and `RingItem::delete_block` repaired, the tree measured now (loop and ticket rule
    repaired as well), and the fully repaired flag vector -/
example (gp : Nat) (c : List ABlock) (m0 : Nat) (d : ABlock) (L : Lin gp c) (hl : Linked c) (hm1 : 1 ≤ m0)
    (hm : m0 ≤ c.length) (σ : List Nat) (hσ : σ.Perm (List.range (c.length - m0))) :
    tipOf (deliverAll {} { st := linSt gp true (c.take m0) } (σ.map (linBlk c m0 d))) = c.getLast?.map (fun b => (b.id, b.hash)) ∧
    tipOf (deliverAll { ringDeleteKeepsNone := true, txVerdict := true } { st := linSt gp true (c.take m0) } (σ.map (linBlk c m0 d))) =
      c.getLast?.map (fun b => (b.id, b.hash)) ∧
    tipOf (deliverAll { ringDeleteKeepsNone := true, windFailureRestores := true, txVerdict := true, gtEveryBlock := true }
        { st := linSt gp true (c.take m0) } (σ.map (linBlk c m0 d))) = c.getLast?.map (fun b => (b.id, b.hash)) ∧
    tipOf (deliverAll Flags.fixed { st := linSt gp true (c.take m0) } (σ.map (linBlk c m0 d))) =
      c.getLast?.map (fun b => (b.id, b.hash)) :=
  ⟨(delivery_order_free_linear {} gp c m0 d L hl hm1 hm σ hσ).2,
   (delivery_order_free_linear { ringDeleteKeepsNone := true, txVerdict := true } gp c m0 d L hl hm1 hm σ hσ).2,
   (delivery_order_free_linear { ringDeleteKeepsNone := true, windFailureRestores := true, txVerdict := true, gtEveryBlock := true }
      gp c m0 d L hl hm1 hm σ hσ).2,
   (delivery_order_free_linear Flags.fixed gp c m0 d L hl hm1 hm σ hσ).2⟩

/-- non-vacuity: a six-block chain meets `Lin`/`Linked`, and the closed form IS the state the model's own
    `addBlock` reaches by in-order delivery from the empty node -/
example : Lin 100 (exPrefix ++ exSuffix) ∧ Linked (exPrefix ++ exSuffix) ∧
    (deliverAll {} { st := { gp := 100, loadingDone := true } } (exPrefix ++ exSuffix)).st =
      linSt 100 true (exPrefix ++ exSuffix) := by
  refine ⟨⟨by decide, by decide, by decide, by decide, by decide, by decide⟩, ?_, by decide +kernel⟩
  intro k hk
  match k, hk with
  | 0, _ => rfl
  | 1, _ => rfl
  | 2, _ => rfl
  | 3, _ => rfl
  | 4, _ => rfl
  | k + 5, h =>
    have hlen : (exPrefix ++ exSuffix).length = 6 := by decide
    rw [hlen] at h
    omega

/-! ### witnesses of the pinned behaviour (schedules reproduced on the real nodes, see known_findings.json) -/

/-- **Retry rule off** (`initial_loading_completed = false`, the only value the pinned tree ever writes): requester
    [g0], peer [g0, 2, 3]. Block 3 is fetched before block 2: it is stored as a parent-less side block, block 2 is
    then adopted, and nothing ever re-examines block 3 — the node stays at height 2. With the rule on it ends on 3. -/
theorem delivery_order_witness :
    let start (ld : Bool) : NodeSt := deliverAll {} { st := { gp := 100, loadingDone := ld } } [g0]
    let b2 := plain 2 1 2 10
    let b3 := plain 3 2 3 10
    tipOf (deliverAll {} (start false) [b3, b2]) = some (2, 2) ∧
    tipOf (deliverAll {} (start false) [b2, b3]) = some (3, 3) ∧
    tipOf (deliverAll {} (start true) [b3, b2]) = some (3, 3) := by
  decide +kernel

/-- **Empty node**: the very first block is accepted whatever its parent (`blockring.is_empty()`), also with the
    retry rule on. Given block 2 first, then 3, then the genesis block, the node ends with NO tip at all. -/
theorem empty_node_witness :
    let b2 := plain 2 1 2 10
    let b3 := plain 3 2 3 10
    tipOf (deliverAll {} { st := { gp := 100, loadingDone := true } } [b2, b3, g0]) = some (0, 0) ∧
    tipOf (deliverAll {} { st := { gp := 100, loadingDone := true } } [g0, b2, b3]) = some (3, 3) := by
  decide +kernel

end Saito.C15
