import Saito.Lemmas.MerkleExact
/-!
# C18 — a lite block is a faithful projection of its full block

Model: `Saito/Model/Merkle.lean` (`MerkleTree::generate`, `Block::generate_merkle_root`, `Block::generate_lite_block`,
the receiver's `generate_hash_for_signature`). Digests are an arbitrary type `α`, the hash of a pair an arbitrary
function `H` — no collision-freeness is used anywhere. `keep` is an arbitrary predicate on transactions, so the
statements cover every subset pattern; `keep := relevant keys` is the key-list instance.

* `root_recomputable*`, `lite_commitment_fixed`  — the property at full strength, for the repaired flags
* `*_witness`                                    — with one flag pinned, a concrete block violates it
* `root_partial`, `root_partial_exact`, `wire_partial`, `wire_partial_exact`
                                                 — exactly which inputs still work on the pinned tree
* `keeps_relevant`, `kept_exactly`, `lite_covers`, `placeholder_counts`, `header_projection`, … hold for all flags
-/
namespace Saito.C18
open Saito.Merkle
variable {α : Type}

/-! ## the commitment is recomputable (repaired flags) -/

/-- For every transaction list and every keep pattern the root recomputed from the lite list equals the root of the
    full list — for any combiner `H`, provided placeholders are treated as subtrees and only sibling pairs are merged. -/
theorem root_recomputable (H : α → α → α) (fl : Flags) (h1 : fl.spvSubtreeAsSingleNode = true)
    (h2 : fl.spvMergeSiblingsOnly = true) (keep : Tx α → Bool) (txs : List (Tx α)) :
    merkleRoot H fl (liteEntries H fl keep txs) = merkleRoot H fl (fullEntries txs) := by
  unfold merkleRoot liteEntries
  have h := fixed_level H fl h1 h2 (prune fl keep txs) (prune_fresh fl keep txs)
  rw [rootW_congr H _ _ h.2 h.1, leaves_prune]

/-- … and it still is after serialize → deserialize → generate when the placeholder's hash survives the wire -/
theorem root_recomputable_wire (H : α → α → α) (fl : Flags) (h1 : fl.spvSubtreeAsSingleNode = true)
    (h2 : fl.spvMergeSiblingsOnly = true) (h3 : fl.spvPlaceholderCarriesHash = true)
    (keep : Tx α → Bool) (txs : List (Tx α)) :
    merkleRoot H fl (wireEntries (liteEntries H fl keep txs)) = merkleRoot H fl (fullEntries txs) := by
  have hid : wireEntries (liteEntries H fl keep txs) = liteEntries H fl keep txs :=
    wireEntries_id _ (mergeLoop_sigIsHash H fl h3 _ (prune_sigIsHash fl h3 keep txs))
  rw [hid, root_recomputable H fl h1 h2]

/-- key-list instance at `Flags.fixed` -/
theorem root_recomputable_keys (H : α → α → α) (keys : List Nat) (txs : List (Tx α)) :
    merkleRoot H .fixed (liteEntries H .fixed (relevant keys) txs) = merkleRoot H .fixed (fullEntries txs) ∧
    merkleRoot H .fixed (wireEntries (liteEntries H .fixed (relevant keys) txs)) =
      merkleRoot H .fixed (fullEntries txs) :=
  ⟨root_recomputable H .fixed rfl rfl _ txs, root_recomputable_wire H .fixed rfl rfl rfl _ txs⟩

/-! ## witnesses: each defect alone breaks the property -/

/-- two adjacent omitted transactions with distinct hashes: the merged placeholder `{2, H(L0,L1)}` is expanded into two
    leaves `H(L0,L1), H(L0,L1)` (merkle.rs:75-83), the recomputed root is `N(N(L0,L1),N(L0,L1)) ≠ N(L0,L1)` -/
theorem single_witness :
    merkleRoot .node ⟨false, true, true⟩ (liteEntries .node ⟨false, true, true⟩ (relevant [1]) (stdTxs [false, false]))
      = some (.node (.node (.leaf 0) (.leaf 1)) (.node (.leaf 0) (.leaf 1))) ∧
    merkleRoot .node ⟨false, true, true⟩ (fullEntries (stdTxs [false, false])) = some (.node (.leaf 0) (.leaf 1)) := by
  decide

/-- omitted, omitted, kept, omitted, omitted: the pinned loop merges (0,1), skips the kept transaction and merges
    (3,4), which are not siblings in the full tree — wrong root even when placeholders are treated as subtrees -/
theorem siblings_witness :
    (liteEntries .node ⟨true, false, true⟩ (relevant [1]) (stdTxs [false, false, true, false, false])).map Entry.covers
      = [[0, 1], [2], [3, 4]] ∧
    merkleRoot .node ⟨true, false, true⟩
        (liteEntries .node ⟨true, false, true⟩ (relevant [1]) (stdTxs [false, false, true, false, false]))
      ≠ merkleRoot .node ⟨true, false, true⟩ (fullEntries (stdTxs [false, false, true, false, false])) := by
  decide

/-- one omitted transaction: after the wire its leaf is `signature[0..32]`, not its hash -/
theorem carries_witness :
    merkleRoot .node ⟨true, true, false⟩
        (wireEntries (liteEntries .node ⟨true, true, false⟩ (relevant [1]) (stdTxs [true, false])))
      = some (.node (.leaf 0) (.sig 1)) ∧
    merkleRoot .node ⟨true, true, false⟩ (fullEntries (stdTxs [true, false])) = some (.node (.leaf 0) (.leaf 1)) := by
  decide

/-- the pinned tree: four omitted transactions give the lite list `[P2(0,1), P1(2), P1(3)]` and a wrong root,
    before and after the wire -/
theorem pinned_witness :
    (liteEntries .node .pinned (relevant [1]) (stdTxs [false, false, false, false])).map Entry.width = [2, 1, 1] ∧
    merkleRoot .node .pinned (liteEntries .node .pinned (relevant [1]) (stdTxs [false, false, false, false]))
      ≠ merkleRoot .node .pinned (fullEntries (stdTxs [false, false, false, false])) ∧
    merkleRoot .node .pinned (wireEntries (liteEntries .node .pinned (relevant [1]) (stdTxs [false, true])))
      ≠ merkleRoot .node .pinned (fullEntries (stdTxs [false, true])) := by
  decide

/-! ## what holds on the pinned tree -/

/-- On every tree (any flags, any `H`): if no sibling pair `(2j, 2j+1)` is omitted as a whole, nothing is merged and the
    root recomputed from the lite list (before the wire) is the root of the full list. -/
theorem root_partial (H : α → α → α) (fl : Flags) (keep : Tx α → Bool) (txs : List (Tx α))
    (h : noSiblingPairOmitted (txs.map keep) = true) :
    liteEntries H fl keep txs = prune fl keep txs ∧
    merkleRoot H fl (liteEntries H fl keep txs) = merkleRoot H fl (fullEntries txs) := by
  have e : liteEntries H fl keep txs = prune fl keep txs :=
    mergeLoop_id_of_noPair H fl _ (by rw [noPair_prune]; exact h)
  exact ⟨e, by rw [e]; unfold merkleRoot; rw [leaves_prune]⟩

/-- The class is exact: with the pinned expansion of merged placeholders (merkle.rs:75-83), for free hash terms, the
    recomputed root equals the full root **iff** no sibling pair is omitted as a whole — whatever the transactions'
    hashes are (even if they are all equal, as terms). Holds for the pinned and for the repaired merge loop. -/
theorem root_partial_exact (fl : Flags) (hf : fl.spvSubtreeAsSingleNode = false) (keep : Tx HTerm → Bool)
    (txs : List (Tx HTerm)) :
    merkleRoot .node fl (liteEntries .node fl keep txs) = merkleRoot .node fl (fullEntries txs) ↔
      noSiblingPairOmitted (txs.map keep) = true := by
  constructor
  · intro heq
    cases hn : noSiblingPairOmitted (txs.map keep) with
    | true => rfl
    | false =>
      exfalso
      have hnp : noPairMergeable (prune fl keep txs) = false := by rw [noPair_prune]; exact hn
      have hlt := mergeLoop_shorter_of_pair HTerm.node fl _ hnp
      have hgrow := (merge_grows fl hf (prune fl keep txs) (prune_width fl keep txs)).2 hlt
      rw [leaves_prune] at hgrow
      have hne : leavesOf fl (fullEntries txs) ≠ [] := by
        rw [leaves_full]
        cases txs with
        | nil => simp [noSiblingPairOmitted] at hn
        | cons t ts => simp
      obtain ⟨a, w, _, hr⟩ := rootW_light HTerm.node _ (light_leavesOf fl hf (fullEntries txs)) hne
      unfold merkleRoot liteEntries at heq
      rw [hr] at heq
      have s1 := root_size _ (light_leavesOf fl hf _) a heq
      have s2 := root_size _ (light_leavesOf fl hf _) a hr
      omega
  · intro h
    exact (root_partial HTerm.node fl keep txs h).2

/-- On every tree: a lite block without placeholders (every transaction touches the key list) survives the wire. -/
theorem wire_partial (H : α → α → α) (fl : Flags) (keep : Tx α → Bool) (txs : List (Tx α))
    (h : ∀ t ∈ txs, keep t = true) :
    merkleRoot H fl (wireEntries (liteEntries H fl keep txs)) = merkleRoot H fl (fullEntries txs) := by
  have hp : prune fl keep txs = fullEntries txs := by
    simp only [prune, fullEntries]
    apply List.map_congr_left
    intro t ht
    simp [h t ht]
  have hn : noSiblingPairOmitted (txs.map keep) = true :=
    noSib_of_all _ (by simpa using h)
  rw [(root_partial H fl keep txs hn).1, hp, wireEntries_full]

/-- The class is exact on the pinned tree: for free hash terms whose signature prefixes are not hashes, the root
    recomputed after the wire equals the full root **iff** nothing was omitted. -/
theorem wire_partial_exact (fl : Flags) (hf : fl.spvSubtreeAsSingleNode = false)
    (hc : fl.spvPlaceholderCarriesHash = false) (keep : Tx HTerm → Bool) (txs : List (Tx HTerm))
    (hh : ∀ t ∈ txs, t.hash.hasSig = false) (hs : ∀ t ∈ txs, t.sigPre.hasSig = true) :
    merkleRoot .node fl (wireEntries (liteEntries .node fl keep txs)) = merkleRoot .node fl (fullEntries txs) ↔
      ∀ t ∈ txs, keep t = true := by
  constructor
  · intro heq
    apply Classical.byContradiction
    intro hno
    have hany : (prune fl keep txs).any Entry.isSpv = true := by
      rw [prune_anySpv]
      simp only [List.any_eq_true, Bool.not_eq_true']
      simp only [Classical.not_forall, Bool.not_eq_true] at hno
      obtain ⟨t, ht, hk⟩ := hno
      exact ⟨t, ht, hk⟩
    have hspv : (liteEntries .node fl keep txs).any Entry.isSpv = true := by
      unfold liteEntries; rw [mergeLoop_anySpv]; exact hany
    have hinv : sigInv (liteEntries .node fl keep txs) :=
      mergeLoop_sigInv fl hc _ (prune_sigInv fl hc keep txs hs)
    have hw := anySig_wire fl hf _ hinv hspv
    have hfull := anySig_full fl txs hh
    have hne : leavesOf fl (fullEntries txs) ≠ [] := by
      rw [leaves_full]
      cases txs with
      | nil => simp at hno
      | cons t ts => simp
    obtain ⟨a, w, _, hr⟩ := rootW_light HTerm.node _ (light_leavesOf fl hf (fullEntries txs)) hne
    unfold merkleRoot at heq
    rw [hr] at heq
    have s1 := root_hasSig _ (light_leavesOf fl hf _) a heq
    have s2 := root_hasSig _ (light_leavesOf fl hf _) a hr
    rw [hw] at s1; rw [hfull] at s2; rw [s1] at s2; cases s2
  · exact wire_partial HTerm.node fl keep txs

/-- with the pinned expansion the tree of a non-empty transaction list always has a root (the loop ends with one node) -/
theorem root_defined (H : α → α → α) (fl : Flags) (hf : fl.spvSubtreeAsSingleNode = false) (es : List (Entry α))
    (hne : leavesOf fl es ≠ []) : (merkleRoot H fl es).isSome = true := by
  obtain ⟨a, w, _, hr⟩ := rootW_light H _ (light_leavesOf fl hf es) hne
  simp [merkleRoot, hr]

/-! ## the relevant transactions are carried in full (all flags) -/

/-- the transactions carried in full are exactly the kept ones, in their original order -/
theorem kept_exactly (H : α → α → α) (fl : Flags) (keep : Tx α → Bool) (txs : List (Tx α)) :
    (liteEntries H fl keep txs).filterMap Entry.full? = txs.filter keep := by
  unfold liteEntries; rw [mergeLoop_full?, prune_full?]

/-- every transaction that pays to or spends from a listed key (or is a golden ticket) is in the lite block, unchanged -/
theorem keeps_relevant (H : α → α → α) (fl : Flags) (keys : List Nat) (txs : List (Tx α)) (t : Tx α)
    (ht : t ∈ txs) (hr : relevant keys t = true) :
    Entry.full t ∈ liteEntries H fl (relevant keys) txs := by
  have hm : t ∈ (liteEntries H fl (relevant keys) txs).filterMap Entry.full? := by
    rw [kept_exactly]; exact List.mem_filter.mpr ⟨ht, hr⟩
  obtain ⟨e, he, hfe⟩ := List.mem_filterMap.mp hm
  cases e with
  | full u => simp [Entry.full?] at hfe; subst hfe; exact he
  | spv r h s c => simp [Entry.full?] at hfe

/-- the lite list partitions the original sequence in order: concatenating what each entry stands for gives back
    the transaction indices `0 … n-1` of the full block (so every carried transaction sits at its original offset) -/
theorem lite_covers (H : α → α → α) (fl : Flags) (keep : Tx α → Bool) (txs : List (Tx α)) :
    (liteEntries H fl keep txs).flatMap Entry.covers = txs.map Tx.idx := by
  unfold liteEntries; rw [mergeLoop_covers, prune_covers]

/-- a placeholder's `txs_replacements` is the number of transactions it stands for -/
theorem placeholder_counts (H : α → α → α) (fl : Flags) (keep : Tx α → Bool) (txs : List (Tx α)) :
    ∀ e ∈ liteEntries H fl keep txs, e.width = e.covers.length :=
  mergeLoop_counts H fl _ (prune_counts fl keep txs)

/-! ## header, hash, signature (all flags) -/

/-- the full block's header root is the root of its transaction tree (what `Block::generate` establishes) -/
def Consistent (H : α → α → α) (fl : Flags) (b : Block α) : Prop :=
  b.txs ≠ [] → b.hdr.merkleRoot = merkleRoot H fl (fullEntries b.txs)

/-- id, timestamp, previous hash, creator, signature, every numeric field and the block hash are copied -/
theorem header_projection (H : α → α → α) (fl : Flags) (keys : List Nat) (b : Block α) :
    let lb := generateLite H fl keys b
    lb.hdr.id = b.hdr.id ∧ lb.hdr.timestamp = b.hdr.timestamp ∧ lb.hdr.previousBlockHash = b.hdr.previousBlockHash ∧
    lb.hdr.creator = b.hdr.creator ∧ lb.hdr.signature = b.hdr.signature ∧ lb.hdr.numeric = b.hdr.numeric ∧
    lb.hash = b.hash :=
  ⟨rfl, rfl, rfl, rfl, rfl, rfl, rfl⟩

/-- the merkle root field is *recomputed* from the full transaction list (block.rs:2623); it equals the full block's
    field when that block is consistent, hence the whole header is equal -/
theorem header_equal (H : α → α → α) (fl : Flags) (keys : List Nat) (b : Block α) (hc : Consistent H fl b) :
    (generateLite H fl keys b).hdr = b.hdr := by
  unfold generateLite genRootSpv
  cases htx : b.txs with
  | nil => simp [fullEntries]
  | cons t ts =>
    have := hc (by rw [htx]; simp)
    rw [htx] at this
    simp only [fullEntries, List.map_cons] at this ⊢
    rw [← this]

/-- wire round trip: header unchanged, and the hash the receiver recomputes from the header is the full block's hash -/
theorem wire_hash_intact (H : α → α → α) (fl : Flags) (keys : List Nat) (hashOf : Header α → α) (b : Block α)
    (hc : Consistent H fl b) (hh : b.hash = hashOf b.hdr) :
    (wireLite hashOf (generateLite H fl keys b)).hdr = b.hdr ∧
    (wireLite hashOf (generateLite H fl keys b)).hash = b.hash := by
  have := header_equal H fl keys b hc
  simp only [wireLite, this, hh, and_self]

/-- The property for the repaired flags, on blocks: the lite block of a consistent non-empty block has the full block's
    header and hash, and the root recomputed from its entries — before and after the wire — is the header's root. -/
theorem lite_commitment_fixed (H : α → α → α) (keys : List Nat) (hashOf : Header α → α) (b : Block α)
    (hc : Consistent H .fixed b) (hh : b.hash = hashOf b.hdr) (hne : b.txs ≠ []) :
    let lb := generateLite H .fixed keys b
    let wb := wireLite hashOf lb
    lb.hdr = b.hdr ∧ lb.hash = b.hash ∧ wb.hdr = b.hdr ∧ wb.hash = b.hash ∧
    merkleRoot H .fixed lb.entries = lb.hdr.merkleRoot ∧ merkleRoot H .fixed wb.entries = wb.hdr.merkleRoot := by
  have he := header_equal H .fixed keys b hc
  have hw := wire_hash_intact H .fixed keys hashOf b hc hh
  refine ⟨he, rfl, hw.1, hw.2, ?_, ?_⟩
  · rw [he, hc hne]
    exact root_recomputable H .fixed rfl rfl _ _
  · rw [hw.1, hc hne]
    exact root_recomputable_wire H .fixed rfl rfl rfl _ _

/-! ## non-vacuity -/

/-- the hypotheses of `root_partial` are met by a block with omissions: kept, omitted, omitted, kept -/
example : noSiblingPairOmitted ((stdTxs [true, false, false, true]).map (relevant [1])) = true ∧
    ((stdTxs [true, false, false, true]).map (relevant [1])) = [true, false, false, true] := by decide

/-- `wire_partial_exact`'s hypotheses hold for the standard transactions -/
example : (∀ t ∈ stdTxs [true, false, true], t.hash.hasSig = false) ∧
    (∀ t ∈ stdTxs [true, false, true], t.sigPre.hasSig = true) := by decide

/-- repaired flags, eight transactions, five omitted: two placeholders merged, root recomputed -/
example :
    (liteEntries .node .fixed (relevant [1]) (stdTxs [false, false, true, false, false, false, false, true])).map Entry.covers
      = [[0, 1], [2], [3], [4, 5], [6], [7]] ∧
    merkleRoot .node .fixed (liteEntries .node .fixed (relevant [1]) (stdTxs [false, false, true, false, false, false, false, true]))
      = merkleRoot .node .fixed (fullEntries (stdTxs [false, false, true, false, false, false, false, true])) := by
  decide

/-- a consistent block in the sense of `lite_commitment_fixed` -/
example : Consistent HTerm.node .fixed
    { hdr := { id := 7, timestamp := 1, previousBlockHash := .leaf 99, creator := 0,
               merkleRoot := some (.node (.leaf 0) (.leaf 1)), signature := 5, numeric := [1, 2, 3] },
      hash := .leaf 100, txs := stdTxs [true, false] } := by
  intro _; decide

/-- relevance: pays to a listed key, spends from a listed key, golden ticket, none of these -/
example : relevant [3, 4] (stdTx 0 [9] [4]) = true ∧ relevant [3, 4] (stdTx 1 [3] [9]) = true ∧
    relevant [] (stdTx 2 [9] [9] true) = true ∧ relevant [3, 4] (stdTx 3 [9] [8]) = false := by decide

end Saito.C18
