import Saito.Lemmas.Consensus
/-!
# C07 — every block the node produces is one every node accepts

Model: `Saito/Model/Consensus.lean` (`gcv` = `generate_consensus_values`, `create` = `Block::create`,
`bundle` = `Mempool::bundle_block`, `validate` = `Block::validate`).

* `gcv_frame` — the frame lemma: on the finished block `generate_consensus_values` returns what it returned while
  the block was being created, on every field `validate` compares; only the fee-transaction counters move.
* `C07_full` / `C07_full_other_node` — with the two ATR defects repaired (flags `atrCapParent`, `rebHashFinal`)
  every block `bundle_block` returns passes `validate` on the producer and on any node with the same chain context.
* `C07_partial` — for ANY flags (in particular the pinned tree) the same holds whenever no rebroadcast of the block
  carries a payout (`NoAtrPayout`: window not wrapped yet, or payout multiplier 1, …).
* witnesses — the four ways the pinned tree's producer emits a block its own validator refuses:
  cap branch reads `self.treasury` (0 while creating), rebroadcast hash taken before the cap rewrites the outputs,
  privileged transaction types admitted to the pool, stale routing-work counter.
-/
namespace Saito.C07
open Saito.Consensus

/-! ## hypotheses, stated outright -/

/-- Pool well-formedness: what `Block::create` drains holds no Issuance / ATR / GoldenTicket / BlockStake typed
    transaction (the producer adds its own single staking transaction), and — once the per-transaction verdict
    gates validity — every pooled transaction passes `Transaction::validate` on the current ledger (C14's pool
    invariant). SPV-, Bound-typed and ordinary transactions are always allowed; Fee-typed ones are allowed on a
    tree without the fee-count rule (there only the last fee transaction is compared) and must be absent once
    `Block::validate` fixes the number of fee transactions (repair F7, flag `feeTxCount`). -/
structure PoolWF (fl : Flags) (pool : List Tx) : Prop where
  noPriv : ∀ t ∈ pool, t.typ ≠ .issuance ∧ t.typ ≠ .atr ∧ t.typ ≠ .goldenTicket ∧ t.typ ≠ .blockStake
  valid : fl.txVerdict = true → ∀ t ∈ pool, t.valid = true
  noFee : fl.feeTxCount = true → ∀ t ∈ pool, t.typ ≠ .fee

/-- The ticket handed to the producer is a golden-ticket transaction whose solution is valid for the tip. -/
def TicketWF (fl : Flags) (ctx : Ctx) (gt : Option Tx) : Prop :=
  ∀ t, gt = some t → t.typ = .goldenTicket ∧ ctx.gtOk t.ticket = true ∧ (fl.txVerdict = true → t.valid = true)

/-- Node-local producer state: the wallet's staking transaction is a valid BlockStake transaction, and the
    mempool's routing-work counter does not exceed the work the pooled transactions really carry. -/
structure LocalWF (loc : Local) (pool : List Tx) : Prop where
  stake : ∀ s, loc.stakeTx = some s → s.typ = .blockStake ∧ s.valid = true
  work : loc.workAvail ≤ (pool.map (·.work)).sum

/-- Two nodes hold the same chain: every chain-derived input of `generate_consensus_values` / `validate` agrees. -/
structure SameChain (a b : Ctx) : Prop where
  gp : a.gp = b.gp
  hb : a.hb = b.hb
  stake : a.stake = b.stake
  prev : a.prev = b.prev
  pp : a.pp = b.pp
  atr : a.atr = b.atr
  vau : a.vau = b.vau
  burnF : ∀ w x y z, a.burnF w x y z = b.burnF w x y z
  workF : ∀ w x y z, a.workF w x y z = b.workF w x y z
  cap15 : ∀ x, a.cap15 x = b.cap15 x
  cap05 : ∀ x, a.cap05 x = b.cap05 x
  miner : ∀ x, a.miner x = b.miner x
  router1 : ∀ x, a.router1 x = b.router1 x
  router2 : ∀ x, a.router2 x = b.router2 x
  gtOk : ∀ x, a.gtOk x = b.gtOk x
  gtCountOk : ∀ x, a.gtCountOk x = b.gtCountOk x

theorem SameChain.eq {a b : Ctx} (h : SameChain a b) : a = b := by
  obtain ⟨h1, h2, h3, h4, h5, h6, h7, h8, h9, h10, h11, h12, h13, h14, h15, h16⟩ := h
  cases a; cases b
  simp only at h1 h2 h3 h4 h5 h6 h7 h8 h9 h10 h11 h12 h13 h14 h15 h16
  have e8 := funext fun w => funext fun x => funext fun y => funext fun z => h8 w x y z
  have e9 := funext fun w => funext fun x => funext fun y => funext fun z => h9 w x y z
  have e10 := funext h10
  have e11 := funext h11
  have e12 := funext h12
  have e13 := funext h13
  have e14 := funext h14
  have e15 := funext h15
  have e16 := funext h16
  subst h1 h2 h3 h4 h5 h6 h7 e8 e9 e10 e11 e12 e13 e14 e15 e16
  rfl

/-! ## the frame lemma -/

/-- FRAME. `generate_consensus_values` on the finished block = the values computed while creating, except that the
    appended fee transaction is now counted (`ft_num`, `ft_index`). Holds when the cap reads the parent's treasury
    (repaired) or when there is no payout to cap. -/
theorem gcv_frame (fl : Flags) (ctx : Ctx) (pool : List Tx) (gt : Option Tx) (ts : Nat) (b : Block)
    (h : fl.atrCapParent = true ∨ NoAtrPayout ctx (prevId ctx + 1))
    (hb : create fl ctx pool gt ts = some b) :
    gcv fl ctx b.view = frameCV b := by
  unfold create at hb
  simp only at hb
  split at hb
  · injection hb with hb; subst hb; exact gcv_frame_mk fl ctx pool gt ts h
  · cases hb

/-- the frame lemma field by field: everything `validate` compares with the header -/
theorem gcv_frame_fields (fl : Flags) (ctx : Ctx) (pool : List Tx) (gt : Option Tx) (ts : Nat) (b : Block)
    (h : fl.atrCapParent = true ∨ NoAtrPayout ctx (prevId ctx + 1))
    (hb : create fl ctx pool gt ts = some b) :
    let cv := gcv fl ctx b.view
    cv.tf = b.tf ∧ cv.tfn = b.tfn ∧ cv.tfa = b.tfa ∧ cv.tfc = b.tfc ∧ cv.atf = b.atf ∧ cv.atfn = b.atfn ∧
    cv.atfa = b.atfa ∧ cv.tpr = b.tpr ∧ cv.tpm = b.tpm ∧ cv.tpt = b.tpt ∧ cv.tpg = b.tpg ∧ cv.tpa = b.tpa ∧
    cv.apr = b.apr ∧ cv.apm = b.apm ∧ cv.apt = b.apt ∧ cv.apg = b.apg ∧ cv.apa = b.apa ∧ cv.afpb = b.afpb ∧
    cv.fpb = b.fpb ∧ cv.anr = b.anr ∧ cv.bf = b.bf ∧ cv.diff = b.diff ∧
    b.treasury = prevTreasury ctx + cv.tpt - cv.tpa ∧ b.graveyard = prevGraveyard ctx + cv.tpg ∧
    cv.rebs = b.cv.rebs ∧ cv.feeTx = b.cv.feeTx := by
  intro cv
  have hfr : cv = frameCV b := gcv_frame fl ctx pool gt ts b h hb
  unfold create at hb
  simp only at hb
  split at hb
  · injection hb with hb; subst hb
    have hc := frameCV_core (mkBlock fl ctx pool gt ts)
    rw [hfr]
    simp only [hc]
    simp [mkBlock, gcv_tf]
  · cases hb

/-! ## a created block validates -/

/-- `Block::create` level: under the frame condition every created block passes `Block::validate`. The only thing
    asked of the rebroadcasts is the weakest possible: where the per-transaction verdict gates validity, every
    ATR-typed transaction of the created block passes it. -/
theorem validate_create_atr (fl : Flags) (ctx : Ctx) (pool : List Tx) (gt : Option Tx) (ts : Nat) (b : Block)
    (hF : FrameOK fl ctx)
    (hav : fl.txVerdict = true → ∀ t ∈ b.txs, t.typ = .atr → t.valid = true)
    (hs : Shape pool gt)
    (hv : fl.txVerdict = true → ∀ t ∈ gt.toList ++ pool, t.valid = true)
    (hst : ctx.stake ≠ 0 → stakeCount pool = 1)
    (hnf : fl.feeTxCount = true → ∀ t ∈ pool, t.typ ≠ .fee)
    (hgt : ∀ t, gt = some t → ctx.gtOk t.ticket = true)
    (hne : gt.toList ++ pool ≠ [])
    (hwork : ∀ p, ctx.prev = some p → ctx.workF p.bf ts p.ts ctx.hb ≤ (pool.map (·.work)).sum)
    (hb : create fl ctx pool gt ts = some b) :
    validate fl ctx b = true := by
  unfold create at hb
  simp only at hb
  split at hb
  case isFalse => cases hb
  case isTrue hd =>
  injection hb with hb; subst hb
  unfold validate
  simp only
  rw [gcv_frame_mk fl ctx pool gt ts hF.cap]
  have hhdr := header_ok fl ctx pool gt ts
  have hrs := rs_ok fl ctx pool gt ts hs
  have hrh := rebHash_ok fl ctx pool gt ts hs hF
  have hfee : feeCheck fl ctx (mkBlock fl ctx pool gt ts) (frameCV (mkBlock fl ctx pool gt ts)) = true := by
    unfold feeCheck; rw [feeCount_ok fl ctx pool gt ts hs hnf, feeCompare_ok fl ctx pool gt ts]; rfl
  have hprev := prev_ok fl ctx pool gt ts hs hgt hwork
  have hsw := sweep_ok_atr fl ctx pool gt ts hav hv hd
  have hc := frameCV_core (mkBlock fl ctx pool gt ts)
  have hsh := scan_shape pool gt hs
  have hit : (frameCV (mkBlock fl ctx pool gt ts)).itNum = 0 := by
    rw [hc.2.2.2.2.2.2.2.2.2.2.2.2.2.2.2.2.2.2.2.2.2.2.1]; exact hsh.1
  have hstn : (frameCV (mkBlock fl ctx pool gt ts)).stNum = stakeCount pool := by
    rw [hc.2.2.2.2.2.2.2.2.2.2.2.2.2.2.2.2.2.2.2.2.2.2.2.1]; exact hsh.2.1
  have hemp : (mkBlock fl ctx pool gt ts).txs.isEmpty = false := by
    rw [mk_txs]
    cases hA : gt.toList ++ pool with
    | nil => exact absurd hA hne
    | cons x xs => rfl
  have hstake : (!(ctx.stake != 0 && (frameCV (mkBlock fl ctx pool gt ts)).stNum != 1 && decide ((mkBlock fl ctx pool gt ts).id > 1))) = true := by
    rw [hstn]
    by_cases h0 : ctx.stake = 0
    · simp [h0]
    · simp [hst h0]
  rw [hhdr.1, hhdr.2.1, hhdr.2.2, hrs, hrh, hfee, hprev, hsw, hit, hemp, hstake]
  simp

/-- a block returned by `create` is `mkBlock` -/
theorem create_eq_mk (fl : Flags) (ctx : Ctx) (pool : List Tx) (gt : Option Tx) (ts : Nat) (b : Block)
    (hb : create fl ctx pool gt ts = some b) : b = mkBlock fl ctx pool gt ts := by
  unfold create at hb
  simp only at hb
  split at hb
  · injection hb with hb; exact hb.symm
  · cases hb

/-- the same with the rebroadcast input keeping its key by construction (`atrKeepsKey`, C13's repair) -/
theorem validate_create (fl : Flags) (ctx : Ctx) (pool : List Tx) (gt : Option Tx) (ts : Nat) (b : Block)
    (hF : FrameOK fl ctx)
    (hk : fl.txVerdict = true → fl.atrKeepsKey = true)
    (hs : Shape pool gt)
    (hv : fl.txVerdict = true → ∀ t ∈ gt.toList ++ pool, t.valid = true)
    (hst : ctx.stake ≠ 0 → stakeCount pool = 1)
    (hnf : fl.feeTxCount = true → ∀ t ∈ pool, t.typ ≠ .fee)
    (hgt : ∀ t, gt = some t → ctx.gtOk t.ticket = true)
    (hne : gt.toList ++ pool ≠ [])
    (hwork : ∀ p, ctx.prev = some p → ctx.workF p.bf ts p.ts ctx.hb ≤ (pool.map (·.work)).sum)
    (hb : create fl ctx pool gt ts = some b) :
    validate fl ctx b = true := by
  refine validate_create_atr fl ctx pool gt ts b hF ?_ hs hv hst hnf hgt hne hwork hb
  intro hx t ht _
  rw [create_eq_mk fl ctx pool gt ts b hb, mk_txs, List.mem_append] at ht
  rcases ht with ht | ht
  · exact hv hx t ht
  · exact all_valid_of fl (hk hx) _ t ht

/-- `Mempool::bundle_block` level, any flags satisfying the frame condition; rebroadcasts as in `validate_create_atr`. -/
theorem validate_bundle_atr (fl : Flags) (ctx : Ctx) (loc : Local) (pool : List Tx) (gt : Option Tx) (ts : Nat) (b : Block)
    (hF : FrameOK fl ctx)
    (hav : fl.txVerdict = true → ∀ t ∈ b.txs, t.typ = .atr → t.valid = true)
    (hp : PoolWF fl pool) (hg : TicketWF fl ctx gt) (hl : LocalWF loc pool)
    (hb : bundle fl ctx loc pool gt ts = some b) :
    validate fl ctx b = true := by
  unfold bundle at hb
  split at hb
  case isFalse => cases hb
  case isTrue hcan =>
  cases hs : loc.stakeTx with
  | none => rw [hs] at hb; cases hb
  | some s =>
    rw [hs] at hb
    simp only at hb
    have hsw := hl.stake s hs
    rw [hsw.2] at hb
    simp only [if_true] at hb
    -- what can_bundle_block established
    unfold canBundle at hcan
    cases hprev : ctx.prev with
    | none => rw [hprev] at hcan; cases hcan
    | some p =>
      rw [hprev] at hcan
      simp only [Bool.and_eq_true, Bool.not_eq_true', decide_eq_true_eq] at hcan
      obtain ⟨⟨⟨⟨hne, _⟩, _⟩, _⟩, hwk⟩ := hcan
      have hpool_ne : pool ≠ [] := by
        intro h; rw [h] at hne; simp at hne
      apply validate_create_atr fl ctx (pool ++ [s]) gt ts b hF hav
      · -- shape
        constructor
        · intro t ht
          rw [List.mem_append, List.mem_singleton] at ht
          rcases ht with ht | ht
          · have := hp.noPriv t ht; exact ⟨this.1, this.2.1, this.2.2.1⟩
          · subst ht; simp [hsw.1]
        · intro t ht; exact (hg t ht).1
      · -- validity
        intro hx t ht
        simp only [List.mem_append, Option.mem_toList, List.mem_singleton] at ht
        rcases ht with ht | ht | ht
        · exact (hg t ht).2.2 hx
        · exact hp.valid hx t ht
        · subst ht; exact hsw.2
      · -- exactly one staking transaction
        intro _
        unfold stakeCount
        rw [List.filter_append]
        have h0 : pool.filter (fun t => t.typ == .blockStake) = [] := by
          rw [List.filter_eq_nil_iff]; intro t ht; have := (hp.noPriv t ht).2.2.2; simpa using this
        simp [h0, hsw.1]
      · -- no fee-typed transaction once the fee-count rule applies
        intro hx t ht
        rw [List.mem_append, List.mem_singleton] at ht
        rcases ht with ht | ht
        · exact hp.noFee hx t ht
        · subst ht; rw [hsw.1]; decide
      · intro t ht; exact (hg t ht).2.1
      · intro h
        have : pool ++ [s] = [] := by
          have := List.append_eq_nil_iff.mp h; exact this.2
        simp at this
      · intro p' hp'
        rw [hprev] at hp'; injection hp' with hp'; subst hp'
        simp only [List.map_append, List.sum_append, List.map_cons, List.map_nil, List.sum_cons, List.sum_nil]
        have := hl.work
        omega
      · exact hb

/-- what `bundle_block` returns is the block `Block::create` assembles from the pool plus the staking transaction -/
theorem bundle_eq_mk (fl : Flags) (ctx : Ctx) (loc : Local) (pool : List Tx) (gt : Option Tx) (ts : Nat) (b : Block)
    (hl : LocalWF loc pool) (hb : bundle fl ctx loc pool gt ts = some b) :
    ∃ s, loc.stakeTx = some s ∧ s.typ = .blockStake ∧ b = mkBlock fl ctx (pool ++ [s]) gt ts := by
  unfold bundle at hb
  split at hb
  case isFalse => cases hb
  case isTrue =>
  cases hs : loc.stakeTx with
  | none => rw [hs] at hb; cases hb
  | some s =>
    rw [hs] at hb
    simp only at hb
    have hsw := hl.stake s hs
    rw [hsw.2] at hb
    simp only [if_true] at hb
    exact ⟨s, rfl, hsw.1, create_eq_mk fl ctx (pool ++ [s]) gt ts b hb⟩

/-- in a bundled block of a well-formed pool the ATR-typed transactions are exactly appended rebroadcasts -/
theorem atr_of_bundle_appended (fl : Flags) (ctx : Ctx) (loc : Local) (pool : List Tx) (gt : Option Tx) (ts : Nat) (b : Block)
    (hp : PoolWF fl pool) (hg : TicketWF fl ctx gt) (hl : LocalWF loc pool)
    (hb : bundle fl ctx loc pool gt ts = some b) :
    ∀ t ∈ b.txs, t.typ = .atr → t ∈ appended fl b.cv := by
  obtain ⟨s, _, hst, rfl⟩ := bundle_eq_mk fl ctx loc pool gt ts b hl hb
  intro t ht htyp
  rw [mk_txs, List.mem_append] at ht
  rcases ht with ht | ht
  · exfalso
    simp only [List.mem_append, Option.mem_toList, List.mem_singleton] at ht
    rcases ht with ht | ht | ht
    · rw [(hg t ht).1] at htyp; cases htyp
    · exact (hp.noPriv t ht).2.1 htyp
    · subst ht; rw [hst] at htyp; cases htyp
  · exact ht

/-- `Mempool::bundle_block` level with `atrKeepsKey` -/
theorem validate_bundle (fl : Flags) (ctx : Ctx) (loc : Local) (pool : List Tx) (gt : Option Tx) (ts : Nat) (b : Block)
    (hF : FrameOK fl ctx)
    (hk : fl.txVerdict = true → fl.atrKeepsKey = true)
    (hp : PoolWF fl pool) (hg : TicketWF fl ctx gt) (hl : LocalWF loc pool)
    (hb : bundle fl ctx loc pool gt ts = some b) :
    validate fl ctx b = true := by
  refine validate_bundle_atr fl ctx loc pool gt ts b hF ?_ hp hg hl hb
  intro hx t ht htyp
  exact all_valid_of fl (hk hx) _ t (atr_of_bundle_appended fl ctx loc pool gt ts b hp hg hl hb t ht htyp)

/-- C07 at full strength for the repaired tree: whatever the pool (well-formed), ticket, timestamp and chain
    context, a block the producer returns passes full validation on the producer. -/
theorem C07_full (fl : Flags) (ctx : Ctx) (loc : Local) (pool : List Tx) (gt : Option Tx) (ts : Nat) (b : Block)
    (hcap : fl.atrCapParent = true) (hhash : fl.rebHashFinal = true)
    (hk : fl.txVerdict = true → fl.atrKeepsKey = true)
    (hp : PoolWF fl pool) (hg : TicketWF fl ctx gt) (hl : LocalWF loc pool)
    (hb : bundle fl ctx loc pool gt ts = some b) :
    validate fl ctx b = true :=
  validate_bundle fl ctx loc pool gt ts b (Or.inl ⟨hcap, hhash⟩) hk hp hg hl hb

/-- … and on any other node holding the same chain. -/
theorem C07_full_other_node (fl : Flags) (ctx ctx' : Ctx) (loc : Local) (pool : List Tx) (gt : Option Tx) (ts : Nat) (b : Block)
    (hsame : SameChain ctx ctx')
    (hcap : fl.atrCapParent = true) (hhash : fl.rebHashFinal = true)
    (hk : fl.txVerdict = true → fl.atrKeepsKey = true)
    (hp : PoolWF fl pool) (hg : TicketWF fl ctx gt) (hl : LocalWF loc pool)
    (hb : bundle fl ctx loc pool gt ts = some b) :
    validate fl ctx' b = true := by
  rw [← hsame.eq]
  exact C07_full fl ctx loc pool gt ts b hcap hhash hk hp hg hl hb

/-- all six repairs at once (`Flags.fixed`) -/
theorem C07_fixed (ctx : Ctx) (loc : Local) (pool : List Tx) (gt : Option Tx) (ts : Nat) (b : Block)
    (hp : PoolWF Flags.fixed pool) (hg : TicketWF Flags.fixed ctx gt) (hl : LocalWF loc pool)
    (hb : bundle Flags.fixed ctx loc pool gt ts = some b) :
    validate Flags.fixed ctx b = true :=
  C07_full Flags.fixed ctx loc pool gt ts b rfl rfl (fun _ => rfl) hp hg hl hb

/-- What still holds on the pinned tree (and for every flag vector): the property, whenever no rebroadcast of the
    new block carries a payout. Missing for the full statement: blocks with an ATR payout. -/
theorem C07_partial (fl : Flags) (ctx ctx' : Ctx) (loc : Local) (pool : List Tx) (gt : Option Tx) (ts : Nat) (b : Block)
    (hsame : SameChain ctx ctx')
    (hno : NoAtrPayout ctx (prevId ctx + 1))
    (hk : fl.txVerdict = true → fl.atrKeepsKey = true)
    (hp : PoolWF fl pool) (hg : TicketWF fl ctx gt) (hl : LocalWF loc pool)
    (hb : bundle fl ctx loc pool gt ts = some b) :
    validate fl ctx b = true ∧ validate fl ctx' b = true := by
  have h := validate_bundle fl ctx loc pool gt ts b (Or.inr hno) hk hp hg hl hb
  exact ⟨h, by rw [← hsame.eq]; exact h⟩

/-- no payout ⇒ every ATR-typed transaction of the bundled block passes the per-transaction verdict: its input is
    the original output with the original amount, hence the original utxo key (`Reb.toTx`: `valid` iff
    `atrKeepsKey ∨ frm = amt`). This is what `hk` was used for, derived instead of assumed. -/
theorem atr_valid_of_noPayout (fl : Flags) (ctx : Ctx) (loc : Local) (pool : List Tx) (gt : Option Tx) (ts : Nat) (b : Block)
    (hno : NoAtrPayout ctx (prevId ctx + 1))
    (hp : PoolWF fl pool) (hg : TicketWF fl ctx gt) (hl : LocalWF loc pool)
    (hb : bundle fl ctx loc pool gt ts = some b) :
    ∀ t ∈ b.txs, t.typ = .atr → t.valid = true := by
  intro t ht htyp
  have hmem := atr_of_bundle_appended fl ctx loc pool gt ts b hp hg hl hb t ht htyp
  obtain ⟨s, _, _, rfl⟩ := bundle_eq_mk fl ctx loc pool gt ts b hl hb
  exact appended_valid_of_noPayout fl ctx (pool ++ [s]) gt ts hno t hmem

/-- C07 for EVERY flag vector — in particular the one measured on the tree under test
    (`txVerdict = true`, `atrKeepsKey = false`, `poolRejectsPriv = true`, `feeTxCount = true`, cap and hash pinned):
    whenever no rebroadcast of the new block carries a payout, the block the producer returns passes full
    validation on the producer and on every node holding the same chain. No hypothesis relating `txVerdict`
    and `atrKeepsKey`. Missing for the full statement: blocks with an ATR payout (`payout_verdict_witness`). -/
theorem C07_partial_verdict (fl : Flags) (ctx ctx' : Ctx) (loc : Local) (pool : List Tx) (gt : Option Tx) (ts : Nat) (b : Block)
    (hsame : SameChain ctx ctx')
    (hno : NoAtrPayout ctx (prevId ctx + 1))
    (hp : PoolWF fl pool) (hg : TicketWF fl ctx gt) (hl : LocalWF loc pool)
    (hb : bundle fl ctx loc pool gt ts = some b) :
    validate fl ctx b = true ∧ validate fl ctx' b = true := by
  have h := validate_bundle_atr fl ctx loc pool gt ts b (Or.inr hno)
    (fun _ => atr_valid_of_noPayout fl ctx loc pool gt ts b hno hp hg hl hb) hp hg hl hb
  exact ⟨h, by rw [← hsame.eq]; exact h⟩

/-! ## when is there no payout -/

/-- before the rebroadcast window wraps nothing is rebroadcast -/
theorem noPayout_before_wrap (ctx : Ctx) (h : prevId ctx + 1 ≤ ctx.gp + 1) : NoAtrPayout ctx (prevId ctx + 1) := by
  intro src hs
  unfold atrSource at hs
  have : ¬ (prevId ctx + 1 > ctx.gp + 1) := by omega
  simp [this] at hs

/-- payout multiplier 1 (treasury below `gp · avg_nolan_rebroadcast_per_block`, or that average still 0) -/
theorem noPayout_mult_one (ctx : Ctx) (p : Prev) (hp : ctx.prev = some p) (h : atrMult ctx.gp p.treasury p.anr = 1) :
    NoAtrPayout ctx (prevId ctx + 1) := by
  intro src _
  unfold atrPre
  rw [hp]
  simp only [h]
  exact foldTx_mult_one _ _ _ rfl

/-! ## admission -/

/-- with the admission repair every admitted transaction is valid and of a type a peer may send -/
theorem admission_fixed (fl : Flags) (t : Tx) (hfl : fl.poolRejectsPriv = true) (h : admission fl t = .yes) :
    t.valid = true ∧ t.typ ≠ .issuance ∧ t.typ ≠ .atr ∧ t.typ ≠ .fee ∧ t.typ ≠ .goldenTicket := by
  unfold admission at h
  obtain ⟨typ, _, _, _, valid, _, _, _, _⟩ := t
  cases valid <;> cases typ <;> simp_all [privileged]

/-- pinned: an Issuance-typed transaction without inputs is admitted (it passes `Transaction::validate`) -/
theorem admission_pinned_witness : admission Flags.pinned { typ := .issuance, valid := true } = .yes := by decide

/-! ## witnesses: concrete chain contexts on which the pinned producer and validator disagree -/

/-- tip at height 7 of a `gp = 5` chain: treasury 1000, avg rebroadcast 20 per block ⇒ multiplier 11 -/
def wPrev : Prev :=
  { id := 7, ts := 0, bf := 100, diff := 1, hasGT := true, treasury := 1000, graveyard := 0, tf := 40, atf := 40, atfn := 40,
    atfa := 0, apr := 0, apm := 0, afpb := 0, anr := 20, unpaid := 0 }

/-- one eligible output of 10 in the block that falls out of the window -/
def wCtx : Ctx :=
  { gp := 5, hb := 100, stake := 0, prev := some wPrev, pp := some 40,
    atr := some [{ size := 100, slips := [{ amt := 10, key := 1, owner := 3, styp := 0 }] }],
    vau := true,
    burnF := fun b _ _ _ => b, workF := fun _ _ _ _ => 0,
    cap15 := fun x => x * 3 / 2, cap05 := fun x => x / 20,
    miner := fun _ => 9, router1 := fun _ => 8, router2 := fun _ => 0,
    gtOk := fun _ => true, gtCountOk := fun _ => true }

def wLoc : Local := { newTxAdded := true, workAvail := 0, jitter := 0, stakeTx := some { typ := .blockStake, size := 152 } }
def wPool : List Tx := [{ typ := .normal, fees := 3, size := 200, ins := [77] }]
def wGt : Option Tx := some { typ := .goldenTicket, size := 300, ticket := 1 }

/-- DEFECT 1 (`atrCapParent = false`, block.rs:1856): while creating, `self.treasury` is 0, so the cap branch fires
    with a cap of 0 and zeroes the payout (`total_payout_atr = 0`); the validator reads the real treasury 1000, caps
    the payout of 100 at 5 % = 50 and arrives at an output multiplier of 6 and `total_payout_atr = 550`. Refused. -/
theorem cap_witness :
    ∃ b, bundle Flags.pinned wCtx wLoc wPool wGt 500 = some b ∧
      b.cv.tpa = 0 ∧ (gcv Flags.pinned wCtx b.view).tpa ≠ b.cv.tpa ∧ validate Flags.pinned wCtx b = false := by
  refine ⟨(bundle Flags.pinned wCtx wLoc wPool wGt 500).get (by decide +kernel), by simp, ?_, ?_, ?_⟩ <;> decide +kernel

/-- the same context with a larger treasury: the validator does not cap at all and simply disagrees on the payout -/
def wCtx2 : Ctx := { wCtx with prev := some { wPrev with treasury := 10000, anr := 200 } }

theorem cap_witness_uncapped_validator :
    ∃ b, bundle Flags.pinned wCtx2 wLoc wPool wGt 500 = some b ∧
      b.cv.tpa = 0 ∧ (gcv Flags.pinned wCtx2 b.view).tpa = 100 ∧ validate Flags.pinned wCtx2 b = false := by
  refine ⟨(bundle Flags.pinned wCtx2 wLoc wPool wGt 500).get (by decide +kernel), by simp, ?_, ?_, ?_⟩ <;> decide +kernel

/-- the mechanism in one line: the same block view with `treasury` 0 and with the real treasury gives different values -/
theorem cap_reads_self_treasury :
    (gcvCore Flags.pinned wCtx2 8 500 0 0 0 {}).tpa ≠ (gcvCore Flags.pinned wCtx2 8 500 10000 0 0 {}).tpa := by
  decide +kernel

/-- DEFECT 2 (`rebHashFinal = false`, block.rs:1733/1805 vs 1874): with the cap repaired both sides take the cap
    branch identically — every consensus value agrees — yet the hash committed before the cap differs from the hash
    of the rebroadcast transactions that ended up in the block; the block is refused. -/
theorem hash_witness :
    ∃ b, bundle { Flags.pinned with atrCapParent := true } wCtx wLoc wPool wGt 500 = some b ∧
      gcv { Flags.pinned with atrCapParent := true } wCtx b.view = frameCV b ∧
      (gcv { Flags.pinned with atrCapParent := true } wCtx b.view).rebHash ≠ b.rebHash ∧
      validate { Flags.pinned with atrCapParent := true } wCtx b = false := by
  refine ⟨(bundle { Flags.pinned with atrCapParent := true } wCtx wLoc wPool wGt 500).get (by decide +kernel), by simp, ?_, ?_, ?_⟩ <;> decide +kernel

/-- … and on the pinned tree the same happens when the validator's cap multiplier is 0 as well (the reproduced
    scenario w2): values agree, hash does not. A fee per byte of 1 makes the capped output differ. -/
def wCtx3 : Ctx :=
  { wCtx with prev := some { wPrev with afpb := 1 },
              atr := some [{ size := 100, slips := [{ amt := 1000, key := 1, owner := 3, styp := 0 }] }] }

theorem hash_witness_pinned :
    ∃ b, bundle Flags.pinned wCtx3 wLoc wPool wGt 500 = some b ∧
      (gcv Flags.pinned wCtx3 b.view).tpa = b.cv.tpa ∧ (gcv Flags.pinned wCtx3 b.view).tfa = b.cv.tfa ∧
      (gcv Flags.pinned wCtx3 b.view).rebs = b.cv.rebs ∧
      (gcv Flags.pinned wCtx3 b.view).rebHash ≠ b.rebHash ∧ validate Flags.pinned wCtx3 b = false := by
  refine ⟨(bundle Flags.pinned wCtx3 wLoc wPool wGt 500).get (by decide +kernel), by simp, ?_, ?_, ?_, ?_, ?_⟩ <;> decide +kernel

/-- both repairs: the same three contexts produce blocks that validate (non-vacuity of `C07_full` with a payout) -/
theorem repaired_witnesses_validate :
    (∃ b, bundle Flags.fixed wCtx wLoc wPool wGt 500 = some b ∧ b.cv.tpa ≠ 0 ∧ validate Flags.fixed wCtx b = true) ∧
    (∃ b, bundle Flags.fixed wCtx2 wLoc wPool wGt 500 = some b ∧ b.cv.tpa ≠ 0 ∧ validate Flags.fixed wCtx2 b = true) ∧
    (∃ b, bundle Flags.fixed wCtx3 wLoc wPool wGt 500 = some b ∧ b.cv.rs = 1 ∧ validate Flags.fixed wCtx3 b = true) := by
  refine ⟨⟨(bundle Flags.fixed wCtx wLoc wPool wGt 500).get (by decide +kernel), by simp, ?_, ?_⟩,
          ⟨(bundle Flags.fixed wCtx2 wLoc wPool wGt 500).get (by decide +kernel), by simp, ?_, ?_⟩,
          ⟨(bundle Flags.fixed wCtx3 wLoc wPool wGt 500).get (by decide +kernel), by simp, ?_, ?_⟩⟩ <;> decide +kernel

/-- a chain before the wrap (tip at height 3) -/
def wCtx0 : Ctx := { wCtx with prev := some { wPrev with id := 3 }, atr := none }

/-- DEFECT 3 (`poolRejectsPriv = false`): an Issuance-typed (or ATR-typed) transaction sits in the pool, the
    producer bundles it, the validator refuses the block (`it_num > 0` after block 1 / rebroadcast slip count). -/
theorem privileged_pool_witness :
    (∃ b, bundle Flags.pinned wCtx0 wLoc ({ typ := .issuance, size := 152 } :: wPool) wGt 500 = some b ∧
      validate Flags.pinned wCtx0 b = false) ∧
    (∃ b, bundle Flags.pinned wCtx0 wLoc ({ typ := .atr, size := 152, atrSlips := 1 } :: wPool) wGt 500 = some b ∧
      validate Flags.pinned wCtx0 b = false) := by
  refine ⟨⟨(bundle Flags.pinned wCtx0 wLoc ({ typ := .issuance, size := 152 } :: wPool) wGt 500).get (by decide +kernel), by simp, ?_⟩,
          ⟨(bundle Flags.pinned wCtx0 wLoc ({ typ := .atr, size := 152, atrSlips := 1 } :: wPool) wGt 500).get (by decide +kernel), by simp, ?_⟩⟩ <;> decide +kernel

/-- the fee-count rule (flag `feeTxCount`, repair F7) in action: a Fee-typed transaction in the pool next to a
    ticket gives a block with two fee transactions. Pinned: only the last one is compared, the block VALIDATES (its
    forged outputs are wound; the real node then panics in `check_total_supply`). With the rule the block is refused —
    the same input moves from "accepted, node crashes" to "rejected by its own producer"; both need `poolRejectsPriv`. -/
theorem surplus_fee_witness :
    (∃ b, bundle Flags.pinned wCtx0 wLoc ({ typ := .fee, size := 152, body := [0, 5, 700, 5] } :: wPool) wGt 500 = some b ∧
      (gcv Flags.pinned wCtx0 b.view).ftNum = 2 ∧ validate Flags.pinned wCtx0 b = true) ∧
    (∃ b, bundle { Flags.pinned with feeTxCount := true } wCtx0 wLoc ({ typ := .fee, size := 152, body := [0, 5, 700, 5] } :: wPool) wGt 500 = some b ∧
      validate { Flags.pinned with feeTxCount := true } wCtx0 b = false) ∧
    (∃ b, bundle { Flags.pinned with feeTxCount := true } wCtx0 wLoc ({ typ := .fee, size := 152, body := [0, 5, 700, 5] } :: wPool) none 500 = some b ∧
      validate { Flags.pinned with feeTxCount := true } wCtx0 b = false) := by
  refine ⟨⟨(bundle Flags.pinned wCtx0 wLoc ({ typ := .fee, size := 152, body := [0, 5, 700, 5] } :: wPool) wGt 500).get (by decide +kernel), by simp, ?_, ?_⟩,
          ⟨(bundle { Flags.pinned with feeTxCount := true } wCtx0 wLoc ({ typ := .fee, size := 152, body := [0, 5, 700, 5] } :: wPool) wGt 500).get (by decide +kernel), by simp, ?_⟩,
          ⟨(bundle { Flags.pinned with feeTxCount := true } wCtx0 wLoc ({ typ := .fee, size := 152, body := [0, 5, 700, 5] } :: wPool) none 500).get (by decide +kernel), by simp, ?_⟩⟩ <;> decide +kernel

/-- DEFECT 4 (local state, mempool.rs:240-252): the routing-work counter claims 500 although the pool carries 0
    (`Block::create` failed earlier and the pool was drained without resetting the counter): the gate passes,
    the block lacks routing work and is refused. `LocalWF.work` is exactly the hypothesis this violates. -/
def wCtxWork : Ctx := { wCtx0 with workF := fun _ _ _ _ => 300 }

theorem stale_work_witness :
    ∃ b, bundle Flags.pinned wCtxWork { wLoc with workAvail := 500 } wPool wGt 150 = some b ∧
      b.totalWork = 0 ∧ validate Flags.pinned wCtxWork b = false := by
  refine ⟨(bundle Flags.pinned wCtxWork { wLoc with workAvail := 500 } wPool wGt 150).get (by decide +kernel), by simp, ?_, ?_⟩ <;> decide +kernel

/-! ## the flag vector measured on the tree under test -/

/-- what the produce suite measures on the current tree: per-transaction verdict gating (F1), pool refuses privileged
    types, fee-count rule (F7); the cap, the rebroadcast hash and the rebroadcast input key are still as pinned -/
def measuredFlags : Flags := { txVerdict := true, poolRejectsPriv := true, feeTxCount := true }

/-- CONVERSE of `C07_partial_verdict` for that vector (the still-open finding
    `C07/self-produced-block-rejected/atr-payout-present`): on a wrapped chain with payout multiplier 11 the producer's
    block is refused by its own `validate`. Producer `total_payout_atr = 0` (cap on `self.treasury = 0`), validator
    100; and the block's rebroadcast transaction fails the per-transaction verdict (input amount rewritten). -/
theorem payout_verdict_witness :
    ∃ b, bundle measuredFlags wCtx2 wLoc wPool wGt 500 = some b ∧
      b.cv.tpa = 0 ∧ (gcv measuredFlags wCtx2 b.view).tpa = 100 ∧
      (b.txs.filter isAtr).map (·.valid) = [false] ∧
      validate measuredFlags wCtx2 b = false ∧
      ¬ NoAtrPayout wCtx2 (prevId wCtx2 + 1) := by
  refine ⟨(bundle measuredFlags wCtx2 wLoc wPool wGt 500).get (by decide +kernel), by simp, ?_, ?_, ?_, ?_, ?_⟩
  · decide +kernel
  · decide +kernel
  · decide +kernel
  · decide +kernel
  · intro h
    have := h [{ size := 100, slips := [{ amt := 10, key := 1, owner := 3, styp := 0 }] }] (by decide +kernel)
    revert this
    decide +kernel

/-- a wrapped chain (tip 7, gp 5) whose treasury is too small for a payout: one output is rebroadcast at par -/
def wCtxPar : Ctx := { wCtx with prev := some { wPrev with treasury := 99 } }

/-- the hypotheses of `C07_partial_verdict` are satisfiable for the measured vector with a non-empty pool, on a chain
    past the window wrap, and the producer does return a block there (which carries a rebroadcast) -/
example :
    SameChain wCtxPar wCtxPar ∧ NoAtrPayout wCtxPar (prevId wCtxPar + 1) ∧ PoolWF measuredFlags wPool ∧ wPool ≠ [] ∧
    TicketWF measuredFlags wCtxPar wGt ∧ LocalWF wLoc wPool ∧
    ∃ b, bundle measuredFlags wCtxPar wLoc wPool wGt 500 = some b ∧ b.cv.rebs.length = 1 ∧
      validate measuredFlags wCtxPar b = true := by
  refine ⟨⟨rfl, rfl, rfl, rfl, rfl, rfl, rfl, fun _ _ _ _ => rfl, fun _ _ _ _ => rfl, fun _ => rfl, fun _ => rfl,
            fun _ => rfl, fun _ => rfl, fun _ => rfl, fun _ => rfl, fun _ => rfl⟩,
          noPayout_mult_one _ { wPrev with treasury := 99 } rfl (by decide),
          ⟨by decide, fun _ => by decide, fun _ => by decide⟩, by decide,
          (by intro t ht; cases ht; exact ⟨rfl, rfl, fun _ => rfl⟩),
          ⟨by intro s hs; cases hs; exact ⟨rfl, rfl⟩, by decide⟩, ?_⟩
  refine ⟨(bundle measuredFlags wCtxPar wLoc wPool wGt 500).get (by decide +kernel), by simp, by decide +kernel, ?_⟩
  -- by the theorem, not by evaluation
  exact (C07_partial_verdict measuredFlags wCtxPar wCtxPar wLoc wPool wGt 500 _
    ⟨rfl, rfl, rfl, rfl, rfl, rfl, rfl, fun _ _ _ _ => rfl, fun _ _ _ _ => rfl, fun _ => rfl, fun _ => rfl,
      fun _ => rfl, fun _ => rfl, fun _ => rfl, fun _ => rfl, fun _ => rfl⟩
    (noPayout_mult_one _ { wPrev with treasury := 99 } rfl (by decide))
    ⟨by decide, fun _ => by decide, fun _ => by decide⟩
    (by intro t ht; cases ht; exact ⟨rfl, rfl, fun _ => rfl⟩)
    ⟨by intro s hs; cases hs; exact ⟨rfl, rfl⟩, by decide⟩ (by simp)).1

/-! ## non-vacuity of the hypotheses -/

example : PoolWF Flags.fixed wPool := ⟨by decide, fun _ => by decide, fun _ => by decide⟩
example : PoolWF Flags.pinned wPool := ⟨by decide, fun h => (by cases h), fun h => (by cases h)⟩
example : TicketWF Flags.fixed wCtx wGt := by
  intro t ht; cases ht; exact ⟨rfl, rfl, fun _ => rfl⟩
example : LocalWF wLoc wPool := ⟨by intro s hs; cases hs; exact ⟨rfl, rfl⟩, by decide⟩
example : SameChain wCtx wCtx := ⟨rfl, rfl, rfl, rfl, rfl, rfl, rfl, fun _ _ _ _ => rfl, fun _ _ _ _ => rfl, fun _ => rfl,
  fun _ => rfl, fun _ => rfl, fun _ => rfl, fun _ => rfl, fun _ => rfl, fun _ => rfl⟩
/-- the partial theorem's hypothesis on a wrapped chain: multiplier 1 although outputs are rebroadcast -/
example : NoAtrPayout { wCtx with prev := some { wPrev with treasury := 99 } } 8 :=
  noPayout_mult_one _ { wPrev with treasury := 99 } rfl (by decide)
example : NoAtrPayout wCtx0 (prevId wCtx0 + 1) := noPayout_before_wrap wCtx0 (by decide)
/-- … and the pinned producer's block on that context validates, with a rebroadcast inside -/
example : ∃ b, bundle Flags.pinned { wCtx with prev := some { wPrev with treasury := 99 } } wLoc wPool wGt 500 = some b ∧
    b.cv.rebs.length = 1 ∧ validate Flags.pinned { wCtx with prev := some { wPrev with treasury := 99 } } b = true := by
  refine ⟨(bundle Flags.pinned { wCtx with prev := some { wPrev with treasury := 99 } } wLoc wPool wGt 500).get (by decide +kernel), by simp, ?_, ?_⟩ <;> decide +kernel

end Saito.C07
