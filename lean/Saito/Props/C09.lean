import Saito.Lemmas.Msg
/-!
# C09 — wire and disk formats round-trip and preserve identity
Property theorems only (helper lemmas live in `Saito/Lemmas`). `wf` predicates are the explicit,
decidable "structurally valid value" side conditions; every lossy case of the real encoders
(more than 255 slips, lengths ≥ 2^32, wrong key widths) is outside `wf` and nowhere else.
-/
namespace Saito.C09

/-- decode ∘ encode = id for slips -/
theorem slip_roundtrip (s : Slip) (h : s.wf) : Slip.decode s.encode = .ok s := Slip.decode_encode s h
/-- the encoded size of a slip is the constant the code asserts -/
theorem slip_size (s : Slip) (h : s.wf) : s.encode.length = SLIP_SIZE := Slip.encode_length s h
/-- re-encoding the decoded value yields the same bytes (on the image of the encoder) -/
theorem slip_reencode (s : Slip) (h : s.wf) :
    (Slip.decode s.encode).map Slip.encode = .ok s.encode := by rw [slip_roundtrip s h]; rfl

theorem hop_roundtrip (x : Hop) (h : x.wf) : Hop.decode x.encode = .ok x := Hop.decode_encode x h
theorem hop_size (x : Hop) (h : x.wf) : x.encode.length = HOP_SIZE := Hop.encode_length x h

/-- decode ∘ encode = id for transactions, whatever the defect flags -/
theorem tx_roundtrip (fl : CodecFlags) (t : Tx) (h : t.wf) : Tx.decode fl t.encode = .ok t :=
  Tx.decode_encode fl t h
/-- `get_serialized_size` predicts the encoded length -/
theorem tx_size (t : Tx) (h : t.wf) : t.encode.length = t.size := Tx.encode_length t h
/-- a transaction that crosses the wire keeps the bytes that are hashed and signed -/
theorem tx_identity_preserved (fl : CodecFlags) (t : Tx) (h : t.wf) :
    (Tx.decode fl t.encode).map Tx.sigBytes = .ok t.sigBytes := by rw [tx_roundtrip fl t h]; rfl
theorem tx_reencode (fl : CodecFlags) (t : Tx) (h : t.wf) :
    (Tx.decode fl t.encode).map Tx.encode = .ok t.encode := by rw [tx_roundtrip fl t h]; rfl

/-- the encoder is injective on well-formed values (consequence of the round trip) -/
theorem tx_encode_injective (t u : Tx) (ht : t.wf) (hu : u.wf) (h : t.encode = u.encode) : t = u := by
  have a := tx_roundtrip {} t ht
  have b := tx_roundtrip {} u hu
  rw [h] at a; rw [a] at b; exact Res.ok.inj b

/-! ### blocks -/
/-- decode ∘ encode = id for full blocks (any number of transactions), whatever the defect flags -/
theorem block_roundtrip (fl : CodecFlags) (b : Block) (h : b.wf) : Block.decode fl (b.encode false) = .ok b :=
  Block.decode_encode fl b h
/-- a block that crosses the wire or the disk keeps the bytes its hash and signature are computed from -/
theorem block_identity_preserved (fl : CodecFlags) (b : Block) (h : b.wf) :
    (Block.decode fl (b.encode false)).map Block.sigBytes = .ok b.sigBytes := by
  rw [block_roundtrip fl b h]; rfl
/-- header-only encoding decodes to the header projection: same header fields, no transactions -/
theorem block_header_roundtrip (fl : CodecFlags) (b : Block) (h : b.wf) :
    Block.decode fl (b.encode true) = .ok { b with txs := [], isHeader := !(b.id == 1 && b.prev == zeros 32) } :=
  Block.decode_encode_header fl b h
theorem block_header_identity_preserved (fl : CodecFlags) (b : Block) (h : b.wf) :
    (Block.decode fl (b.encode true)).map Block.sigBytes = .ok b.sigBytes := by
  rw [block_header_roundtrip fl b h]; rfl
theorem block_size (b : Block) (h : b.wf) : (b.encode false).length = BLOCK_HEADER_SIZE + (encTxs b.txs).length :=
  Block.encode_full_length b h

/-! ### chain-sync record and peer messages -/
theorem ghost_roundtrip (fl : CodecFlags) (g : Ghost) (h : g.wf) : Ghost.decode fl g.encode = .ok g :=
  Ghost.decode_encode fl g h

/-- structurally valid messages of the fixed-layout tags (handshake response and service lists, whose payload
    is free text, are covered by the correspondence run only) -/
def msgWf : Msg → Prop
  | .challenge c => c.length = 32
  | .block b => b.wf
  | .tx t => t.wf
  | .chainReq _ h f => h.length = 32 ∧ f.length = 32
  | .headerHash h _ => h.length = 32
  | .ping => True
  | .spv => True
  | .ghost g => g.wf
  | .ghostReq _ h f => h.length = 32 ∧ f.length = 32
  | .app t _ _ => t = 12 ∨ t = 13 ∨ t = 14
  | .keyList ks => ∀ k ∈ ks, k.length = 33
  | .response _ => False
  | .services _ => False

/-- every message tag in `msgWf` round-trips: the tag table of `Message::serialize` / `deserialize` agrees -/
theorem msg_roundtrip (fl : CodecFlags) (m : Msg) (h : msgWf m) : Msg.decode fl m.encode = .ok m := by
  cases m with
  | challenge c =>
    simp only [msgWf] at h
    simp [Msg.encode, Msg.tag, Msg.body, Msg.decode, h]
    exact List.take_of_length_le (by omega)
  | block b => simp [Msg.encode, Msg.tag, Msg.body, Msg.decode, Block.decode_encode fl b h, Res.map, Res.bind]
  | tx t => simp [Msg.encode, Msg.tag, Msg.body, Msg.decode, Tx.decode_encode fl t h, Res.map, Res.bind]
  | chainReq id a f =>
    obtain ⟨h1, h2⟩ := h
    simp only [Msg.encode, Msg.tag, Msg.body, Msg.decode]
    have hl : (toBE 8 id.toNat ++ (a ++ f)).length = 72 := by simp [h1, h2]
    simp only [UInt8.toNat_ofNat, hl, ne_eq, not_true_eq_false, ↓reduceIte]
    rw [take_append_len _ _ 8 (toBE_length _ _), show (40 : Nat) = 8 + 32 from rfl, ← List.drop_drop,
      drop_append_len _ _ 8 (toBE_length _ _), take_append_len _ _ 32 h1, drop_append_len _ _ 32 h1, u64_toBE]
  | headerHash a id =>
    simp only [msgWf] at h
    simp only [Msg.encode, Msg.tag, Msg.body, Msg.decode]
    have hl : (a ++ toBE 8 id.toNat).length = 40 := by simp [h]
    simp only [UInt8.toNat_ofNat, hl, ne_eq, not_true_eq_false, ↓reduceIte]
    rw [take_append_len _ _ 32 h, drop_append_len _ _ 32 h, u64_toBE]
  | ping => simp [Msg.encode, Msg.tag, Msg.body, Msg.decode]
  | spv => simp [Msg.encode, Msg.tag, Msg.body, Msg.decode]
  | ghost g =>
    simp [Msg.encode, Msg.tag, Msg.body, Msg.decode, Ghost.decode_encode fl g h, Ghost.short_encode g h, Res.map, Res.bind]
  | ghostReq id a f =>
    obtain ⟨h1, h2⟩ := h
    simp only [Msg.encode, Msg.tag, Msg.body, Msg.decode]
    have hl : (toBE 8 id.toNat ++ (a ++ f)).length = 72 := by simp [h1, h2]
    simp only [UInt8.toNat_ofNat, hl, ne_eq, not_true_eq_false, ↓reduceIte]
    rw [take_append_len _ _ 8 (toBE_length _ _), show (40 : Nat) = 8 + 32 from rfl, ← List.drop_drop,
      drop_append_len _ _ 8 (toBE_length _ _), take_append_len _ _ 32 h1, drop_append_len _ _ 32 h1, u64_toBE]
  | app t idx d =>
    simp only [msgWf] at h
    rcases h with rfl | rfl | rfl <;>
    · simp only [Msg.encode, Msg.tag, Msg.body, Msg.decode, UInt8.toNat_ofNat]
      have hl : ¬ (toBE 4 idx.toNat ++ d).length < 4 := by simp
      simp only [hl, ↓reduceIte]
      rw [take_append_len _ _ 4 (toBE_length _ _), drop_append_len _ _ 4 (toBE_length _ _), u32_toBE]
  | keyList ks =>
    simp only [msgWf] at h
    have hl := flatten_length_const 33 ks h
    simp only [Msg.encode, Msg.tag, Msg.body, Msg.decode, UInt8.toNat_ofNat, hl]
    have h1 : 33 * ks.length % 33 = 0 := Nat.mul_mod_right 33 ks.length
    have h2 : 33 * ks.length / 33 = ks.length := Nat.mul_div_cancel_left ks.length (by decide)
    simp only [h1, ne_eq, not_true_eq_false, ↓reduceIte, h2, decKeys]
    have := chunks_flatten 33 ks h []
    rw [List.append_nil] at this
    rw [this]
  | response r => exact absurd h (by simp [msgWf])
  | services l => exact absurd h (by simp [msgWf])

/-- non-vacuity: a concrete transaction with two slips, data and a hop satisfies `wf` -/
def sampleSlip : Slip := ⟨List.replicate 33 7, 5, 2, 1, 0, 3⟩
def sampleTx : Tx := ⟨List.replicate 64 9, 1700000000000, 0, 0, [sampleSlip], [sampleSlip, sampleSlip], [1, 2, 3],
  [⟨List.replicate 33 1, List.replicate 33 2, List.replicate 64 3⟩]⟩
example : sampleTx.wf := by
  unfold Tx.wf sampleTx sampleSlip
  refine ⟨by decide, by decide, by decide, by decide, by decide, by decide, ?_, ?_, ?_⟩ <;>
    simp [Slip.wf, Hop.wf]

end Saito.C09
