import Saito.Lemmas.Codec
/-!
# C09 — wire and disk formats round-trip and preserve identity
Property theorems only (helper lemmas live in `Saito/Lemmas`). `wf` predicates are the explicit,
decidable "structurally valid value" side conditions; every lossy case of the real encoders
(more than 255 slips, lengths ≥ 2^32, wrong key widths) is outside `wf` and nowhere else.
-/
namespace Saito.C09

/-- decode ∘ encode = id for slips -/
theorem slip_roundtrip (s : Slip) (h : s.wf) : Slip.decode s.encode = .ok s := Slip.decode_encode s h
/-- the encoded size of a slip is the constant the code asserts -/
theorem slip_size (s : Slip) (h : s.wf) : s.encode.length = SLIP_SIZE := Slip.encode_length s h
/-- re-encoding the decoded value yields the same bytes (on the image of the encoder) -/
theorem slip_reencode (s : Slip) (h : s.wf) :
    (Slip.decode s.encode).map Slip.encode = .ok s.encode := by rw [slip_roundtrip s h]; rfl

theorem hop_roundtrip (x : Hop) (h : x.wf) : Hop.decode x.encode = .ok x := Hop.decode_encode x h
theorem hop_size (x : Hop) (h : x.wf) : x.encode.length = HOP_SIZE := Hop.encode_length x h

/-- decode ∘ encode = id for transactions, whatever the defect flags -/
theorem tx_roundtrip (fl : CodecFlags) (t : Tx) (h : t.wf) : Tx.decode fl t.encode = .ok t :=
  Tx.decode_encode fl t h
/-- `get_serialized_size` predicts the encoded length -/
theorem tx_size (t : Tx) (h : t.wf) : t.encode.length = t.size := Tx.encode_length t h
/-- a transaction that crosses the wire keeps the bytes that are hashed and signed -/
theorem tx_identity_preserved (fl : CodecFlags) (t : Tx) (h : t.wf) :
    (Tx.decode fl t.encode).map Tx.sigBytes = .ok t.sigBytes := by rw [tx_roundtrip fl t h]; rfl
theorem tx_reencode (fl : CodecFlags) (t : Tx) (h : t.wf) :
    (Tx.decode fl t.encode).map Tx.encode = .ok t.encode := by rw [tx_roundtrip fl t h]; rfl

/-- the encoder is injective on well-formed values (consequence of the round trip) -/
theorem tx_encode_injective (t u : Tx) (ht : t.wf) (hu : u.wf) (h : t.encode = u.encode) : t = u := by
  have a := tx_roundtrip {} t ht
  have b := tx_roundtrip {} u hu
  rw [h] at a; rw [a] at b; exact Res.ok.inj b

/-- non-vacuity: a concrete transaction with two slips, data and a hop satisfies `wf` -/
def sampleSlip : Slip := ⟨List.replicate 33 7, 5, 2, 1, 0, 3⟩
def sampleTx : Tx := ⟨List.replicate 64 9, 1700000000000, 0, 0, [sampleSlip], [sampleSlip, sampleSlip], [1, 2, 3],
  [⟨List.replicate 33 1, List.replicate 33 2, List.replicate 64 3⟩]⟩
example : sampleTx.wf := by
  unfold Tx.wf sampleTx sampleSlip
  refine ⟨by decide, by decide, by decide, by decide, by decide, by decide, ?_, ?_, ?_⟩ <;>
    simp [Slip.wf, Hop.wf]

end Saito.C09
