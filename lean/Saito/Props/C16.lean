import Saito.Lemmas.Sync
/-!
# C16 — the block-fetch scheduler is bounded, ordered and complete

Model: `Saito.Sync` (Model/Sync.lean) of `BlockchainSyncState`. A state is *reachable* when some sequence of the
public operations {announce (`add_entry`), build, select, fetched, failed, remove} leads to it from the initial
state; all theorems quantify over arbitrary sequences (induction over the sequence, invariant `Inv`).

* (a) `never_panics`, `fetching_le_batch`, `quota_never_underflows`
* (b) `selected_sorted`, `selected_strictly_sorted`
* (c) `selected_were_queued`, `no_entry_twice_partial` (pinned dedup rule: per (hash, id)), `no_hash_twice_fixed` (repaired rule),
      `same_hash_two_ids_witness`, `stale_fetching_witness`
* (d) `retry_bounded`, `requeue_increments_retry`, `requeues_bounded` (+ `scheduler_acts_per_queue`)
* (e) `liveness_partial`, `liveness_fixed`, `liveness_fixed_after_select`, `liveness_rounds_partial`, `select_sorts`
* glue: `fetchNext_is_run`
-/
namespace Saito.C16
open Saito.Sync

/-- reachable from the initial state by public operations -/
def Reachable (cfg : Cfg) (s : State) : Prop := ∃ ops, run cfg init ops = some s

theorem reachable_inv (cfg : Cfg) (h0 : 0 ∉ cfg.urlPeers) {s : State} (hr : Reachable cfg s) : Inv cfg s := by
  obtain ⟨ops, hops⟩ := hr
  obtain ⟨s', hs', hi⟩ := run_inv h0 ops (Inv.init cfg)
  rw [hops] at hs'
  cases hs'
  exact hi

/-! ## (a) bounded -/

/-- No sequence of operations makes the scheduler panic: neither the `assert_ne!(peer_index, 0)` nor the unchecked
    `usize` subtraction `batch_size - fetching_count` of `get_blocks_to_fetch_per_peer` (any batch size, also 0). -/
theorem never_panics (cfg : Cfg) (h0 : 0 ∉ cfg.urlPeers) (ops : List Op) : run cfg init ops ≠ none := by
  obtain ⟨s', hs', _⟩ := run_inv h0 ops (Inv.init cfg)
  rw [hs']; exact Option.some_ne_none _

/-- In every reachable state, for every peer, the number of fetches in flight is at most the batch size. -/
theorem fetching_le_batch (cfg : Cfg) (h0 : 0 ∉ cfg.urlPeers) {s : State} (hr : Reachable cfg s) :
    ∀ pq ∈ s.queues, countFetching pq.2 ≤ cfg.batch :=
  fun pq hpq => ((reachable_inv cfg h0 hr).queues pq hpq).2.fetching

/-- … hence the quota arithmetic never underflows and peer 0 never owns a queue: `select` succeeds. -/
theorem quota_never_underflows (cfg : Cfg) (h0 : 0 ∉ cfg.urlPeers) {s : State} (hr : Reachable cfg s) :
    (∃ r, select cfg s = some r) ∧ ∀ pq ∈ s.queues, pq.1 ≠ 0 ∧ ∃ r, qSelect cfg pq.2 = some r := by
  have hi := reachable_inv cfg h0 hr
  obtain ⟨r, hr1, _⟩ := hi.select
  exact ⟨⟨r, hr1⟩, fun pq hpq => ⟨(hi.queues pq hpq).1, qSelect_isSome (hi.queues pq hpq).2.fetching⟩⟩

/-! ## (b) ordered -/

/-- Every list returned by `get_blocks_to_fetch_per_peer` is sorted non-decreasingly by (block id, hash) — in any state. -/
theorem selected_sorted (cfg : Cfg) (s : State) {s' : State} {sels} (h : select cfg s = some (s', sels)) :
    ∀ ps ∈ sels, ps.2.Pairwise KeyLe := by
  unfold select at h
  split at h
  · exact absurd h (by simp)
  · rename_i qs sels' hq
    simp only [Option.some.injEq, Prod.mk.injEq] at h
    obtain ⟨_, rfl⟩ := h
    intro ps hps
    obtain ⟨q, r, _, h2, h3, _⟩ := (selectQueues_spec hq).2 ps hps
    rw [h3]; exact qSelect_sorted h2

/-- In a reachable state the order is strict (no key is requested twice in one call) and no list is empty. -/
theorem selected_strictly_sorted (cfg : Cfg) (h0 : 0 ∉ cfg.urlPeers) {s : State} (hr : Reachable cfg s)
    {s' : State} {sels} (h : select cfg s = some (s', sels)) :
    ∀ ps ∈ sels, ps.2.Pairwise KeyLtP ∧ ps.2 ≠ [] := by
  have hi := reachable_inv cfg h0 hr
  unfold select at h
  split at h
  · exact absurd h (by simp)
  · rename_i qs sels' hq
    simp only [Option.some.injEq, Prod.mk.injEq] at h
    obtain ⟨_, rfl⟩ := h
    intro ps hps
    obtain ⟨q, r, h1, h2, h3, h4⟩ := (selectQueues_spec hq).2 ps hps
    exact ⟨by rw [h3]; exact qSelect_strictly_sorted (hi.queues _ h1).2.nodup h2, h4⟩

/-! ## (c) nothing in flight twice -/

/-- Only `Queued` entries are requested: every key returned by `select` for peer `p` belongs to an entry of `p`'s queue
    that was `Queued` (an entry already in flight is never requested again; with `no_entry_twice_partial` the entry
    with that key is unique). -/
theorem selected_were_queued (cfg : Cfg) (s : State) {s' : State} {sels} (h : select cfg s = some (s', sels)) :
    ∀ ps ∈ sels, ∃ q, (ps.1, q) ∈ s.queues ∧ ∀ k ∈ ps.2, ∃ e ∈ q, e.key = k ∧ e.status = .queued := by
  unfold select at h
  split at h
  · exact absurd h (by simp)
  · rename_i qs sels' hq
    simp only [Option.some.injEq, Prod.mk.injEq] at h
    obtain ⟨_, rfl⟩ := h
    intro ps hps
    obtain ⟨q, r, h1, h2, h3, _⟩ := (selectQueues_spec hq).2 ps hps
    refine ⟨q, h1, ?_⟩
    obtain ⟨rfl, _⟩ := qSelect_eq h2
    intro k hk
    rw [h3] at hk
    obtain ⟨e, he, hek, hes, _⟩ := selLoop_sel_mem _ _ _ k hk
    exact ⟨e, (sortBy_perm _ _).mem_iff.mp he, hek, hes⟩

/-- Pinned tree: no two entries of one peer's queue — in particular no two entries in flight — carry the same
    (hash, id) pair. *Partial*: the property asks for "the same block", i.e. the same hash; see the witness. -/
theorem no_entry_twice_partial (cfg : Cfg) (h0 : 0 ∉ cfg.urlPeers) {s : State} (hr : Reachable cfg s) :
    ∀ pq ∈ s.queues, pq.2.Pairwise (fun a b => ¬ (a.hash = b.hash ∧ a.id = b.id)) := by
  intro pq hpq
  refine ((reachable_inv cfg h0 hr).queues pq hpq).2.nodup.imp ?_
  intro a b hab hc
  exact hab (by simp [Entry.key, hc.1, hc.2])

/-- With the dedup rule repaired (`dedupByHash`): no hash is queued — hence none is in flight — twice for one peer. -/
theorem no_hash_twice_fixed (cfg : Cfg) (h0 : 0 ∉ cfg.urlPeers) (hf : cfg.fl.dedupByHash = true)
    {s : State} (hr : Reachable cfg s) :
    ∀ pq ∈ s.queues, pq.2.Pairwise (fun a b => a.hash ≠ b.hash) :=
  fun pq hpq => ((reachable_inv cfg h0 hr).queues pq hpq).2.nodupHash hf

/-- Witness (pinned rule, batch 2): peer 1 announces hash 1 as block 1 and as block 2; after build and select both
    entries are in flight — the same block is being fetched twice from the same peer. -/
theorem same_hash_two_ids_witness :
    (run { batch := 2 } init [.add 1 1 1, .add 1 2 1, .build [], .select]).map (·.queues)
      = some [(1, [⟨1, 1, .fetching, 0⟩, ⟨1, 2, .fetching, 0⟩])] := by decide

/-- the repaired rule on the same input: one entry -/
theorem same_hash_two_ids_fixed_example :
    (run { batch := 2, fl := ⟨true⟩ } init [.add 1 1 1, .add 1 2 1, .build [], .select]).map (·.queues)
      = some [(1, [⟨1, 1, .fetching, 0⟩])] := by decide

/-- Witness (pinned rule, batch 1): (id 2, hash 1) is in flight when (id 1, hash 1) and (id 3, hash 2) are announced.
    The answer to the one request in flight (`fetched 1`) removes the *queued* entry (first match on the hash); the
    requested entry stays `Fetching`, nothing is selected, and `select` is a fixpoint: block (3, 2) is never requested. -/
theorem stale_fetching_witness :
    ∃ s, run { batch := 1 } init
        [.add 1 2 1, .build [], .select, .add 1 1 1, .add 1 3 2, .build [], .select, .fetched 1] = some s ∧
      s.queues = [(1, [⟨1, 2, .fetching, 0⟩, ⟨2, 3, .queued, 0⟩])] ∧
      select { batch := 1 } s = some (s, []) := by
  refine ⟨⟨[], [(1, [⟨1, 2, .fetching, 0⟩, ⟨2, 3, .queued, 0⟩])]⟩, ?_, rfl, ?_⟩ <;> decide

/-! ## (d) bounded retries -/

/-- Retry counters never exceed `MAX_RETRIES_PER_BLOCK + 1`. -/
theorem retry_bounded (cfg : Cfg) (h0 : 0 ∉ cfg.urlPeers) {s : State} (hr : Reachable cfg s) :
    ∀ pq ∈ s.queues, ∀ e ∈ pq.2, e.retry ≤ cfg.maxRetries + 1 :=
  fun pq hpq => ((reachable_inv cfg h0 hr).queues pq hpq).2.retry

/-- `select` re-queues a `Failed` entry only while its counter is below `MAX_RETRIES_PER_BLOCK`, and every re-queue
    increments the counter: every entry after a `select` stems from an entry with the same (hash, id) of the same
    peer by one of the four transitions of `SelRel`. -/
theorem requeue_increments_retry (cfg : Cfg) (s : State) {s' : State} {sels} (h : select cfg s = some (s', sels)) :
    ∀ pq' ∈ s'.queues, ∃ q, (pq'.1, q) ∈ s.queues ∧ ∀ e' ∈ pq'.2, ∃ e ∈ q, SelRel cfg.maxRetries e e' ∧
      (e.status = .failed → e'.status = .queued → e'.retry = e.retry + 1 ∧ e'.retry ≤ cfg.maxRetries) := by
  unfold select at h
  split at h
  · exact absurd h (by simp)
  · rename_i qs sels' hq
    simp only [Option.some.injEq, Prod.mk.injEq] at h
    obtain ⟨rfl, _⟩ := h
    intro pq' hpq'
    obtain ⟨q, r, h1, h2, h3⟩ := (selectQueues_spec hq).1 pq' hpq'
    refine ⟨q, h1, ?_⟩
    obtain ⟨rfl, _⟩ := qSelect_eq h2
    intro e' he'
    rw [h3] at he'
    obtain ⟨e, he, hrel⟩ := selLoop_rel _ _ _ e' he'
    refine ⟨e, (sortBy_perm _ _).mem_iff.mp he, hrel, ?_⟩
    intro hf hq'
    obtain ⟨_, _, hc⟩ := hrel
    rcases hc with rfl | ⟨h4, _⟩ | ⟨_, h5, _, h6⟩ | ⟨_, _, h7, _⟩
    · rw [hf] at hq'; cases hq'
    · rw [hf] at h4; cases h4
    · omega
    · rw [h7] at hq'; cases hq'

/-- every queue of a reachable state satisfies the per-queue invariant `QInv` (bounded, no duplicate key, bounded
    retries, no stale `Fetched`, and no duplicate hash under the repaired rule) -/
theorem reachable_queue_inv (cfg : Cfg) (h0 : 0 ∉ cfg.urlPeers) {s : State} (hr : Reachable cfg s) :
    ∀ pq ∈ s.queues, QInv cfg pq.2 :=
  fun pq hpq => ((reachable_inv cfg h0 hr).queues pq hpq).2

/-- The state-level operations touch the queue of a peer only through the queue-level operations
    (`qStep`: build with the peer's announcements, select, fetched, failed, remove), starting from the peer's previous
    queue or from the empty queue: the life of one peer's queue is a `qRun`. -/
theorem scheduler_acts_per_queue (cfg : Cfg) {s s' : State} (op : Op) (h : step cfg s op = some s') :
    ∀ pq' ∈ s'.queues, ∃ q qops, ((pq'.1, q) ∈ s.queues ∨ q = []) ∧ qRun cfg q qops = some pq'.2 :=
  step_acts_per_queue cfg op h

/-- A block that keeps failing is retried a bounded number of times: along *any* run of a peer's queue (from the empty
    queue or any queue of a reachable state), an entry is turned from `Failed` back into `Queued` at most
    `MAX_RETRIES_PER_BLOCK` times while it stays in the queue. (The counter belongs to the queue entry: `remove_entry`
    / `mark_as_fetched` followed by a new announcement starts a new entry at 0 — by design, see corpus witness #3.) -/
theorem requeues_bounded (cfg : Cfg) (q : List Entry) (hq : QInv cfg q) (k : Nat × Nat) (qops : List QOp) :
    requeues cfg k q qops ≤ cfg.maxRetries :=
  requeues_le cfg k q hq qops

/-- the bound is attained: with `MAX_RETRIES = 2` the third failure is final -/
example : requeues { batch := 1, maxRetries := 2 } (1, 1) []
    [.build [] [(1, 1)], .select, .failed 1 1, .select, .select, .failed 1 1, .select, .select,
     .failed 1 1, .select, .select, .select] = 2 := by decide

/-! ## (e) complete: bounded liveness under the fair schedule

`Fair cfg hss q`: a schedule of rounds for one peer's queue; in round `i` all hashes of `hss[i]` are completed
(`mark_as_fetched`) — this must include every fetch in flight (`Covers`), and may include more (blocks arriving from
other peers) — then `select` runs. No announcements in between (closed system: a lower block id announced later
legitimately overtakes). `Served cfg k hss q`: within these rounds the entry with key `k` is returned by `select`,
or it left the queue because its hash was completed by another route. `wsum` counts one unit per `Queued` entry and two
per `Failed` entry that will be retried (re-queue round + request round). -/

/-- `get_blocks_to_fetch_per_peer` leaves every queue sorted by (id, hash) -/
theorem select_sorts (cfg : Cfg) (q : List Entry) {r} (h : qSelect cfg q = some r) : SortedBy Entry.key r.1 := by
  obtain ⟨rfl, _⟩ := qSelect_eq h
  rw [sortedBy_iff_map, selLoop_keys]
  exact (sortedBy_iff_map _).mp (sortBy_sorted _ _)

/-- Pinned tree. A `Queued` entry `e` of a sorted queue that holds each hash once is served within `⌈(w+1)/batch⌉` fair
    rounds, `w` = weight of the entries before `e`. *Partial*: with the pinned dedup rule "each hash once" is not an
    invariant (see `same_hash_two_ids_witness`); it is a hypothesis here and a theorem for the repaired rule
    (`liveness_fixed`). -/
theorem liveness_partial (cfg : Cfg) (q pre post : List Entry) (e : Entry) (hq : q = pre ++ e :: post)
    (he : e.status = .queued) (hsort : SortedBy Entry.key q) (hd : NoDupHash q)
    (hnf : ∀ x ∈ q, x.status ≠ .fetched) (hss : List (List Nat)) (hfair : Fair cfg hss q)
    (hrounds : wsum cfg.maxRetries pre + 1 ≤ hss.length * cfg.batch) : Served cfg e.key hss q :=
  served_weighted cfg hss q pre post e _ hq he hsort hd hnf hfair (Nat.le_refl _) hrounds

/-- Repaired dedup rule: in every reachable state, for every peer, once the queue is sorted (i.e. after any `select`,
    `select_sorts`) every `Queued` entry is served within `⌈(w+1)/batch⌉` fair rounds. -/
theorem liveness_fixed (cfg : Cfg) (h0 : 0 ∉ cfg.urlPeers) (hf : cfg.fl.dedupByHash = true) {s : State}
    (hr : Reachable cfg s) (p : Nat) (q pre post : List Entry) (hpq : (p, q) ∈ s.queues) (e : Entry)
    (hq : q = pre ++ e :: post) (he : e.status = .queued) (hsort : SortedBy Entry.key q)
    (hss : List (List Nat)) (hfair : Fair cfg hss q)
    (hrounds : wsum cfg.maxRetries pre + 1 ≤ hss.length * cfg.batch) : Served cfg e.key hss q := by
  have hi := reachable_queue_inv cfg h0 hr (p, q) hpq
  exact liveness_partial cfg q pre post e hq he hsort (hi.nodupHash hf) hi.nofetched hss hfair hrounds

/-- … without the sortedness hypothesis: take any queue of a reachable state and let `select` run once (it sorts the
    queue, `select_sorts`); from then on every `Queued` entry is served within `⌈(w+1)/batch⌉` fair rounds. -/
theorem liveness_fixed_after_select (cfg : Cfg) (h0 : 0 ∉ cfg.urlPeers) (hf : cfg.fl.dedupByHash = true) {s : State}
    (hr : Reachable cfg s) (p : Nat) (q : List Entry) (hpq : (p, q) ∈ s.queues) {r} (hsel : qSelect cfg q = some r)
    (pre post : List Entry) (e : Entry) (hq : r.1 = pre ++ e :: post) (he : e.status = .queued)
    (hss : List (List Nat)) (hfair : Fair cfg hss r.1)
    (hrounds : wsum cfg.maxRetries pre + 1 ≤ hss.length * cfg.batch) : Served cfg e.key hss r.1 := by
  have hi := (reachable_queue_inv cfg h0 hr (p, q) hpq).select hsel
  exact liveness_partial cfg r.1 pre post e hq he (select_sorts cfg q hsel) (hi.nodupHash hf) hi.nofetched hss hfair hrounds

/-- Corollary in the form of the property text: if no entry of the queue is `Failed`, every queued entry is served
    within `⌈len/batch⌉` rounds (any schedule with `len ≤ rounds * batch`); with `Failed` entries `2 * len` units suffice. -/
theorem liveness_rounds_partial (cfg : Cfg) (q : List Entry) (e : Entry) (hmem : e ∈ q)
    (he : e.status = .queued) (hsort : SortedBy Entry.key q) (hd : NoDupHash q)
    (hnf : ∀ x ∈ q, x.status ≠ .fetched) (hss : List (List Nat)) (hfair : Fair cfg hss q) :
    ((∀ x ∈ q, x.status ≠ .failed) → q.length ≤ hss.length * cfg.batch → Served cfg e.key hss q) ∧
    (2 * q.length ≤ hss.length * cfg.batch → Served cfg e.key hss q) := by
  obtain ⟨pre, post, hq⟩ := List.append_of_mem hmem
  have hlen : q.length = pre.length + 1 + post.length := by rw [hq]; simp; omega
  constructor
  · intro hnofail hl
    have hw := wsum_le_length cfg.maxRetries pre (fun x hx => hnofail x (by rw [hq]; exact List.mem_append_left _ hx))
    exact liveness_partial cfg q pre post e hq he hsort hd hnf hss hfair (by omega)
  · intro hl
    have hw := wsum_le cfg.maxRetries pre
    exact liveness_partial cfg q pre post e hq he hsort hd hnf hss hfair (by omega)

/-- non-vacuity of the liveness hypotheses: batch 2, five queued blocks, three rounds in which exactly the fetches in
    flight complete: block (5, 5) is requested in the third round. -/
example : Served { batch := 2 } (5, 5) [[], [1, 2], [3, 4]]
    [⟨1, 1, .queued, 0⟩, ⟨2, 2, .queued, 0⟩, ⟨3, 3, .queued, 0⟩, ⟨4, 4, .queued, 0⟩, ⟨5, 5, .queued, 0⟩] := by
  refine liveness_partial { batch := 2 }
    [⟨1, 1, .queued, 0⟩, ⟨2, 2, .queued, 0⟩, ⟨3, 3, .queued, 0⟩, ⟨4, 4, .queued, 0⟩, ⟨5, 5, .queued, 0⟩]
    [⟨1, 1, .queued, 0⟩, ⟨2, 2, .queued, 0⟩, ⟨3, 3, .queued, 0⟩, ⟨4, 4, .queued, 0⟩]
    [] ⟨5, 5, .queued, 0⟩ rfl rfl ?_ ?_ ?_ _ ?_ ?_
  · unfold SortedBy KeyLe; decide
  · unfold NoDupHash; decide
  · decide
  · refine ⟨by unfold Covers; decide, fun r hr => ?_⟩
    have : r = (selLoop 500 2 [⟨1, 1, .queued, 0⟩, ⟨2, 2, .queued, 0⟩, ⟨3, 3, .queued, 0⟩, ⟨4, 4, .queued, 0⟩, ⟨5, 5, .queued, 0⟩]) := by
      have h : qSelect { batch := 2 } (completeAll [] [⟨1, 1, .queued, 0⟩, ⟨2, 2, .queued, 0⟩, ⟨3, 3, .queued, 0⟩,
        ⟨4, 4, .queued, 0⟩, ⟨5, 5, .queued, 0⟩]) = some (selLoop 500 2 [⟨1, 1, .queued, 0⟩, ⟨2, 2, .queued, 0⟩,
        ⟨3, 3, .queued, 0⟩, ⟨4, 4, .queued, 0⟩, ⟨5, 5, .queued, 0⟩]) := by decide
      rw [h] at hr; exact (Option.some.inj hr).symm
    subst this
    refine ⟨by unfold Covers; decide, fun r hr => ?_⟩
    have : r = (selLoop 500 2 [⟨3, 3, .queued, 0⟩, ⟨4, 4, .queued, 0⟩, ⟨5, 5, .queued, 0⟩]) := by
      have h : qSelect { batch := 2 } (completeAll [1, 2] (selLoop 500 2 [⟨1, 1, .queued, 0⟩, ⟨2, 2, .queued, 0⟩,
        ⟨3, 3, .queued, 0⟩, ⟨4, 4, .queued, 0⟩, ⟨5, 5, .queued, 0⟩]).1) = some (selLoop 500 2 [⟨3, 3, .queued, 0⟩,
        ⟨4, 4, .queued, 0⟩, ⟨5, 5, .queued, 0⟩]) := by decide
      rw [h] at hr; exact (Option.some.inj hr).symm
    subst this
    exact ⟨by unfold Covers; decide, fun _ _ => trivial⟩
  · decide

/-! ## routing glue -/

theorem run_removes (cfg : Cfg) (l : List (Nat × Nat)) : ∀ (s : State),
    run cfg s (l.map (fun ih => Op.remove ih.2)) = some (l.foldl (fun st ih => removeEntry st ih.2) s) := by
  induction l with
  | nil => intro s; rfl
  | cons a l ih => intro s; simp only [List.map_cons, run, step, List.foldl_cons]; exact ih _

/-- `RoutingThread::fetch_next_blocks` (build; select; `remove_entry` for every selected block the network layer
    declines) is a composition of public operations: every state it produces is covered by the theorems above. -/
theorem fetchNext_is_run (cfg : Cfg) (hv : List Nat) (s : State) {s' : State} {req}
    (h : fetchNext cfg hv s = some (s', req)) : ∃ ops, run cfg s ops = some s' := by
  unfold fetchNext at h
  split at h
  · exact absurd h (by simp)
  · rename_i s1 sels hsel
    simp only [Option.some.injEq, Prod.mk.injEq] at h
    obtain ⟨rfl, _⟩ := h
    refine ⟨Op.build hv :: Op.select ::
      (sels.flatMap (fun ps => ps.2.filter (declines cfg (fun h => hv.contains h) ps.1))).map (fun ih => Op.remove ih.2), ?_⟩
    simp only [run, step, hsel, Option.map_some]
    exact run_removes cfg _ _

/-! ## non-vacuity -/

example : (0 : Nat) ∉ ({ batch := 2, urlPeers := [1, 2] } : Cfg).urlPeers := by decide

example : Reachable { batch := 2 } ⟨[], [(1, [⟨1, 1, .fetching, 0⟩, ⟨1, 2, .fetching, 0⟩])]⟩ :=
  ⟨[.add 1 1 1, .add 1 2 1, .build [], .select], by decide⟩

/-- a reachable state with a re-queued entry (retry 1) and a selection -/
example : ∃ s sels, Reachable { batch := 1 } s ∧ select { batch := 1 } s = some (⟨[], [(1, [⟨7, 3, .fetching, 1⟩])]⟩, sels)
    ∧ sels = [(1, [(3, 7)])] :=
  ⟨⟨[], [(1, [⟨7, 3, .queued, 1⟩])]⟩, _, ⟨[.add 1 3 7, .build [], .select, .failed 3 7 1, .select], by decide⟩,
    by decide, rfl⟩

end Saito.C16
