import Saito.Lemmas.Pool
/-!
# C14 — the transaction pool stays consistent with the ledger; it never loses or locks funds

Model: `Saito.Pool` (Model/Mempool.lean). Flags `false` = pinned tree, `true` = repaired.
* `C14_full`, `reachable_inv`: with every listed defect repaired, `PoolInv` (no output spent twice by pooled
  transactions, reservations = inputs of the pooled transactions, every pooled transaction valid against the
  ledger and of type Normal, work counter = sum) is preserved by every pool operation, for every ledger the chain
  hands over after a block addition or reorganisation — hence in every reachable state.
* `C14_spendable`: an unspent output that no pooled transaction spends is accepted when a valid transaction spends it.
* `C14_bundle`: bundling yields a valid block that carries exactly the pool, or leaves the pool unchanged.
* `*_witness`: with the pinned flags each defect is exhibited by a concrete operation sequence (the same sequences
  are replayed on the real code by the harness, corpus/C14/witness.ops); `C14_witness_locked_forever` shows that the
  stale reservation is never released again, whatever happens later.
* `C14_partial*`: what the pinned tree still guarantees.
-/
namespace Saito.C14
open Saito.Pool

/-! ### the property with the defects repaired -/

/-- C14 (invariant step): every pool operation preserves `PoolInv`, whatever ledger the block addition or
    reorganisation produces (`blockAdded u'` carries an arbitrary new ledger `u'`). -/
theorem C14_full (s : Pool × List Nat) (op : Op) (h : PoolInv s.1 s.2) :
    PoolInv (step Flags.fixed s op).1 (step Flags.fixed s op).2 := by
  cases op with
  | arrive t => exact arrive_inv s.1 s.2 t h
  | bundle g => exact bundle_inv Flags.fixed rfl s.1 s.2 g h
  | blockAdded u' btx => exact onBlockAdded_inv Flags.fixed rfl s.1 s.2 u' btx h
  | blockFailed mine btxs => exact onBlockFailed_inv s.1 s.2 mine btxs h

/-- C14 over every interleaving: the invariant holds after every finite sequence of operations -/
theorem reachable_inv (ops : List Op) (s : Pool × List Nat) (h : PoolInv s.1 s.2) :
    PoolInv (run Flags.fixed s ops).1 (run Flags.fixed s ops).2 := by
  induction ops generalizing s with
  | nil => exact h
  | cons op ops ih => exact ih (step Flags.fixed s op) (C14_full s op h)

/-- the empty pool satisfies the invariant over any ledger -/
theorem init_inv (u : List Nat) : PoolInv {} u :=
  ⟨by simp [NoShared], by intro k; simp [inputsOf], by intro t ht; simp at ht, by simp [sumWork]⟩

/-- C14 (no funds locked): in a state satisfying the invariant, a valid Normal transaction with a fresh signature
    whose value inputs are spendable and are spent by no pooled transaction is accepted into the pool. In particular
    (`ins = [(o, true)]`) every unspent output `o` that no pooled transaction spends can be spent. -/
theorem C14_spendable (p : Pool) (u : List Nat) (t : Tx) (h : PoolInv p u)
    (hok : t.ok = true) (hn : t.typ = .normal) (hd : (valueIns t).Nodup)
    (hu : ∀ k ∈ valueIns t, k ∈ u) (hfree : ∀ k ∈ valueIns t, k ∉ inputsOf p.txs)
    (hid : ∀ t' ∈ p.txs, t'.id ≠ t.id) :
    (arrive Flags.fixed u p t).2 = .added ∧ t ∈ (arrive Flags.fixed u p t).1.txs := by
  have hv : validAgainst u t = true := by
    simp only [validAgainst, List.all_eq_true, decide_eq_true_eq]; exact hu
  have hnd : nodupB (valueIns t) = true := (nodupB_iff _).2 hd
  have hg : ((valueIns t).any fun x => decide (x ∈ p.resv)) = false := by
    rw [Bool.eq_false_iff]
    intro hc
    rw [List.any_eq_true] at hc
    obtain ⟨k, hk, hr⟩ := hc
    exact hfree k hk ((h.resv k).1 (by simpa using hr))
  have hdup : (p.txs.any fun x => x.id == t.id) = false := by
    rw [Bool.eq_false_iff]
    intro hc
    rw [List.any_eq_true] at hc
    obtain ⟨t', ht', e⟩ := hc
    exact hid t' ht' (by simpa using e)
  simp [arrive, addTx, hok, hv, hn, hnd, hg, hdup, Flags.fixed]

/-- the single-output form of `C14_spendable` as the property states it -/
theorem C14_spendable_output (p : Pool) (u : List Nat) (o id : Nat) (h : PoolInv p u)
    (hu : o ∈ u) (hfree : o ∉ inputsOf p.txs) (hid : ∀ t' ∈ p.txs, t'.id ≠ id) :
    (arrive Flags.fixed u p { id := id, ins := [(o, true)] }).2 = .added := by
  refine (C14_spendable p u { id := id, ins := [(o, true)] } h rfl rfl ?_ ?_ ?_ hid).1
  · simp [valueIns]
  · intro k hk; simp [valueIns] at hk; subst hk; exact hu
  · intro k hk; simp [valueIns] at hk; subst hk; exact hfree

/-- C14 (bundling): on a state satisfying the invariant, `bundle` either returns a block that carries exactly the
    pooled transactions (all valid against the ledger, all Normal, no output spent twice — a valid block body) and
    leaves the pool without them (empty, no reservation left, work 0), or it returns no block and the pool is
    unchanged. A panic (stale timestamp) also leaves the pool unchanged. -/
theorem C14_bundle (fl : Flags) (ha : fl.bundleAtomic = true) (p : Pool) (u : List Nat) (g : Gates) (h : PoolInv p u) :
    (∀ b, (bundle fl p g).2 = .some b →
        b = p.txs ∧ (bundle fl p g).1.txs = p.txs.filter (fun t => !b.contains t)
        ∧ NoShared b ∧ (∀ t ∈ b, t.ok = true ∧ validAgainst u t = true ∧ t.typ = .normal)
        ∧ (∀ k, k ∉ (bundle fl p g).1.resv) ∧ (bundle fl p g).1.work = 0)
    ∧ ((bundle fl p g).2 = .none → (bundle fl p g).1 = p)
    ∧ ((bundle fl p g).2 = .panic → (bundle fl p g).1 = p) := by
  by_cases h1 : (!g.tsOk) = true
  · cases hc : fl.clockChecked <;> simp [bundle, h1, hc]
  by_cases h2 : (p.txs.isEmpty || !p.newTx) = true
  · simp [bundle, h1, h2]
  by_cases h3 : (!g.ticket || !g.jitter || decide (p.work < g.need)) = true
  · simp [bundle, h1, h2, h3]
  by_cases h4 : dsFree p.txs = true
  · simp only [bundle, h1, h2, h3, h4, if_true, if_false, Bool.false_eq_true]
    refine ⟨?_, by simp, by simp⟩
    intro b hb
    have hb : p.txs = b := by simpa using hb
    subst hb
    refine ⟨rfl, ?_, h.noShared, h.valid, ?_, trivial⟩
    · symm
      rw [List.filter_eq_nil_iff]
      intro t ht
      simp [ht]
    · intro k hk
      have hk : k ∈ removeKeys p.resv (p.txs.flatMap allIns) := hk
      rw [mem_removeKeys, h.resv] at hk
      exact hk.2 hk.1
  · simp [bundle, h1, h2, h3, h4, ha]

/-- without any hypothesis on the state: with atomic bundling, "no block" always means "pool unchanged" -/
theorem C14_bundle_none_unchanged (fl : Flags) (ha : fl.bundleAtomic = true) (p : Pool) (g : Gates)
    (hn : (bundle fl p g).2 = .none) : (bundle fl p g).1 = p := by
  unfold bundle at *
  split at hn <;> try simp_all
  split at hn <;> try simp_all
  split at hn <;> try simp_all
  split at hn <;> simp_all


/-! ### the node as driven by the correspondence run: chain model (ledger) + pool -/

/-- C14 on the combined node model: whatever `Blockchain::add_block` (the chain model, with ANY chain flags, i.e.
    also the pinned ones) does with a delivered block — tip extension, side block, reorganisation, rejection — the
    pool invariant holds afterwards w.r.t. the new ledger, provided a rejected block leaves the ledger's spendable
    set as it was (that is property C04; it is a hypothesis here, proved for the repaired chain flags there). -/
theorem C14_deliver (cfl : Saito.Chain.Flags) (n : Node) (b : Saito.Chain.ABlock) (mine : Bool) (btxs : List Tx) (need : Nat)
    (h : PoolInv n.pool n.chain.utxo)
    (hC04 : (deliver cfl Flags.fixed n b mine btxs need).2 = .invalid →
      ∀ k, k ∈ n.chain.utxo ↔ k ∈ (deliver cfl Flags.fixed n b mine btxs need).1.chain.utxo) :
    PoolInv (deliver cfl Flags.fixed n b mine btxs need).1.pool (deliver cfl Flags.fixed n b mine btxs need).1.chain.utxo := by
  unfold deliver at *
  simp only at *
  generalize Saito.Chain.addBlock cfl n.chain _ [] = r at *
  obtain ⟨c', o⟩ := r
  cases o <;> simp only at * <;> first
    | exact h
    | exact onBlockAdded_inv Flags.fixed rfl n.pool n.chain.utxo c'.utxo _ h
    | exact onBlockFailed_inv n.pool c'.utxo mine btxs (PoolInv_congr _ _ _ (hC04 trivial) h)

/-! ### witnesses on the pinned flags (each replayed on the real code by the harness) -/

def T12 : Tx := { id := 1, ins := [(1, true), (2, true)] }
def T2 : Tx := { id := 3, ins := [(2, true)] }
def T1a : Tx := { id := 1, ins := [(1, true)] }
def T1b : Tx := { id := 2, ins := [(1, true)] }
def TI : Tx := { id := 9, ins := [], typ := .issuance }
def T33 : Tx := { id := 4, ins := [(3, true), (3, true)] }

/-- stale reservation (`releaseOnRemoval = false`): T12 spends {1,2}; a peer block (transaction 7, not pooled)
    spends 1; T12 is dropped, both reservations stay; the valid transaction T2 spending the still unspent 2 is refused. -/
def sStale : Pool × List Nat := run {} ({}, [1, 2]) [.arrive T12, .blockAdded [2, 5] [7]]

theorem stale_reservation_witness :
    sStale.1.txs = [] ∧ sStale.1.resv = [2, 1] ∧ 2 ∈ sStale.2 ∧
    (arrive {} sStale.2 sStale.1 T2).2 = .conflict ∧ ¬ PoolInv sStale.1 sStale.2 := by
  refine ⟨by decide, by decide, by decide, by decide, ?_⟩
  intro h
  have := (h.resv 2).1 (by decide)
  revert this; decide

/-- the same sequence with the release repaired accepts T2 -/
theorem stale_reservation_repaired :
    let s := run Flags.fixed ({}, [1, 2]) [.arrive T12, .blockAdded [2, 5] [7]]
    (arrive Flags.fixed s.2 s.1 T2).2 = .added := by decide

/-- C14 witness, general form: once a reservation is stale it stays stale through EVERY later sequence of arrivals,
    bundles, block additions, reorganisations and rejected blocks, and every transaction that spends the locked
    output is refused — the output is locked for good although the ledger lists it as unspent. -/
theorem C14_witness_locked_forever (fl : Flags) (hr : fl.releaseOnRemoval = false) (k : Nat) (ops : List Op)
    (s : Pool × List Nat) (h : Stale k s.1) (ho : ∀ op ∈ ops, OpAvoids k op) (t : Tx) (hk : k ∈ valueIns t) :
    Stale k (run fl s ops).1 ∧ (arrive fl (run fl s ops).2 (run fl s ops).1 t).2 ≠ .added := by
  induction ops generalizing s with
  | nil =>
    exact ⟨h, arrive_refused fl s.2 s.1 t k hk h.1⟩
  | cons op ops ih =>
    exact ih (step fl s op) (step_stale fl hr k s op h (ho op (by simp))) (fun o ho' => ho o (by simp [ho']))

/-- … and the state reached by the 2-operation witness is such a state for output 2 -/
theorem stale_witness_is_stale : Stale 2 sStale.1 := by
  refine ⟨by decide, ?_⟩
  intro t ht
  have : sStale.1.txs = [] := by decide
  rw [this] at ht; simp at ht

/-- rejected own block (`readdViaAdd = false`): T1a is bundled, the node's own block is rejected, T1a re-enters without
    a reservation; the conflicting T1b is then accepted: two pooled transactions spend output 1. -/
def sReadd : Pool × List Nat :=
  run {} ({}, [1, 2]) [.arrive T1a, .bundle {}, .blockFailed true [T1a], .arrive T1b]

theorem readd_witness :
    sReadd.1.txs = [T1a, T1b] ∧ ¬ NoShared sReadd.1.txs ∧ ¬ PoolInv sReadd.1 sReadd.2 := by
  refine ⟨by decide, ?_, ?_⟩
  · unfold NoShared; decide
  · intro h; exact absurd h.noShared (by unfold NoShared; decide)

/-- bundling is not atomic (`bundleAtomic = false`): from that state `bundle` returns no block, yet both transactions
    are gone; the reservation of output 1 stays although output 1 is unspent. -/
theorem bundle_lost_witness :
    (bundle {} sReadd.1 {}).2 = .none ∧ (bundle {} sReadd.1 {}).1.txs = [] ∧ (bundle {} sReadd.1 {}).1 ≠ sReadd.1 ∧
    (bundle {} sReadd.1 {}).1.resv = [1] ∧ 1 ∈ sReadd.2 := by decide

/-- the same through peer inputs only (`normalOnly = false`): an Issuance-typed transaction is pooled, so the
    node's next block is not valid (it is rejected by the node's own `add_block`: `deliver` below) -/
theorem issuance_witness :
    let p := (run {} ({}, [1, 2]) [.arrive T1a, .arrive TI]).1
    p.txs = [T1a, TI] ∧ (bundle {} p {}).2 = .some [T1a, TI] ∧ ¬ (∀ t ∈ [T1a, TI], t.typ = .normal) := by
  refine ⟨by decide, by decide, ?_⟩
  intro h; exact absurd (h TI (by simp)) (by decide)

/-- repeated input (`dupInputsRejected = false`): T33 lists output 3 twice, is pooled, and the next bundle loses
    every pooled transaction (here also the innocent T1a) and leaves their reservations behind. -/
theorem repeated_input_witness :
    let p := (run {} ({}, [1, 2, 3]) [.arrive T1a, .arrive T33]).1
    p.txs = [T1a, T33] ∧ (bundle {} p {}).2 = .none ∧ (bundle {} p {}).1.txs = [] ∧ (bundle {} p {}).1.resv = [3, 1] := by
  decide


/-- stale work counter: the failed bundle of `repeated_input_witness` leaves `work = 7` behind with an empty pool; a
    work-less transaction T2 then passes the routing-work gate of `can_bundle_block` (need 5) although the block
    carries no work — the node's own `add_block` rejects it (`deliver`: `need ≤ sumWork` fails). -/
theorem stale_work_witness :
    let p0 := (run {} ({}, [1, 2, 3]) [.arrive { T1a with work := 7 }, .arrive T33, .bundle {}]).1
    let p1 := (arrive {} [1, 2, 3] p0 T2).1
    p0.txs = [] ∧ p0.work = 7 ∧ (bundle {} p1 { need := 5 }).2 = .some [T2] ∧ sumWork [T2] < 5 := by decide

/-- with every flag repaired the four attack sequences are harmless: the invariant holds at the end -/
theorem witnesses_repaired :
    PoolInv (run Flags.fixed ({}, [1, 2]) [.arrive T1a, .bundle {}, .blockFailed true [T1a], .arrive T1b, .bundle {}]).1 [1, 2] ∧
    PoolInv (run Flags.fixed ({}, [1, 2, 3]) [.arrive T1a, .arrive TI, .arrive T33, .bundle {}]).1 [1, 2, 3] :=
  ⟨reachable_inv _ ({}, [1, 2]) (init_inv _), reachable_inv _ ({}, [1, 2, 3]) (init_inv _)⟩

/-! ### what the pinned tree still guarantees -/

/-- every pooled transaction passed validation and is valid against the current ledger -/
def AllValid (p : Pool) (u : List Nat) : Prop := ∀ t ∈ p.txs, t.ok = true ∧ validAgainst u t = true

/-- C14_partial (validity), for EVERY flag setting incl. the pinned one: after every operation every pooled
    transaction is valid against the ledger. (Missing w.r.t. the full property: exclusivity of inputs, reservations,
    work counter, atomic bundling.) -/
theorem C14_partial_valid (fl : Flags) (s : Pool × List Nat) (op : Op) (h : AllValid s.1 s.2) :
    AllValid (step fl s op).1 (step fl s op).2 := by
  cases op with
  | arrive t =>
    simp only [step, arrive]
    split
    · exact h
    · rename_i h1
      split
      · exact h
      · split
        · exact h
        · unfold addTx
          split
          · exact h
          · split
            · exact h
            · split
              · exact h
              · intro t' ht'
                have : t' ∈ s.1.txs ∨ t' = t := by simpa using ht'
                rcases this with h2 | h2
                · exact h t' h2
                · subst h2; simpa using h1
  | bundle g =>
    simp only [step, bundle]
    split
    · exact h
    · split
      · exact h
      · split
        · exact h
        · split
          · intro t ht; simp at ht
          · split
            · exact h
            · intro t ht; simp at ht
  | blockAdded u' btx =>
    simp only [step, onBlockAdded]
    intro t ht
    simp only [List.mem_filter] at ht
    exact ⟨(h t ht.1.1).1, ht.1.2⟩
  | blockFailed mine btxs =>
    simp only [step, onBlockFailed]
    split
    · exact h
    · generalize hb : (btxs.filter _) = back
      have hback : ∀ t ∈ back, t.ok = true ∧ validAgainst s.2 t = true := by
        intro t ht
        rw [← hb] at ht
        have := (List.mem_filter.1 ht).2
        simp only [Bool.and_eq_true] at this
        exact ⟨this.1.1.2, this.1.2⟩
      clear hb
      split
      · have : ∀ (q : Pool), AllValid q s.2 → AllValid (back.foldl (fun q t => (addTx q t).1) q) s.2 := by
          induction back with
          | nil => intro q hq; exact hq
          | cons t back ih =>
            intro q hq
            simp only [List.foldl_cons]
            apply ih (fun t' ht' => hback t' (by simp [ht']))
            unfold addTx
            split
            · exact hq
            · split
              · exact hq
              · split
                · exact hq
                · intro t' ht'
                  have : t' ∈ q.txs ∨ t' = t := by simpa using ht'
                  rcases this with h2 | h2
                  · exact hq t' h2
                  · subst h2; exact hback t' (by simp)
        exact this s.1 h
      · have : ∀ (l : List Tx), (∀ t ∈ l, t.ok = true ∧ validAgainst s.2 t = true) →
            ∀ t ∈ back.foldl (fun l t => if l.any (·.id == t.id) then l else l ++ [t]) l,
              t.ok = true ∧ validAgainst s.2 t = true := by
          induction back with
          | nil => intro l hl; exact hl
          | cons t back ih =>
            intro l hl
            simp only [List.foldl_cons]
            apply ih (fun t' ht' => hback t' (by simp [ht']))
            split
            · exact hl
            · intro t' ht'
              have : t' ∈ l ∨ t' = t := by simpa using ht'
              rcases this with h1 | h1
              · exact hl t' h1
              · subst h1; exact hback t' (by simp)
        exact this s.1.txs h

/-- no two DIFFERENT pooled transactions share a value input, and every input of a pooled transaction is reserved -/
def Weak (p : Pool) : Prop :=
  p.txs.Pairwise (fun a b => ∀ k ∈ valueIns a, k ∉ valueIns b) ∧ ∀ t ∈ p.txs, ∀ k ∈ allIns t, k ∈ p.resv

/-- C14_partial (exclusivity) on the PINNED flags: as long as no block of the node's own is rejected, arrivals
    (valid, conflicting, duplicate, even with repeated inputs), bundles, block additions and reorganisations keep
    "no two pooled transactions spend the same output" — the duplicate-input guard of `add_transaction` does work
    while reservations cover the pool. (Missing: the rejected-own-block path, which drops the reservations; a single
    transaction spending one output twice; release of reservations.) -/
theorem C14_partial (s : Pool × List Nat) (op : Op) (h : Weak s.1)
    (hop : ∀ btxs, op ≠ .blockFailed true btxs) : Weak (step {} s op).1 := by
  cases op with
  | arrive t =>
    simp only [step, arrive]
    split
    · exact h
    · split
      · exact h
      · split
        · exact h
        · unfold addTx
          split
          · exact h
          · rename_i hg
            split
            · exact h
            · have hnew : ∀ a ∈ s.1.txs, ∀ k ∈ valueIns a, k ∉ valueIns t := by
                intro a ha k hk hkt
                apply hg
                rw [List.any_eq_true]
                exact ⟨k, hkt, by simpa using h.2 a ha k (valueIns_sub_allIns a k hk)⟩
              split
              · exact h
              · refine ⟨?_, ?_⟩
                · show List.Pairwise _ (s.1.txs ++ [t])
                  rw [List.pairwise_append]
                  refine ⟨h.1, by simp, ?_⟩
                  intro a ha b hb
                  have : b = t := by simpa using hb
                  subst this
                  exact hnew a ha
                · intro t' ht' k hk
                  show k ∈ (allIns t).foldl Saito.Chain.uInsert s.1.resv
                  rw [Saito.Chain.mem_foldl_uInsert]
                  have : t' ∈ s.1.txs ∨ t' = t := by simpa using ht'
                  rcases this with h1 | h1
                  · exact Or.inr (h.2 t' h1 k hk)
                  · subst h1; exact Or.inl hk
  | bundle g =>
    simp only [step, bundle]
    split
    · exact h
    · split
      · exact h
      · split
        · exact h
        · split
          · exact ⟨by simp, by intro t ht; simp at ht⟩
          · split
            · exact h
            · exact ⟨by simp, by intro t ht; simp at ht⟩
  | blockAdded u' btx =>
    simp only [step, onBlockAdded]
    refine ⟨(h.1.filter _).filter _, ?_⟩
    intro t ht k hk
    simp only [List.mem_filter] at ht
    exact h.2 t ht.1.1 k hk
  | blockFailed mine btxs =>
    cases mine with
    | true => exact absurd rfl (hop btxs)
    | false => simp only [step, onBlockFailed]; exact h

/-! ### non-vacuity: concrete states meeting the hypotheses -/

/-- a non-empty pool over a non-trivial ledger satisfies the invariant … -/
example : PoolInv (run Flags.fixed ({}, [1, 2, 3]) [.arrive T12]).1 [1, 2, 3] :=
  reachable_inv _ ({}, [1, 2, 3]) (init_inv _)
example : (run Flags.fixed ({}, [1, 2, 3]) [.arrive T12]).1.txs = [T12] := by decide
/-- … output 3 is unspent and free there, and `C14_spendable_output` applies to it -/
example : (arrive Flags.fixed [1, 2, 3] (run Flags.fixed ({}, [1, 2, 3]) [.arrive T12]).1 { id := 5, ins := [(3, true)] }).2 = .added := by
  decide
/-- `C14_bundle`'s `some` branch is reachable -/
example : (bundle Flags.fixed (run Flags.fixed ({}, [1, 2, 3]) [.arrive T12]).1 {}).2 = .some [T12] := by decide
/-- `Weak` holds for a pinned-flags pool with two transactions, and `OpAvoids` / `Stale` are inhabited (see `stale_witness_is_stale`) -/
example : Weak (run {} ({}, [1, 2, 3]) [.arrive T12, .arrive { id := 5, ins := [(3, true)] }]).1 := by
  unfold Weak; decide

end Saito.C14

/-! ### a refused transaction reserves nothing -/
namespace Saito.C14
open Saito.Pool

/-- a transaction that is not admitted (rejected, conflicting with a pooled one in ANY of its value-carrying inputs, or a
    duplicate) leaves the pool — its transactions and every reservation — exactly as it was, for every flag vector -/
theorem refused_arrival_changes_nothing (fl : Flags) (u : List Nat) (p : Pool) (t : Tx)
    (h : (arrive fl u p t).2 = .rejected ∨ (arrive fl u p t).2 = .conflict ∨ (arrive fl u p t).2 = .dup) :
    (arrive fl u p t).1 = p := by
  unfold arrive at h ⊢
  split
  · rfl
  · split
    · rfl
    · split
      · rfl
      · unfold addTx at h ⊢
        split
        · rfl
        · split
          · rfl
          · exfalso
            rename_i h1 h2 h3 h4 h5
            simp only [h1, h2, h3, h4, h5, Bool.false_eq_true, if_false] at h
            split at h <;> simp at h

/-- hence an output that was free before a refused arrival is free after it: the free input of a transaction refused for ANOTHER
    input of it can still be spent by a later transaction -/
theorem refused_arrival_keeps_free_outputs_free (fl : Flags) (u : List Nat) (p : Pool) (t : Tx) (k : Nat)
    (h : (arrive fl u p t).2 = .conflict) (hk : k ∉ p.resv) : k ∉ (arrive fl u p t).1.resv := by
  rw [refused_arrival_changes_nothing fl u p t (Or.inr (Or.inl h))]; exact hk

/-- non-vacuity: a pooled transaction spends output 2; a second one spends the free output 1 and output 2: refused, 1 stays free -/
example :
    let t1 : Tx := { id := 1, typ := .normal, ins := [(2, true)], ok := true, work := 0 }
    let t2 : Tx := { id := 2, typ := .normal, ins := [(1, true), (2, true)], ok := true, work := 0 }
    let p := (arrive Flags.fixed [1, 2] {} t1).1
    (arrive Flags.fixed [1, 2] p t2).2 = .conflict ∧ 1 ∉ (arrive Flags.fixed [1, 2] p t2).1.resv := by decide

end Saito.C14
