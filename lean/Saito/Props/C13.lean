import Saito.Lemmas.Atr
import Saito.Model.AtrScan
/-!
# C13 — automatic rebroadcast preserves ownership at the retention-window edge

Theorems over the ATR model (`Saito/Model/Atr.lean`, tied to `Block::generate_consensus_values`,
`Transaction::create_rebroadcast_transaction`, `Slip::validate`, `Block::on_chain_reorganization` and
`Blockchain::add_block` by the `atr` correspondence suite).

Setting: block `n` is built on a chain whose block `e = n − gp − 1` has the outputs `outs` (in block order, with the
serialized size of their transaction); `u` is the spendable set when `n` is built; `R = atrStep fl p u outs` is what
the ATR section computes: the ATR transactions `R.rbs` (input slip `inp`, output slip `out`; `src` = the output of `e`
the transaction was made from) and the dust-collected outputs `R.dust`.

`KeyOk fl p`: the input slip of an ATR transaction carries the utxo key of the output it rebroadcasts — true with the
repaired flag `atrSpendsOriginalKey`, and on the pinned tree exactly when the payout multiplier is 1 (`mult p = 1`,
i.e. previous treasury < gp · previous average rebroadcast volume).
NFT (Bound) triples are outside the model.
-/
namespace Saito.C13
open Saito.Atr

/-! `KeyOk`, and the core statements parameterised by it, live in `Saito/Lemmas/Atr.lean`; here: `_full` statements for the
repaired flags, `_partial` statements for the pinned flags (multiplier 1), witnesses. -/

/-! ## the property at full strength, for the repaired flags -/

/-- every still-unspent (eligible) output of the expiring block is handled exactly once by block `n`: it is the
    input of exactly one ATR transaction, or it is dust-collected exactly once — never both, never neither -/
theorem atr_exactly_once (fl : Flags) (hf : fl.atrSpendsOriginalKey = true) (p : Params) (u : List Slip)
    (outs : List Out) (hnd : (outs.map (·.s)).Nodup) (o : Out) (ho : o ∈ outs) (hel : eligible u o.s = true) :
    ((atrStep fl p u outs).rbs.map (·.inp)).count o.s + (atrStep fl p u outs).dust.count o.s = 1 :=
  exactly_once_core (Or.inl hf) u outs hnd o ho hel

/-- which of the two: rebroadcast iff value·multiplier exceeds the fee, otherwise the value is collected as fees -/
theorem atr_rebroadcast_or_dust (fl : Flags) (hf : fl.atrSpendsOriginalKey = true) (p : Params) (u : List Slip)
    (outs : List Out) (o : Out) (ho : o ∈ outs) (hel : eligible u o.s = true) :
    (feeOf p o < o.s.amt * mult p → o.s ∈ (atrStep fl p u outs).rbs.map (·.inp)) ∧
    (o.s.amt * mult p ≤ feeOf p o → o.s ∈ (atrStep fl p u outs).dust) := by
  have hk : KeyOk fl p := Or.inl hf
  constructor
  · intro h
    rw [atrStep_map_inp]
    cases hd : dispOf fl p u o with
    | skip => rw [dispOf_skip hd] at hel; cases hel
    | dust => exact absurd (dispOf_dust hd).2 (Nat.not_le.2 h)
    | rb r =>
      have hr := (dispOf_rb hd).2.2
      refine List.mem_map.2 ⟨r, mem_rbsPre.2 ⟨o, ho, hd⟩, ?_⟩
      rw [hr]; exact inputOf_eq hk o.s
  · intro h
    cases hd : dispOf fl p u o with
    | skip => rw [dispOf_skip hd] at hel; cases hel
    | dust => exact mem_dustOf.2 ⟨o, ho, hd, rfl⟩
    | rb r => exact absurd (dispOf_rb hd).2.1 (Nat.not_lt.2 h)

/-- the dust-collected value is exactly what is added to the block's ATR fees (no cap) -/
theorem atr_dust_collected_as_fees (fl : Flags) (p : Params) (u : List Slip) (outs : List Out)
    (hc : (atrStep fl p u outs).capped = false) :
    (atrStep fl p u outs).feesAtr = sumBy (·.fee) (rbsPre fl p u outs) + sumBy (·.amt) (atrStep fl p u outs).dust := by
  have hc' : isCapped fl p u outs = false := hc
  simp [atrStep, hc', dustFeesOf]

/-- same owner; new amount = value + treasury payout share − rebroadcast fee, exactly as the code computes it
    (payout share = value · (multiplier − 1); with the 5 % cap: value + value · adjusted multiplier, fee waived) -/
theorem atr_same_owner_value (fl : Flags) (hf : fl.atrSpendsOriginalKey = true) (p : Params) (u : List Slip)
    (outs : List Out) (r : Rb) (hr : r ∈ (atrStep fl p u outs).rbs) :
    r.inp = r.src ∧ r.out.owner = r.inp.owner ∧ r.out.typ = typATR ∧
    ((atrStep fl p u outs).capped = false →
        r.out.amt + r.fee = r.inp.amt + r.inp.amt * (mult p - 1) ∧ r.fee < r.inp.amt * mult p) ∧
    ((atrStep fl p u outs).capped = true → r.out.amt = r.inp.amt + r.inp.amt * adjOf fl p u outs) :=
  same_owner_value_core (Or.inl hf) u outs r hr

/-- after winding block `n` the original of every rebroadcast output is no longer spendable -/
theorem atr_original_unspendable (fl : Flags) (hf : fl.atrSpendsOriginalKey = true) (p : Params) (u : List Slip)
    (outs : List Out) (hblk : ∀ o ∈ outs, o.s.blk < p.n) (r : Rb) (hr : r ∈ (atrStep fl p u outs).rbs) :
    r.src ∉ windAtr (atrStep fl p u outs).rbs u :=
  original_unspendable_core (Or.inl hf) u outs hblk r hr

/-- no other output is rebroadcast: every ATR transaction of block `n` spends an eligible output of `e` that can
    pay the fee -/
theorem atr_nothing_else (fl : Flags) (hf : fl.atrSpendsOriginalKey = true) (p : Params) (u : List Slip)
    (outs : List Out) (r : Rb) (hr : r ∈ (atrStep fl p u outs).rbs) :
    ∃ o ∈ outs, eligible u o.s = true ∧ feeOf p o < o.s.amt * mult p ∧ r.inp = o.s :=
  nothing_else_core (Or.inl hf) u outs r hr

/-- nothing is rebroadcast twice: the ATR inputs of one block are pairwise distinct … -/
theorem atr_not_twice (fl : Flags) (hf : fl.atrSpendsOriginalKey = true) (p : Params) (u : List Slip)
    (outs : List Out) (hnd : (outs.map (·.s)).Nodup) : ((atrStep fl p u outs).rbs.map (·.inp)).Nodup :=
  not_twice_core (Or.inl hf) u outs hnd

/-- … and an output rebroadcast once is never selected again against the resulting ledger -/
theorem atr_not_twice_later (fl : Flags) (hf : fl.atrSpendsOriginalKey = true) (p : Params) (u : List Slip)
    (outs : List Out) (hblk : ∀ o ∈ outs, o.s.blk < p.n) (p' : Params) (o : Out)
    (hsrc : o.s ∈ (atrStep fl p u outs).rbs.map (·.src)) :
    dispOf fl p' (windAtr (atrStep fl p u outs).rbs u) o = .skip :=
  not_twice_later_core (Or.inl hf) u outs hblk p' o hsrc

/-- an output of a block older than the window is rejected as an input of a transaction of block `n` -/
theorem expired_unspendable (fl : Flags) (hw : fl.windowChecked = true) (gp n : Nat) (u : List Slip) (s : Slip)
    (hpos : 0 < s.amt) (hold : s.blk + gp < n) : validateIn fl gp n u s = false := by
  unfold validateIn
  have h0 : (s.amt == 0) = false := by simp; omega
  have : decide (n ≤ s.blk + gp) = false := by simp; omega
  simp [h0, hw, this]

/-- in particular every value-carrying output of the expiring block `e = n − gp − 1`, rebroadcast or dust-collected,
    is unspendable in block `n` and in every later block -/
theorem expired_unspendable_after_atr (fl : Flags) (hw : fl.windowChecked = true) (p : Params) (u : List Slip)
    (o : Out) (he : o.s.blk + p.gp + 1 = p.n) (hpos : 0 < o.s.amt) (m : Nat) (hm : p.n ≤ m) :
    validateIn fl p.gp m u o.s = false :=
  expired_unspendable fl hw p.gp m u o.s hpos (by omega)

/-- value is conserved by an uncapped ATR step: what reappears plus what is collected as fees equals what left the
    window plus what the treasury pays -/
theorem atr_value_conserved (fl : Flags) (p : Params) (u : List Slip) (outs : List Out)
    (hc : (atrStep fl p u outs).capped = false) :
    sumBy (·.out.amt) (atrStep fl p u outs).rbs + (atrStep fl p u outs).feesAtr
      = (atrStep fl p u outs).nolan + (atrStep fl p u outs).payout := by
  have hc' : isCapped fl p u outs = false := hc
  have hm : 1 ≤ mult p := by unfold mult; omega
  have key : ∀ l : List Out, sumBy (·.out.amt) (rbsPre fl p u l) + sumBy (·.fee) (rbsPre fl p u l)
      = sumBy (·.src.amt) (rbsPre fl p u l) + sumBy (fun r => r.src.amt * mult p - r.src.amt) (rbsPre fl p u l) := by
    intro l
    induction l with
    | nil => simp [rbsPre, sumBy]
    | cons o os ih =>
      unfold rbsPre
      cases hd : dispOf fl p u o with
      | skip => simpa using ih
      | dust => simpa using ih
      | rb r =>
        obtain ⟨_, hfee, hr⟩ := dispOf_rb hd
        have e1 : r.out.amt = o.s.amt * mult p - feeOf p o := by rw [hr]
        have e2 : r.fee = feeOf p o := by rw [hr]
        have e3 : r.src.amt = o.s.amt := by rw [hr]
        have hge : o.s.amt ≤ o.s.amt * mult p := Nat.le_mul_of_pos_right _ hm
        simp only [sumBy, e1, e2, e3]
        omega
  simp only [atrStep, hc', Bool.false_eq_true, if_false, finalRbs, sumBy_number_out, nolanOf, payoutPre]
  have := key outs
  omega

/-- with the cap computed from the parent's treasury and the commitment taken over the final transactions the node
    accepts the ATR values of the block it produced itself -/
theorem own_block_accepted (fl : Flags) (hc : fl.atrCapUsesParentTreasury = true) (hh : fl.atrHashCoversFinalTxs = true)
    (p : Params) (u : List Slip) (outs : List Out) : selfAccepts fl p u outs = true := by
  have hcap : ∀ q : Params, capBase fl q = q.prevTreasury := by intro q; simp [capBase, hc]
  have hdisp : ∀ o, dispOf fl { p with selfTreasury := 0 } u o = dispOf fl p u o := by
    intro o; simp [dispOf, feeOf, mult, inputOf]
  have hpre : ∀ l, rbsPre fl { p with selfTreasury := 0 } u l = rbsPre fl p u l := by
    intro l; induction l with
    | nil => rfl
    | cons o os ih => simp only [rbsPre, hdisp, ih]
  have hdust : ∀ l, dustOf fl { p with selfTreasury := 0 } u l = dustOf fl p u l := by
    intro l; induction l with
    | nil => rfl
    | cons o os ih => simp only [dustOf, hdisp, ih]
  have hstep : atrStep fl { p with selfTreasury := 0 } u outs = atrStep fl p u outs := by
    simp only [atrStep, finalRbs, isCapped, adjOf, payoutPre, nolanOf, dustFeesOf, hpre, hdust, hcap, mult]
  have hsig : ∀ n k l, (number n k l).map sig = l.map sig := by
    intro n k l; induction l generalizing k with
    | nil => rfl
    | cons r rs ih => simp [number, sig, ih]
  have hlen : (finalRbs fl p u outs).length = (rbsPre fl p u outs).length := by
    unfold finalRbs; split <;> simp
  unfold selfAccepts produce
  rw [hstep]
  simp [atrStep, hh, hsig, number_length, hlen]

/-- with the repaired input slip every ATR transaction of the produced block spends a spendable slip: a node that
    propagates the per-transaction verdict (`txVerdictPropagated`) does not reject its own block for that reason -/
theorem own_block_inputs_valid (fl : Flags) (hf : fl.atrSpendsOriginalKey = true) (p : Params) (u : List Slip)
    (outs : List Out) : atrInputsValid fl p u outs = true :=
  atrInputsValid_of_keyOk (Or.inl hf) u outs

/-! ## what holds on the pinned tree: everything, as long as the payout multiplier is 1 -/

theorem atr_exactly_once_partial (p : Params) (hm : mult p = 1) (u : List Slip) (outs : List Out)
    (hnd : (outs.map (·.s)).Nodup) (o : Out) (ho : o ∈ outs) (hel : eligible u o.s = true) :
    ((atrStep {} p u outs).rbs.map (·.inp)).count o.s + (atrStep {} p u outs).dust.count o.s = 1 :=
  exactly_once_core (Or.inr hm) u outs hnd o ho hel

theorem atr_same_owner_value_partial (p : Params) (hm : mult p = 1) (u : List Slip) (outs : List Out) (r : Rb)
    (hr : r ∈ (atrStep {} p u outs).rbs) :
    r.inp = r.src ∧ r.out.owner = r.inp.owner ∧ r.out.typ = typATR ∧
    ((atrStep {} p u outs).capped = false →
        r.out.amt + r.fee = r.inp.amt + r.inp.amt * (mult p - 1) ∧ r.fee < r.inp.amt * mult p) ∧
    ((atrStep {} p u outs).capped = true → r.out.amt = r.inp.amt + r.inp.amt * adjOf {} p u outs) :=
  same_owner_value_core (Or.inr hm) u outs r hr

theorem atr_original_unspendable_partial (p : Params) (hm : mult p = 1) (u : List Slip) (outs : List Out)
    (hblk : ∀ o ∈ outs, o.s.blk < p.n) (r : Rb) (hr : r ∈ (atrStep {} p u outs).rbs) :
    r.src ∉ windAtr (atrStep {} p u outs).rbs u :=
  original_unspendable_core (Or.inr hm) u outs hblk r hr

theorem atr_nothing_else_partial (p : Params) (hm : mult p = 1) (u : List Slip) (outs : List Out) (r : Rb)
    (hr : r ∈ (atrStep {} p u outs).rbs) :
    ∃ o ∈ outs, eligible u o.s = true ∧ feeOf p o < o.s.amt * mult p ∧ r.inp = o.s :=
  nothing_else_core (Or.inr hm) u outs r hr

theorem atr_not_twice_partial (p : Params) (hm : mult p = 1) (u : List Slip) (outs : List Out)
    (hnd : (outs.map (·.s)).Nodup) : ((atrStep {} p u outs).rbs.map (·.inp)).Nodup :=
  not_twice_core (Or.inr hm) u outs hnd

/-- selection is exact for ANY flags and ANY multiplier: every eligible output of `e` is the SOURCE of exactly one ATR
    transaction or is dust-collected exactly once, never both (on the pinned tree only the input KEY is wrong) -/
theorem atr_exactly_once_src_partial (fl : Flags) (p : Params) (u : List Slip) (outs : List Out)
    (hnd : (outs.map (·.s)).Nodup) (o : Out) (ho : o ∈ outs) (hel : eligible u o.s = true) :
    ((atrStep fl p u outs).rbs.map (·.src)).count o.s + (atrStep fl p u outs).dust.count o.s = 1 :=
  exactly_once_src fl p u outs hnd o ho hel

/-- the same for the pinned input slip while the multiplier is 1 -/
theorem own_block_inputs_valid_partial (fl : Flags) (p : Params) (hm : mult p = 1) (u : List Slip) (outs : List Out) :
    atrInputsValid fl p u outs = true :=
  atrInputsValid_of_keyOk (Or.inr hm) u outs

/-- with multiplier 1 nothing is paid by the treasury, the cap never applies, and the node accepts its own block -/
theorem own_block_accepted_partial (p : Params) (hm : mult p = 1) (u : List Slip) (outs : List Out) :
    (atrStep {} p u outs).capped = false ∧ (atrStep {} p u outs).payout = 0 := by
  have h0 : payoutPre {} p u outs = 0 := by
    unfold payoutPre
    generalize rbsPre {} p u outs = l
    induction l with
    | nil => rfl
    | cons r rs ih => rw [sumBy, ih]; simp [hm]
  have hc : isCapped {} p u outs = false := by simp [isCapped, h0]
  exact ⟨hc, by simp [atrStep, hc, h0]⟩

/-! ## witnesses: the pinned flags violate the property (concrete inputs = the reproduced histories) -/

/-- history `w-reject`, block 8 (gp 5, previous treasury 1000, previous average rebroadcast 12: multiplier 17) -/
def wP : Params := { n := 8, gp := 5, base := 3, fpb := 0, prevTreasury := 1000, prevAvgNolan := 12, selfTreasury := 1500 }
def wOuts : List Out := [⟨⟨1, 2, 0, 0, 0, 0⟩, 308⟩, ⟨⟨1, 2, 1, 0, 49998943, 0⟩, 330⟩, ⟨⟨4, 2, 1, 1, 50, 0⟩, 330⟩, ⟨⟨5, 2, 1, 2, 7, 0⟩, 330⟩]
def wU : List Slip := [⟨4, 2, 1, 1, 50, 0⟩, ⟨5, 2, 1, 2, 7, 0⟩]

/-- `atrSpendsOriginalKey` off: the ATR input is (…, amount 850), the original (…, amount 50) stays spendable next to
    its replacement of 850 -/
theorem original_key_witness :
    (⟨4, 2, 1, 1, 50, 0⟩ : Slip) ∈ windAtr (produce {} wP wU wOuts).rbs wU ∧
    (⟨4, 8, 3, 0, 850, 1⟩ : Slip) ∈ windAtr (produce {} wP wU wOuts).rbs wU ∧
    (⟨4, 2, 1, 1, 50, 0⟩ : Slip) ∉ (produce {} wP wU wOuts).rbs.map (·.inp) := by decide +kernel

/-- the same step with the repaired input slip removes the original -/
theorem original_key_fixed_example :
    (⟨4, 2, 1, 1, 50, 0⟩ : Slip) ∉ windAtr (atrStep Flags.fixed wP wU wOuts).rbs wU := by decide +kernel

/-- `atrCapUsesParentTreasury` off: producer (treasury 0 → cap → payout 0) and validator (treasury 1500 → payout 969)
    disagree: the node rejects its own block -/
theorem own_block_rejected_witness :
    ownBlock {} wP wU wOuts = .invalid ∧ (produce {} wP wU wOuts).payout = 0 ∧ (atrStep {} wP wU wOuts).payout = 969 := by
  decide +kernel

/-- history `w-mint`, block 8: the eligible value (87) exceeds 5 % of the treasury, both sides cap with adjusted
    multiplier 0: the block is accepted, 80 reappears as 1360 and the treasury pays nothing — value is minted and the
    supply check panics -/
def mOuts : List Out := [⟨⟨1, 2, 0, 0, 0, 0⟩, 308⟩, ⟨⟨1, 2, 1, 0, 49998913, 0⟩, 330⟩, ⟨⟨4, 2, 1, 1, 80, 0⟩, 330⟩, ⟨⟨5, 2, 1, 2, 7, 0⟩, 330⟩]
def mU : List Slip := [⟨4, 2, 1, 1, 80, 0⟩, ⟨5, 2, 1, 2, 7, 0⟩]
theorem minted_value_witness :
    ownBlock {} wP mU mOuts = .supplyPanic ∧ (produce {} wP mU mOuts).payout = 0 ∧
    (produce {} wP mU mOuts).rbs.map (·.out.amt) = [1360, 119] ∧
    (⟨4, 2, 1, 1, 80, 0⟩ : Slip) ∈ windAtr (produce {} wP mU mOuts).rbs mU := by decide +kernel

/-- `txVerdictPropagated`: the same block (`w-mint`, block 8) — its ATR inputs (amounts 1360, 119) are not in the utxo
    set. Pinned: the verdict is discarded, the block is wound and the supply check panics; with the verdict
    propagated (and nothing else repaired) the node rejects the block it produced -/
theorem tx_verdict_witness :
    atrInputsValid {} wP mU mOuts = false ∧
    ownBlock {} wP mU mOuts = .supplyPanic ∧
    ownBlock { txVerdictPropagated := true } wP mU mOuts = .invalid ∧
    ownBlock Flags.fixed wP mU mOuts = .ok := by decide +kernel

/-- history `w-hash`, block 10 (fee per byte 10, multiplier 3, cap on both sides): fees and payout agree, the
    commitment hash does not, because it is taken before the cap branch rewrites the amounts -/
def hP : Params := { n := 10, gp := 5, base := 2, fpb := 10, prevTreasury := 9000, prevAvgNolan := 669, selfTreasury := 12028 }
def hOuts : List Out := [⟨⟨1, 4, 0, 0, 0, 0⟩, 308⟩, ⟨⟨1, 4, 1, 0, 49981829, 0⟩, 331⟩, ⟨⟨2, 4, 1, 1, 50, 0⟩, 331⟩, ⟨⟨3, 4, 1, 2, 7, 0⟩, 331⟩,
  ⟨⟨1, 4, 2, 0, 3000, 5⟩, 270⟩, ⟨⟨1, 4, 2, 1, 3000, 7⟩, 270⟩, ⟨⟨1, 4, 2, 2, 3000, 7⟩, 270⟩]
def hU : List Slip := [⟨1, 4, 2, 0, 3000, 5⟩, ⟨1, 4, 2, 1, 3000, 7⟩, ⟨1, 4, 2, 2, 3000, 7⟩, ⟨2, 4, 1, 1, 50, 0⟩, ⟨3, 4, 1, 2, 7, 0⟩]
theorem commitment_hash_witness :
    (atrStep {} hP hU hOuts).feesAtr = (produce {} hP hU hOuts).feesAtr ∧
    (atrStep {} hP hU hOuts).payout = (produce {} hP hU hOuts).payout ∧
    ((atrStep {} hP hU hOuts).hashed.map sig == (produce {} hP hU hOuts).rbs.map sig) = false ∧
    ownBlock {} hP hU hOuts = .invalid := by decide +kernel

/-- `windowChecked` off: a dust-collected output (50 < fee 331·9) is not spent by anything, stays in the set, and
    a later transaction spending it validates -/
def dP : Params := { n := 8, gp := 5, base := 2, fpb := 9, prevTreasury := 6000, prevAvgNolan := 1012, selfTreasury := 9000 }
theorem window_witness :
    (atrStep {} dP wU wOuts).dust = [⟨1, 2, 0, 0, 0, 0⟩, ⟨4, 2, 1, 1, 50, 0⟩, ⟨5, 2, 1, 2, 7, 0⟩] ∧
    (⟨4, 2, 1, 1, 50, 0⟩ : Slip) ∈ windAtr (atrStep {} dP wU wOuts).rbs wU ∧
    validateIn {} 5 9 (windAtr (atrStep {} dP wU wOuts).rbs wU) ⟨4, 2, 1, 1, 50, 0⟩ = true ∧
    validateIn Flags.fixed 5 9 (windAtr (atrStep {} dP wU wOuts).rbs wU) ⟨4, 2, 1, 1, 50, 0⟩ = false := by decide +kernel

/-! ## non-vacuity -/

/-- distinct outputs, an eligible one, all older than `n` -/
example : (wOuts.map (·.s)).Nodup ∧ (∀ o ∈ wOuts, o.s.blk < wP.n) ∧ eligible wU ⟨4, 2, 1, 1, 50, 0⟩ = true := by decide +kernel
/-- a step with three rebroadcasts (multiplier 1, fee per byte 2) and one dust output -/
def nvP : Params := { n := 20, gp := 5, base := 2, fpb := 2, prevTreasury := 100, prevAvgNolan := 900, selfTreasury := 100 }
def nvOuts : List Out := [⟨⟨2, 14, 1, 0, 5000, 0⟩, 300⟩, ⟨⟨3, 14, 1, 1, 90, 0⟩, 300⟩, ⟨⟨4, 14, 2, 0, 7000, 1⟩, 500⟩, ⟨⟨5, 14, 3, 0, 2000, 5⟩, 270⟩, ⟨⟨5, 14, 3, 1, 444, 7⟩, 270⟩]
def nvU : List Slip := [⟨2, 14, 1, 0, 5000, 0⟩, ⟨3, 14, 1, 1, 90, 0⟩, ⟨4, 14, 2, 0, 7000, 1⟩, ⟨5, 14, 3, 0, 2000, 5⟩]
example : mult nvP = 1 ∧ ((atrStep {} nvP nvU nvOuts).rbs.map (·.out.amt)) = [4400, 6000, 1460] ∧
    (atrStep {} nvP nvU nvOuts).dust = [⟨3, 14, 1, 1, 90, 0⟩] ∧ (atrStep {} nvP nvU nvOuts).feesAtr = 600 + 1000 + 540 + 90 ∧
    (atrStep {} nvP nvU nvOuts).capped = false ∧ ownBlock {} nvP nvU nvOuts = .ok := by decide +kernel
/-- a capped step under the repaired flags -/
example : (atrStep Flags.fixed wP wU wOuts).capped = true ∧ ownBlock Flags.fixed wP wU wOuts = .ok := by decide +kernel
/-- an expired value-carrying slip -/
example : (0 : Nat) < (⟨4, 2, 1, 1, 50, 0⟩ : Slip).amt ∧ (⟨4, 2, 1, 1, 50, 0⟩ : Slip).blk + 5 < 9 := by decide

end Saito.C13


/-! ## Bound triples: how the outputs of one transaction are cut into groups (`Saito.AtrScan`)

The amounts of a triple's rebroadcast are outside the model (`Saito.Atr` covers single outputs); the CUT is modelled exactly and
compared with the real blocks of the triple histories of the atr suite (`scan …` lines). -/
namespace Saito.C13.Scan
open Saito.AtrScan

theorem scan_cons_nonbound (t : Nat) (l : List Nat) (h : t ≠ bound) : scan (t :: l) = .single t :: scan l := by
  match l with
  | [] => simp [scan]
  | [b] => simp [scan]
  | b :: c :: rest =>
    have : (t == bound) = false := by simpa using h
    simp [scan, this]

theorem scan_triple (p : Nat) (l : List Nat) (h : p ≠ bound) :
    scan (bound :: p :: bound :: l) = .triple bound p bound :: scan l := by
  have : (p != bound) = true := by simpa using h
  simp [scan, this]

/-- **handled exactly once**: every collected output lands in exactly one group, in order — the groups are a partition of the
    list, for every list of slip types -/
theorem scan_flatten (l : List Nat) : (scan l).flatMap Group.slips = l := by
  induction l using scan.induct with
  | case1 a b c rest hc ih => simp [scan, hc, Group.slips, ih]
  | case2 a b c rest hc ih => simp [scan, hc, Group.slips, ih]
  | case3 a rest hne ih =>
    match rest, hne with
    | [], _ => simp [scan, Group.slips]
    | [b], _ => simp [scan, Group.slips] at ih ⊢
    | b :: c :: r, hne => exact absurd rfl (hne b c r)
  | case4 => simp [scan]

/-- what a transaction's outputs are made of: plain outputs (any type but Bound) and triples [Bound, payload, Bound] whose payload
    is of any type but Bound -/
inductive Item where
  | plain (t : Nat) (h : t ≠ bound)
  | nft (p : Nat) (h : p ≠ bound)

def Item.slips : Item → List Nat
  | .plain t _ => [t]
  | .nft p _ => [bound, p, bound]

def Item.group : Item → Group
  | .plain t _ => .single t
  | .nft p _ => .triple bound p bound

/-- **a triple stays a triple**: for every sequence of plain outputs and triples the pass cuts exactly along the items — no
    bound slip is ever handled on its own, whatever the type of the payload -/
theorem scan_wellformed (items : List Item) : scan (items.flatMap Item.slips) = items.map Item.group := by
  induction items with
  | nil => simp [scan]
  | cons it rest ih =>
    cases it with
    | plain t h => simp only [List.flatMap_cons, Item.slips, List.singleton_append, List.map_cons, Item.group]; rw [scan_cons_nonbound _ _ h, ih]
    | nft p h => simp only [List.flatMap_cons, Item.slips, List.cons_append, List.nil_append, List.map_cons, Item.group]; rw [scan_triple _ _ h, ih]

/-- the outputs of the rebroadcast transactions made from a cut: payloads and plain outputs come back with type ATR, the bound
    slips as they were -/
def Item.rebroadcast : Item → Item
  | .plain _ _ => .plain typATR (by decide)
  | .nft _ _ => .nft typATR (by decide)

/-- **on every later trip around the window**: what was rebroadcast as a triple is cut as a triple again -/
theorem scan_after_rebroadcast (items : List Item) :
    scan ((items.map Item.rebroadcast).flatMap Item.slips) = (items.map Item.rebroadcast).map Item.group :=
  scan_wellformed _

/-- no group of a well-formed list is a bound slip on its own -/
theorem no_single_bound (items : List Item) : ∀ g ∈ scan (items.flatMap Item.slips), g ≠ .single bound := by
  rw [scan_wellformed]
  intro g hg
  obtain ⟨it, _, rfl⟩ := List.mem_map.1 hg
  cases it with
  | plain t h => intro he; injection he with he; exact h he
  | nft p h => intro he; cases he

/-- why the payload test is "not Bound" and not "Normal": with the latter a triple that has been rebroadcast once (payload of
    type ATR) falls apart into three single outputs on its second trip — the bound markers would be rebroadcast as currency -/
theorem payload_normal_only_breaks_second_trip :
    scan [bound, typATR, bound] = [.triple bound typATR bound]
    ∧ scanPayloadNormalOnly [bound, typATR, bound] = [.single bound, .single typATR, .single bound] := by
  simp [scan, scanPayloadNormalOnly, bound, typATR]

/-- non-vacuity: a transaction with a triple between two plain outputs -/
example : scan ([Item.plain 0 (by decide), Item.nft 0 (by decide), Item.plain 0 (by decide)].flatMap Item.slips)
    = [.single 0, .triple bound 0 bound, .single 0] := by
  simp [scan, Item.slips, bound]

end Saito.C13.Scan


/-! ## Bound triples: the amounts (`Saito.AtrScan.payloads`, `acct`)

What comes back from the rebroadcast of one transaction's collected outputs, for every list of outputs, every multiplier ≥ 1 and
every fee. `acct false` is the tree as it stands (compared with the real blocks of the fee-paying triple histories, `acct …` lines):
the payload of a TRIPLE comes back worth amount × multiplier while the fee is booked as collected — `triple_fee_not_deducted`;
`acct true` is the rule of the property text, for which the books balance (`acct_conserved`). -/
namespace Saito.C13.Amounts
open Saito.AtrScan

/-- the amounts are cut exactly as the types are: one payload per group of `scan`, a triple's payload being its middle slip -/
theorem payloads_cut (l : List (Nat × Nat)) :
    (payloads l).map (·.1) = (scan (l.map (·.1))).map (fun g => match g with | .triple _ _ _ => true | .single _ => false) := by
  induction l using payloads.induct with
  | case1 a b c rest hc ih => simp [payloads, scan, hc, ih]
  | case2 a b c rest hc ih =>
    have hc' : (a.1 == bound && b.1 != bound && c.1 == bound) = false := by simpa using hc
    simp only [payloads, hc', List.map_cons, scan]
    simpa [hc'] using ih
  | case3 a rest hne ih =>
    match rest, hne with
    | [], _ => simp [payloads, scan]
    | [b], _ => simp [payloads, scan] at ih ⊢
    | b :: c :: r, hne => exact absurd rfl (hne b c r)
  | case4 => simp [payloads, scan]

/-- **the markers carry no value**: whatever amounts the two bound slips of a triple hold, only the payload's amount is accounted -/
theorem triple_payload_only (x y p a : Nat) (l : List (Nat × Nat)) (h : p ≠ bound) :
    payloads ((bound, x) :: (p, a) :: (bound, y) :: l) = (true, a) :: payloads l := by
  have : (p != bound) = true := by simpa using h
  simp [payloads, this]

/-- every payload is counted once: total_rebroadcast_nolan is the sum of the payload amounts -/
theorem acct_nolan (fd : Bool) (m f : Nat) (gs : List (Bool × Nat)) : (acct fd m f gs).nolan = sum (gs.map (·.2)) := by
  induction gs with
  | nil => simp [acct, sum]
  | cons g gs ih => simp only [acct]; split <;> simp [sum, ih] <;> omega

/-- **the books balance under the rule of the property** (value plus treasury payout minus the fee, or collected as fees): what
    leaves the window plus what the treasury adds equals what comes back plus what is collected — for every list of groups -/
theorem acct_conserved (m f : Nat) (hm : 1 ≤ m) (gs : List (Bool × Nat)) :
    (acct true m f gs).nolan + (acct true m f gs).payout = sum (acct true m f gs).back + (acct true m f gs).fees := by
  induction gs with
  | nil => simp [acct, sum]
  | cons g gs ih =>
    have hle : g.2 ≤ g.2 * m := Nat.le_mul_of_pos_right _ hm
    simp only [acct]
    split
    · rename_i hgt
      simp only [sum, backAmt, Bool.not_true, Bool.and_false]
      generalize g.2 * m = x at *
      simp at *
      omega
    · simp only; omega

/-- the tree as it stands: every rebroadcast TRIPLE comes back worth its fee too much — the books are off by exactly
    fee × (number of rebroadcast triples); single outputs balance -/
def rbTriples (m f : Nat) (gs : List (Bool × Nat)) : Nat := (gs.filter (fun g => g.1 && decide (g.2 * m > f))).length

theorem triple_fee_not_deducted (m f : Nat) (hm : 1 ≤ m) (gs : List (Bool × Nat)) :
    sum (acct false m f gs).back + (acct false m f gs).fees
      = (acct false m f gs).nolan + (acct false m f gs).payout + f * rbTriples m f gs := by
  induction gs with
  | nil => simp [acct, sum, rbTriples]
  | cons g gs ih =>
    obtain ⟨t, a⟩ := g
    have hle : a ≤ a * m := Nat.le_mul_of_pos_right _ hm
    simp only [acct, rbTriples, List.filter_cons, backAmt] at ih ⊢
    generalize a * m = x at hle ⊢
    by_cases hgt : x > f
    · cases t <;> simp [hgt, sum, Nat.mul_succ] at ih ⊢ <;> omega
    · cases t <;> simp [hgt] at ih ⊢ <;> omega

/-- without triples the tree as it stands balances too -/
theorem singles_conserved (m f : Nat) (hm : 1 ≤ m) (gs : List (Bool × Nat)) (h : ∀ g ∈ gs, g.1 = false) :
    (acct false m f gs).nolan + (acct false m f gs).payout = sum (acct false m f gs).back + (acct false m f gs).fees := by
  have h0 : rbTriples m f gs = 0 := by
    simp only [rbTriples, List.length_eq_zero_iff, List.filter_eq_nil_iff]
    intro g hg; simp [h g hg]
  have := triple_fee_not_deducted m f hm gs
  rw [h0] at this; omega

/-- **value plus treasury payout minus the rebroadcast fee** (rule of the property): the payloads that can pay come back, in order,
    each worth amount × multiplier − fee; the others do not come back -/
theorem acct_back_exact (m f : Nat) (gs : List (Bool × Nat)) :
    (acct true m f gs).back = (gs.filter (fun g => decide (g.2 * m > f))).map (fun g => g.2 * m - f) := by
  induction gs with
  | nil => simp [acct]
  | cons g gs ih =>
    simp only [acct]
    split
    · rename_i h; simp [h, backAmt, ih]
    · rename_i h; simp [h, ih]

/-- **handled exactly once**: every group is either rebroadcast (one payload comes back, one slip counted) or collected as fees —
    the two counts add up to the number of groups, for either behaviour -/
theorem acct_exactly_once (fd : Bool) (m f : Nat) (gs : List (Bool × Nat)) :
    (acct fd m f gs).back.length = (acct fd m f gs).slips
    ∧ (acct fd m f gs).slips + (gs.filter (fun g => decide (g.2 * m ≤ f))).length = gs.length := by
  induction gs with
  | nil => simp [acct]
  | cons g gs ih =>
    simp only [acct]
    split
    · rename_i h; simp [h] at ih ⊢; omega
    · rename_i h; have h' : g.2 * m ≤ f := Nat.le_of_not_gt h; simp [h'] at ih ⊢; omega

/-- what is collected from the groups that cannot pay is exactly their value -/
theorem acct_nonrb (fd : Bool) (m f : Nat) (gs : List (Bool × Nat)) :
    (acct fd m f gs).nonrb = sum ((gs.filter (fun g => decide (g.2 * m ≤ f))).map (·.2)) := by
  induction gs with
  | nil => simp [acct, sum]
  | cons g gs ih =>
    simp only [acct]
    split
    · rename_i h; simp [h] at ih ⊢; omega
    · rename_i h; have h' : g.2 * m ≤ f := Nat.le_of_not_gt h; simp [h', sum] at ih ⊢; omega


/-- non-vacuity and the witness replayed on the real code (a triple with payload 5000 between two plain outputs, fee 1200) -/
example : (acct false 1 1200 (payloads [(0, 9000), (bound, 0), (0, 5000), (bound, 0), (0, 700)])).back = [7800, 5000]
    ∧ (acct true 1 1200 (payloads [(0, 9000), (bound, 0), (0, 5000), (bound, 0), (0, 700)])).back = [7800, 3800]
    ∧ (acct false 1 1200 (payloads [(0, 9000), (bound, 0), (0, 5000), (bound, 0), (0, 700)])).fees = 3100 := by
  simp [payloads, acct, backAmt, bound]

end Saito.C13.Amounts
