import Saito.Lemmas.LockOrder
import Saito.Gen.Locks
/-!
# C20 — shared locks are taken in the documented global order

* GENERIC (proved once): `no_deadlock_of_ranked`, `no_deadlock_of_gated`; `equal_rank_can_deadlock` shows that the
  discipline must be strict.
* PER TREE (re-checked on every run against the table that `extract` regenerates from the Rust sources,
  `Saito.Gen.Locks`): `edges_ascending`, `all_ranked`, `sites_reconciled`, `wasm_nesting_gated`, `wasm_no_reacquire`,
  `wasm_entries_gated`; conclusions `no_deadlock_native`, `no_deadlock_wasm`.
* KNOWN FINDINGS of the pinned tree (`allowed`, `allowedWasm`, `ungatedEntries` below; known_findings.json): the
  per-tree theorems speak about the current table MINUS the listed edges; `known_violation_*` show that each listed
  edge really breaks the order and `handshake_deadlock_witness` shows that the order is not a formality: the pinned
  table admits a deadlocked state.

A known edge is identified by (function, held rank, acquired rank) — no line numbers, so unrelated edits do not
invalidate the list, while a NEW descending edge anywhere (other function or other rank pair) fails `edges_ascending`.
-/
namespace Saito.C20
open Saito.LockOrder

/-! ## generic theorems -/

/-- In any state in which every blocked task holds only locks of rank strictly below the one it requests, the
waits-for relation has no cycle: no set of tasks is deadlocked on the ranked locks. -/
theorem no_deadlock_of_ranked (s : State) (h : Ranked s) : ¬ Deadlocked s := by
  rintro ⟨i, p⟩
  obtain ⟨ti, li, hi, hw⟩ := p.start_waits
  obtain ⟨ti', li', hi', hw', hlt⟩ := p.rank_increases h ti li hi hw
  have e : ti = ti' := by rw [hi] at hi'; exact Option.some.inj hi'
  subst e
  have e2 : li = li' := by rw [hw] at hw'; exact Option.some.inj hw'
  subst e2
  cases hlt with
  | inl h1 => exact Nat.lt_irrefl _ h1
  | inr h1 => exact Nat.lt_irrefl _ h1.2

/-- the hypotheses of `no_deadlock_of_ranked` are met by a non-trivial state: the consensus task holds configs and
blockchain and is blocked on peers, the routing task holds peers and is blocked on the wallet -/
example : Ranked [⟨[3, 4], some 6, 0⟩, ⟨[6], some 7, 0⟩] := by
  intro i t hi l hw h hh
  match i with
  | 0 => simp at hi; subst hi; simp at hw hh; omega
  | 1 => simp at hi; subst hi; simp at hw hh; omega
  | (_ + 2) => simp at hi

/-- Strictness is needed: with equal ranks tolerated (a task re-acquires, for reading, a lock it already holds for
reading) a writer queued in between closes a cycle — tokio's `RwLock` is FIFO-fair / write-preferring. -/
theorem equal_rank_can_deadlock : ∃ s, RankedNonStrict s ∧ Deadlocked s := by
  -- task 0 holds lock 4 (read) and asks for 4 again with ticket 1; task 1 (a writer) asked before, ticket 0
  refine ⟨[⟨[4], some 4, 1⟩, ⟨[], some 4, 0⟩], ?_, 0, ?_⟩
  · intro i t hi l hw h hh
    match i with
    | 0 => simp at hi; subst hi; simp at hw hh; omega
    | 1 => simp at hi; subst hi; simp at hh
    | (_ + 2) => simp at hi
  · refine Path.cons (j := 1) ?_ (Path.single ?_)
    · exact ⟨⟨[4], some 4, 1⟩, ⟨[], some 4, 0⟩, 4, rfl, rfl, rfl, Or.inr ⟨rfl, by decide⟩⟩
    · exact ⟨⟨[], some 4, 0⟩, ⟨[4], some 4, 1⟩, 4, rfl, rfl, rfl, Or.inl (by simp)⟩

/-- Gate discipline (saito-wasm): if every blocked task holds nothing or holds the gate `g`, the gate is a mutex and
no task requests a lock it already holds, then there is no waits-for cycle — whatever the order of the acquisitions
made under the gate, and in the presence of tasks that take single locks without the gate. -/
theorem no_deadlock_of_gated (g : Nat) (s : State) (hg : Gated g s) (hx : Exclusive g s) (hn : NoSelfWait s) :
    ¬ Deadlocked s := by
  rintro ⟨i, p⟩
  have h1 := oneBlockedHolder_of_gated hg hx
  obtain ⟨ti, li, hi, hw⟩ := p.start_waits
  obtain ⟨ti', li', hi', hw', hlt⟩ := p.gate_decreases h1 hn ti li hi hw
  have e : ti = ti' := by rw [hi] at hi'; exact Option.some.inj hi'
  subst e
  have e2 : li = li' := by rw [hw] at hw'; exact Option.some.inj hw'
  subst e2
  exact GateLt.irrefl hlt

/-- the hypotheses of `no_deadlock_of_gated` are met by a non-trivial state: a gated task holds the gate and the
wallet and asks for the blockchain (descending!), an ungated task holds the blockchain and is not blocked, a third
task waits for the gate -/
example : Gated 0 [⟨[0, 7], some 4, 0⟩, ⟨[4], none, 0⟩, ⟨[], some 0, 0⟩] ∧
    NoSelfWait [⟨[0, 7], some 4, 0⟩, ⟨[4], none, 0⟩, ⟨[], some 0, 0⟩] := by
  constructor
  · intro i t hi hw
    match i with
    | 0 => simp at hi; subst hi; simp
    | 1 => simp at hi; subst hi; simp at hw
    | 2 => simp at hi; subst hi; simp
    | (_ + 3) => simp at hi
  · intro i t hi l hw
    match i with
    | 0 => simp at hi; subst hi; simp at hw; subst hw; simp
    | 1 => simp at hi; subst hi; simp at hw
    | 2 => simp at hi; subst hi; simp
    | (_ + 3) => simp at hi

/-! ## the current tree: native crates (saito-core, saito-rust, saito-spammer) -/

/-- stable identity of an edge: function, held rank, acquired rank (no line numbers) -/
structure EdgeKey where
  fn : String
  held : Nat
  acquired : Nat
  deriving DecidableEq, Repr

def key (e : Saito.Gen.Edge) : EdgeKey := ⟨e.fn, e.held, e.acquired⟩
def wkey (e : Saito.Gen.WasmEdge) : EdgeKey := ⟨e.fn, e.held, e.acquired⟩

/-- KNOWN FINDINGS (known_findings.json, keys `C20/<fn>/<held>-><acquired>`): non-ascending edges of the pinned tree,
each confirmed by reading the source.
* `Network::handle_handshake_challenge` keeps the `peers` write guard (6) across `Peer::handle_handshake_challenge`,
  which reads configs (3).
* `Network::handle_handshake_response` keeps the `peers` write guard (6) across `Peer::handle_handshake_response`
  (configs, 3) and `request_blockchain_from_peer` (configs 3, blockchain 4).
* `run_utxo_to_issuance_converter` (saito-rust, a one-shot tool) takes three read guards of the same configs lock
  as temporaries of one statement (3 while 3). -/
def allowed : List EdgeKey := [
  ⟨"Network::handle_handshake_challenge", 6, 3⟩,
  ⟨"Network::handle_handshake_response", 6, 3⟩,
  ⟨"Network::handle_handshake_response", 6, 4⟩,
  ⟨"rust:main::run_utxo_to_issuance_converter", 3, 3⟩
]

/-- PER-TREE OBLIGATION: every nested acquisition of the regenerated table ascends strictly, except the listed ones -/
theorem edges_ascending : ∀ e ∈ Saito.Gen.edges, e.held < e.acquired ∨ key e ∈ allowed := by decide +kernel

/-- the list of exceptions contains violations only (nothing ascending can be hidden in it) -/
theorem allowed_only_violations : ∀ k ∈ allowed, ¬ k.held < k.acquired := by decide

theorem known_violation_1 : ¬ (allowed[0].held < allowed[0].acquired) := by decide
theorem known_violation_2 : ¬ (allowed[1].held < allowed[1].acquired) := by decide
theorem known_violation_3 : ¬ (allowed[2].held < allowed[2].acquired) := by decide
theorem known_violation_4 : ¬ (allowed[3].held < allowed[3].acquired) := by decide

/-- every acquisition site could be ranked (by declared type or by name) or protects a private, non-shared structure -/
theorem all_ranked : Saito.Gen.unranked = [] := by decide

/-- translator validation (ii): the plain-text token scan and the extractor agree on the acquisition sites of every file -/
theorem sites_reconciled : Saito.Gen.reconciled = true := by decide

/-- the rank pairs of the table that are not known findings -/
def nativeTable : List Edge :=
  (Saito.Gen.edges.filter (fun e => decide (key e ∉ allowed))).map (fun e => ⟨e.held, e.acquired⟩)

/-- the rank pairs of the whole table, findings included -/
def nativeTableFull : List Edge := Saito.Gen.edges.map (fun e => ⟨e.held, e.acquired⟩)

theorem nativeTable_ascending : ∀ e ∈ nativeTable, e.held < e.acquired := by decide +kernel

/-- CONCLUSION for the native crates: every system state whose (held, requested) pairs are covered by the current
table minus the known findings is free of deadlock on the ranked locks. -/
theorem no_deadlock_native (s : State) (hc : Conforms nativeTable s) : ¬ Deadlocked s :=
  no_deadlock_of_ranked s (ranked_of_conforms nativeTable_ascending hc)

/-- WITNESS for the findings: the pinned table WITH the handshake edges admits a deadlocked state — the routing task
inside `handle_handshake_response` holds peers (6) and waits for the blockchain (4) while the consensus task inside
`add_blocks_from_mempool` holds the blockchain (4) and waits for peers (6). Both pairs are edges of the table. -/
theorem handshake_deadlock_witness :
    (⟨6, 4⟩ : Edge) ∈ nativeTableFull → (⟨4, 6⟩ : Edge) ∈ nativeTableFull →
      ∃ s, Conforms nativeTableFull s ∧ Deadlocked s := by
  intro h64 h46
  refine ⟨[⟨[6], some 4, 0⟩, ⟨[4], some 6, 0⟩], ?_, 0, ?_⟩
  · intro i t hi l hw h hh
    match i with
    | 0 => simp at hi; subst hi; simp at hw hh; subst hw hh; exact h64
    | 1 => simp at hi; subst hi; simp at hw hh; subst hw hh; exact h46
    | (_ + 2) => simp at hi
  · refine Path.cons (j := 1) ?_ (Path.single ?_)
    · exact ⟨⟨[6], some 4, 0⟩, ⟨[4], some 6, 0⟩, 4, rfl, rfl, rfl, Or.inl (by simp)⟩
    · exact ⟨⟨[4], some 6, 0⟩, ⟨[6], some 4, 0⟩, 6, rfl, rfl, rfl, Or.inl (by simp)⟩

/-! ## the current tree: saito-wasm (gate `SAITO`, rank 0) -/

/-- KNOWN FINDING: `produce_block_with_gt` takes `blockchain_lock.read()` (saitowasm.rs, inside `if miner.target == 0`)
while the read guard taken at the top of the function is still alive. The gate does not exclude the writers that
make this dangerous: `WasmBlockchain::{reset, set_fork_id, set_safe_to_prune_transaction}` write the same lock without
taking the gate. -/
def allowedWasm : List EdgeKey := [
  ⟨"wasm:saitowasm::produce_block_with_gt", 4, 4⟩
]

/-- KNOWN FINDING: exported entry points that touch a shared lock WITHOUT taking the gate first (confirmed by
reading wasm_wallet.rs / wasm_blockchain.rs; `initialize` writes CONFIGS before it takes the gate). Each of them takes
a single lock and nests nothing (see `wasm_nesting_gated`), so they cannot be part of a cycle, but "every wasm entry
point is serialised by the global mutex" is not true of the pinned tree. -/
def ungatedEntries : List String := [
  "wasm:WasmBlockchain::get_fork_id",
  "wasm:WasmBlockchain::get_genesis_block_id",
  "wasm:WasmBlockchain::get_genesis_timestamp",
  "wasm:WasmBlockchain::get_hashes_at_id",
  "wasm:WasmBlockchain::get_last_block_hash",
  "wasm:WasmBlockchain::get_last_block_id",
  "wasm:WasmBlockchain::get_last_burnfee",
  "wasm:WasmBlockchain::get_last_timestamp",
  "wasm:WasmBlockchain::get_latest_block_id",
  "wasm:WasmBlockchain::get_longest_chain_hash_at",
  "wasm:WasmBlockchain::get_longest_chain_hash_at_id",
  "wasm:WasmBlockchain::get_lowest_acceptable_block_hash",
  "wasm:WasmBlockchain::get_lowest_acceptable_block_id",
  "wasm:WasmBlockchain::get_lowest_acceptable_timestamp",
  "wasm:WasmBlockchain::reset",
  "wasm:WasmBlockchain::set_fork_id",
  "wasm:WasmBlockchain::set_safe_to_prune_transaction",
  "wasm:WasmWallet::add_slip",
  "wasm:WasmWallet::add_to_pending",
  "wasm:WasmWallet::get_balance",
  "wasm:WasmWallet::get_key_list",
  "wasm:WasmWallet::get_pending_txs",
  "wasm:WasmWallet::get_private_key",
  "wasm:WasmWallet::get_public_key",
  "wasm:WasmWallet::get_slips",
  "wasm:WasmWallet::load",
  "wasm:WasmWallet::reset",
  "wasm:WasmWallet::save",
  "wasm:WasmWallet::set_private_key",
  "wasm:WasmWallet::set_public_key",
  "wasm:saitowasm::initialize"
]

/-- PER-TREE: every exported entry point that reaches a shared lock does so under the gate, except the listed ones -/
theorem wasm_gated : ∀ w ∈ Saito.Gen.wasmEntries, w.touches = true → w.gated = true ∨ w.name ∈ ungatedEntries := by
  decide +kernel

/-- PER-TREE: every NESTED acquisition of the wasm build (saito-wasm itself and the saito-core code it reaches) happens
while the gate is held — in particular the ungated entry points never hold one shared lock while taking another -/
theorem wasm_nesting_gated : ∀ e ∈ Saito.Gen.wasmEdges, e.gated = true := by decide +kernel

/-- PER-TREE: no re-acquisition of a lock that is already held (the gate included), except the listed finding -/
theorem wasm_no_reacquire : ∀ e ∈ Saito.Gen.wasmEdges, e.held ≠ e.acquired ∨ wkey e ∈ allowedWasm := by decide +kernel

theorem known_violation_wasm_1 : ¬ (allowedWasm[0].held ≠ allowedWasm[0].acquired) := by decide

def wasmTable : List (Edge × Bool) :=
  (Saito.Gen.wasmEdges.filter (fun e => decide (wkey e ∉ allowedWasm))).map (fun e => (⟨e.held, e.acquired⟩, e.gated))

theorem wasmTable_gated : ∀ p ∈ wasmTable, p.2 = true := by decide +kernel
theorem wasmTable_no_reacquire : ∀ p ∈ wasmTable, p.1.held ≠ p.1.acquired := by decide +kernel

/-- CONCLUSION for saito-wasm: every state covered by the current wasm table (minus the known finding) in which the
gate is a mutex is free of deadlock — although acquisitions under the gate are not in rank order. -/
theorem no_deadlock_wasm (s : State) (hc : ConformsGated wasmTable 0 s) (hx : Exclusive 0 s) : ¬ Deadlocked s := by
  apply no_deadlock_of_gated 0 s _ hx
  · intro i t hi l hw hmem
    obtain ⟨b, hb, _⟩ := hc i t hi l hw l hmem
    exact wasmTable_no_reacquire _ hb rfl
  · intro i t hi hw
    cases hheld : t.held with
    | nil => exact Or.inl rfl
    | cons h tl =>
      right
      obtain ⟨l, hl⟩ := Option.ne_none_iff_exists'.mp hw
      have hh : h ∈ t.held := by rw [hheld]; exact List.mem_cons_self
      obtain ⟨b, hb, hgate⟩ := hc i t hi l hl h hh
      have := hgate (wasmTable_gated _ hb)
      rwa [hheld] at this

end Saito.C20
