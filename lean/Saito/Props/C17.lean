import Saito.Lemmas.Handshake
/-!
# C17 — the handshake authenticates the peer's key

Model: `Saito/Model/Handshake.lean` (`Hs.step`, mirrors `Peer::{initiate_handshake, handle_handshake_challenge,
handle_handshake_response}`, `Network::{handle_new_peer, handle_peer_disconnect, handle_handshake_challenge,
handle_handshake_response}`, `PeerCollection::remove_reconnected_peer`). `H` = number of honest nodes (keys `0 … H-1`); every
other key is the attacker's. `run fx H ops` = state after an ARBITRARY finite script `ops` of connects, disconnects, deliveries of
any challenge / any derivable response to any connection of any honest node, and attacker signatures with its own keys: all
interleavings, drops (an op simply not issued), replays, redirections and reflections are scripts.

History (`State.log`, newest first): `issued node c n`, `signed k n src`, `accepted node c k n`.

What the theorems do NOT say — relay through an honest signer. `handle_handshake_challenge` signs ANY 32 bytes it is sent, on any
existing peer entry in any state, so an attacker who is challenged with `n` on its connection to node A can obtain node B's
signature over `n` by sending `n` to B as a challenge and pass it on (`relay_witness` below, reproduced on the real code by
corpus/C17/relay.ops). No challenge–response check on A's side can exclude this; the conclusion of the theorems is that a
signature BY K over THIS connection's fresh challenge was made (by K's owner if K is honest, after the challenge was issued) — not
who carried it to the connection.
-/
namespace Saito.C17
open Saito.Hs
variable {fx : Bool}

/-- **Authentication.** In every reachable state, every acceptance `accepted node c k n` in the history is preceded (strictly
    earlier in the history) by `issued node c n` — the nonce was drawn fresh by this node for this very connection — and by a
    signature `signed k n src` by the accepted key over exactly that nonce. -/
theorem accepted_needs_issue_and_signature (H : Nat) (ops : List Op) (pre post : List Event) (node c k n : Nat)
    (h : (run fx H ops).log = pre ++ Event.accepted node c k n :: post) :
    Event.issued node c n ∈ post ∧ ∃ src, Event.signed k n src ∈ post := by
  have hok := (inv_run (fx := fx) H ops).log.logOK
  rw [h] at hok
  exact LogOK_split hok

/-- **Freshness of the signature.** Every signature over a nonce other than the zero constant was made after that nonce was issued
    (so the signer was alive after the challenge was drawn). -/
theorem signature_after_issue (H : Nat) (ops : List Op) (pre post : List Event) (k n : Nat) (src : Option Nat)
    (h : (run fx H ops).log = pre ++ Event.signed k n src :: post) (hn : n ≠ 0) :
    ∃ node c, Event.issued node c n ∈ post := by
  have hok := (inv_run (fx := fx) H ops).log.logOK
  rw [h] at hok
  have := LogOK_split hok
  exact this.resolve_left hn

/-- **Unforgeability bookkeeping.** A signature under an honest key `k < H` is only ever made by node `k`'s own handlers
    (`src = some c`: while handling a message on its connection `c`), never by the attacker; attacker signatures carry attacker keys. -/
theorem honest_signature_origin (H : Nat) (ops : List Op) (k n : Nat) (src : Option Nat)
    (h : Event.signed k n src ∈ (run fx H ops).log) :
    (k < H → ∃ c, src = some c) ∧ (src = none → H ≤ k) := by
  have hi := (inv_run (fx := fx) H ops).log
  cases src with
  | none => exact ⟨fun hk => absurd (hi.attSig k n h) (Nat.not_le.mpr hk), fun _ => hi.attSig k n h⟩
  | some c => exact ⟨fun _ => ⟨c, rfl⟩, fun hc => by cases hc⟩

/-- **Each challenge is accepted at most once**: the history of a reachable state contains at most one acceptance on connection
    `(node, c)` against nonce `n`, under whatever key (the stored challenge is cleared on acceptance and nonces are fresh). -/
theorem accepted_once (H : Nat) (ops : List Op) (node c n : Nat) :
    (run fx H ops).log.countP (accOn node c n) ≤ 1 :=
  (inv_run (fx := fx) H ops).log.accOnce node c n

/-- A nonce is accepted on at most one connection: acceptances against the same nonce are on the connection it was issued for. -/
theorem accepted_nonce_one_connection (H : Nat) (ops : List Op) (node c k node' c' k' n : Nat)
    (h1 : Event.accepted node c k n ∈ (run fx H ops).log) (h2 : Event.accepted node' c' k' n ∈ (run fx H ops).log) :
    node = node' ∧ c = c' :=
  have hi := (inv_run (fx := fx) H ops).log
  hi.issuedUnique _ _ _ _ _ (acc_issued hi.logOK h1) (acc_issued hi.logOK h2)

/-- **State ⇒ history.** A peer entry that is marked Connected carries a key `k`, and an acceptance under `k` on that very
    connection is in the history. -/
theorem connected_has_acceptance (H : Nat) (ops : List Op) (node c : Nat) (p : Peer)
    (hg : mget (run fx H ops).peers (node, c) = some p) (hc : p.status = .connected) :
    ∃ k n, p.key = some k ∧ Event.accepted node c k n ∈ (run fx H ops).log :=
  ((inv_run (fx := fx) H ops).peers node c p hg).connAcc hc

/-- **The property, first sentence.** A connection is marked Connected under key `k` only after this node issued a fresh
    challenge `n` on that very connection and a signature by `k` over `n` was made (by `k`'s owner if `k` is honest). -/
theorem connected_needs_signature_over_own_challenge (H : Nat) (ops : List Op) (node c : Nat) (p : Peer)
    (hg : mget (run fx H ops).peers (node, c) = some p) (hc : p.status = .connected) :
    ∃ k n, p.key = some k ∧ Event.issued node c n ∈ (run fx H ops).log ∧
      ∃ src, Event.signed k n src ∈ (run fx H ops).log ∧ (k < H → ∃ c', src = some c') := by
  obtain ⟨k, n, hk, ha⟩ := connected_has_acceptance H ops node c p hg hc
  obtain ⟨pre, post, hs⟩ := List.append_of_mem ha
  obtain ⟨hi, src, hsg⟩ := accepted_needs_issue_and_signature H ops pre post node c k n hs
  have hmem : ∀ e, e ∈ post → e ∈ (run fx H ops).log := fun e he => by
    rw [hs]; exact List.mem_append_right _ (List.mem_cons_of_mem _ he)
  exact ⟨k, n, hk, hmem _ hi, src, hmem _ hsg, (honest_signature_origin H ops k n src (hmem _ hsg)).1⟩

/-- every `address_to_peers` entry `k ↦ c` of a node is backed by an acceptance under `k` on connection `c` -/
theorem addr_has_acceptance (H : Nat) (ops : List Op) (node k c : Nat)
    (hg : mget (run fx H ops).addr (node, k) = some c) : ∃ n, Event.accepted node c k n ∈ (run fx H ops).log :=
  (inv_run (fx := fx) H ops).addr node k c hg

/-! ## bad responses are inert (one step, from ANY state) -/

/-- **Bad responses.** Let connection `(node, c)` exist with entry `p`, and let the response be bad: version not set or
    incompatible, or no challenge outstanding (unsolicited), or its signature is not a signature by the claimed key over the stored
    challenge (made for a different challenge — replayed, reflected, lifted from another connection —, made by another key, or
    garbage). Then either the attacker cannot even build the message (`rejected`, nothing changes) or the code does exactly this:
    the connection is marked Disconnected with no outstanding challenge (its key field is kept) and disconnected on the wire;
    EVERY other peer entry of every node, `address_to_peers`, the history, the signature pool and the nonce counter are unchanged.
    In particular no acceptance happens and no authenticated peer with the same key is disturbed. -/
theorem bad_response_inert (H : Nat) (st : State) (node c : Nat) (r : Response) (pick : Nat) (p : Peer)
    (hg : mget st.peers (node, c) = some p)
    (hbad : r.ver ≠ .ok ∨ p.challenge = none ∨ ∀ n, p.challenge = some n → r.sig ≠ some (r.key, n)) :
    let res := step fx H st (.deliverResponse node c r pick)
    (res.2 = .rejected ∧ res.1 = st) ∨
    (res.2 = .ok [.disconnect c, .disconnect c] ∧
      mget res.1.peers (node, c) = some { p with status := .disconnected, challenge := none } ∧
      (∀ a, a ≠ (node, c) → mget res.1.peers a = mget st.peers a) ∧
      res.1.addr = st.addr ∧ res.1.log = st.log ∧ res.1.sigs = st.sigs ∧ res.1.next = st.next) := by
  have hfail : (failResponse st node c p).2 = .ok [.disconnect c, .disconnect c] ∧
      mget (failResponse st node c p).1.peers (node, c) = some { p with status := .disconnected, challenge := none } ∧
      (∀ a, a ≠ (node, c) → mget (failResponse st node c p).1.peers a = mget st.peers a) ∧
      (failResponse st node c p).1.addr = st.addr ∧ (failResponse st node c p).1.log = st.log ∧
      (failResponse st node c p).1.sigs = st.sigs ∧ (failResponse st node c p).1.next = st.next := by
    refine ⟨rfl, ?_, ?_, rfl, rfl, rfl, rfl⟩
    · simp [failResponse, mget_mset, markDisconnected]
    · intro a ha
      simp only [failResponse, mget_mset]
      rw [if_neg (fun h => ha h.symm)]
  simp only [step]
  split
  · right
    unfold deliverResponse
    rw [hg]
    simp only
    split
    · exact hfail
    · split
      · exact hfail
      · rename_i n hch
        split
        · exact hfail
        · rename_i hsig
          split
          · exact hfail
          · rename_i hv1 hv2
            exfalso
            rcases hbad with hb | hb | hb
            · exact hb (Decidable.not_not.mp hv2)
            · rw [hb] at hch; cases hch
            · exact hb n hch (Decidable.not_not.mp hsig)
  · left
    exact ⟨rfl, rfl⟩

/-- the key-mismatch assert (property C11's panic) changes nothing: a step that panics leaves the whole state as it was -/
theorem panic_inert (H : Nat) (st : State) (op : Op) (h : (step fx H st op).2 = .panic) : (step fx H st op).1 = st := by
  cases op with
  | deliverResponse node c r pick =>
    simp only [step] at h ⊢
    split at h
    · rename_i hc
      rw [if_pos hc]
      unfold deliverResponse at h ⊢
      split at h
      · cases h
      · simp only [failResponse, acceptResponse] at h ⊢
        repeat' (split at h <;> try cases h)
        all_goals simp_all
    · cases h
  | _ => exact absurd h (simple_effect H st _ (by intros; simp)).1

/-- with the repaired key-mismatch branch NO operation panics, whatever the state and the script -/
theorem fixed_never_panics (H : Nat) (st : State) (op : Op) : (step true H st op).2 ≠ .panic := by
  cases op with
  | deliverResponse node c r pick =>
    simp only [step]
    split
    · unfold deliverResponse
      simp only [failResponse, acceptResponse, if_true]
      repeat' split
      all_goals simp
    · simp
  | _ => exact (simple_effect H st _ (by intros; simp)).1

/-! ## an authenticated peer is only displaced by a signature of its own key -/

/-- **An authenticated peer entry is never touched from another connection.** Whatever is delivered to, or happens on, any OTHER
    connection (or the attacker signs), a Connected entry stays exactly as it is (status, key, challenge) — including through
    `remove_reconnected_peer`, which only removes entries that are not Connected. -/
theorem connected_entry_stable (H : Nat) (st : State) (op : Op) (node c : Nat) (p : Peer)
    (hg : mget st.peers (node, c) = some p) (hc : p.status = .connected) (ht : target op ≠ some (node, c)) :
    mget (step fx H st op).1.peers (node, c) = some p := by
  cases op with
  | deliverResponse node' c' r pick =>
    have hne : (node', c') ≠ (node, c) := fun h => ht (by simp [target, h])
    have hset : ∀ (q : Peer), mget (mset st.peers (node', c') q) (node, c) = some p := fun q => by
      rw [mget_mset, if_neg hne]; exact hg
    have hacc : ∀ (q : Peer) (n : Nat), mget (acceptResponse st node' c' q r n pick).1.peers (node, c) = some p := by
      intro q n
      unfold acceptResponse
      simp only
      refine (reconnect_effect _ node' c' _ r.key pick).1 (node, c) p (fun h => hne h.symm) ?_ hc
      rw [(peerAccept_effect st node' c' q r n).1 (node, c) (fun h => hne h.symm)]
      exact hg
    simp only [step]
    split
    · unfold deliverResponse
      split
      · exact hg
      · simp only [failResponse]
        repeat' split
        all_goals first | exact hg | exact hset _ | exact hacc _ _
    · exact hg
  | _ =>
    rw [(simple_effect H st _ (by intros; simp)).2.2 (node, c) ht]
    exact hg

/-- **`address_to_peers[k]` of a node only changes through a valid handshake under `k`.** If any single operation changes the
    entry of key `k` in `address_to_peers` of `node` (overwrites it, or drops it in `remove_reconnected_peer`), the operation is a
    response delivered to a connection `c` of that node that claims `k`, carries a compatible version and a signature by `k` over
    the challenge stored for `c`. Bad responses, challenges, connects and disconnects never move the pointer of an authenticated key. -/
theorem addr_change_needs_signature (H : Nat) (st : State) (op : Op) (node k : Nat)
    (hchg : mget (step fx H st op).1.addr (node, k) ≠ mget st.addr (node, k)) :
    ∃ c r pick p n, op = .deliverResponse node c r pick ∧ r.key = k ∧ r.ver = .ok ∧
      mget st.peers (node, c) = some p ∧ p.challenge = some n ∧ r.sig = some (k, n) := by
  cases op with
  | deliverResponse node' c' r pick =>
    have hacc : ∀ (q : Peer) (n : Nat),
        mget (acceptResponse st node' c' q r n pick).1.addr (node, k) ≠ mget st.addr (node, k) → node = node' ∧ k = r.key := by
      intro q n hne
      apply Classical.byContradiction
      intro hcontra
      apply hne
      unfold acceptResponse
      simp only
      rw [(reconnect_effect _ node' c' _ r.key pick).2 node k (fun h => hcontra (by cases h; exact ⟨rfl, rfl⟩))]
      rw [(peerAccept_effect st node' c' q r n).2]
    simp only [step] at hchg
    split at hchg
    case isFalse => exact absurd rfl hchg
    unfold deliverResponse at hchg
    split at hchg
    · exact absurd rfl hchg
    · rename_i q hq
      simp only [failResponse] at hchg
      split at hchg
      · exact absurd rfl hchg
      · rename_i hv0
        split at hchg
        · exact absurd rfl hchg
        · rename_i n hch
          split at hchg
          · exact absurd rfl hchg
          · rename_i hsig
            have hsig' : r.sig = some (r.key, n) := Decidable.not_not.mp hsig
            split at hchg
            · exact absurd rfl hchg
            · rename_i hv
              have hv' : r.ver = .ok := Decidable.not_not.mp hv
              have fin : ∀ (h : node = node' ∧ k = r.key), ∃ c r' pick' p n', Op.deliverResponse node' c' r pick = .deliverResponse node c r' pick' ∧
                  r'.key = k ∧ r'.ver = .ok ∧ mget st.peers (node, c) = some p ∧ p.challenge = some n' ∧ r'.sig = some (k, n') := by
                rintro ⟨rfl, rfl⟩
                exact ⟨c', r, pick, q, n, rfl, rfl, hv', hq, hch, hsig'⟩
              split at hchg
              · split at hchg
                · split at hchg
                  · exact absurd rfl hchg
                  · exact absurd rfl hchg
                · exact fin (hacc q n hchg)
              · exact fin (hacc q n hchg)

  | _ => exact absurd (by rw [(simple_effect H st _ (by intros; simp)).2.1]) hchg

/-! ## non-vacuity and witnesses -/

/-- node 1 dials node 0: static entry 1/1, node 0 accepts connection 0/1 and challenges (nonce 1); node 1 answers with its own
    challenge (nonce 2); node 0 accepts and answers; node 1 accepts -/
def honestScript : List Op :=
  [.addStatic 1 1, .connect 0 1, .connect 1 1, .deliverChallenge 1 1 1,
   .deliverResponse 0 1 ⟨1, some (1, 1), 2, .ok⟩ 0, .deliverResponse 1 1 ⟨0, some (0, 2), 0, .ok⟩ 0]

/-- the honest run reaches acceptances on both sides, both entries Connected, both address maps set -/
example : Event.accepted 0 1 1 1 ∈ (run false 2 honestScript).log ∧ Event.accepted 1 1 0 2 ∈ (run false 2 honestScript).log ∧
    mget (run false 2 honestScript).peers (0, 1) = some ⟨.connected, none, some 1, false⟩ ∧
    mget (run false 2 honestScript).peers (1, 1) = some ⟨.connected, none, some 0, true⟩ ∧
    mget (run false 2 honestScript).addr (0, 1) = some 1 ∧ mget (run false 2 honestScript).addr (1, 0) = some 1 := by decide

/-- hypotheses of `bad_response_inert` are met by a replay: after the honest run node 1's first response is delivered to node 0
    again (no challenge outstanding) — node 0's entry goes Disconnected, node 1's Connected entry and both maps stay -/
example : let st := run false 2 honestScript
    let res := step false 2 st (.deliverResponse 0 1 ⟨1, some (1, 1), 2, .ok⟩ 0)
    res.2 = .ok [.disconnect 1, .disconnect 1] ∧
    mget res.1.peers (0, 1) = some ⟨.disconnected, none, some 1, false⟩ ∧
    mget res.1.peers (1, 1) = mget st.peers (1, 1) ∧ res.1.addr = st.addr := by decide

/-- a response lifted from another connection: node 1's answer to the challenge of 0/1 (nonce 1) delivered to 0/2 (challenge 2) -/
example : let st := run false 2 [.addStatic 1 1, .connect 0 1, .connect 0 2, .connect 1 1, .deliverChallenge 1 1 1]
    let res := step false 2 st (.deliverResponse 0 2 ⟨1, some (1, 1), 3, .ok⟩ 0)
    res.2 = .ok [.disconnect 2, .disconnect 2] ∧ mget res.1.peers (0, 1) = mget st.peers (0, 1) ∧ res.1.log = st.log := by decide

/-- **Relay through an honest signer (documented limit, reproduced on the real code: corpus/C17/relay.ops).** The attacker opens
    connection 2 to node 0 (challenged with nonce 1) and connection 2 to node 1 (challenged with nonce 2, ignored), forwards nonce 1
    as a challenge to node 1 — which signs it — and forwards that response to node 0: connection 0/2 is Connected under node 1's
    key. The signature by key 1 over the challenge of 0/2 exists (made by node 1 on ITS connection 2), exactly as the
    authentication theorem says. -/
def relayScript : List Op :=
  [.connect 0 2, .connect 1 2, .deliverChallenge 1 2 1, .deliverResponse 0 2 ⟨1, some (1, 1), 3, .ok⟩ 0]

theorem relay_witness :
    mget (run false 2 relayScript).peers (0, 2) = some ⟨.connected, none, some 1, false⟩ ∧
    mget (run false 2 relayScript).addr (0, 1) = some 2 ∧
    Event.signed 1 1 (some 2) ∈ (run false 2 relayScript).log ∧ Event.issued 0 2 1 ∈ (run false 2 relayScript).log := by decide

/-- the key-mismatch assert is reachable by the attacker alone (two own keys 2 and 3): authenticate 0/2 under key 2, get
    re-challenged through `handle_handshake_challenge`, answer correctly under key 3 (corpus/C17/key-mismatch-panic.ops) -/
example : (runOut false 2 init [.connect 0 2, .attackerSign 2 1, .deliverResponse 0 2 ⟨2, some (2, 1), 0, .ok⟩ 0,
    .deliverChallenge 0 2 0, .attackerSign 3 2, .deliverResponse 0 2 ⟨3, some (3, 2), 0, .ok⟩ 0]).2.getLast? = some .panic := by
  decide

/-- with the repair the same script ends with the response refused and the connection dropped (no panic) -/
example : (runOut true 2 init [.connect 0 2, .attackerSign 2 1, .deliverResponse 0 2 ⟨2, some (2, 1), 0, .ok⟩ 0,
    .deliverChallenge 0 2 0, .attackerSign 3 2, .deliverResponse 0 2 ⟨3, some (3, 2), 0, .ok⟩ 0]).2.getLast? =
      some (.ok [.disconnect 2, .disconnect 2]) := by
  decide

/-- observation (not a violation of C17; reproduced by corpus/C17/reconnect-and-relay.ops): after a reconnection
    `remove_reconnected_peer` drops the key from `address_to_peers` and nothing re-inserts it, although two entries are Connected
    under that key -/
example : let st := run false 2 [.connect 0 1, .connect 1 2, .deliverChallenge 1 2 1, .deliverResponse 0 1 ⟨1, some (1, 1), 3, .ok⟩ 0,
      .connect 0 2, .deliverChallenge 1 2 4, .deliverResponse 0 2 ⟨1, some (1, 4), 0, .ok⟩ 0,
      .disconnect 0 1, .connect 0 3, .deliverChallenge 1 2 6, .deliverResponse 0 3 ⟨1, some (1, 6), 0, .ok⟩ 0]
    mget st.addr (0, 1) = none ∧ mget st.peers (0, 1) = none ∧
    (mget st.peers (0, 2)).map (·.status) = some .connected ∧ (mget st.peers (0, 3)).map (·.status) = some .connected := by decide

end Saito.C17
