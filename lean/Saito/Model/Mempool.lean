import Saito.Model.Chain
/-
  Transaction pool: `Mempool::add_transaction_if_validates`, `add_transaction`, `bundle_block` /
  `can_bundle_block` (mempool.rs:103-385), `Block::create`'s drain + double-spend check (block.rs:649-856),
  `Blockchain::remove_block_transactions` and `add_block_transactions_back` (blockchain.rs:704-781).

  Abstraction: a transaction is its signature (`id`), its input keys (each with the bit "amount > 0"), the
  routing work it carries for this node, its type, and an oracle bit `ok` = "passes every check of
  `Transaction::validate` that does not look at the ledger" (signature, routing path, out ≤ in; supplied by the
  harness from the real validator). The ledger is the spendable key set. The timing / routing-work / ticket gates
  of `can_bundle_block` are inputs (`Gates`). The staking transaction that `bundle_block` adds and `Block::create`
  drains within the same call (no inputs, no work when the stake requirement is 0) is not represented.
  The pool's map is a list in insertion order; observables are sorted.
-/
namespace Saito.Pool
open Saito.Chain (uInsert uRemove)

structure Flags where
  /-- blockchain.rs:704-711 / mempool.rs:394-410 — removing transactions after a block also releases their
      `utxo_map` reservations (pinned: `utxo_map` is only touched by `add_transaction` and `bundle_block`) -/
  releaseOnRemoval : Bool := false
  /-- blockchain.rs:776-779 — transactions of a rejected own block re-enter through `add_transaction`
      (guard, reservation, work) (pinned: `transactions.insert` only) -/
  readdViaAdd : Bool := false
  /-- block.rs:649-651 vs 820-856 — a failing `Block::create` leaves the pool as it was (pinned: already drained) -/
  bundleAtomic : Bool := false
  /-- transaction.rs:1091 / mempool.rs:103 — only `Normal` transactions enter the pool (pinned: an `Issuance`-typed
      transaction from a peer validates and is pooled; the next own block carries it and is rejected).
      Scope: a node whose chain already has a block (before block 1 the node pools its own issuance
      transactions, consensus_thread.rs:133 — outside the model) -/
  normalOnly : Bool := false
  /-- transaction.rs:976-986 — a transaction listing one value input twice is invalid (pinned: the check compares a
      `Vec` with itself) -/
  dupInputsRejected : Bool := false
  /-- mempool.rs:202 — `bundle_block` declines while the clock is not past the tip's timestamp (pinned: `assert!`) -/
  clockChecked : Bool := false
  deriving Repr, DecidableEq

def Flags.fixed : Flags := ⟨true, true, true, true, true, true⟩

inductive Typ where
  | normal | issuance | gt
  deriving Repr, DecidableEq

structure Tx where
  id : Nat
  /-- (utxo key, amount > 0) -/
  ins : List (Nat × Bool)
  work : Nat := 0
  typ : Typ := .normal
  ok : Bool := true
  deriving Repr, DecidableEq

structure Pool where
  txs : List Tx := []
  /-- keys of `utxo_map` -/
  resv : List Nat := []
  /-- `routing_work_in_mempool` -/
  work : Nat := 0
  newTx : Bool := false
  deriving Repr, DecidableEq

def valueIns (t : Tx) : List Nat := (t.ins.filter (·.2)).map (·.1)
def allIns (t : Tx) : List Nat := t.ins.map (·.1)

/-- `Transaction::validate_against_utxoset`: every value-carrying input is spendable -/
def validAgainst (u : List Nat) (t : Tx) : Bool := (valueIns t).all (· ∈ u)

def nodupB : List Nat → Bool
  | [] => true
  | x :: xs => !(xs.contains x) && nodupB xs

def sumWork (l : List Tx) : Nat := (l.map (·.work)).foldr (· + ·) 0

inductive ARes where
  | added | dup | conflict | rejected | panic
  deriving Repr, DecidableEq

/-- `Mempool::add_transaction` (mempool.rs:132-180) -/
def addTx (p : Pool) (t : Tx) : Pool × ARes :=
  if (valueIns t).any (· ∈ p.resv) then (p, .conflict)
  else if p.txs.any (·.id == t.id) then (p, .dup)
  else match t.typ with
    | .gt => ({ p with work := p.work + t.work }, .panic)      -- work is added before the `panic!`
    | _ => ({ txs := p.txs ++ [t], resv := (allIns t).foldl uInsert p.resv, work := p.work + t.work, newTx := true }, .added)

/-- `Mempool::add_transaction_if_validates` (mempool.rs:103-131) -/
def arrive (fl : Flags) (u : List Nat) (p : Pool) (t : Tx) : Pool × ARes :=
  if !(t.ok && validAgainst u t) then (p, .rejected)
  else if fl.normalOnly && t.typ != .normal then (p, .rejected)
  else if fl.dupInputsRejected && !nodupB (valueIns t) then (p, .rejected)
  else addTx p t

structure Gates where
  /-- `current_timestamp > previous_block_timestamp` (the `assert!` of bundle_block) -/
  tsOk : Bool := true
  /-- the 5 s jitter rule -/
  jitter : Bool := true
  /-- `is_golden_ticket_count_valid` -/
  ticket : Bool := true
  /-- routing work needed at this timestamp -/
  need : Nat := 0
  deriving Repr, DecidableEq

inductive BRes where
  | panic | none | some (txs : List Tx)
  deriving Repr, DecidableEq

/-- `Block::create`'s double-spend check over the drained transactions (every occurrence of a value input counts) -/
def dsFree (l : List Tx) : Bool := nodupB (l.flatMap valueIns)

def removeKeys (r ks : List Nat) : List Nat := ks.foldl uRemove r

/-- `Mempool::bundle_block` (mempool.rs:182-276) with `Block::create`'s drain -/
def bundle (fl : Flags) (p : Pool) (g : Gates) : Pool × BRes :=
  if !g.tsOk then (p, if fl.clockChecked then .none else .panic)
  else if p.txs.isEmpty || !p.newTx then (p, .none)
  else if !g.ticket || !g.jitter || p.work < g.need then (p, .none)
  else if dsFree p.txs then
    ({ txs := [], resv := removeKeys p.resv (p.txs.flatMap allIns), work := 0, newTx := false }, .some p.txs)
  else if fl.bundleAtomic then (p, .none)
  else ({ p with txs := [] }, .none)

/-- the reservations the pooled transactions need -/
def rebuild (l : List Tx) : List Nat := (l.flatMap allIns).foldl uInsert []

/-- `Blockchain::remove_block_transactions` after a successful `add_block` (longest chain or side chain):
    `retain` against the NEW ledger, then `delete_transactions(block.transactions)`, work recomputed -/
def onBlockAdded (fl : Flags) (u' : List Nat) (p : Pool) (btx : List Nat) : Pool :=
  let kept := (p.txs.filter (validAgainst u')).filter (fun t => !btx.contains t.id)
  { p with txs := kept, work := sumWork kept,
           resv := if fl.releaseOnRemoval then rebuild kept else p.resv }

/-- `Blockchain::add_block_failure` → `add_block_transactions_back` -/
def onBlockFailed (fl : Flags) (u : List Nat) (p : Pool) (mine : Bool) (btxs : List Tx) : Pool :=
  if !mine then p else
  -- `tx.validate(&self.utxoset, self, true)`; with the repeated-input check repaired it rejects such a transaction
  let back := btxs.filter fun t => t.typ == .normal && t.ok && validAgainst u t
                                && (!fl.dupInputsRejected || nodupB (valueIns t))
  if fl.readdViaAdd then
    { (back.foldl (fun q t => (addTx q t).1) p) with newTx := true }
  else
    { p with txs := back.foldl (fun l t => if l.any (·.id == t.id) then l else l ++ [t]) p.txs, newTx := true }

/-! ### pool operations over an arbitrary ledger (what the theorems quantify over) -/
inductive Op where
  | arrive (t : Tx)
  | bundle (g : Gates)
  /-- a block was added (tip extension, side block or reorganisation): the ledger is now `u'` -/
  | blockAdded (u' : List Nat) (btx : List Nat)
  /-- a block was rejected; the ledger is unchanged (C04) -/
  | blockFailed (mine : Bool) (btxs : List Tx)
  deriving Repr

def step (fl : Flags) (s : Pool × List Nat) : Op → Pool × List Nat
  | .arrive t => ((arrive fl s.2 s.1 t).1, s.2)
  | .bundle g => ((bundle fl s.1 g).1, s.2)
  | .blockAdded u' btx => (onBlockAdded fl u' s.1 btx, u')
  | .blockFailed mine btxs => (onBlockFailed fl s.2 s.1 mine btxs, s.2)

def run (fl : Flags) (s : Pool × List Nat) (ops : List Op) : Pool × List Nat := ops.foldl (step fl) s

/-! ### node = chain model (ledger) + pool, as driven by the correspondence run -/
structure Node where
  chain : Saito.Chain.State := { gp := 100 }
  pool : Pool := {}

/-- any block handed to `Blockchain::add_block`; `btxs` = its Normal / Issuance transactions, `need` = the routing
    work `Block::validate` demands at the block's timestamp (block.rs:2987-2994; an input computed with `BurnFee`) -/
def deliver (cfl : Saito.Chain.Flags) (fl : Flags) (n : Node) (b : Saito.Chain.ABlock) (mine : Bool) (btxs : List Tx)
    (need : Nat := 0) : Node × Saito.Chain.Outcome :=
  -- `Block::validate` rejects a block that carries an issuance transaction after block 1 (block.rs:2929), and a
  -- block whose transactions carry less routing work for its creator than needed (known to the model for the node's
  -- own blocks: the work the pool counted per transaction)
  let b := { b with ok := b.ok && (b.id ≤ 1 || btxs.all (·.typ != .issuance)) && (!mine || decide (need ≤ sumWork btxs)) }
  let (c', o) := Saito.Chain.addBlock cfl n.chain b []
  match o with
  | .addedLc | .addedSide => ({ chain := c', pool := onBlockAdded fl c'.utxo n.pool (btxs.map (·.id)) }, o)
  | .invalid => ({ chain := c', pool := onBlockFailed fl c'.utxo n.pool mine btxs }, o)
  | _ => (n, o)

end Saito.Pool
