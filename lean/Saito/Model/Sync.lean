/-
  Executable model of `BlockchainSyncState` (saito-core/src/core/consensus/blockchain_sync_state.rs):
  the per-peer block-fetch scheduler. Import-free (core Lean only).

  * hashes are `Nat` (the harness maps the 32-byte hash `[n;32]` to `n`, so numeric order = byte order);
  * the two `HashMap<PeerIndex, VecDeque<_>>` are association lists `peer ↦ list`; nothing the code does
    depends on the iteration order of the maps (every loop treats the peers independently);
  * a Rust panic (`assert_ne!(peer_index, 0)`, overflow of the `usize` subtraction `batch_size - fetching_count`
    in the dev profile) is the explicit outcome `none` of `qSelect` / `select`.
-/
namespace Saito.Sync

inductive Status where
  | queued | fetching | fetched | failed
  deriving DecidableEq, Repr

/-- `BlockData` -/
structure Entry where
  hash : Nat
  id : Nat
  status : Status
  retry : Nat
  deriving DecidableEq, Repr

/-- defect flags: `false` = pinned behaviour, `true` = repaired behaviour -/
structure Flags where
  /-- `build_peer_block_picture` dedups the fetch queue on the hash alone (pinned: on the pair (hash, id)) -/
  dedupByHash : Bool := false
  deriving DecidableEq, Repr

structure Cfg where
  /-- `batch_size` -/
  batch : Nat
  /-- `MAX_RETRIES_PER_BLOCK` -/
  maxRetries : Nat := 500
  /-- indices of the peers of the `PeerCollection` with a non-empty `block_fetch_url` (used by `add_entry` for peer 0) -/
  urlPeers : List Nat := []
  fl : Flags := {}
  deriving Repr

structure State where
  /-- `received_block_picture`: peer ↦ announced (id, hash) in arrival order -/
  received : List (Nat × List (Nat × Nat)) := []
  /-- `blocks_to_fetch`: peer ↦ queue -/
  queues : List (Nat × List Entry) := []
  deriving Repr, DecidableEq

def init : State := {}

/-! ## ordering: (id, then hash bytes), stable insertion sort -/

/-- strict lexicographic order on (id, hash) -/
def keyLt (a b : Nat × Nat) : Bool := a.1 < b.1 || (a.1 == b.1 && a.2 < b.2)

def insBy {α} (k : α → Nat × Nat) (a : α) : List α → List α
  | [] => [a]
  | b :: l => if keyLt (k b) (k a) then b :: insBy k a l else a :: b :: l

/-- stable sort by key (Rust `sort_by` is stable) -/
def sortBy {α} (k : α → Nat × Nat) (l : List α) : List α := l.foldr (insBy k) []

def Entry.key (e : Entry) : Nat × Nat := (e.id, e.hash)

/-! ## association lists -/

def lookup {β} (p : Nat) : List (Nat × List β) → List β
  | [] => []
  | (p', v) :: m => if p' == p then v else lookup p m

/-- `map.entry(p).or_default()` followed by an update of the value -/
def upsert {β} (p : Nat) (f : List β → List β) : List (Nat × List β) → List (Nat × List β)
  | [] => [(p, f [])]
  | (p', v) :: m => if p' == p then (p', f v) :: m else (p', v) :: upsert p f m

/-- `map.retain(|_, v| !v.is_empty())` -/
def dropEmpty {β} (m : List (Nat × List β)) : List (Nat × List β) := m.filter (fun pv => !pv.2.isEmpty)

/-! ## add_entry -/

def addEntry (cfg : Cfg) (s : State) (peer id hash : Nat) : State :=
  if peer == 0 then
    { s with received := cfg.urlPeers.foldl (fun r u => upsert u (· ++ [(id, hash)]) r) s.received }
  else
    { s with received := upsert peer (· ++ [(id, hash)]) s.received }

/-! ## build_peer_block_picture -/

/-- `already_exists`: pinned = same hash and same id; repaired = same hash -/
def existsIn (fl : Flags) (h id : Nat) (q : List Entry) : Bool :=
  q.any (fun b => b.hash == h && (fl.dedupByHash || b.id == id))

/-- the pop-front loop over the (already sorted) announcements of one peer -/
def qBuild (fl : Flags) (have_ : Nat → Bool) : List (Nat × Nat) → List Entry → List Entry
  | [], q => q
  | (id, h) :: rest, q =>
    if have_ h then qBuild fl have_ rest q
    else if existsIn fl h id q then qBuild fl have_ rest q
    else qBuild fl have_ rest (q ++ [⟨h, id, .queued, 0⟩])

def buildQueues (fl : Flags) (have_ : Nat → Bool) :
    List (Nat × List (Nat × Nat)) → List (Nat × List Entry) → List (Nat × List Entry)
  | [], qs => qs
  | (p, rcv) :: rest, qs => buildQueues fl have_ rest (upsert p (qBuild fl have_ (sortBy id rcv)) qs)

def build (cfg : Cfg) (have_ : Nat → Bool) (s : State) : State :=
  { received := [], queues := dropEmpty (buildQueues cfg.fl have_ s.received s.queues) }

/-! ## get_blocks_to_fetch_per_peer -/

def countFetching : List Entry → Nat
  | [] => 0
  | e :: q => (if e.status = .fetching then 1 else 0) + countFetching q

/-- the second loop: walks the sorted queue with the remaining quota; returns the new queue and the
    selected (id, hash) in selection order -/
def selLoop (maxR : Nat) : Nat → List Entry → List Entry × List (Nat × Nat)
  | _, [] => ([], [])
  | 0, q => (q, [])
  | quota + 1, e :: q =>
    match e.status with
    | .queued =>
      let r := selLoop maxR quota q
      ({ e with status := .fetching } :: r.1, (e.id, e.hash) :: r.2)
    | .fetching =>
      let r := selLoop maxR (quota + 1) q
      (e :: r.1, r.2)
    | .fetched =>
      let r := selLoop maxR (quota + 1) q
      (e :: r.1, r.2)
    | .failed =>
      if e.retry < maxR then
        let r := selLoop maxR quota q
        ({ e with retry := e.retry + 1, status := .queued } :: r.1, r.2)
      else if e.retry = maxR then
        let r := selLoop maxR (quota + 1) q
        ({ e with retry := e.retry + 1 } :: r.1, r.2)
      else
        let r := selLoop maxR (quota + 1) q
        (e :: r.1, r.2)

/-- one peer's part of `get_blocks_to_fetch_per_peer`; `none` = the `usize` subtraction overflows (panic) -/
def qSelect (cfg : Cfg) (q : List Entry) : Option (List Entry × List (Nat × Nat)) :=
  let s := sortBy Entry.key q
  let f := countFetching s
  if cfg.batch < f then none else some (selLoop cfg.maxRetries (cfg.batch - f) s)

/-- all peers; `none` = panic (peer index 0 in the map, or quota underflow) -/
def selectQueues (cfg : Cfg) : List (Nat × List Entry) → Option (List (Nat × List Entry) × List (Nat × List (Nat × Nat)))
  | [] => some ([], [])
  | (p, q) :: rest =>
    if p == 0 then none else
    match qSelect cfg q with
    | none => none
    | some (q', sel) =>
      match selectQueues cfg rest with
      | none => none
      | some (qs', sels) => some ((p, q') :: qs', if sel.isEmpty then sels else (p, sel) :: sels)

/-- `get_blocks_to_fetch_per_peer`: new state and peer ↦ selected (id, hash) (peers with nothing selected are absent) -/
def select (cfg : Cfg) (s : State) : Option (State × List (Nat × List (Nat × Nat))) :=
  match selectQueues cfg s.queues with
  | none => none
  | some (qs, sels) => some ({ s with queues := qs }, sels)

/-! ## mark_as_fetched, remove_entry, mark_as_failed -/

/-- the first entry with this hash becomes `Fetched` (`break` after the first match) -/
def markFirst (h : Nat) : List Entry → List Entry
  | [] => []
  | e :: q => if e.hash == h then { e with status := .fetched } :: q else e :: markFirst h q

def qFetched (h : Nat) (q : List Entry) : List Entry :=
  (markFirst h q).filter (fun e => e.status != .fetched)

def markFetched (s : State) (h : Nat) : State :=
  { s with queues := dropEmpty (s.queues.map (fun pq => (pq.1, qFetched h pq.2))) }

def qRemove (h : Nat) (q : List Entry) : List Entry := q.filter (fun e => e.hash != h)

def removeEntry (s : State) (h : Nat) : State :=
  { s with queues := dropEmpty (s.queues.map (fun pq => (pq.1, qRemove h pq.2))) }

/-- the first entry with this id and hash becomes `Failed` -/
def qFailed (id h : Nat) : List Entry → List Entry
  | [] => []
  | e :: q => if e.id == id && e.hash == h then { e with status := .failed } :: q else e :: qFailed id h q

/-- `blocks_to_fetch.get_mut(&peer)`: the first (in a map: the only) queue of this peer -/
def failQueues (id h peer : Nat) : List (Nat × List Entry) → List (Nat × List Entry)
  | [] => []
  | (p, q) :: rest => if p == peer then (p, qFailed id h q) :: rest else (p, q) :: failQueues id h peer rest

def markFailed (s : State) (id h peer : Nat) : State :=
  { s with queues := failQueues id h peer s.queues }

/-! ## operations and runs -/

inductive Op where
  | add (peer id hash : Nat)
  | build (have_ : List Nat)
  | select
  | fetched (hash : Nat)
  | failed (id hash peer : Nat)
  | remove (hash : Nat)
  deriving Repr, DecidableEq

/-- one public operation; `none` = the implementation panics -/
def step (cfg : Cfg) (s : State) : Op → Option State
  | .add p i h => some (addEntry cfg s p i h)
  | .build hv => some (build cfg (fun h => hv.contains h) s)
  | .select => (select cfg s).map (·.1)
  | .fetched h => some (markFetched s h)
  | .failed i h p => some (markFailed s i h p)
  | .remove h => some (removeEntry s h)

def run (cfg : Cfg) : State → List Op → Option State
  | s, [] => some s
  | s, op :: ops => match step cfg s op with
    | none => none
    | some s' => run cfg s' ops

/-! ## routing glue (`RoutingThread::fetch_next_blocks`)
  `build; select;` then every selected block the network layer declines to fetch (here: the node already has it)
  is removed from all queues with `remove_entry`. Returns the blocks actually requested from the peers. -/


/-- the network layer declines a fetch when the node already has the block or the peer has no fetch url / is unknown -/
def declines (cfg : Cfg) (have_ : Nat → Bool) (p : Nat) (ih : Nat × Nat) : Bool :=
  have_ ih.2 || !cfg.urlPeers.contains p

def requested (cfg : Cfg) (have_ : Nat → Bool) (sels : List (Nat × List (Nat × Nat))) : List (Nat × List (Nat × Nat)) :=
  (sels.map (fun ps => (ps.1, ps.2.filter (fun ih => !declines cfg have_ ps.1 ih)))).filter (fun ps => !ps.2.isEmpty)

def fetchNext (cfg : Cfg) (hv : List Nat) (s : State) : Option (State × List (Nat × List (Nat × Nat))) :=
  match select cfg (build cfg (fun h => hv.contains h) s) with
  | none => none
  | some (s1, sels) =>
    let declined := sels.flatMap (fun ps => ps.2.filter (declines cfg (fun h => hv.contains h) ps.1))
    some (declined.foldl (fun st ih => removeEntry st ih.2) s1, requested cfg (fun h => hv.contains h) sels)

end Saito.Sync
