/-
  Fork choice and wind/unwind: `Blockchain::add_block`, `is_new_chain_the_longest_chain`,
  `is_golden_ticket_count_valid_`, the Wind/Unwind loop of `Blockchain::validate`, `add_block_failure`,
  `BlockRing` / `RingItem`.  (blockchain.rs, blockring.rs, ringitem.rs, slip.rs wind/unwind.)

  Abstraction: a block is its hash (a non-zero `Nat`; `0` is the all-zero hash), parent hash, id, burn fee,
  golden-ticket bit, the utxo keys its transactions remove (`ins`) and insert (`outs`) when wound, and an
  oracle bit `ok` = "`Block::validate` passes whenever the block's inputs are spendable" (supplied by the
  harness: honest blocks `true`, tampered headers `false`).
  Scope: histories shorter than `genesis_period` (no purge at 2·gp, no ATR); import-free.
-/
namespace Saito.Chain

structure Flags where
  /-- ringitem.rs:33 — `delete_block` keeps `lc_pos = None` when the item had none (pinned: `Some 0`) -/
  ringDeleteKeepsNone : Bool := false
  /-- blockchain.rs:1392-1451 — a failed reorganisation unwinds what it wound and re-winds the old chain -/
  windFailureRestores : Bool := false
  /-- block.rs:3194 — the per-transaction verdict gates block validity (inputs must be spendable) -/
  txVerdict : Bool := false
  /-- blockchain.rs:337-378 — a block whose parent is unknown does not edit the longest-chain index -/
  orphanInert : Bool := false
  /-- blockchain.rs:1137 — ticket density is checked for every block of the candidate chain, not only its tip -/
  gtEveryBlock : Bool := false
  deriving Repr, DecidableEq

def Flags.fixed : Flags := ⟨true, true, true, true, true⟩

structure ABlock where
  hash : Nat
  prev : Nat
  id : Nat
  burnfee : Nat
  hasGT : Bool
  ok : Bool
  /-- oracle: `Block::validate` passes when the block's PARENT IS NOT IN THE STORE and the cv fields are compared
      (no previous block: averages restart from zero, burn fee / difficulty are copied from the block) -/
  okNoParent : Bool := true
  ins : List Nat
  outs : List Nat
  /-- amounts of the keys in `ins` / `outs` (same order), used only by the node's own supply check -/
  inAmts : List Nat := []
  outAmts : List Nat := []
  /-- graveyard + treasury + previous_block_unpaid + total_fees of the header -/
  hs : Nat := 0
  deriving Repr, DecidableEq

structure RItem where
  lc : Option Nat := none
  ents : List (Nat × Nat) := []     -- (hash, id) in insertion order
  deriving Repr, DecidableEq

structure BEntry where
  b : ABlock
  inLC : Bool
  deriving Repr, DecidableEq

structure State where
  gp : Nat
  ring : List (Nat × RItem) := []    -- slot ↦ item (absent = empty item)
  ringLc : Option Nat := none
  ringEmpty : Bool := true
  blocks : List BEntry := []
  utxo : List Nat := []
  /-- `configs.initial_loading_completed || checkpoint_found` -/
  loadingDone : Bool := false
  /-- amount of every utxo key seen so far (the key embeds the amount in the real code) -/
  amt : List (Nat × Nat) := []
  /-- `initial_token_supply` (0 = not yet set) -/
  initSupply : Nat := 0
  deriving Repr, DecidableEq

inductive Outcome where
  | addedLc | addedSide | exists_ | retryPrev | retryChain | retryWait | invalid | stall | panic
  deriving Repr, DecidableEq

def Outcome.str : Outcome → String
  | .addedLc => "added_lc" | .addedSide => "added_side" | .exists_ => "exists" | .retryPrev => "retry_prev"
  | .retryChain => "retry_chain" | .retryWait => "retry_wait" | .invalid => "invalid" | .stall => "stall"
  | .panic => "panic"

/-! ### utxo set (keys present = spendable) -/
def uInsert (u : List Nat) (k : Nat) : List Nat := if k ∈ u then u else k :: u
def uRemove (u : List Nat) (k : Nat) : List Nat := u.filter (· != k)
/-- wind: inputs removed, outputs inserted -/
def windU (b : ABlock) (u : List Nat) : List Nat := b.outs.foldl uInsert (b.ins.foldl uRemove u)
/-- unwind: inputs re-inserted, outputs removed (the code processes each transaction in order; on sets the
    order between distinct keys does not matter) -/
def unwindU (b : ABlock) (u : List Nat) : List Nat := b.outs.foldl uRemove (b.ins.foldl uInsert u)

/-! ### ring -/
def slotOf (st : State) (id : Nat) : Nat := id % (2 * st.gp)
def getItem (r : List (Nat × RItem)) (slot : Nat) : RItem :=
  match r.find? (·.1 == slot) with
  | some p => p.2
  | none => {}
def setItem (r : List (Nat × RItem)) (slot : Nat) (it : RItem) : List (Nat × RItem) :=
  (slot, it) :: r.filter (·.1 != slot)

def RItem.add (it : RItem) (id hash : Nat) : RItem := { it with ents := it.ents ++ [(hash, id)] }
def RItem.containsHash (it : RItem) (hash : Nat) : Bool := it.ents.any (·.1 == hash)

/-- position of the old lc entry among the survivors -/
def survivorPos (ents : List (Nat × Nat)) (id hash : Nat) (lc : Nat) : Option Nat :=
  match ents[lc]? with
  | none => none
  | some e => if e.2 == id && e.1 == hash then none
              else some ((ents.take lc).filter (fun x => !(x.2 == id && x.1 == hash))).length

/-- `RingItem::delete_block` -/
def RItem.delete (fl : Flags) (it : RItem) (id hash : Nat) : RItem :=
  let ents' := it.ents.filter (fun e => !(e.2 == id && e.1 == hash))
  let dflt : Option Nat := if fl.ringDeleteKeepsNone then none else some 0
  let lc' := match it.lc with
    | none => dflt
    | some p => match survivorPos it.ents id hash p with
      | some q => some q
      | none => dflt
  { lc := lc', ents := ents' }

def findIdx (l : List (Nat × Nat)) (hash : Nat) : Option Nat :=
  let rec go : List (Nat × Nat) → Nat → Option Nat
    | [], _ => none
    | e :: es, i => if e.1 == hash then some i else go es (i + 1)
  go l 0

/-- `RingItem::on_chain_reorganization` -/
def RItem.reorg (it : RItem) (hash : Nat) (lc : Bool) : RItem :=
  if lc then { it with lc := findIdx it.ents hash } else { it with lc := none }

/-- `BlockRing::on_chain_reorganization` -/
def ringReorg (st : State) (id hash : Nat) (lc : Bool) : State :=
  let slot := slotOf st id
  let ring := setItem st.ring slot ((getItem st.ring slot).reorg hash lc)
  if lc then { st with ring := ring, ringLc := some slot }
  else
    match st.ringLc with
    | some p =>
      if p == slot then
        let prevSlot := if p > 0 then p - 1 else 2 * st.gp - 1
        let pit := getItem ring prevSlot
        let newLc : Option Nat :=
          match pit.lc with
          | some q => match pit.ents[q]? with
            | some e => if e.2 + 1 == id then some prevSlot else none
            | none => none
          | none => none
        { st with ring := ring, ringLc := newLc }
      else { st with ring := ring }
    | none => { st with ring := ring }

/-- `get_latest_block_id` / `get_latest_block_hash`; `none` models the out-of-range index panic -/
def latest (st : State) : Option (Nat × Nat) :=   -- (id, hash)
  match st.ringLc with
  | none => some (0, 0)
  | some s =>
    let it := getItem st.ring s
    match it.lc with
    | none => some (0, 0)
    | some p => match it.ents[p]? with
      | some e => some (e.2, e.1)
      | none => none

/-- `get_longest_chain_block_hash_at_block_id` -/
def lcHashAt (st : State) (id : Nat) : Option Nat :=
  let it := getItem st.ring (slotOf st id)
  match it.lc with
  | none => none
  | some p => match it.ents[p]? with
    | some e => if e.2 == id then some e.1 else none
    | none => none

/-! ### block store -/
def getB (st : State) (h : Nat) : Option BEntry := st.blocks.find? (·.b.hash == h)
def setLC (st : State) (h : Nat) (v : Bool) : State :=
  { st with blocks := st.blocks.map fun e => if e.b.hash == h then { e with inLC := v } else e }
def removeB (st : State) (h : Nat) : State := { st with blocks := st.blocks.filter (·.b.hash != h) }

/-- `calculate_new_chain_for_add_block`: (shared ancestor found, shared hash, new chain tip-first) -/
def calcNew (st : State) : Nat → Nat → List Nat → Bool × Nat × List Nat
  | 0, h, acc => (false, h, acc.reverse)
  | fuel+1, h, acc =>
    match getB st h with
    | none => (false, h, acc.reverse)
    | some e =>
      if e.inLC then (true, h, acc.reverse)
      else if h == 0 then (false, h, acc.reverse)
      else calcNew st fuel e.b.prev (h :: acc)

/-- `calculate_old_chain_for_add_block` -/
def calcOld (st : State) (shared : Nat) : Nat → Nat → List Nat → List Nat
  | 0, _, acc => acc.reverse
  | fuel+1, h, acc =>
    if h == shared then acc.reverse else
    match getB st h with
    | none => acc.reverse
    | some e => if e.b.prev == 0 then (h :: acc).reverse else calcOld st shared fuel e.b.prev (h :: acc)

/-- `calculate_old_chain_upto_length`: pushes while `len ≤ length` -/
def calcOldUpto (st : State) (length : Nat) : Nat → Nat → List Nat → List Nat
  | 0, _, acc => acc.reverse
  | fuel+1, h, acc =>
    if acc.length > length then acc.reverse else
    match getB st h with
    | none => acc.reverse
    | some e => if e.b.prev == 0 then (h :: acc).reverse else calcOldUpto st length fuel e.b.prev (h :: acc)

def sumBf (st : State) (l : List Nat) : Nat :=
  l.foldl (fun a h => a + (match getB st h with | some e => e.b.burnfee | none => 0)) 0

/-- `is_new_chain_the_longest_chain` -/
def isLongest (st : State) (newC oldC : List Nat) (latestId : Nat) : Bool :=
  if st.ringEmpty then true
  else if oldC.length > newC.length then false
  else
    match newC.head? with
    | none => false
    | some h0 =>
      match getB st h0 with
      | none => false
      | some e0 =>
        if latestId ≥ e0.b.id then false
        else oldC.length < newC.length && sumBf st oldC ≤ sumBf st newC

/-- `is_golden_ticket_count_valid_`: walk back ≤ 5 blocks from `prev` -/
def gtWalk (st : State) : Nat → Nat → Nat × Nat     -- (depth, found)
  | 0, _ => (0, 0)
  | n+1, h =>
    match getB st h with
    | none => (0, 0)
    | some e =>
      let (d, f) := gtWalk st n e.b.prev
      (d + 1, f + (if e.b.hasGT then 1 else 0))

def gtCountValid (st : State) (prev : Nat) (hasGT : Bool) : Bool :=
  let (depth, found) := gtWalk st 5 prev
  let required := 2 - (6 - (depth + 1))
  let found := found + (if hasGT then 1 else 0)
  if depth < 4 then true else !(found < required)

/-! ### the Wind/Unwind loop -/
inductive WR where
  | wind (i : Nat) (f : Bool)
  | unwind (i : Nat) (f : Bool) (chain : List Nat)
  | success
  | failure
  deriving Repr, DecidableEq

/-- `has_total_supply_loaded` (blockchain.rs:1514) for histories shorter than the window: the index knows block 1.
    Only then does `Block::validate` / `Transaction::validate` check inputs against the utxo set. -/
def againstUtxo (st : State) : Bool := (lcHashAt st 1).isSome

/-- `Block::validate` as the loop sees it. The oracle bit `ok` (honest header) only matters when the parent is in
    the store: without a previous block the consensus values (burn fee, difficulty) are copied from the block itself
    and the parent-relative checks are skipped, so a tampered header passes. -/
def validB (fl : Flags) (st : State) (b : ABlock) : Bool :=
  (if (getB st b.prev).isSome then b.ok else (b.okNoParent || !againstUtxo st)) &&
    (!fl.txVerdict || !againstUtxo st || b.ins.all (· ∈ st.utxo))

def windBlock (st : State) (b : ABlock) : State :=
  let st := ringReorg st b.id b.hash true
  setLC { st with utxo := windU b st.utxo } b.hash true

def unwindBlock (st : State) (b : ABlock) : State :=
  let st := setLC { st with utxo := unwindU b st.utxo } b.hash false
  ringReorg st b.id b.hash false

/-- one iteration of the loop in `Blockchain::validate` (pinned control flow) -/
def stepWR (fl : Flags) (newC oldC : List Nat) (st : State) : WR → State × WR
  | .wind i f =>
    if f && newC.isEmpty then (st, .failure) else
    match newC[i]? with
    | none => (st, .failure)           -- `new_chain.get(i).unwrap()` (unreachable for i < len)
    | some h =>
      match getB st h with
      | none => (st, .failure)
      | some e =>
        if validB fl st e.b then
          let st' := windBlock st e.b
          if i == 0 then (st', if f then .failure else .success) else (st', .wind (i - 1) false)
        else if i + 1 == newC.length then
          (if !oldC.isEmpty then (st, .wind (oldC.length - 1) true) else (st, .failure))
        else (st, .unwind 0 true (newC.drop (i + 1)))
  | .unwind i f chain =>
    match chain[i]? with
    | none => (st, .failure)
    | some h =>
      match getB st h with
      | none => (st, .failure)
      | some e =>
        let st' := unwindBlock st e.b
        if i + 1 == chain.length then (st', .wind (newC.length - 1) f) else (st', .unwind (i + 1) f chain)
  | .success => (st, .success)
  | .failure => (st, .failure)

/-- run the loop with fuel; `none` = fuel exhausted (the real loop is still spinning) -/
def runWR (fl : Flags) (newC oldC : List Nat) : Nat → State → WR → Option (State × Bool)
  | _, st, .success => some (st, true)
  | _, st, .failure => some (st, false)
  | 0, _, _ => none
  | n+1, st, w =>
    let (st', w') := stepWR fl newC oldC st w
    runWR fl newC oldC n st' w'

/-- one iteration of the loop in `Blockchain::validate` with the repaired failure path (flag `windFailureRestores`):
    once winding the candidate has failed (`f = true`) the chain being wound is the OLD chain (the roles of the
    two vectors are swapped, as the comments in `wind_chain` describe), the failure flag survives a successful
    wind step, a block of the old chain that no longer validates ends the loop, and an empty old chain ends it
    after the unwinding. -/
def stepWRF (fl : Flags) (newC oldC : List Nat) (st : State) : WR → State × WR
  | .wind i f =>
    let c := if f then oldC else newC
    if f && c.isEmpty then (st, .failure) else
    match c[i]? with
    | none => (st, .failure)
    | some h =>
      match getB st h with
      | none => (st, .failure)
      | some e =>
        if validB fl st e.b then
          let st' := windBlock st e.b
          if i == 0 then (st', if f then .failure else .success) else (st', .wind (i - 1) f)
        else if f then (st, .failure)
        else if i + 1 == newC.length then
          (if !oldC.isEmpty then (st, .wind (oldC.length - 1) true) else (st, .failure))
        else (st, .unwind 0 true (newC.drop (i + 1)))
  | .unwind i f chain =>
    match chain[i]? with
    | none => (st, .failure)
    | some h =>
      match getB st h with
      | none => (st, .failure)
      | some e =>
        let st' := unwindBlock st e.b
        let t := if f then oldC else newC
        if i + 1 == chain.length then (if t.isEmpty then (st', .failure) else (st', .wind (t.length - 1) f))
        else (st', .unwind (i + 1) f chain)
  | .success => (st, .success)
  | .failure => (st, .failure)

def runWRF (fl : Flags) (newC oldC : List Nat) : Nat → State → WR → Option (State × Bool)
  | _, st, .success => some (st, true)
  | _, st, .failure => some (st, false)
  | 0, _, _ => none
  | n+1, st, w =>
    let (st', w') := stepWRF fl newC oldC st w
    runWRF fl newC oldC n st' w'

def blocksOf (st : State) (l : List Nat) : List ABlock := l.filterMap fun h => (getB st h).map (·.b)

/-- validity as the repaired reorganisation applies it: inputs are always checked against the ledger -/
def validBS (fl : Flags) (st : State) (b : ABlock) : Bool :=
  b.ok && (!fl.txVerdict || b.ins.all (· ∈ st.utxo))

/-- the repaired reorganisation: unwind old (tip first), wind new (oldest first) while valid; on the first
    invalid block unwind what was wound, re-wind the old chain, and fail -/
def windAll (fl : Flags) : List ABlock → State → List ABlock → State × Bool × List ABlock
  | [], st, done => (st, true, done)
  | b :: rest, st, done =>
    if validBS fl st b then windAll fl rest (windBlock st b) (b :: done) else (st, false, done)

def reorgFixed (fl : Flags) (newC oldC : List Nat) (st : State) : State × Bool :=
  let oldBs := blocksOf st oldC            -- tip first
  let newBs := (blocksOf st newC).reverse  -- oldest first
  let st1 := oldBs.foldl unwindBlock st
  let (st2, ok, done) := windAll fl newBs st1 []
  if ok then (st2, true)
  else
    let st3 := done.foldl unwindBlock st2            -- `done` is newest first
    let st4 := oldBs.reverse.foldl windBlock st3
    (st4, false)

/-- candidate-chain ticket density for every block (repaired rule) -/
def gtAllValid (st : State) (newC : List Nat) : Bool :=
  (blocksOf st newC).all fun b => gtCountValid st b.prev b.hasGT

/-- `Blockchain::validate` -/
def validate (fl : Flags) (st : State) (newC oldC : List Nat) : Option (State × Bool) :=
  match newC.head? with
  | none => some (st, false)
  | some h0 =>
    match getB st h0 with
    | none => some (st, false)
    | some e0 =>
      let gtOk := if fl.gtEveryBlock then gtAllValid st newC else gtCountValid st e0.b.prev e0.b.hasGT
      if !gtOk then some (st, false)
      else if fl.windFailureRestores then
        -- the repaired loop needs at most 2·(|new| + |old|) + 3 iterations (`C04.fixed_loop_returns`)
        let fuel := 2 * (newC.length + oldC.length) + 4
        if oldC.isEmpty then runWRF fl newC oldC fuel st (.wind (newC.length - 1) false)
        else runWRF fl newC oldC fuel st (.unwind 0 false oldC)
      else
        let fuel := 4 * (newC.length + oldC.length) * (newC.length + oldC.length + 2) + 16
        if oldC.isEmpty then runWR fl newC oldC fuel st (.wind (newC.length - 1) false)
        else runWR fl newC oldC fuel st (.unwind 0 true oldC)

def maxOf (a b : Nat) : Nat := if a ≥ b then a else b

def amtOf (st : State) (k : Nat) : Nat :=
  match st.amt.find? (·.1 == k) with
  | some p => p.2
  | none => 0

/-- `Blockchain::check_total_supply`: `none` = the deliberate panic on a supply mismatch -/
def checkSupply (st : State) : Option State :=
  if (lcHashAt st 1).isNone then some st else
  match latest st with
  | none => none
  | some (_, lh) =>
    match getB st lh with
    | none => none            -- `.expect("There should be a latest block")`
    | some e =>
      let cur := (st.utxo.map (amtOf st)).foldl (· + ·) 0 + e.b.hs
      if st.initSupply == 0 then some { st with initSupply := cur }
      else if cur != st.initSupply then none
      else some st

/-- the orphan branch of `add_block` (blockchain.rs:337-378): clears lc marks above the new block's id -/
def disconnectAbove (st : State) : Nat → Nat → State
  | 0, _ => st
  | n+1, i =>
    let st' := match lcHashAt st i with
      | some h => if h != 0 then setLC (ringReorg st i h false) h false else st
      | none => st
    disconnectAbove st' n (i + 1)

/-- `Blockchain::add_block`. `queued` = hashes waiting in the mempool's block queue. -/
def addBlock (fl : Flags) (st : State) (b : ABlock) (queued : List Nat) : State × Outcome :=
  match latest st with
  | none => (st, .panic)
  | some (latestId, latestHash) =>
  if (getB st b.hash).isSome then (st, .exists_) else
  let parentMissing := !st.ringEmpty && (getB st b.prev).isNone
  if parentMissing && b.prev != 0 && st.loadingDone then
    if queued.contains b.prev then (st, .retryWait)
    else if b.id > maxOf 1 (latestId - st.gp) then
      let diff := if b.id ≥ latestId then b.id - latestId else latestId - b.id
      if diff < (if st.gp < 1000 then st.gp else 1000) then (st, .retryPrev) else (st, .retryChain)
    else (st, .invalid)
  else
  -- insert into ring and store
  let slot := slotOf st b.id
  let st := if (getItem st.ring slot).containsHash b.hash then st
            else { st with ring := setItem st.ring slot ((getItem st.ring slot).add b.id b.hash) }
  let st := { st with blocks := st.blocks ++ [⟨b, false⟩],
                      amt := st.amt ++ (b.ins.zip b.inAmts) ++ (b.outs.zip b.outAmts) }
  let fuel := st.blocks.length + 2
  let (found, shared, newC) := calcNew st fuel b.hash []
  let (st, oldC) :=
    if found then (st, calcOld st shared fuel latestHash [])
    else
      let st :=
        if st.ringEmpty then st
        else
          match latest st with
          | some (lid, lh) =>
            if latestHash != 0 && latestHash == lh && b.id > lid - st.gp && !fl.orphanInert then
              disconnectAbove st (lid - b.id) (b.id + 1)
            else st
          | none => st
      (st, calcOldUpto st newC.length fuel latestHash [])
  match latest st with
  | none => (st, .panic)
  | some (lid2, _) =>
  let longest := b.id > lid2 - st.gp && isLongest st newC oldC lid2
  let st := { st with ringEmpty := false }
  if longest then
    let st := setLC st b.hash true
    match validate fl st newC oldC with
    | none => (st, .stall)
    | some (st', true) =>
      match checkSupply st' with
      | some st'' => (st'', .addedLc)
      | none => (st', .panic)
    | some (st', false) =>
      let st' := setLC st' b.hash false
      let st' := removeB st' b.hash
      let slot := slotOf st' b.id
      let st' := { st' with ring := setItem st'.ring slot ((getItem st'.ring slot).delete fl b.id b.hash) }
      (st', .invalid)
  else (st, .addedSide)

/-! ### observables -/
def insertSorted (x : Nat) : List Nat → List Nat
  | [] => [x]
  | y :: ys => if x ≤ y then x :: y :: ys else y :: insertSorted x ys
def sortNat (l : List Nat) : List Nat := l.foldr insertSorted []

def maxId (st : State) : Nat := st.blocks.foldl (fun a e => maxOf a e.b.id) 0

/-- every (id, hash) held by the by-height index, on-chain or not, sorted -/
def ringDump (st : State) : List (Nat × Nat) :=
  (List.range (maxId st + 3)).flatMap fun i =>
    (sortNat (((getItem st.ring (slotOf st i)).ents.filter (·.2 == i)).map (·.1))).map fun h => (i, h)

def lcDump (st : State) : List (Nat × Nat) :=
  (List.range (maxId st + 3)).filterMap fun i => (lcHashAt st i).map fun h => (i, h)

end Saito.Chain
