/-
  Burn fee curve: `BurnFee::return_routing_work_needed_to_produce_block_in_nolan` and
  `BurnFee::calculate_burnfee_for_block` (saito-core/src/core/consensus/burnfee.rs:39-108) and the `× 1.5`
  payout cap of block.rs:2026.  All three are `f64` code.  They are modelled twice (DESIGN §2.3):

  (ii) for PROOF over a structure `FloatOps` of abstract operations (`workNeeded`, `burnfeeForBlock`); the
       monotonicity facts of IEEE-754 arithmetic the argument needs are the explicit hypotheses `FloatLaws`
       (they are NOT provable about Lean's opaque native `Float`; they are part of the trusted base and are
       sampled by the correspondence run and the direct monotonicity monitor);
  (i)  for EXECUTION with Lean's native `Float` (IEEE binary64 = Rust `f64`): written out directly over
       `UInt64` (`workNeededU64`, `burnfeeU64`) and, independently, as the instance `native : FloatOps` of the
       proof-level text.  The driver evaluates both and refuses to answer if they differ, so the function the
       theorems talk about is the function that is compared bit for bit with the Rust code.

  Rust semantics mirrored: `u64 as f64` rounds to nearest-even (`UInt64.toFloat`), `/`, `*`, `sqrt` are
  correctly rounded, `f64::round` rounds half away from zero (`Float.round`), `f64 as u64` saturates and
  maps NaN to 0 (`Float.toUInt64`).  `2 * heartbeat` is a `u64` multiplication: with overflow checks on
  (the harness profile) it panics for heartbeat ≥ 2^63 — an explicit outcome here.
  Import-free.
-/
namespace Saito.BurnFee

/-- the "impossible" requirement returned when the timestamps are misordered (burnfee.rs:47, :88) -/
def sentinel : Nat := 10000000000000000000
def u64Max : Nat := 18446744073709551615
/-- burnfee.rs:97 — burn fee used when the previous one is 0 -/
def defaultBf : Nat := 50000000

/-! ### (ii) proof level -/

/-- the floating point operations the two functions use, as an abstract signature -/
structure FloatOps where
  F : Type
  zero : F
  le : F → F → Prop
  lt : F → F → Prop
  /-- `n as f64` -/
  ofU64 : Nat → F
  div : F → F → F
  mul : F → F → F
  sqrt : F → F
  /-- `x.round() as u64` (round half away from zero, then the saturating cast) -/
  roundToU64 : F → Nat
  /-- `x as u64` (truncation, saturating) -/
  truncToU64 : F → Nat
  /-- the literal `1.5` -/
  c1_5 : F

/-- the literal `100_000_000.0` (exactly representable, equal to `100_000_000u64 as f64`) -/
def FloatOps.c1e8 (O : FloatOps) : O.F := O.ofU64 100000000

/-- burnfee.rs:39-65 over unbounded `Nat` timestamps (`2 * heartbeat` does not overflow; see `workNeededDev`) -/
def workNeeded (O : FloatOps) (bf cur prev hb : Nat) : Nat :=
  if prev ≥ cur then sentinel
  else
    let el := max (cur - prev) 1
    if el ≥ 2 * hb then 0
    else O.roundToU64 (O.mul (O.div (O.div (O.ofU64 bf) O.c1e8) (O.ofU64 el)) O.c1e8)

/-- burnfee.rs:76-108 -/
def burnfeeForBlock (O : FloatOps) (bf cur prev hb : Nat) : Nat :=
  if prev ≥ cur then sentinel
  else
    let d := max 1 (cur - prev)
    if bf = 0 then defaultBf
    else O.roundToU64 (O.mul (O.mul (O.div (O.ofU64 bf) O.c1e8) (O.sqrt (O.div (O.ofU64 hb) (O.ofU64 d)))) O.c1e8)

/-- block.rs:2026 `(previous_block.avg_total_fees as f64 * 1.5) as u64` -/
def payoutCap (O : FloatOps) (avg : Nat) : Nat := O.truncToU64 (O.mul (O.ofU64 avg) O.c1_5)

/-- outcome of a `u64` computation that may hit an arithmetic-overflow panic -/
inductive Res where
  | val (n : Nat)
  | panic
  deriving Repr, DecidableEq

/-- the function as compiled with overflow checks (dev profile): `2 * heartbeat` panics for heartbeat ≥ 2^63 -/
def workNeededDev (O : FloatOps) (bf cur prev hb : Nat) : Res :=
  if prev ≥ cur then .val sentinel
  else if 2 * hb > u64Max then .panic
  else .val (workNeeded O bf cur prev hb)

/-- The IEEE-754 facts used by the proofs. `le`/`lt` are the order of the non-NaN values that occur. -/
structure FloatLaws (O : FloatOps) : Prop where
  lt_le : ∀ {x y}, O.lt x y → O.le x y
  /-- the integer → double conversion is monotone and maps positive integers to positive doubles -/
  ofU64_mono : ∀ {a b : Nat}, a ≤ b → O.le (O.ofU64 a) (O.ofU64 b)
  ofU64_nonneg : ∀ a : Nat, O.le O.zero (O.ofU64 a)
  ofU64_pos : ∀ {a : Nat}, 0 < a → O.lt O.zero (O.ofU64 a)
  /-- a non-negative value divided by a positive one is non-negative -/
  div_nonneg : ∀ {x d}, O.le O.zero x → O.lt O.zero d → O.le O.zero (O.div x d)
  /-- correctly rounded division is antitone in a positive divisor (non-negative dividend) -/
  div_antitone : ∀ {x d₁ d₂}, O.le O.zero x → O.lt O.zero d₁ → O.le d₁ d₂ → O.le (O.div x d₂) (O.div x d₁)
  /-- multiplication by a non-negative constant is monotone -/
  mul_mono : ∀ {x y c}, O.le O.zero c → O.le x y → O.le (O.mul x c) (O.mul y c)
  /-- `round` followed by the saturating cast is monotone -/
  round_mono : ∀ {x y}, O.le x y → O.roundToU64 x ≤ O.roundToU64 y

/-- additional facts for `burnfeeForBlock` (square root, multiplication in the other argument) -/
structure FloatLawsSqrt (O : FloatOps) : Prop extends FloatLaws O where
  div_mono_left : ∀ {x y d}, O.le x y → O.lt O.zero d → O.le (O.div x d) (O.div y d)
  sqrt_mono : ∀ {x y}, O.le O.zero x → O.le x y → O.le (O.sqrt x) (O.sqrt y)
  mul_mono_right : ∀ {x y c}, O.le O.zero c → O.le x y → O.le (O.mul c x) (O.mul c y)

/-! ### an exact toy instance (integers): shows the laws are satisfiable and carries the model witnesses -/

/-- integer square root by bounded search (only used on small witnesses) -/
def isqrtAux (n : Nat) : Nat → Nat
  | 0 => 0
  | k + 1 => if (k + 1) * (k + 1) ≤ n then k + 1 else isqrtAux n k
def isqrt (n : Nat) : Nat := isqrtAux n n

/-- floats replaced by naturals, division by floor division, rounding by saturation only -/
def natOps : FloatOps where
  F := Nat
  zero := 0
  le := (· ≤ ·)
  lt := (· < ·)
  ofU64 := id
  div := (· / ·)
  mul := (· * ·)
  sqrt := isqrt
  roundToU64 := fun x => min x u64Max
  truncToU64 := fun x => min x u64Max
  c1_5 := 1

/-! ### (i) execution level: native binary64 -/

/-- the proof-level signature instantiated with Lean's native `Float` -/
def native : FloatOps where
  F := Float
  zero := (0 : UInt64).toFloat
  le := (· ≤ ·)
  lt := (· < ·)
  ofU64 := fun n => (UInt64.ofNat n).toFloat
  div := (· / ·)
  mul := (· * ·)
  sqrt := Float.sqrt
  roundToU64 := fun x => x.round.toUInt64.toNat
  truncToU64 := fun x => x.toUInt64.toNat
  c1_5 := (3 : UInt64).toFloat / (2 : UInt64).toFloat

def e8 : Float := (100000000 : UInt64).toFloat

/-- burnfee.rs:39-65 written out over `u64`/`f64` exactly as the Rust text -/
def workNeededU64 (bf cur prev hb : UInt64) : Res :=
  if prev ≥ cur then .val sentinel
  else
    let elapsed : UInt64 := max (cur - prev) 1
    if hb > 9223372036854775807 then .panic        -- `2 * heartbeat` overflows u64 (overflow checks on)
    else if elapsed ≥ 2 * hb then .val 0
    else
      let elapsedF : Float := elapsed.toFloat
      let bfF : Float := bf.toFloat / e8
      let workF : Float := bfF / elapsedF
      .val (workF * e8).round.toUInt64.toNat

/-- burnfee.rs:76-108 written out over `u64`/`f64` -/
def burnfeeU64 (bf cur prev hb : UInt64) : Res :=
  if prev ≥ cur then .val sentinel
  else
    let diff : UInt64 := max 1 (cur - prev)
    if bf == 0 then .val defaultBf
    else
      let bfF : Float := bf.toFloat / e8
      let res0 : Float := hb.toFloat / diff.toFloat
      let res1 : Float := res0.sqrt
      let res2 : Float := bfF * res1
      .val (res2 * e8).round.toUInt64.toNat

/-- block.rs:2026 -/
def payoutCapU64 (avg : UInt64) : Nat := (avg.toFloat * ((3 : UInt64).toFloat / (2 : UInt64).toFloat)).toUInt64.toNat

end Saito.BurnFee
