import Saito.Model.BurnFee
/-
  Routing work and the payout lottery.
    transaction.rs:673-723   `Transaction::generate_total_work`      → `workForMe`
    transaction.rs:1589-1618 `Transaction::validate_routing_path`    → `validateRoutingPath`
    transaction.rs:736-803   `Transaction::get_winning_routing_node` → `winningRouter`
    block.rs:1132-1196       `Block::find_winning_router`            → `findWinningRouter`
    block.rs:1990-2207       payout section of `generate_consensus_values` → `feeOutputs`
    block.rs:2986-2996, 3194-3217 routing-work gate and transaction sweep of `Block::validate` → `blockAccepts`

  Abstraction: a public key is a `Nat` (`0` = the all-zero key `[0; 33]`, the "burn" address); a hop is
  (from, to, oracle bit "the hop signature verifies under `from` over tx.signature ‖ to" — supplied by the
  harness, never computed here); a transaction is its sender (`from[0].public_key`, if any input), its
  `total_fees`, its path and one oracle bit for every OTHER clause of `Transaction::validate`.
  Lottery numbers (hashes read as 256-bit integers) are plain `Nat` inputs.
  Scope: no ATR transactions (histories shorter than the genesis period); `u64` sums do not overflow
  (fees < 2^63 per transaction, Σ work < 2^64 per block).  Import-free apart from Model/BurnFee.
-/
namespace Saito.Routing
open Saito.BurnFee

structure Flags where
  /-- block.rs:3194-3217 — the verdict of `Transaction::validate` (which contains `validate_routing_path`)
      gates block validity. Pinned: the sweep closure returns `true` whatever the verdict was. -/
  txVerdictPropagated : Bool := false
  /-- block.rs:3129-3167 with :1419-1421 — the block's Fee-typed transactions are exactly the expected one when the
      block carries a golden ticket, and none otherwise. Pinned: only the LAST Fee transaction is compared, and only
      when a ticket exists (`cv.fee_transaction` is `None` without a ticket, so the inner "fee transaction but no
      golden ticket" test is dead code); every Fee-typed transaction passes `Transaction::validate` unseen. -/
  feeTxExact : Bool := false
  deriving Repr, DecidableEq

def Flags.fixed : Flags := ⟨true, true⟩

structure Hop where
  frm : Nat
  to : Nat
  sigOk : Bool
  deriving Repr, DecidableEq

structure Tx where
  /-- `from[0].public_key`; `none` = no input slips -/
  sender : Option Nat
  /-- `total_fees` -/
  fees : Nat
  path : List Hop
  /-- every clause of `Transaction::validate` other than `validate_routing_path` -/
  restOk : Bool := true
  deriving Repr, DecidableEq

/-! ### generate_total_work -/

/-- `let half = w / 2; w -= half` -/
def halve (w : Nat) : Nat := w - w / 2

def halveN : Nat → Nat → Nat
  | 0, w => w
  | n + 1, w => halveN n (halve w)

/-- the `for i in 1..path.len()` loop: `p` is `path[i-1].to`; a contiguity break returns 0 -/
def workLoop : Nat → List Hop → Nat → Nat
  | _, [], w => w
  | p, h :: r, w => if h.frm ≠ p then 0 else workLoop h.to r (halve w)

/-- `total_work_for_me` of a transaction in a block created by `creator` -/
def workForMe (creator : Nat) (tx : Tx) : Nat :=
  match tx.path with
  | [] => 0
  | h0 :: r =>
    match (h0 :: r).getLast? with
    | none => 0
    | some l => if l.to ≠ creator then 0 else workLoop h0.to r tx.fees

/-- hop `i` starts where hop `i-1` ended -/
def contigFrom : Nat → List Hop → Bool
  | _, [] => true
  | p, h :: r => (h.frm == p) && contigFrom h.to r

def contiguous : List Hop → Bool
  | [] => true
  | h :: r => contigFrom h.to r

/-! ### validate_routing_path -/

/-- `.all(|(index, hop)| …)`: `p` = previous hop's `to` (`none` for hop 0: the code does not tie the first
    hop to the sender — a node that forwards a path-less transaction legitimately signs the first hop) -/
def vrpLoop : Option Nat → List Hop → Bool
  | _, [] => true
  | p, h :: r =>
    h.sigOk && (h.frm != h.to) &&
      (match p with
       | none => true
       | some q => h.frm == q) &&
      vrpLoop (some h.to) r

def validateRoutingPath (tx : Tx) : Bool := vrpLoop none tx.path

/-- `Transaction::validate` -/
def txValidate (tx : Tx) : Bool := tx.restOk && validateRoutingPath tx

/-! ### the property's own notion of usable work (what an honest verifier would count) -/

/-- the path is non-empty, ends at the creator, is contiguous, every hop signature verifies, no hop is a
    self-hop -/
def pathValidFor (creator : Nat) (tx : Tx) : Bool :=
  match tx.path.getLast? with
  | none => false
  | some l => (l.to == creator) && validateRoutingPath tx

def validWork (creator : Nat) (tx : Tx) : Nat :=
  if pathValidFor creator tx then workForMe creator tx else 0

/-! ### blocks -/

structure Blk where
  creator : Nat
  txs : List Tx
  /-- output slips (public key, amount) of every Fee-typed transaction of the block, in block order -/
  feeTxs : List (List (Nat × Nat)) := []
  deriving Repr, DecidableEq

def sumList : List Nat → Nat
  | [] => 0
  | a :: r => a + sumList r

/-- `Block::generate`: `total_work += transaction.total_work_for_me` -/
def totalWork (b : Blk) : Nat := sumList (b.txs.map (workForMe b.creator))
def totalValidWork (b : Blk) : Nat := sumList (b.txs.map (validWork b.creator))

/-- the fee-transaction test of `Block::validate`; `expected` = `cv.fee_transaction`'s outputs (`none` when the
    block has no golden ticket). `vau` = `validate_against_utxo` = `Blockchain::has_total_supply_loaded()`: true on
    a node that holds block 1 (or a full genesis period), false on a node that joined mid-chain. The hash
    comparison is `if validate_against_utxo && hash1 != hash2` (block.rs:3147): a mid-chain node compares nothing. -/
def feeTxOk (fl : Flags) (expected : Option (List (Nat × Nat))) (b : Blk) (vau : Bool := true) : Bool :=
  if fl.feeTxExact then
    match expected with
    | none => b.feeTxs == []
    | some e => b.feeTxs.length == 1 && (!vau || b.feeTxs == [e])
  else
    match expected, b.feeTxs.getLast? with
    | _, none => true                      -- `cv.ft_num == 0`: nothing is compared
    | none, some _ => true                 -- no ticket: the `if let (Some(..), Some(..))` does not match
    | some e, some l => !vau || l == e     -- hash of the LAST Fee transaction against the expected one (gated)

/-- the part of `Block::validate` this property is about: `rest` = every other check of the block that applies on
    this kind of node, `needed` = the routing work requirement, `expected` = outputs of the expected fee
    transaction, `vau` = `validate_against_utxo`.
    NOT gated by `vau` in the real code, hence not here: the routing-work gate (block.rs:2986-2996), burn fee,
    difficulty, the golden-ticket solution, the transaction sweep. Gated (part of `rest` / `feeTxOk`): the
    fee/payout/average header fields, treasury, graveyard, the rebroadcast counters, the fee-transaction hash. -/
def blockAcceptsN (fl : Flags) (needed : Nat) (b : Blk) (rest : Bool) (expected : Option (List (Nat × Nat)) := none)
    (vau : Bool := true) : Bool :=
  rest && decide (needed ≤ totalWork b) && (!fl.txVerdictPropagated || b.txs.all txValidate) && feeTxOk fl expected b vau

def blockAccepts (fl : Flags) (O : FloatOps) (parentBf ts parentTs hb : Nat) (b : Blk) (rest : Bool)
    (expected : Option (List (Nat × Nat)) := none) (vau : Bool := true) : Bool :=
  blockAcceptsN fl (workNeeded O parentBf ts parentTs hb) b rest expected vau

def sumAmt : List (Nat × Nat) → Nat
  | [] => 0
  | p :: r => p.2 + sumAmt r

inductive Verdict where
  | accepted
  | rejected
  /-- the block validated and was wound, then `Blockchain::check_total_supply` panicked -/
  | supplyPanic
  deriving Repr, DecidableEq

/-- `add_block` on an otherwise honest block extending the tip: after winding, the supply check compares the
    ledger with the initial supply; the fee outputs the block really carries against those its header accounts for -/
def blockOutcome (fl : Flags) (needed : Nat) (b : Blk) (rest : Bool) (expected : Option (List (Nat × Nat)))
    (vau : Bool := true) : Verdict :=
  if blockAcceptsN fl needed b rest expected vau then
    -- `check_total_supply` returns at once when `has_total_supply_loaded()` is false
    if !vau || sumAmt b.feeTxs.flatten = sumAmt (expected.getD []) then .accepted else .supplyPanic
  else .rejected

/-! ### get_winning_routing_node -/

inductive KRes where
  | key (k : Nat)
  | panic
  deriving Repr, DecidableEq

/-- `work_by_hop`: after the first entry `agg`, one entry per further hop -/
def workByHop : Nat → Nat → Nat → List Nat
  | 0, _, _ => []
  | n + 1, agg, this => (agg + this / 2) :: workByHop n (agg + this / 2) (this / 2)

/-- the vector `work_by_hop` for a path of `n ≥ 1` hops -/
def workVec (fees n : Nat) : List Nat := fees :: workByHop (n - 1) fees fees

/-- the final loop; running off the end is the `unreachable!` -/
def pickHop (w : Nat) : List Nat → List Hop → KRes
  | c :: cs, h :: hs => if w ≤ c then .key h.to else pickHop w cs hs
  | _, _ => .panic

def lastD : List Nat → Nat → Nat
  | [], d => d
  | a :: r, _ => lastD r a

def winningRouter (tx : Tx) (r : Nat) : KRes :=
  match tx.path with
  | [] => .key (tx.sender.getD 0)
  | h0 :: rest =>
    if tx.fees = 0 then .key 0
    else
      let v := workVec tx.fees (h0 :: rest).length
      let agg := lastD v 0
      pickHop (r % agg) v (h0 :: rest)

/-! ### find_winning_router -/

/-- a block whose fees are being paid out: header `total_fees`, transactions in block order -/
structure PaidBlock where
  totalFees : Nat
  txs : List Tx
  deriving Repr, DecidableEq

/-- first transaction whose `cumulative_fees ≥ wn` -/
def firstCum (wn : Nat) : Nat → List Tx → Option (Tx × Nat)
  | _, [] => none
  | acc, t :: r => if acc + t.fees ≥ wn then some (t, acc + t.fees) else firstCum wn (acc + t.fees) r

/-- `r1` = the lottery number, `r2` = its hash (`hash(random_number)`) read as an integer -/
def findWinningRouter (b : PaidBlock) (r1 r2 : Nat) : KRes :=
  if b.totalFees = 0 then .key 0
  else
    let wn := max (r1 % b.totalFees) 1
    match firstCum wn 0 b.txs with
    | none => .key 0
    | some (tx, cum) => if cum = 0 then .panic else winningRouter tx r2    -- `assert_ne!(cumulative_fees, 0)`

/-! ### payout section of generate_consensus_values (block with a golden ticket) -/

structure PayCtx where
  /-- `golden_ticket.public_key` -/
  miner : Nat
  prev : PaidBlock
  prevHasGT : Bool
  /-- the block before `prev`, if the node holds it -/
  pp : Option PaidBlock
  /-- `(prev.avg_total_fees as f64 * 1.5) as u64`; an arbitrary number for the theorems -/
  cap : Nat
  /-- lottery numbers: n1 = hash(gt.random), hash(n1); n2 = hash(hash(n1)), hash(n2) -/
  a1 : Nat
  a2 : Nat
  b1 : Nat
  b2 : Nat
  deriving Repr, DecidableEq

inductive FRes where
  | outs (l : List (Nat × Nat))     -- (public key, amount) of the expected fee transaction, in slip order
  | panic
  deriving Repr, DecidableEq

def minerPayout (c : PayCtx) : Nat := min (c.prev.totalFees / 2) c.cap
def router1Payout (c : PayCtx) : Nat := min (c.prev.totalFees - c.prev.totalFees / 2) c.cap
def router2Payout (c : PayCtx) : Nat :=
  if c.prevHasGT then 0 else
  match c.pp with
  | none => 0
  | some q => min (q.totalFees - q.totalFees / 2) c.cap

def slipIf (k amt : Nat) : List (Nat × Nat) := if amt > 0 ∧ k ≠ 0 then [(k, amt)] else []

/-- the three output slips, given the two lottery winners -/
def feeSlips (c : PayCtx) (k1 k2 : Nat) : List (Nat × Nat) :=
  slipIf c.miner (minerPayout c) ++ slipIf k1 (router1Payout c) ++ slipIf k2 (router2Payout c)

def feeOutputs (c : PayCtx) : FRes :=
  match findWinningRouter c.prev c.a1 c.a2 with
  | .panic => .panic
  | .key k1 =>
    if c.prevHasGT then .outs (feeSlips c k1 0)
    else match c.pp with
      | none => .outs (feeSlips c k1 0)
      | some q =>
        match findWinningRouter q c.b1 c.b2 with
        | .panic => .panic
        | .key k2 => .outs (feeSlips c k1 k2)

/-- `k` is the `to` of a hop of some transaction of the block, or the sender of one without a path -/
def OnPath (b : PaidBlock) (k : Nat) : Prop :=
  ∃ tx ∈ b.txs, (∃ h ∈ tx.path, h.to = k) ∨ (tx.path = [] ∧ tx.sender = some k)

end Saito.Routing
