import Saito.Model.Chain
/-
  Block files, the storage-operation journal, crashes, and the start-up loading path.

  Code: `Blockchain::add_block_success` → `Storage::write_block_to_disk` (blockchain.rs:564-632, storage.rs:70, also for
  side-chain blocks), `delete_block` at 2·genesis_period (blockchain.rs:1691-1798), `RustIOHandler::write_value`
  (rust_io_handler.rs:136-152: `File::create` + `write_all`, no temp file / rename), and the loading path
  `ConsensusThread::on_init` (consensus_thread.rs:470-613): `load_block_name_list` (sorted), batches of 1000,
  `Storage::load_blocks_from_disk` (storage.rs:112-156 — RETURNS at the first unreadable / undecodable file of a
  batch), `Blockchain::add_blocks_from_mempool` (stable sort by block id, `add_block` each), deletion of every listed
  file whose block is not in the block store (`delete_old_blocks`).

  Abstractions. A file name `<timestamp>-<hex hash>.sai` is the pair (timestamp, order-preserving key of the hash);
  string order = this lexicographic order as long as timestamps have equal width (13 digits for ms since 1970 until
  the year 2286). File content is `good b` (the complete encoding of block `b`) or `torn` (a strict prefix of an
  encoding): `Saito.C12.prefix_rejected` proves that the decoder rejects EVERY strict prefix of a well-formed block's
  encoding, so a torn file never decodes to any block. Blocks are `Saito.Chain.ABlock`s; adding is
  `Saito.Chain.addBlock` (no purge at 2·gp / rebroadcast in that model: histories shorter than the window).
-/
namespace Saito.Storage
open Saito.Chain

structure Flags where
  /-- storage.rs:131-146 — an undecodable file is skipped. Pinned: `return`, which silently abandons every later
      file of the batch (and `delete_old_blocks` then removes those files from disk). -/
  loadSkipsBadFile : Bool := false
  /-- blockchain.rs:585 — loading does not write the file it has just read. Pinned: every loaded block is written
      again in place (`File::create` truncates the complete file first). -/
  reloadKeepsFiles : Bool := false
  deriving Repr, DecidableEq

def Flags.fixed : Flags := ⟨true, true⟩

structure Name where
  ts : Nat
  hk : Nat
  deriving Repr, DecidableEq

def Name.lt (a b : Name) : Bool := a.ts < b.ts || (a.ts == b.ts && a.hk < b.hk)
def Name.le (a b : Name) : Bool := !(b.lt a)

inductive Content where
  | good (b : ABlock)
  | torn
  deriving Repr, DecidableEq

abbrev Disk := List (Name × Content)

inductive Op where
  | write (n : Name) (b : ABlock)
  | remove (n : Name)
  deriving Repr, DecidableEq

abbrev Journal := List Op

/-- `File::create` (truncate or create) followed by the content -/
def put (d : Disk) (n : Name) (c : Content) : Disk := d.filter (fun e => e.1 != n) ++ [(n, c)]
def del (d : Disk) (n : Name) : Disk := d.filter (fun e => e.1 != n)

def applyOp (d : Disk) : Op → Disk
  | .write n b => put d n (.good b)
  | .remove n => del d n

def applyAll (d : Disk) (j : Journal) : Disk := j.foldl applyOp d

/-- the disk a process leaves behind when it dies after `k` complete operations; with `torn` the `(k+1)`-th
    operation, if it is a write, had created its file and written a strict prefix of the content -/
def crash (k : Nat) (torn : Bool) (j : Journal) : Disk :=
  let d := applyAll [] (j.take k)
  if torn then
    match j[k]? with
    | some (.write n _) => put d n .torn
    | _ => d
  else d

/-! ### loading -/
def insName (x : Name × Content) : Disk → Disk
  | [] => [x]
  | y :: ys => if x.1.le y.1 then x :: y :: ys else y :: insName x ys

/-- `load_block_name_list`: `list.sort()` -/
def sortDisk (d : Disk) : Disk := d.foldr insName []

/-- `load_blocks_from_disk` over one batch -/
def loadBatch (sf : Flags) : Disk → List (Name × ABlock)
  | [] => []
  | (n, .good b) :: r => (n, b) :: loadBatch sf r
  | (_, .torn) :: r => if sf.loadSkipsBadFile then loadBatch sf r else []

def insId (x : Name × ABlock) : List (Name × ABlock) → List (Name × ABlock)
  | [] => [x]
  | y :: ys => if x.2.id ≤ y.2.id then x :: y :: ys else y :: insId x ys

/-- `blocks.make_contiguous().sort_by(|a, b| a.id.cmp(&b.id))` (stable) -/
def sortById (l : List (Name × ABlock)) : List (Name × ABlock) := l.foldr insId []

structure Acc where
  st : State
  /-- `some o`: the loading path did not come back (`o` = panic or stall) -/
  bad : Option Outcome := none
  /-- files written by `add_block_success` while loading, oldest first -/
  written : List (Name × ABlock) := []
  deriving Repr, DecidableEq

/-- `add_blocks_from_mempool` -/
def addAll (cf : Chain.Flags) : Acc → List (Name × ABlock) → Acc
  | a, [] => a
  | a, (n, b) :: r =>
    match a.bad with
    | some _ => a
    | none =>
      let (st', o) := addBlock cf a.st b []
      match o with
      | .panic => { a with bad := some .panic }
      | .stall => { a with bad := some .stall }
      | .addedLc => addAll cf { a with st := st', written := a.written ++ [(n, b)] } r
      | .addedSide => addAll cf { a with st := st', written := a.written ++ [(n, b)] } r
      | _ => addAll cf { a with st := st' } r

/-- the `while !list.is_empty()` loop of `on_init` (fuel = number of files) -/
def loadLoop (sf : Flags) (cf : Chain.Flags) (batch : Nat) : Nat → Disk → Acc → Acc
  | 0, _, a => a
  | fuel+1, l, a =>
    if l.isEmpty then a else
    loadLoop sf cf batch fuel (l.drop batch) (addAll cf a (sortById (loadBatch sf (l.take batch))))

structure Restarted where
  st : State
  bad : Option Outcome
  /-- the storage operations issued by the restart itself -/
  ops : Journal
  disk : Disk
  deriving Repr, DecidableEq

/-- file names kept by `delete_old_blocks`: files whose block is in the block store with an id ≥ latest − 2·gp -/
def retained (st : State) (e : Name × Content) : Bool :=
  match e.2 with
  | .torn => false
  | .good b =>
    let latestId := match latest st with | some (i, _) => i | none => 0
    (getB st b.hash).isSome && b.id ≥ latestId - 2 * st.gp

/-- `ConsensusThread::on_init` on a fresh node -/
def restart (sf : Flags) (cf : Chain.Flags) (gp : Nat) (deleteOld : Bool) (d : Disk) (batch : Nat := 1000) : Restarted :=
  let l := sortDisk d
  let a := loadLoop sf cf batch l.length l { st := { gp := gp } }
  match a.bad with
  | some o => { st := a.st, bad := some o, ops := [], disk := d }
  | none =>
    let ws : Journal := if sf.reloadKeepsFiles then [] else a.written.map fun p => Op.write p.1 p.2
    let rs : Journal := if deleteOld then (l.filter fun e => !retained a.st e).map fun e => Op.remove e.1 else []
    { st := a.st, bad := none, ops := ws ++ rs, disk := applyAll d (ws ++ rs) }

/-! ### a live node and its journal -/
/-- a history: the blocks offered to a live node, each with the file name it would be stored under -/
abbrev History := List (Name × ABlock)

/-- the live node: `add_block` for each block in delivery order (stops at a panic / stall) -/
def live (cf : Chain.Flags) (gp : Nat) (h : History) : Acc := addAll cf { st := { gp := gp } } h

/-- the storage journal of a live node (histories without purge): one write per accepted block -/
def journalOf (cf : Chain.Flags) (gp : Nat) (h : History) : Journal :=
  (live cf gp h).written.map fun p => Op.write p.1 p.2

def diskOf (cf : Chain.Flags) (gp : Nat) (h : History) : Disk := applyAll [] (journalOf cf gp h)

/-! ### observables -/
def supplyOf (st : State) : Nat :=
  (st.utxo.map (amtOf st)).foldl (· + ·) 0 +
    (match latest st with
     | some (_, h) => (match getB st h with | some e => e.b.hs | none => 0)
     | none => 0)

def tipOf (st : State) : Option (Nat × Nat) := latest st

end Saito.Storage
