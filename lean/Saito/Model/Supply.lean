/-
  C02 — token supply.  Import-free executable model of

  (a) the per-transaction arithmetic of `Transaction::generate_total_fees` (transaction.rs:623-671: two plain `u64`
      iterator sums) and of the only per-transaction guard `total_out > total_in` of `Transaction::validate`
      (transaction.rs:~1147), with the three behaviours of an overflowing sum made explicit:
        release / `prodlike` profile  → the sum wraps modulo 2^64,
        dev profile (overflow checks) → the sum panics,
        repaired (`sumsChecked`)      → `checked_add`, the transaction is rejected;

  (b) the supply accounting of one block: what `Block::generate_consensus_values` (block.rs:1382-2276) and
      `Block::create` (block.rs:569-870) put into total_fees / previous_block_unpaid / treasury / graveyard, into the
      fee transaction and into the rebroadcast (ATR) transactions, and what winding the block does to the set of
      spendable outputs; `supply` is the quantity `Blockchain::check_total_supply` (blockchain.rs:2221-2321) sums —
      here over `Nat`, the node does it in `u64`.

  All amounts are `Nat`. Hashes, keys, signatures do not occur: utxo keys are opaque numbers, the three "is the
  all-zero public key" tests of the payout code and the `(avg_total_fees as f64 * 1.5) as u64` caps are inputs.
-/
namespace Saito.Supply

/-- 2^64 (a literal so that `omega` can reason modulo it) -/
abbrev two64 : Nat := 18446744073709551616

structure Flags where
  /-- transaction.rs:626-656 — the input/output sums use `checked_add` and an overflowing transaction is rejected
      (pinned: plain `u64` iterator sums) -/
  sumsChecked : Bool := false
  /-- block.rs:2148-2162 — the miner half of a ticket whose public key is all-zero goes to the graveyard
      (pinned: it is neither paid out nor added to the graveyard, i.e. it silently disappears) -/
  minerZeroKeyBurns : Bool := false
  /-- block.rs:1856-1925 — the "no more than 5% of the treasury per block" branch of the rebroadcast code is sound.
      Pinned: while a block is being CREATED `self.treasury` is still 0, so any positive rebroadcast payout (multiplier
      ≥ 2) enters the branch; there every rebroadcast output is set to the full payout `a·m`, NO payout is booked
      against the treasury and ALL rebroadcast fees (including the collected dust) are zeroed. `true` = idealised
      repair: the branch is not entered (the uncapped formulas apply). -/
  atrCapSound : Bool := false
  deriving Repr, DecidableEq

def Flags.fixed : Flags := ⟨true, true, true⟩

/-- how the build treats an overflowing `u64` addition -/
inductive Profile where
  | release   -- overflow-checks off: wraps (the production semantics; harness profile `prodlike`)
  | dev       -- overflow-checks on: panics (the test-suite semantics)
  deriving Repr, DecidableEq

/-! ## (a) per-transaction arithmetic -/

/-- unbounded sum -/
def sumNat : List Nat → Nat
  | [] => 0
  | x :: xs => x + sumNat xs

/-- `iter().sum::<u64>()` with overflow checks off: a left fold of wrapping additions -/
def sumU64 (l : List Nat) : Nat := l.foldl (fun a x => (a + x) % two64) 0

/-- some partial sum leaves `u64` (all summands are non-negative, so: the total does) -/
def overflows (l : List Nat) : Bool := decide (two64 ≤ sumNat l)

/-- `total_fees` as `generate_total_fees` sets it: `in - out` if `in > out`, else 0 -/
def txFees (tin tout : Nat) : Nat := if tin > tout then tin - tout else 0

inductive TxRes where
  /-- `generate_total_fees` returned; `accepted` is the verdict of `validate` for a signed Normal transaction -/
  | done (tin tout fees : Nat) (accepted : Bool)
  /-- repaired code: a sum does not fit `u64`, the transaction is rejected -/
  | rejectedOverflow
  /-- dev profile: `attempt to add with overflow` -/
  | panic
  deriving Repr, DecidableEq

/-- the guards of `Transaction::validate` that depend on the slips of a signed Normal transaction:
    at least one input ("must have sender"), at least one output, `!(total_out > total_in)` -/
def txVerdict (nIn nOut tin tout : Nat) : Bool := decide (0 < nIn) && decide (0 < nOut) && decide (tout ≤ tin)

/-- `generate_total_fees` followed by `validate`, amounts of all input / output slips in order -/
def txEval (fl : Flags) (prof : Profile) (ins outs : List Nat) : TxRes :=
  let wrapped := TxRes.done (sumU64 ins) (sumU64 outs) (txFees (sumU64 ins) (sumU64 outs))
                   (txVerdict ins.length outs.length (sumU64 ins) (sumU64 outs))
  if overflows ins || overflows outs then
    if fl.sumsChecked then .rejectedOverflow
    else match prof with
      | .dev => .panic
      | .release => wrapped
  else wrapped

def TxRes.str : TxRes → String
  | .done i o f a => s!"in={i} out={o} fees={f} acc={if a then 1 else 0}"
  | .rejectedOverflow => "reject-overflow"
  | .panic => "panic"

/-! ## (b) payout partition of `generate_consensus_values` -/

/-- `if expected > maximum { graveyard += expected - maximum; maximum } else { expected }` → (paid, excess) -/
def capped (c x : Nat) : Nat × Nat := if x > c then (c, x - c) else (x, 0)

structure PayIn where
  /-- this block carries a golden ticket (`cv.gt_index.is_some()`) -/
  hasGT : Bool
  /-- `blockchain.blocks.get(&self.previous_block_hash)` is `Some` -/
  prevPresent : Bool
  /-- `previous_block.has_golden_ticket` -/
  prevGT : Bool
  /-- `blockchain.blocks.get(&previous_block.previous_block_hash)` is `Some` -/
  ppPresent : Bool
  /-- `previous_block.total_fees`, `previous_previous_block.total_fees`, `previous_block.previous_block_unpaid` -/
  feesP : Nat
  feesPP : Nat
  unpaidP : Nat
  /-- `previous_block.avg_total_fees` (argument of the cap) -/
  avgP : Nat
  /-- the ticket's public key / the winning router of the previous / previous-previous block is all-zero -/
  minerZero : Bool
  r1Zero : Bool
  r2Zero : Bool
  deriving Repr, DecidableEq

structure PayOut where
  /-- `cv.total_payout_mining`, the two router payouts (`cv.total_payout_routing` is their sum) -/
  miner : Nat
  router1 : Nat
  router2 : Nat
  /-- the amounts that became outputs of the fee transaction (0 when the key is all-zero) -/
  minerPaid : Nat
  r1Paid : Nat
  r2Paid : Nat
  /-- `cv.total_payout_treasury`, `cv.total_payout_graveyard` -/
  treasury : Nat
  graveyard : Nat
  deriving Repr, DecidableEq

/-- the previous block was not paid and its parent is known: the second payout / the graveyard sweep applies -/
def PayIn.second (p : PayIn) : Bool := !p.prevGT && p.ppPresent

/-- block.rs:1988-2215. `cap` is an arbitrary function (the code: `(avg as f64 * 1.5) as u64`). -/
def payouts (fl : Flags) (cap : Nat → Nat) (p : PayIn) : PayOut :=
  if p.hasGT then
    if p.prevPresent then
      let c := cap p.avgP
      let em := p.feesP / 2
      let m := capped c em
      let r1 := capped c (p.feesP - em)
      let et := p.feesPP / 2
      let t := if p.second then capped c et else (0, 0)
      let r2 := if p.second then capped c (p.feesPP - et) else (0, 0)
      { miner := m.1, router1 := r1.1, router2 := r2.1,
        minerPaid := if p.minerZero then 0 else m.1,
        r1Paid := if p.r1Zero then 0 else r1.1,
        r2Paid := if p.r2Zero then 0 else r2.1,
        treasury := t.1,
        graveyard := m.2 + r1.2 + t.2 + r2.2
                     + (if p.r1Zero then r1.1 else 0) + (if p.r2Zero then r2.1 else 0)
                     + (if p.minerZero && fl.minerZeroKeyBurns then m.1 else 0) }
    else ⟨0, 0, 0, 0, 0, 0, 0, 0⟩
  else
    { miner := 0, router1 := 0, router2 := 0, minerPaid := 0, r1Paid := 0, r2Paid := 0, treasury := 0,
      graveyard := if p.prevPresent && p.second then p.unpaidP else 0 }

/-- the fees this block distributes (taken out of `total_fees(prev)` and `previous_block_unpaid(prev)`) -/
def distributed (p : PayIn) : Nat :=
  if p.hasGT then
    if p.prevPresent then p.feesP + (if p.second then p.feesPP else 0) else 0
  else if p.prevPresent && p.second then p.unpaidP else 0

/-- what the pinned code drops: the miner half when the ticket's key is all-zero -/
def lost (fl : Flags) (cap : Nat → Nat) (p : PayIn) : Nat :=
  if p.hasGT && p.prevPresent && p.minerZero && !fl.minerZeroKeyBurns then (payouts fl cap p).miner else 0

/-! ## (b) block accounting -/

/-- a spendable output: opaque key, amount, id of the block that created it (all three are part of the real key) -/
structure Utx where
  key : Nat
  amt : Nat
  bid : Nat
  deriving Repr, DecidableEq

/-- the header fields the supply check reads, plus the two smoothed averages the payouts depend on -/
structure Hdr where
  id : Nat
  hasGT : Bool
  treasury : Nat
  graveyard : Nat
  unpaid : Nat
  fees : Nat
  /-- `avg_total_fees` -/
  avgFees : Nat := 0
  /-- `avg_nolan_rebroadcast_per_block` -/
  avgNR : Nat := 0
  deriving Repr, DecidableEq

/-- ledger of one wound chain: spendable outputs (insertion order), its tip and the tip's parent (if known) -/
structure St where
  gp : Nat
  utxo : List Utx
  tip : Hdr
  prev : Option Hdr
  deriving Repr, DecidableEq

def sumAmt (l : List Utx) : Nat := sumNat (l.map (·.amt))

/-- `slip.block_id < latest.id.saturating_sub(gp)` is false -/
def inWin (gp tipId : Nat) (x : Utx) : Bool := decide (tipId ≤ x.bid + gp)
/-- outputs of block `n - gp - 1`: they leave the window when block `n` becomes the tip (the ATR block) -/
def expiring (gp n : Nat) (x : Utx) : Bool := x.bid + gp + 1 == n

def utxoValue (st : St) : Nat := sumAmt (st.utxo.filter (inWin st.gp st.tip.id))

/-- what `check_total_supply` computes, over `Nat` -/
def supply (st : St) : Nat := utxoValue st + st.tip.treasury + st.tip.graveyard + st.tip.unpaid + st.tip.fees

def removeKey (u : List Utx) (k : Nat) : List Utx := u.filter (·.key != k)
def removeKeys (u : List Utx) (ks : List Nat) : List Utx := ks.foldl removeKey u

/-- value-carrying inputs and outputs of one Normal / GoldenTicket transaction -/
structure TxIO where
  ins : List Utx
  outs : List Utx      -- `bid` = id of the block that carries the transaction
  deriving Repr, DecidableEq

/-- `total_fees` of the transaction as the code computes it: from the WRAPPED sums -/
def TxIO.fee (t : TxIO) : Nat := txFees (sumAmt t.ins % two64) (sumAmt t.outs % two64)

/-- `avg' = prev - (prev - x) / gp` computed in `i128` (division truncates toward zero) -/
def smooth (gp prev x : Nat) : Nat := if x ≤ prev then prev - (prev - x) / gp else prev + (x - prev) / gp

/-- `1 + previous.treasury / (gp * previous.avg_nolan_rebroadcast_per_block)` (divisor 0 → 1). The product is a plain
    `u64` multiplication (block.rs:1544): production semantics = wrapping (the dev profile panics there; that only
    happens when a single block rebroadcasts close to 2^64/gp units) -/
def atrMultiplier (gp : Nat) (p : Hdr) : Nat :=
  let staked := (gp * p.avgNR) % two64
  if staked > 0 then 1 + p.treasury / staked else 1

structure AtrAcc where
  /-- rebroadcast outputs (type ATR), in order -/
  outs : List Utx := []
  /-- keys spent by the rebroadcast transactions (the original key when the amount is unchanged) -/
  spent : List Nat := []
  /-- the payout `a·m` behind each rebroadcast output (same order as `outs`) -/
  pays : List Nat := []
  feesAtr : Nat := 0
  payoutAtr : Nat := 0
  nolan : Nat := 0
  deriving Repr, DecidableEq

def lookup (l : List (Nat × Nat)) (k : Nat) (dflt : Nat) : Nat :=
  match l.find? (·.1 == k) with
  | some p => p.2
  | none => dflt

/-- block.rs:1561-1840, one eligible slip: payout `a·m` — a plain `u64` multiplication, production semantics =
    wrapping (the dev profile panics) —; if it exceeds the fee the slip is rebroadcast with `payout − fee` and the surplus
    `payout − a` (wrapping subtraction) is charged to the treasury, otherwise its whole amount is collected as a fee.
    `feeOf` (transaction size × previous avg fee per byte) and the key of the new output are inputs. -/
def atrStep (m id : Nat) (feeOf outKeyOf : List (Nat × Nat)) (acc : AtrAcc) (e : Utx) : AtrAcc :=
  let payout := (e.amt * m) % two64
  let surplus := if e.amt ≤ payout then payout - e.amt else payout + two64 - e.amt
  let fee := lookup feeOf e.key 0
  if payout > fee then
    { outs := acc.outs ++ [{ key := lookup outKeyOf e.key (1000000000 + e.key), amt := payout - fee, bid := id }],
      spent := if payout == e.amt then acc.spent ++ [e.key] else acc.spent,
      pays := acc.pays ++ [payout],
      feesAtr := acc.feesAtr + fee, payoutAtr := acc.payoutAtr + surplus, nolan := acc.nolan + e.amt }
  else
    { acc with feesAtr := acc.feesAtr + e.amt, nolan := acc.nolan + e.amt }

def atrRun (m id : Nat) (feeOf outKeyOf : List (Nat × Nat)) (es : List Utx) : AtrAcc :=
  es.foldl (atrStep m id feeOf outKeyOf) {}

def setAmts : List Utx → List Nat → List Utx
  | o :: os, p :: ps => { o with amt := p } :: setAmts os ps
  | os, _ => os

/-- block.rs:1856-1925 as executed by `Block::create` on the pinned tree (`self.treasury = 0`, hence
    `max_total_payout = 0`, adjusted multiplier `0 / total_rebroadcast_nolan = 0`, output multiplier 1):
    `to.amount = from.amount` (= `a·m`), `total_payout_atr = Σ (to − from) = 0`, `total_fees_atr = 0` -/
def capBranch (fl : Flags) (a : AtrAcc) : AtrAcc :=
  if !fl.atrCapSound && decide (0 < a.payoutAtr) then
    { a with outs := setAmts a.outs a.pays, feesAtr := 0, payoutAtr := 0 }
  else a

/-- what the harness supplies about a block (read off the real block, plus oracle values) -/
structure BlockIn where
  hasGT : Bool
  /-- Normal and GoldenTicket transactions in block order -/
  txs : List TxIO
  minerZero : Bool := false
  r1Zero : Bool := false
  r2Zero : Bool := false
  /-- per expiring utxo key: the rebroadcast fee; the key of the rebroadcast output -/
  atrFee : List (Nat × Nat) := []
  atrOutKey : List (Nat × Nat) := []
  /-- keys of the (up to three) outputs of the fee transaction -/
  feeKeys : List Nat := []
  deriving Repr, DecidableEq

/-- every consensus value of the block that touches the supply, as the model computes it -/
structure Acct where
  feesNew : Nat
  atr : AtrAcc
  pay : PayOut
  hdr : Hdr
  /-- value-carrying outputs of the fee transaction, in order (miner, router1, router2; zero amounts are never
      inserted into the utxo set) -/
  feeOuts : List Utx
  deriving Repr, DecidableEq

def payInOf (st : St) (b : BlockIn) : PayIn :=
  { hasGT := b.hasGT, prevPresent := true, prevGT := st.tip.hasGT, ppPresent := st.prev.isSome,
    feesP := st.tip.fees, feesPP := (st.prev.map (·.fees)).getD 0, unpaidP := st.tip.unpaid, avgP := st.tip.avgFees,
    minerZero := b.minerZero, r1Zero := b.r1Zero, r2Zero := b.r2Zero }

/-- outputs with the given amounts; keys from `keys`, then fresh defaults -/
def mkOuts (id : Nat) : List Nat → List Nat → Nat → List Utx
  | [], _, _ => []
  | a :: as, k :: ks, d => ⟨k, a, id⟩ :: mkOuts id as ks d
  | a :: as, [], d => ⟨d, a, id⟩ :: mkOuts id as [] (d + 1)

/-- `generate_consensus_values` + the header arithmetic of `Block::create` for a block built on the tip of `st` -/
def account (fl : Flags) (cap : Nat → Nat) (st : St) (b : BlockIn) : Acct :=
  let id := st.tip.id + 1
  let feesNew := sumNat (b.txs.map TxIO.fee)
  let atr := capBranch fl (atrRun (atrMultiplier st.gp st.tip) id b.atrFee b.atrOutKey (st.utxo.filter (expiring st.gp id)))
  let pay := payouts fl cap (payInOf st b)
  let fees := feesNew + atr.feesAtr
  { feesNew := feesNew, atr := atr, pay := pay,
    hdr := { id := id, hasGT := b.hasGT,
             treasury := st.tip.treasury + pay.treasury - atr.payoutAtr,
             graveyard := st.tip.graveyard + pay.graveyard,
             unpaid := if b.hasGT then 0 else st.tip.fees,
             fees := fees,
             avgFees := smooth st.gp st.tip.avgFees fees,
             avgNR := smooth st.gp st.tip.avgNR atr.nolan },
    feeOuts := mkOuts id ([pay.minerPaid, pay.r1Paid, pay.r2Paid].filter (fun a => decide (0 < a))) b.feeKeys 2000000001 }

def txIns (txs : List TxIO) : List Utx := (txs.map (·.ins)).flatten
def txInKeys (txs : List TxIO) : List Nat := (txIns txs).map (·.key)
def txOuts (txs : List TxIO) : List Utx := (txs.map (·.outs)).flatten

/-- winding the block: inputs of the transactions and of the rebroadcasts leave the spendable set, then the outputs of
    the transactions, of the rebroadcasts and of the fee transaction enter it (block order) -/
def applyBlock (fl : Flags) (cap : Nat → Nat) (st : St) (b : BlockIn) : St :=
  let a := account fl cap st b
  { gp := st.gp,
    utxo := removeKeys (removeKeys st.utxo (txInKeys b.txs)) a.atr.spent ++ (txOuts b.txs ++ a.atr.outs ++ a.feeOuts),
    tip := a.hdr,
    prev := some st.tip }

/-- a chain: blocks applied oldest first -/
def run (fl : Flags) (cap : Nat → Nat) (st : St) (bs : List BlockIn) : St := bs.foldl (applyBlock fl cap) st

/-- ledger after the genesis block (id 1, issuance outputs only, no fees, no ticket) -/
def genesis (gp : Nat) (issued : List Utx) : St :=
  { gp := gp, utxo := issued, tip := { id := 1, hasGT := false, treasury := 0, graveyard := 0, unpaid := 0, fees := 0 },
    prev := none }

end Saito.Supply
