/-
  Automatic transaction rebroadcast (ATR) at the retention-window edge.
  Code: block.rs:1519-1932 (ATR section of `Block::generate_consensus_values`), transaction.rs:351-395
  (`create_rebroadcast_transaction`), transaction.rs:623-671 (`generate_total_fees` recomputes every utxo key from
  the slip's fields), slip.rs:133-145 (`get_utxoset_key`: owner, block id, tx ordinal, slip index, AMOUNT, type),
  slip.rs:223 (`Slip::validate`), slip.rs:158-183 (`on_chain_reorganization`), block.rs:3090-3108 (slip count and
  rebroadcast-hash comparison), block.rs:2686-2813 (consensus-value comparison), blockchain.rs:2221-2309
  (`check_total_supply`, which ignores outputs older than the window).

  Abstraction. A slip is the six fields that make up its utxo key; the spendable set is a list of slips
  (present = `true` in the real map). For block `n` and the expiring block `e = n − gp − 1` the model gets the
  outputs of `e` in block order, each with the serialized size of its transaction, and the spendable set at the
  time block `n` is built. NFT (Bound) triples are NOT modelled (single-slip case only). Amounts are `Nat`
  (the real `u64` products `amount · multiplier` are assumed not to overflow; the harness keeps them small).
  `(t as f64 * 0.05) as u64` is modelled as `t / 20` (exact for t < 2^50).  Import-free.
  Note (seen on a scratch tree with the first three flags repaired, not reproducible in isolation on the pinned
  tree, hence no flag): the cap branch sets `total_fees_atr = 0`, which also drops the dust-collected value, so a
  capped block that collects dust loses value (`conserved` = false, the supply check panics); the model mirrors this.
-/
namespace Saito.Atr

structure Flags where
  /-- block.rs:1778-1779 — the ATR input slip keeps the expiring output's amount, so its utxo key IS the
      original's key (pinned: `from_slip.amount = amount · multiplier`, a different key when multiplier > 1) -/
  atrSpendsOriginalKey : Bool := false
  /-- block.rs:1856-1857 — the 5 % cap is computed from the PARENT's treasury by producer and validator alike
      (pinned: `self.treasury`, which is 0 while `Block::create` runs and the header value while validating) -/
  atrCapUsesParentTreasury : Bool := false
  /-- block.rs:1733/1805 vs 1874-1920 — the rebroadcast commitment hash covers the transactions that end up in
      the block (pinned: hashed before the cap branch rewrites the output amounts) -/
  atrHashCoversFinalTxs : Bool := false
  /-- slip.rs:223 — an input older than the window is rejected (pinned: membership test only) -/
  windowChecked : Bool := false
  /-- block.rs:3194-3217 — the per-transaction verdict of the sweep in `Block::validate` gates block validity
      (pinned: the closure returns `true` whatever `tx.validate` said). Matters here because an ATR transaction
      whose input slip was rewritten (multiplier > 1, `atrSpendsOriginalKey` off) spends a key that is not in
      the utxo set: with the verdict propagated the node rejects such a block instead of winding it -/
  txVerdictPropagated : Bool := false
  /-- transaction.rs:412-463 `create_rebroadcast_bound_transaction` — the payload OUTPUT of a rebroadcast bound triple is the slip
      the caller prepared (amount × multiplier − fee). Pinned: the output is a copy of the payload INPUT (amount × multiplier)
      while the fee is booked in total_fees_atr, so the block creates `fee` units. Used by `Saito.AtrScan.acct` only. -/
  tripleFeeDeducted : Bool := false
  deriving Repr, DecidableEq

def Flags.fixed : Flags := ⟨true, true, true, true, true, true⟩

/-- the fields of a utxo key -/
structure Slip where
  owner : Nat
  blk : Nat
  ord : Nat
  idx : Nat
  amt : Nat
  typ : Nat
  deriving Repr, DecidableEq

/-- `SlipType::ATR` -/
def typATR : Nat := 1

/-- an output of the expiring block together with the serialized size of the transaction that carries it -/
structure Out where
  s : Slip
  txSize : Nat
  deriving Repr, DecidableEq

structure Params where
  /-- id of the block being built / validated -/
  n : Nat
  gp : Nat
  /-- tx ordinal of the first ATR transaction in block `n` (number of pooled transactions before it) -/
  base : Nat
  /-- previous block: avg_fee_per_byte, treasury, avg_nolan_rebroadcast_per_block -/
  fpb : Nat
  prevTreasury : Nat
  prevAvgNolan : Nat
  /-- `self.treasury` at the time `generate_consensus_values` runs -/
  selfTreasury : Nat
  deriving Repr, DecidableEq

/-- `expected_atr_multiplier` = 1 + previous treasury / (gp · previous avg nolan rebroadcast) (0 divisor → 1) -/
def mult (p : Params) : Nat :=
  1 + (if p.gp * p.prevAvgNolan > 0 then p.prevTreasury / (p.gp * p.prevAvgNolan) else 0)

/-- `Slip::validate` as used for eligibility: zero-amount slips pass, others must be present -/
def eligible (u : List Slip) (s : Slip) : Bool := s.amt == 0 || u.contains s

/-- per-slip rebroadcast fee: serialized size of the ORIGINAL transaction × previous avg fee per byte -/
def feeOf (p : Params) (o : Out) : Nat := o.txSize * p.fpb

/-- one ATR transaction: its input slip, its output slip, and (bookkeeping, not part of the real transaction)
    the output of `e` it was made from and the fee charged -/
structure Rb where
  inp : Slip
  out : Slip
  src : Slip
  fee : Nat
  deriving Repr, DecidableEq

inductive Disp where
  | skip
  | dust
  | rb (r : Rb)
  deriving Repr, DecidableEq

/-- the input slip of the ATR transaction for output `s` -/
def inputOf (fl : Flags) (p : Params) (s : Slip) : Slip :=
  if fl.atrSpendsOriginalKey then s else { s with amt := s.amt * mult p }

/-- what the single-slip branch does with one output of `e` (block.rs:1629-1633, 1755-1823) -/
def dispOf (fl : Flags) (p : Params) (u : List Slip) (o : Out) : Disp :=
  if !eligible u o.s then .skip
  else if o.s.amt * mult p > feeOf p o then
    .rb { inp := inputOf fl p o.s,
          out := { owner := o.s.owner, blk := 0, ord := 0, idx := 0, amt := o.s.amt * mult p - feeOf p o, typ := typATR },
          src := o.s, fee := feeOf p o }
  else .dust

def rbsPre (fl : Flags) (p : Params) (u : List Slip) : List Out → List Rb
  | [] => []
  | o :: os => match dispOf fl p u o with
    | .rb r => r :: rbsPre fl p u os
    | _ => rbsPre fl p u os

def dustOf (fl : Flags) (p : Params) (u : List Slip) : List Out → List Slip
  | [] => []
  | o :: os => match dispOf fl p u o with
    | .dust => o.s :: dustOf fl p u os
    | _ => dustOf fl p u os

def sumBy {α : Type} (f : α → Nat) : List α → Nat
  | [] => 0
  | x :: xs => f x + sumBy f xs

/-- `Block::create` 796-799 / `Block::generate` 1224: output slips get block id, tx ordinal, slip index 0 -/
def number (n : Nat) : Nat → List Rb → List Rb
  | _, [] => []
  | k, r :: rs => { r with out := { r.out with blk := n, ord := k } } :: number n (k + 1) rs

def capBase (fl : Flags) (p : Params) : Nat :=
  if fl.atrCapUsesParentTreasury then p.prevTreasury else p.selfTreasury

structure Res where
  /-- transactions as hashed into `cv.rebroadcast_hash` -/
  hashed : List Rb
  /-- transactions as they leave `generate_consensus_values` (after the cap branch), numbered -/
  rbs : List Rb
  dust : List Slip
  nolan : Nat
  slips : Nat
  feesAtr : Nat
  dustFees : Nat
  payout : Nat
  capped : Bool
  deriving Repr, DecidableEq

def dustFeesOf (fl : Flags) (p : Params) (u : List Slip) (outs : List Out) : Nat := sumBy (·.amt) (dustOf fl p u outs)
/-- `cv.total_rebroadcast_nolan`: every eligible output counts, rebroadcast or dust -/
def nolanOf (fl : Flags) (p : Params) (u : List Slip) (outs : List Out) : Nat :=
  sumBy (·.src.amt) (rbsPre fl p u outs) + dustFeesOf fl p u outs
/-- `cv.total_payout_atr` before the cap branch -/
def payoutPre (fl : Flags) (p : Params) (u : List Slip) (outs : List Out) : Nat :=
  sumBy (fun r => r.src.amt * mult p - r.src.amt) (rbsPre fl p u outs)
/-- block.rs:1856 -/
def isCapped (fl : Flags) (p : Params) (u : List Slip) (outs : List Out) : Bool :=
  decide (payoutPre fl p u outs > capBase fl p / 20)
/-- `adjusted_atr_payout_multiplier` (block.rs:1857-1860) -/
def adjOf (fl : Flags) (p : Params) (u : List Slip) (outs : List Out) : Nat :=
  (capBase fl p / 20) / nolanOf fl p u outs
/-- block.rs:1912-1915: the output amount is recomputed from the INPUT slip's amount -/
def capRb (adj : Nat) (r : Rb) : Rb := { r with out := { r.out with amt := r.inp.amt * (1 + adj) } }
/-- the transactions after the cap branch, before numbering -/
def finalRbs (fl : Flags) (p : Params) (u : List Slip) (outs : List Out) : List Rb :=
  if isCapped fl p u outs then (rbsPre fl p u outs).map (capRb (adjOf fl p u outs)) else rbsPre fl p u outs

/-- the ATR section of `generate_consensus_values` -/
def atrStep (fl : Flags) (p : Params) (u : List Slip) (outs : List Out) : Res :=
  let pre := rbsPre fl p u outs
  let post := finalRbs fl p u outs
  let capped := isCapped fl p u outs
  { hashed := if fl.atrHashCoversFinalTxs then post else pre,
    rbs := number p.n p.base post,
    dust := dustOf fl p u outs,
    nolan := nolanOf fl p u outs,
    slips := pre.length,
    feesAtr := if capped then 0 else sumBy (·.fee) pre + dustFeesOf fl p u outs,
    dustFees := dustFeesOf fl p u outs,
    payout := if capped then sumBy (fun r => r.out.amt - r.inp.amt) post else payoutPre fl p u outs,
    capped := capped }

/-! ### effect on the spendable set (slip.rs `on_chain_reorganization`: zero-amount slips are never stored) -/
def uInsert (u : List Slip) (k : Slip) : List Slip := if k.amt == 0 || u.contains k then u else k :: u
def uRemove (u : List Slip) (k : Slip) : List Slip := u.filter (· != k)
def windIO (ins outs : List Slip) (u : List Slip) : List Slip := outs.foldl uInsert (ins.foldl uRemove u)
def unwindIO (ins outs : List Slip) (u : List Slip) : List Slip := outs.foldl uRemove (ins.foldl uInsert u)

/-- winding the ATR transactions of block `n` -/
def windAtr (rbs : List Rb) (u : List Slip) : List Slip := windIO (rbs.map (·.inp)) (rbs.map (·.out)) u

/-- blockchain.rs:1734-1798 `delete_blocks` → `Block::delete`: when block `n` becomes the tip, the outputs of block
    `n − 2·gp` are removed from the set (0 = nothing is deleted: chain shorter than 2·gp, or the block's
    transactions were already pruned so that `Block::delete` finds nothing to remove) -/
def purgeBlock (id : Nat) (u : List Slip) : List Slip := if id == 0 then u else u.filter (·.blk != id)

/-! ### the window rule for an input of a transaction in block `n` -/
def validateIn (fl : Flags) (gp n : Nat) (u : List Slip) (s : Slip) : Bool :=
  if s.amt == 0 then true
  else u.contains s && (!fl.windowChecked || n ≤ s.blk + gp)

/-! ### producer / validator (block.rs:2686-2813, 3090-3108) and the supply check -/
/-- what the commitment hash covers of one ATR transaction (`serialize_for_signature`: slips without block id
    and ordinal; the payload = the original transaction, represented by its first output's position) -/
def sig (r : Rb) : Nat × Nat × Nat × Nat × Nat × Nat × Nat × Nat :=
  (r.inp.owner, r.inp.amt, r.inp.idx, r.inp.typ, r.out.owner, r.out.amt, r.src.blk, r.src.ord)

/-- the block as the producer builds it: `self.treasury = 0` inside `Block::create` -/
def produce (fl : Flags) (p : Params) (u : List Slip) (outs : List Out) : Res :=
  atrStep fl { p with selfTreasury := 0 } u outs

/-- does the validator (which sees the finished header, `self.treasury = p.selfTreasury`) accept the
    producer's block as far as the ATR values go -/
def selfAccepts (fl : Flags) (p : Params) (u : List Slip) (outs : List Out) : Bool :=
  let P := produce fl p u outs
  let V := atrStep fl p u outs
  V.feesAtr == P.feesAtr && V.payout == P.payout && V.slips == P.rbs.length && V.nolan == P.nolan
    && V.hashed.map sig == P.rbs.map sig

/-- ATR part of the supply balance: what appears (new outputs + fees) equals what left the window
    (eligible outputs) plus what the treasury paid -/
def conserved (fl : Flags) (p : Params) (u : List Slip) (outs : List Out) : Bool :=
  let P := produce fl p u outs
  sumBy (·.out.amt) P.rbs + P.feesAtr == P.nolan + P.payout

inductive Verdict where
  | ok | invalid | supplyPanic
  deriving Repr, DecidableEq

/-- `Transaction::validate` → `validate_against_utxoset` for the ATR transactions of the produced block: every
    input slip passes `Slip::validate` (membership; ATR inputs are by construction older than the window, so the
    window rule is not applied to them) -/
def atrInputsValid (fl : Flags) (p : Params) (u : List Slip) (outs : List Out) : Bool :=
  (produce fl p u outs).rbs.all fun r => eligible u r.inp

/-- what the node does with its own block `n`: consensus values compared first (block.rs:2686-3108), then the
    transaction sweep (block.rs:3194; its verdict counts only with `txVerdictPropagated`), then — the block being
    wound — the supply check -/
def ownBlock (fl : Flags) (p : Params) (u : List Slip) (outs : List Out) : Verdict :=
  if !selfAccepts fl p u outs then .invalid
  else if fl.txVerdictPropagated && !atrInputsValid fl p u outs then .invalid
  else if !conserved fl p u outs then .supplyPanic
  else .ok

end Saito.Atr
