/-!
# Decision logic of the node's event handlers (C11)

An abstract node — peers (exists / status / key known / static / challenge outstanding / four rate limiters), chain summary,
mode, and the three inter-thread queues — and one event per message tag × semantic class of payload, connection
event, fetched-block class and handler-schedule step. `step` mirrors WHICH CHECK HAPPENS IN WHICH ORDER before each
panic site of

* `RoutingThread::process_network_event` / `process_incoming_message` (routing_thread.rs:121-231, 730-851) with
  `Network::handle_handshake_challenge/_response/handle_received_key_list` (network.rs:179-346) and
  `Peer::handle_handshake_response` (peer.rs:220-355),
* `VerificationThread::process_event` = `verify_tx` / `verify_block` (verification_thread.rs:45-169),
* `ConsensusThread::process_event` (consensus_thread.rs:389-468) and its timer tick `bundle_block` (:178-292).

A Rust panic is the explicit outcome `.panic site`, a livelock is `.stall`. One flag per panic/stall site that was
REPRODUCED on the real code (`false` = pinned behaviour). What `Blockchain::add_block` does with a block is not
re-modelled here (Model/Chain.lean does that): a fetched block carries its class (`BlkC`) w.r.t. the node's chain.
Import-free.
-/
namespace Saito.Dispatch

structure Flags where
  /-- routing_thread.rs:226-229 `Message::Block` is rejected instead of `unreachable!()` -/
  blockTagRejected : Bool := false
  /-- routing_thread.rs:265-266 ghost-chain request from a peer without a key is rejected instead of `public_key.unwrap()` -/
  ghostReqNeedsKey : Bool := false
  /-- routing_thread.rs:220-224 the rate-limit `Err` of `handle_received_key_list` is not unwrapped -/
  keyListLimitNoPanic : Bool := false
  /-- peer.rs:296-302 a valid response under another key than the one recorded is refused instead of `assert_eq!` -/
  hsKeyMismatchRejected : Bool := false
  /-- golden_ticket.rs:37 `deserialize_from_net` reports a wrong length instead of asserting (mempool.rs:83, block.rs:2009) -/
  gtPayloadChecked : Bool := false
  /-- verification_thread.rs:137 the `Err` of `block.generate()` rejects the fetched block instead of `unwrap()` -/
  fetchedGenerateChecked : Bool := false
  /-- network.rs:92-95 `propagate_transaction` copes with a transaction without inputs -/
  inputlessPropagateSafe : Bool := false
  /-- block.rs:3194-3217 the per-transaction verdict is honoured, so blockchain.rs:2315 is not reached -/
  txVerdict : Bool := false
  /-- transaction.rs:533-556 extent check before slicing -/
  txBounds : Bool := false
  /-- ghost_chain_sync.rs:48 length checks before slicing -/
  ghostBounds : Bool := false
  /-- blockchain.rs:1159-1249 a failed multi-block reorganisation restores the old chain instead of cycling -/
  windFailureRestores : Bool := false
  /-- mempool.rs:202 `bundle_block` declines when the clock is not past the tip instead of asserting -/
  bundleClockChecked : Bool := false
  /-- MEASURED outcome class (not a panic site): a fetched block that spends a non-existent output is REJECTED by a full
      node (true once block.rs:3194-3217 returns the per-transaction verdict; `txVerdict` alone only says "no panic") -/
  spendMissingRejected : Bool := false
  /-- the same block is rejected by a node in browser mode (pinned: accepted, the supply check is skipped) -/
  spendMissingRejectedBrowser : Bool := false
  /-- the same block is rejected by a node in lite (spv) mode (pinned and with the verdict honoured: accepted, because
      `Block::validate` returns true at once in spv mode, block.rs:2640) -/
  spendMissingRejectedSpv : Bool := false
  /-- MEASURED outcome class: a fetched block whose golden-ticket payload is not 97 bytes is already rejected by the
      VERIFICATION thread (true once `Block::generate` checks the payload length and its `Err` is not unwrapped) -/
  gtShortRejectedAtVerify : Bool := false
  deriving Repr, DecidableEq

def Flags.pinned : Flags := {}
def Flags.fixed : Flags := ⟨true, true, true, true, true, true, true, true, true, true, true, true, true, true, false, false⟩

inductive Site where
  | msgBlock | ghostReqNoKey | keyListLimit | hsKeyMismatch | gtPayloadPool | gtPayloadBlock | verifyGenerate
  | propagateInputless | totalSupply | decodeTx | decodeGhost | bundleTimestamp
  deriving Repr, DecidableEq

def Site.name : Site → String
  | .msgBlock => "routing_thread.rs:unreachable"
  | .ghostReqNoKey => "routing_thread.rs:unwrap-none"
  | .keyListLimit => "routing_thread.rs:unwrap-err"
  | .hsKeyMismatch => "peer.rs:assert-peer-key"
  | .gtPayloadPool => "golden_ticket.rs:assert"
  | .gtPayloadBlock => "golden_ticket.rs:assert"
  | .verifyGenerate => "verification_thread.rs:unwrap-err"
  | .propagateInputless => "network.rs:expect-from-slip"
  | .totalSupply => "blockchain.rs:check_total_supply"
  | .decodeTx => "transaction.rs:slice-out-of-range"
  | .decodeGhost => "ghost_chain_sync.rs:slice-out-of-range"
  | .bundleTimestamp => "mempool.rs:assert-bundle-timestamp"

inductive Outcome where
  | handled | rejected | disconnected | rateLimited
  | panic (s : Site)
  | stall
  deriving Repr, DecidableEq

def Outcome.str : Outcome → String
  | .handled => "handled" | .rejected => "rejected" | .disconnected => "disconnected" | .rateLimited => "ratelimited"
  | .panic s => "panic:" ++ s.name | .stall => "stall"

inductive Mode where | full | spv | browser
  deriving Repr, DecidableEq

inductive Status where | disconnected | connecting | connected
  deriving Repr, DecidableEq

/-- `RateLimiter` (rate_limiter.rs): request count of the current window; `stale` = the window has passed since
    `last_request_time`, so the next check resets the count -/
structure Lim where
  cnt : Nat := 0
  stale : Bool := true
  deriving Repr, DecidableEq

def Lim.inc (l : Lim) : Lim := { l with cnt := l.cnt + 1 }
/-- `has_limit_exceeded(now)`: reset when the window has passed, then `request_count >= limit` -/
def Lim.check (l : Lim) (limit : Nat) : Lim × Bool :=
  let l' : Lim := if l.stale then { cnt := 0, stale := false } else l
  (l', decide (limit ≤ l'.cnt))

def msgLimit : Nat := 100000
def hsLimit : Nat := 100
def klLimit : Nat := 100
def ibLimit : Nat := 10

structure Peer where
  idx : Nat
  static : Bool := false
  status : Status := .disconnected
  key : Option Nat := none
  chal : Bool := false
  url : Bool := false
  msg : Lim := {}
  hs : Lim := {}
  kl : Lim := {}
  ib : Lim := {}
  deriving Repr, DecidableEq

/-- semantic class of a transaction (what `Transaction::validate` and the pool see) -/
inductive TxC where
  | valid | badsig | spendmissing | nooutputs | normalnoinputs | gtok | gtshort | gtlong | issuance | atr
  deriving Repr, DecidableEq

/-- verdict of `Transaction::validate(utxoset, blockchain, true)` (transaction.rs:947-1576) per class: a
    GoldenTicket-typed transaction is validated like a normal one (its payload is not looked at); Issuance / ATR
    typed transactions skip the sender, signature and amount checks -/
def TxC.passesValidate : TxC → Bool
  | .valid | .gtok | .gtshort | .gtlong | .issuance | .atr => true
  | .badsig | .spendmissing | .nooutputs | .normalnoinputs => false
def TxC.isGT : TxC → Bool
  | .gtok | .gtshort | .gtlong => true
  | _ => false
def TxC.gtPayloadOk : TxC → Bool
  | .gtok => true
  | _ => false
def TxC.inputless : TxC → Bool
  | .issuance | .atr => true
  | _ => false

/-- class of a fetched block buffer w.r.t. the node's chain -/
inductive BlkC where
  | garbage | wronghash | dupinput | next | nextfuture | known | tampered | gtshort | spendmissing | side | reorginvalid
  deriving Repr, DecidableEq

inductive VReq where
  | tx (src : Nat) (c : TxC)
  | blk (src : Nat) (c : BlkC)
  deriving Repr, DecidableEq

inductive CEv where
  | tx (c : TxC)
  | blk (src : Nat) (c : BlkC)
  deriving Repr, DecidableEq

structure Node where
  mode : Mode := .full
  chainEmpty : Bool := false
  /-- timestamp of the tip ≥ the node's clock -/
  tipAhead : Bool := false
  peers : List Peer := []
  vq : List VReq := []
  cq : List CEv := []
  /-- `ConsensusThread::txs_for_mempool` -/
  pool : List TxC := []
  deriving Repr, DecidableEq

inductive MsgC where
  | challenge
  /-- core version set / signature valid for the stored challenge / same minor version / key of the signer -/
  | resp (ver sig minor : Bool) (key : Nat)
  | block
  | tx (c : TxC)
  | txtrunc
  | chainreq | headerhash | ping | spv | services
  | ghost (n : Nat) (txs : Bool)
  | ghostshort
  | ghostreq
  | app (t : Nat)
  | keylist
  | undecodable
  deriving Repr, DecidableEq

inductive Event where
  | msg (p : Nat) (m : MsgC)
  | connect (p : Nat)
  | connectFailed
  | disconnect (p : Nat)
  | fetched (p : Nat) (b : BlkC)
  | fetchFailed (p : Nat)
  | runV
  | runC
  /-- consensus timer tick; `bundled` = the node's own `can_bundle_block`/`Block::create` produced a block (oracle bit) -/
  | tick (bundled : Bool)
  | advance
  deriving Repr, DecidableEq

/-- result of one handler call: new summary, outcome class, and whether anything was sent to the sender -/
structure Res where
  node : Node
  out : Outcome
  sent : Bool := false
  deriving Repr, DecidableEq

def findPeer (ps : List Peer) (i : Nat) : Option Peer := ps.find? (·.idx == i)

def setPeer (ps : List Peer) (p : Peer) : List Peer := ps.map fun q => if q.idx == p.idx then p else q

def Node.withPeer (n : Node) (p : Peer) : Node := { n with peers := setPeer n.peers p }

/-- `remove_reconnected_peer`: the first OTHER peer with the same key that is not Connected is removed -/
def removeReconnected (ps : List Peer) (me k : Nat) : List Peer × Option Peer :=
  match ps.find? (fun q => q.idx != me && q.key == some k && q.status != .connected) with
  | none => (ps, none)
  | some old => (ps.filter (·.idx != old.idx), some old)

/-- `Peer::mark_as_disconnected` -/
def Peer.markDisconnected (p : Peer) : Peer := { p with chal := false, status := .disconnected }

/-- a verified response: the peer becomes Connected under key `k`; `Network::handle_handshake_response` then merges a
    not-connected older peer that has the same key (`remove_reconnected_peer`, `join_as_reconnection`) -/
def hsAccept (n : Node) (p : Peer) (k : Nat) : Node :=
  let p1 : Peer := { p with status := .connected, key := some k, url := true, chal := false }
  let n1 := n.withPeer p1
  match removeReconnected n1.peers p.idx k with
  | (ps, some old) =>
    { n1 with peers := setPeer ps { p1 with msg := old.msg, hs := old.hs, kl := old.kl, static := old.static } }
  | (_, none) => n1

/-- `Peer::handle_handshake_response` + the tail of `Network::handle_handshake_response`, after the rate limit -/
def hsResponse (fl : Flags) (n : Node) (p : Peer) (ver sig minor : Bool) (k : Nat) : Res :=
  if !ver then ⟨n.withPeer p.markDisconnected, .disconnected, false⟩
  else if !p.chal then ⟨n.withPeer p.markDisconnected, .disconnected, false⟩
  else if !sig then ⟨n.withPeer p.markDisconnected, .disconnected, false⟩
  else if !minor then ⟨n.withPeer p.markDisconnected, .disconnected, false⟩
  else if p.key.isSome && p.key != some k then
    (if fl.hsKeyMismatchRejected then ⟨n.withPeer p.markDisconnected, .disconnected, false⟩
     else ⟨n.withPeer p, .panic .hsKeyMismatch, false⟩)
  else ⟨hsAccept n p k, .handled, true⟩

/-- `process_incoming_message` for a decoded message from an existing peer whose message limit is not exceeded -/
def routeMsg (fl : Flags) (n : Node) (p : Peer) (m : MsgC) : Res :=
  match m with
  | .challenge =>
    let ex := (p.hs.inc.check hsLimit).2
    let p := { p with hs := (p.hs.inc.check hsLimit).1 }
    if ex then ⟨n.withPeer p, .rateLimited, false⟩
    else ⟨n.withPeer { p with chal := true }, .handled, true⟩
  | .resp ver sig minor k =>
    if (p.hs.inc.check hsLimit).2 then ⟨n.withPeer { p with hs := (p.hs.inc.check hsLimit).1 }, .rateLimited, false⟩
    else hsResponse fl n { p with hs := (p.hs.inc.check hsLimit).1 } ver sig minor k
  | .block =>
    if fl.blockTagRejected then ⟨n.withPeer p, .rejected, false⟩ else ⟨n.withPeer p, .panic .msgBlock, false⟩
  | .tx c => ⟨{ n.withPeer p with vq := n.vq ++ [.tx p.idx c] }, .handled, false⟩
  | .txtrunc => ⟨n.withPeer p, .disconnected, false⟩   -- only reached with `txBounds` (decoder returns Err)
  | .chainreq => ⟨n.withPeer p, .handled, n.mode == .full && !n.chainEmpty⟩
  | .headerhash | .ping | .spv | .services | .app _ | .ghost _ _ => ⟨n.withPeer p, .handled, false⟩
  | .ghostshort => ⟨n.withPeer p, .disconnected, false⟩   -- only reached with `ghostBounds`
  | .ghostreq =>
    if p.key.isNone then
      (if fl.ghostReqNeedsKey then ⟨n.withPeer p, .rejected, false⟩ else ⟨n.withPeer p, .panic .ghostReqNoKey, false⟩)
    else ⟨n.withPeer p, .handled, true⟩
  | .keylist =>
    let ex := (p.kl.inc.check klLimit).2
    let p := { p with kl := (p.kl.inc.check klLimit).1 }
    if ex then
      (if fl.keyListLimitNoPanic then ⟨n.withPeer p, .rateLimited, false⟩ else ⟨n.withPeer p, .panic .keyListLimit, false⟩)
    else ⟨n.withPeer p, .handled, false⟩
  | .undecodable => ⟨n.withPeer p, .disconnected, false⟩

/-- `NetworkEvent::IncomingNetworkMessage`: peer lookup, message rate limit, decode, dispatch (in this order) -/
def onMsg (fl : Flags) (n : Node) (i : Nat) (m : MsgC) : Res :=
  match findPeer n.peers i with
  | none => ⟨n, .rejected, false⟩
  | some p =>
    let ex := (p.msg.inc.check msgLimit).2
    let p := { p with msg := (p.msg.inc.check msgLimit).1 }
    if ex then ⟨n.withPeer p, .rateLimited, false⟩
    else match m with
      -- `Message::deserialize` runs before anything else is looked at
      | .txtrunc => if fl.txBounds then routeMsg fl n p m else ⟨n.withPeer p, .panic .decodeTx, false⟩
      | .ghostshort => if fl.ghostBounds then routeMsg fl n p m else ⟨n.withPeer p, .panic .decodeGhost, false⟩
      | _ => routeMsg fl n p m

def newPeer (i : Nat) : Peer := { idx := i, status := .connecting, chal := true }

def onConnect (n : Node) (i : Nat) : Res :=
  match findPeer n.peers i with
  | some p =>
    if p.static then ⟨n.withPeer { p with status := .connecting }, .handled, false⟩
    else ⟨n.withPeer { p with status := .connecting, chal := true }, .handled, true⟩
  | none => ⟨{ n with peers := n.peers ++ [newPeer i] }, .handled, true⟩

def onDisconnect (n : Node) (i : Nat) : Res :=
  match findPeer n.peers i with
  | some p => ⟨n.withPeer p.markDisconnected, .disconnected, false⟩
  | none => ⟨n, .disconnected, false⟩

/-- `NetworkEvent::BlockFetched`: peer lookup, invalid-block limit (no increment here), hand-over to verification -/
def onFetched (n : Node) (i : Nat) (b : BlkC) : Res :=
  match findPeer n.peers i with
  | none => ⟨n, .rejected, false⟩
  | some p =>
    let ex := (p.ib.check ibLimit).2
    let p := { p with ib := (p.ib.check ibLimit).1 }
    if ex then ⟨n.withPeer p, .disconnected, false⟩
    else ⟨{ n.withPeer p with vq := n.vq ++ [.blk i b] }, .handled, false⟩

/-- `invalid_block_limiter.increase()` for the peer the block came from, if it still exists -/
def bumpInvalid (n : Node) (i : Nat) : Node :=
  match findPeer n.peers i with
  | some p => n.withPeer { p with ib := p.ib.inc }
  | none => n

/-- `VerificationThread::process_event` on the oldest queued request -/
def runV (fl : Flags) (n : Node) : Res :=
  match n.vq with
  | [] => ⟨n, .handled, false⟩
  | .tx _ c :: rest =>
    let n := { n with vq := rest }
    if c.passesValidate then ⟨{ n with cq := n.cq ++ [.tx c] }, .handled, false⟩ else ⟨n, .rejected, false⟩
  | .blk i c :: rest =>
    let n := { n with vq := rest }
    match c with
    | .garbage => ⟨bumpInvalid n i, .rejected, false⟩          -- `deserialize_from_net` Err
    | .dupinput =>                                             -- `block.generate().unwrap()` BEFORE the hash comparison
      if fl.fetchedGenerateChecked then ⟨bumpInvalid n i, .rejected, false⟩ else ⟨n, .panic .verifyGenerate, false⟩
    | .wronghash => ⟨bumpInvalid n i, .rejected, false⟩
    | .gtshort =>
      if fl.gtShortRejectedAtVerify then ⟨bumpInvalid n i, .rejected, false⟩
      else ⟨{ n with cq := n.cq ++ [.blk i c] }, .handled, false⟩
    | _ => ⟨{ n with cq := n.cq ++ [.blk i c] }, .handled, false⟩

/-- `ConsensusThread::process_event` on the oldest queued event -/
def runC (fl : Flags) (n : Node) : Res :=
  match n.cq with
  | [] => ⟨n, .handled, false⟩
  | .tx c :: rest =>
    let n := { n with cq := rest }
    if c.isGT then
      -- `Mempool::add_golden_ticket` deserialises the payload first
      (if c.gtPayloadOk then ⟨n, .handled, false⟩
       else if fl.gtPayloadChecked then ⟨n, .rejected, false⟩ else ⟨n, .panic .gtPayloadPool, false⟩)
    else ⟨{ n with pool := n.pool ++ [c] }, .handled, false⟩
  | .blk i c :: rest =>
    let n := { n with cq := rest }
    match c with
    | .known | .side => ⟨n, .handled, false⟩
    | .next => ⟨{ n with chainEmpty := false }, .handled, false⟩
    | .nextfuture => ⟨{ n with chainEmpty := false, tipAhead := true }, .handled, false⟩
    | .tampered =>
      -- `Block::validate` returns true at once in spv (lite) mode (block.rs:2640)
      if n.mode == .spv then ⟨{ n with chainEmpty := false }, .handled, false⟩ else ⟨bumpInvalid n i, .rejected, false⟩
    | .garbage | .wronghash | .dupinput => ⟨bumpInvalid n i, .rejected, false⟩
    | .gtshort =>
      if fl.gtPayloadChecked then ⟨bumpInvalid n i, .rejected, false⟩ else ⟨n, .panic .gtPayloadBlock, false⟩
    | .spendmissing =>
      -- pinned: the block is ACCEPTED in every mode (verdict discarded); a full node then panics in the supply check,
      -- which is skipped in spv / browser mode (blockchain.rs:2229). Whether a tree rejects the block is measured per mode.
      match n.mode with
      | .full =>
        if !fl.txVerdict then ⟨n, .panic .totalSupply, false⟩
        else if fl.spendMissingRejected then ⟨bumpInvalid n i, .rejected, false⟩
        else ⟨{ n with chainEmpty := false }, .handled, false⟩
      | .browser =>
        if fl.spendMissingRejectedBrowser then ⟨bumpInvalid n i, .rejected, false⟩
        else ⟨{ n with chainEmpty := false }, .handled, false⟩
      | .spv =>
        if fl.spendMissingRejectedSpv then ⟨bumpInvalid n i, .rejected, false⟩
        else ⟨{ n with chainEmpty := false }, .handled, false⟩
    | .reorginvalid =>
      if n.mode == .spv then ⟨{ n with chainEmpty := false }, .handled, false⟩   -- nothing is validated: the branch is adopted
      else if fl.windFailureRestores then ⟨bumpInvalid n i, .rejected, false⟩ else ⟨n, .stall, false⟩

/-- consensus timer tick = `ConsensusThread::bundle_block(now, false)` -/
def tick (fl : Flags) (n : Node) (bundled : Bool) : Res :=
  let produce := n.mode == .full && !n.chainEmpty
  if produce && n.tipAhead && !fl.bundleClockChecked then ⟨n, .panic .bundleTimestamp, false⟩
  else if produce && !n.tipAhead && bundled then ⟨{ n with pool := [] }, .handled, false⟩
  else if n.pool.any TxC.inputless && !fl.inputlessPropagateSafe then ⟨n, .panic .propagateInputless, false⟩
  else ⟨{ n with pool := [] }, .handled, false⟩

def staleAll (p : Peer) : Peer :=
  { p with msg := { p.msg with stale := true }, hs := { p.hs with stale := true }, kl := { p.kl with stale := true } }

def step (fl : Flags) (n : Node) (e : Event) : Res :=
  match e with
  | .msg p m => onMsg fl n p m
  | .connect p => onConnect n p
  | .connectFailed => ⟨n, .rejected, false⟩
  | .disconnect p => onDisconnect n p
  | .fetched p b => onFetched n p b
  | .fetchFailed _ => ⟨n, .rejected, false⟩
  | .runV => runV fl n
  | .runC => runC fl n
  | .tick b => tick fl n b
  | .advance => ⟨{ n with peers := n.peers.map staleAll }, .handled, false⟩

def handle (fl : Flags) (n : Node) (e : Event) : Node × Outcome := ((step fl n e).node, (step fl n e).out)

/-- the peer an event is attributed to (for `runV`/`runC`: the origin of the oldest queued item) -/
def Event.sender (n : Node) : Event → Option Nat
  | .msg p _ | .connect p | .disconnect p | .fetched p _ | .fetchFailed p => some p
  | .runV => match n.vq with
    | .tx i _ :: _ | .blk i _ :: _ => some i
    | [] => none
  | .runC => match n.cq with
    | .blk i _ :: _ => some i
    | _ => none
  | _ => none

/-- what honest peers rely on: every OTHER peer's record, mode, chain summary, pending pool -/
structure View where
  others : List Peer
  mode : Mode
  chainEmpty : Bool
  tipAhead : Bool
  pool : List TxC
  deriving DecidableEq

def honestView (n : Node) (sender : Option Nat) : View :=
  { others := match sender with
      | some s => n.peers.filter (·.idx != s)
      | none => n.peers,
    mode := n.mode, chainEmpty := n.chainEmpty, tipAhead := n.tipAhead, pool := n.pool }

/-- run a sequence; a panic or stall ends the node -/
def run (fl : Flags) : Node → List Event → Node × Outcome
  | n, [] => (n, .handled)
  | n, e :: es =>
    match handle fl n e with
    | (n', .panic s) => (n', .panic s)
    | (n', .stall) => (n', .stall)
    | (n', _) => run fl n' es

end Saito.Dispatch
