/-
  Wallet accounting: `Wallet::{add_slip, delete_slip, on_chain_reorganization, delete_block, remove_old_slips,
  generate_slips, add_to_pending, delete_pending_transaction}` (saito-core/src/core/consensus/wallet.rs) and
  `Transaction::create / create_with_multiple_payments` (transaction.rs:209-304).  Import-free.

  Abstraction.
  * A slip is the six fields that make up its 59-byte utxo key (`Slip::get_utxoset_key`: public key, block id,
    tx ordinal, slip index, amount, type), so a slip IS its key (`UKey`); the cached `utxoset_key` field of the
    Rust struct is assumed consistent with the fields (true for every slip of a block that went through
    `Block::generate`, and for `parse_slip_from_utxokey`). Public keys are small numbers, `0` = the wallet's key.
  * A transaction is an id (stands for `hash_for_signature`), its inputs and its outputs; a block is its id and
    its transactions (SPV transactions with `txs_replacements ≠ 1` are not modelled).
  * `AHashMap` / `AHashSet` are duplicate-free lists; the iteration order of `unspent_slips` inside
    `generate_slips` (a process-random hash order) is an oracle argument `order`.
  * `u64` arithmetic of the dev profile: an overflowing `+` / underflowing `-`, `assert_ne!(block_id, 0)` and
    `expect("slip should be here")` are the explicit outcome `none` (= panic).
  * NFT bookkeeping (`nfts`) is carried because the `[Bound, x, Bound]` triple detection decides which slips
    reach `add_slip`; the NFT's `tx_sig` is dropped.
-/
namespace Saito.Wallet

structure Flags where
  /-- wallet.rs:408 — unwinding re-adds a spent input under ITS OWN block id / tx ordinal (pinned: the ids of the
      block being unwound, so the input rebuilt later by `generate_slips` carries a utxo key that never existed) -/
  unwindKeepsCoords : Bool := false
  /-- transaction.rs:251-270 + wallet.rs:576 — `create` measures the requested amount against the slips
      `generate_slips` may use (pinned: against `available_balance`, which also counts slips within one block of
      the window edge that `generate_slips` skips, so a transaction with inputs < outputs is returned) -/
  createChecksUsable : Bool := false
  deriving Repr, DecidableEq

def Flags.fixed : Flags := ⟨true, true⟩

def U64 : Nat := 18446744073709551616

/-- the utxo key = the slip -/
structure UKey where
  owner : Nat
  bid : Nat
  tord : Nat
  idx : Nat
  amount : Nat
  typ : Nat
  deriving Repr, DecidableEq

def tBlockStake : Nat := 8
def tBound : Nat := 9

structure WSlip where
  key : UKey
  amount : Nat
  blockId : Nat
  txOrd : Nat
  slipIndex : Nat
  lc : Bool
  spent : Bool
  typ : Nat
  deriving Repr, DecidableEq

structure Nft where
  s1 : UKey
  s2 : UKey
  s3 : UKey
  deriving Repr, DecidableEq

/-- `nft.id` = key of the middle slip -/
def Nft.id (n : Nft) : UKey := n.s2

structure Tx where
  id : Nat
  frm : List UKey
  to : List UKey
  deriving Repr, DecidableEq

structure Block where
  id : Nat
  txs : List Tx
  deriving Repr, DecidableEq

structure W where
  slips : List WSlip := []
  unspent : List UKey := []
  staking : List UKey := []
  balance : Nat := 0
  pending : List Nat := []
  nfts : List Nft := []
  /-- return value of the last `on_chain_reorganization` / `delete_block` (`WalletUpdateStatus`) -/
  chg : Bool := false
  deriving Repr, DecidableEq

def init : W := {}

/-! ### sets -/
def setInsert (l : List UKey) (k : UKey) : List UKey := if k ∈ l then l else k :: l
def setRemove (l : List UKey) (k : UKey) : List UKey := l.filter (· != k)
def findSlip (l : List WSlip) (k : UKey) : Option WSlip := l.find? (·.key == k)
def dropSlip (l : List WSlip) (k : UKey) : List WSlip := l.filter (·.key != k)

/-! ### add_slip / delete_slip -/

/-- `Wallet::add_slip` (wallet.rs:465) -/
def addSlip (w : W) (blockId txIndex : Nat) (s : UKey) (lc : Bool) : Option W :=
  match findSlip w.slips s with
  | some _ => some w
  | none =>
    if blockId = 0 then none
    else
      let ws : WSlip := { key := s, amount := s.amount, blockId := blockId, txOrd := txIndex,
                          slipIndex := s.idx, lc := lc, spent := false, typ := s.typ }
      if s.typ = tBlockStake then
        some { w with staking := setInsert w.staking s, slips := ws :: w.slips }
      else if s.typ = tBound then
        some { w with slips := ws :: w.slips }
      else if w.balance + s.amount ≥ U64 then none
      else some { w with balance := w.balance + s.amount, unspent := setInsert w.unspent s, slips := ws :: w.slips }

/-- `Wallet::delete_slip` (wallet.rs:510) -/
def deleteSlip (w : W) (s : UKey) : Option W :=
  match findSlip w.slips s with
  | none => some w
  | some ws =>
    if s ∈ w.unspent then
      if ws.amount > w.balance then none
      else some { w with slips := dropSlip w.slips s, unspent := setRemove w.unspent s,
                         balance := w.balance - ws.amount }
    else some { w with slips := dropSlip w.slips s, staking := setRemove w.staking s }

def deleteSlips (w : W) : List UKey → Option W
  | [] => some w
  | k :: ks => (deleteSlip w k).bind fun w' => deleteSlips w' ks

/-- `Wallet::remove_old_slips` (wallet.rs:450) -/
def removeOldSlips (w : W) (blockId : Nat) : Option W :=
  deleteSlips w ((w.slips.filter (fun ws => ws.blockId < blockId)).map (·.key))

/-! ### on_chain_reorganization -/

/-- `Transaction::is_nft(slips, i)` on the suffix starting at `i` -/
def isNftHead : List UKey → Bool
  | a :: b :: c :: _ => a.typ == tBound && c.typ == tBound && b.typ != tBound
  | _ => false

def setChg (w : W) : W := { w with chg := true }

def removeFirstNft (l : List Nft) (id : UKey) : List Nft :=
  match l with
  | [] => []
  | n :: ns => if n.id == id then ns else n :: removeFirstNft ns id

/-- outputs of a wound transaction (wallet.rs:190-249); `skip` = slips of an NFT triple still to be passed over -/
def windOuts (blockId txIndex : Nat) : W → Nat → List UKey → Option W
  | w, _, [] => some w
  | w, skip + 1, _ :: rest => windOuts blockId txIndex w skip rest
  | w, 0, a :: rest =>
    if isNftHead (a :: rest) then
      match rest with
      | b :: c :: _ => windOuts blockId txIndex { w with nfts := w.nfts ++ [⟨a, b, c⟩] } 2 rest
      | _ => windOuts blockId txIndex w 0 rest
    else if a.amount > 0 && a.owner == 0 then
      (addSlip (setChg w) blockId txIndex a true).bind fun w' => windOuts blockId txIndex w' 0 rest
    else windOuts blockId txIndex w 0 rest

/-- `delete_pending_transaction` -/
def delPending (w : W) (txId : Nat) : W :=
  if txId ∈ w.pending then { w with pending := w.pending.filter (· != txId), chg := true } else w

/-- inputs of a wound transaction (wallet.rs:254-313); `third` = `tx.from[2]`, `pos` = index of the head -/
def windIns (txId : Nat) (third : Option UKey) : W → Nat → Nat → List UKey → Option W
  | w, _, _, [] => some w
  | w, pos, skip + 1, _ :: rest => windIns txId third w (pos + 1) skip rest
  | w, pos, 0, a :: rest =>
    if isNftHead (a :: rest) then
      let w1 := if pos = 0 then
          match third with
          | some k => { w with nfts := removeFirstNft w.nfts k }
          | none => w
        else w
      windIns txId third w1 (pos + 1) 2 rest
    else if a.owner == 0 then
      (if a.amount > 0 then deleteSlip (setChg w) a else some w).bind fun w' =>
        windIns txId third (delPending w' txId) (pos + 1) 0 rest
    else windIns txId third w (pos + 1) 0 rest

def windTx (blockId gp txIndex : Nat) (w : W) (tx : Tx) : Option W :=
  (windOuts blockId txIndex w 0 tx.to).bind fun w1 =>
  (windIns tx.id tx.frm[2]? w1 0 0 tx.frm).bind fun w2 =>
  if blockId > gp then removeOldSlips w2 (blockId - gp) else some w2

def windTxs (blockId gp : Nat) : W → Nat → List Tx → Option W
  | w, _, [] => some w
  | w, i, tx :: rest => (windTx blockId gp i w tx).bind fun w' => windTxs blockId gp w' (i + 1) rest

/-- outputs of an unwound transaction (wallet.rs:334-364) -/
def unwindOuts : W → Nat → List UKey → Option W
  | w, _, [] => some w
  | w, skip + 1, _ :: rest => unwindOuts w skip rest
  | w, 0, a :: rest =>
    if isNftHead (a :: rest) then
      match rest with
      | b :: _ => unwindOuts { w with nfts := removeFirstNft w.nfts b } 2 rest
      | _ => unwindOuts w 0 rest
    else if a.amount > 0 && a.owner == 0 then
      (deleteSlip (setChg w) a).bind fun w' => unwindOuts w' 0 rest
    else unwindOuts w 0 rest

/-- inputs of an unwound transaction (wallet.rs:369-412) -/
def unwindIns (fl : Flags) (blockId txIndex : Nat) : W → Nat → List UKey → Option W
  | w, _, [] => some w
  | w, skip + 1, _ :: rest => unwindIns fl blockId txIndex w skip rest
  | w, 0, a :: rest =>
    if isNftHead (a :: rest) then
      match rest with
      | b :: c :: _ => unwindIns fl blockId txIndex { w with nfts := w.nfts ++ [⟨a, b, c⟩] } 2 rest
      | _ => unwindIns fl blockId txIndex w 0 rest
    else if a.amount > 0 && a.owner == 0 then
      (if fl.unwindKeepsCoords then addSlip (setChg w) a.bid a.tord a true
       else addSlip (setChg w) blockId txIndex a true).bind fun w' =>
        unwindIns fl blockId txIndex w' 0 rest
    else unwindIns fl blockId txIndex w 0 rest

def unwindTxs (fl : Flags) (blockId : Nat) : W → Nat → List Tx → Option W
  | w, _, [] => some w
  | w, i, tx :: rest =>
    (unwindOuts w 0 tx.to).bind fun w1 =>
    (unwindIns fl blockId i w1 0 tx.frm).bind fun w2 => unwindTxs fl blockId w2 (i + 1) rest

/-- `Wallet::on_chain_reorganization` (wallet.rs:176) -/
def onChainReorg (fl : Flags) (w : W) (b : Block) (lc : Bool) (gp : Nat) : Option W :=
  if lc then windTxs b.id gp { w with chg := false } 0 b.txs
  else unwindTxs fl b.id { w with chg := false } 0 b.txs

/-- `Wallet::delete_block` (wallet.rs:431) -/
def deleteBlockTxs : W → List Tx → Option W
  | w, [] => some w
  | w, tx :: rest =>
    let w0 := if tx.frm.any (·.owner == 0) then setChg w else w
    (deleteSlips w0 tx.frm).bind fun w1 =>
    (deleteSlips w1 (tx.to.filter (·.amount > 0))).bind fun w2 => deleteBlockTxs w2 rest

def deleteBlock (w : W) (b : Block) : Option W := deleteBlockTxs { w with chg := false } b.txs

/-! ### generate_slips -/

/-- keep the last occurrence of every element -/
def dedup : List UKey → List UKey
  | [] => []
  | a :: l => if a ∈ l then dedup l else a :: dedup l

/-- the order in which the hash set is walked: the oracle's order restricted to the set, then whatever the oracle
    left out — always a duplicate-free enumeration of `unspent` -/
def walkOrder (unspent order : List UKey) : List UKey :=
  dedup (order.filter (· ∈ unspent)) ++ unspent.filter (· ∉ order)

/-- `latest_block_id.saturating_sub(genesis_period - 1)`; `none` when `genesis_period - 1` underflows -/
def ageLimit (latest gp : Nat) : Option Nat := if gp = 0 then none else some (latest - (gp - 1))

structure Pick where
  nolanIn : Nat := 0
  chosen : List WSlip := []     -- in selection order
  deriving Repr, DecidableEq

/-- the selection loop (wallet.rs:572-605): `none` = `expect("slip should be here")` -/
def pickLoop (slips : List WSlip) (limit requested : Nat) : Pick → List UKey → Option Pick
  | p, [] => some p
  | p, k :: ks =>
    match findSlip slips k with
    | none => none
    | some ws =>
      if ws.blockId ≤ limit then pickLoop slips limit requested p ks
      else if p.nolanIn ≥ requested then some p
      else pickLoop slips limit requested { nolanIn := p.nolanIn + ws.amount, chosen := p.chosen ++ [ws] } ks

/-- the input slip rebuilt from a wallet slip (wallet.rs:587-594) -/
def inputOf (ws : WSlip) : UKey :=
  { owner := 0, bid := ws.blockId, tord := ws.txOrd, idx := ws.slipIndex, amount := ws.amount, typ := ws.typ }

def zeroSlip : UKey := { owner := 0, bid := 0, tord := 0, idx := 0, amount := 0, typ := 0 }

def markSpent (slips : List WSlip) (ks : List UKey) : List WSlip :=
  slips.map fun ws => if ws.key ∈ ks then { ws with spent := true } else ws

def sumW (l : List WSlip) : Nat := (l.map (·.amount)).sum
def sumK (l : List UKey) : Nat := (l.map (·.amount)).sum

/-- `Wallet::generate_slips` (wallet.rs:542): new wallet, inputs, outputs -/
def generateSlips (w : W) (requested latest gp : Nat) (order : List UKey) : Option (W × List UKey × List UKey) :=
  match ageLimit latest gp with
  | none => if w.unspent.isEmpty then some (w, [zeroSlip], [zeroSlip]) else none
  | some limit =>
    match pickLoop w.slips limit requested {} (walkOrder w.unspent order) with
    | none => none
    | some p =>
      if sumW p.chosen > w.balance then none else
      let ks := p.chosen.map (·.key)
      let w' := { w with slips := markSpent w.slips ks, balance := w.balance - sumW p.chosen,
                         unspent := w.unspent.filter (· ∉ ks) }
      let change : UKey := { zeroSlip with amount := if p.nolanIn > requested then p.nolanIn - requested else 0 }
      let inputs := if p.chosen.isEmpty then [zeroSlip] else p.chosen.map inputOf
      some (w', inputs, [change])

/-! ### Transaction::create_with_multiple_payments -/

inductive CreateErr where
  | invalidInput | notFound
  deriving Repr, DecidableEq

inductive CreateRes where
  | tx (w : W) (inputs outputs : List UKey)
  | err (e : CreateErr)
  | panic
  deriving Repr, DecidableEq

/-- checked `u64` sum of the payments (`payments.iter().sum()`) -/
def sumU64 : List Nat → Option Nat
  | [] => some 0
  | a :: as => (sumU64 as).bind fun s => if a + s ≥ U64 then none else some (a + s)

def payOut (k a : Nat) : UKey := { zeroSlip with owner := k, amount := a }

/-- `if with_fee > available_balance { with_fee = 0 }` -/
def feeEff (w : W) (fee : Nat) : Nat := if fee > w.balance then 0 else fee

/-- the payment outputs: keys and payments are popped from the back -/
def payOuts (keys payments : List Nat) : List UKey := (List.zipWith payOut keys payments).reverse

/-- amount of a listed key that `generate_slips` may use (0 when it is at / beyond the window edge) -/
def eligAmt (slips : List WSlip) (limit : Nat) (k : UKey) : Nat :=
  match findSlip slips k with
  | some ws => if ws.blockId > limit then ws.amount else 0
  | none => 0

/-- what `generate_slips` could consume right now: Σ over the unspent list of the usable amounts, with
    `limit = latest.saturating_sub(genesis_period.saturating_sub(1))` (the repair's `get_usable_balance`) -/
def usable (w : W) (latest gp : Nat) : Nat := (w.unspent.map (eligAmt w.slips (latest - (gp - 1)))).sum

def createTx (fl : Flags) (w : W) (keys : List Nat) (payments : List Nat) (fee latest gp : Nat)
    (order : List UKey) : CreateRes :=
  -- `payments.iter().sum()` folds left to right; overflow of any partial sum is overflow of a prefix sum, and all
  -- summands are non-negative, so it overflows iff the total does
  match sumU64 payments with
  | none => .panic
  | some total =>
    if payments.length ≠ keys.length then .err .invalidInput
    else if total + feeEff w fee ≥ U64 then .panic
    else if w.balance < total + feeEff w fee then .err .notFound
    -- repaired: the amount is also measured against the slips `generate_slips` may use, not only `available_balance`
    else if fl.createChecksUsable && total + feeEff w fee > 0 && usable w latest gp < total + feeEff w fee then
      .err .notFound
    else if total + feeEff w fee = 0 then .tx w [zeroSlip] (payOuts keys payments)
    else
      match generateSlips w (total + feeEff w fee) latest gp order with
      | none => .panic
      | some (w', ins, outs) => .tx w' ins (outs ++ payOuts keys payments)

/-- `Wallet::add_to_pending` -/
def addPending (w : W) (txId : Nat) : W :=
  { w with pending := txId :: w.pending.filter (· != txId) }

/-! ### operations -/
inductive Op where
  | addSlip (blockId txIndex : Nat) (s : UKey)
  | deleteSlip (s : UKey)
  | reorg (b : Block) (lc : Bool) (gp : Nat)
  | deleteBlock (b : Block)
  | removeOld (blockId : Nat)
  | generate (requested latest gp : Nat) (order : List UKey)
  | create (keys payments : List Nat) (fee latest gp : Nat) (order : List UKey)
  | pend (txId : Nat)
  deriving Repr, DecidableEq

/-- one call into the wallet; `none` = the call panics -/
def step (fl : Flags) (w : W) : Op → Option W
  | .addSlip b t s => addSlip w b t s true
  | .deleteSlip s => deleteSlip w s
  | .reorg b lc gp => onChainReorg fl w b lc gp
  | .deleteBlock b => deleteBlock w b
  | .removeOld b => removeOldSlips w b
  | .generate r l g o => (generateSlips w r l g o).map (·.1)
  | .create ks ps fee l g o =>
    match createTx fl w ks ps fee l g o with
    | .tx w' _ _ => some w'
    | .err _ => some w
    | .panic => none
  | .pend i => some (addPending w i)

def run (fl : Flags) : W → List Op → Option W
  | w, [] => some w
  | w, op :: ops => (step fl w op).bind fun w' => run fl w' ops

/-- slips the wallet has committed to transactions it built and that are not yet on chain -/
def committed (w : W) : List UKey := (w.slips.filter (·.spent)).map (·.key)

end Saito.Wallet
