/-
  C01 / C06 — executable model of transaction validation, the two transaction entry points, the transaction
  sweep of block validation, and block identity.

  Code modelled (pinned tree):
  * saito-core/src/core/consensus/transaction.rs  `Transaction::validate`            (947-1576)
                                                   `validate_against_utxoset`         (1578-1587)
                                                   `generate_total_fees`              (623-671)
  * saito-core/src/core/consensus/slip.rs         `Slip::validate`                   (223-259)
  * saito-core/src/core/consensus/blockchain.rs   `is_slip_unlocked`                 (2162-2189)
  * saito-core/src/core/consensus/mempool.rs      `add_transaction_if_validates`     (103-131), `add_transaction` (132-180)
  * saito-core/src/core/verification_thread.rs    `verify_tx` (45-69), `verify_block` (110-169)
  * saito-core/src/core/consensus/block.rs        `generate` duplicate-input map     (1281-1303)
                                                   `validate`: issuance / staking / ATR / merkle / fee / sweep (2929-2943, 3090-3224)
                                                   `serialize_for_signature`, `generate_pre_hash`, `generate_hash` (2278-2340, 1350)
  * saito-core/src/core/consensus/blockchain.rs   `check_total_supply`               (2221-2321)

  Abstraction. A utxo key is a `Nat` (`0` = the all-zero key); the harness maps the 59-byte keys to small numbers.
  An input carries its key, owner (key index), amount, slip type and the oracle bit `locked`
  (a `BlockStake` slip younger than `get_latest_unlocked_stake_block_id`). Signatures and routing paths are
  oracle bits supplied by the harness (`sigOk` = the signature verifies against the key of `inputs[0]`).
  Sums are over `Nat` (no u64 overflow: amounts are assumed to add up below 2^64).
  The NFT-structure rules of `Bound`-typed transactions are the oracle bit `nftOk`.
  Import-free (core Lean only).
-/
namespace Saito.TxV

/-- Defect flags: `false` = pinned behaviour, `true` = repaired behaviour. -/
structure Flags where
  /-- block.rs:3194-3217 — the per-transaction verdict gates the sweep (pinned: computed and discarded) -/
  txVerdictPropagated : Bool := false
  /-- transaction.rs:976-986 — duplicate value-carrying inputs are detected (pinned: a `Vec`'s length is compared
      with itself). Repair as in notes/candidate-fixes.diff: keys of inputs with `amount > 0` collected into a set -/
  dupInputsDetected : Bool := false
  /-- transaction.rs:1105-1108 — every value-carrying input belongs to the key the signature is checked against
      (pinned: only `from[0].public_key` is bound to the signature) -/
  allInputsOwnedBySigner : Bool := false
  /-- transaction.rs:1020-1067 — a `BlockStake`-typed transaction needs a sender, a valid signature and
      `out ≤ in` (pinned: returns `true` before any of these) -/
  stakeTypeSigned : Bool := false
  /-- transaction.rs:1003-1010 — an `SPV`-typed transaction with a value-carrying input or output is invalid
      (pinned: valid whenever `in ≤ out`, nothing else looked at; the block later winds its slips) -/
  spvTypeCannotCreateOutputs : Bool := false
  /-- block.rs:1419-1421, 3129-3167 — every `Fee`-typed transaction of a block is the expected one, at most one
      (pinned: only the LAST one is compared, and only when the block has a golden ticket) -/
  singleFeeTx : Bool := false
  /-- mempool.rs:103 / verification_thread.rs:45 — peer transactions of type Fee/SPV/ATR/Issuance are refused -/
  poolRejectsPrivilegedTypes : Bool := false
  /-- block.rs:3113 — the commitment in the header is compared with the transactions carried
      (pinned: only when the stored root is all zeroes, which `generate()` has already replaced) -/
  merkleAlwaysCompared : Bool := false
  /-- slip.rs:199-209 — the signed bytes of an input include its location (`block_id`, `tx_ordinal`), so the
      transaction hash binds WHICH output is spent (pinned: owner, amount, index, type only) -/
  inputLocationSigned : Bool := false
  /-- slip.rs:223 — an output created more than a genesis period before the block being built is not spendable
      (pinned: membership in the utxo set only; outputs too small to pay the rebroadcast fee stay there until the
      purge at twice the genesis period) -/
  windowChecked : Bool := false
  /-- verification_thread.rs:45 — `verify_tx` itself drops a peer transaction of type Fee/SPV/ATR/Issuance (a tree may
      refuse these only at the pool, `poolRejectsPrivilegedTypes`, and still forward them from the verification thread) -/
  verifyDropsPrivilegedTypes : Bool := false
  /-- block.rs:2691-2704 — a block validated by a full node may not contain `SPV`-typed transactions, whatever their
      replacement count (the merkle leaf of such a placeholder is a field its sender chooses, not a hash of its content;
      pinned: no such rule) -/
  fullBlockNoSpv : Bool := false
  deriving Repr, DecidableEq

def Flags.pinned : Flags := {}
def Flags.fixed : Flags := ⟨true, true, true, true, true, true, true, true, true, true, true, true⟩

inductive TxType where
  | normal | fee | goldenTicket | atr | vip | spv | issuance | blockStake | bound
  deriving Repr, DecidableEq

def TxType.ofCode : Nat → TxType
  | 1 => .fee | 2 => .goldenTicket | 3 => .atr | 4 => .vip | 5 => .spv | 6 => .issuance | 7 => .blockStake
  | 8 => .bound | _ => .normal

/-- slip type codes (slip.rs:17-28) -/
def stNormal : Nat := 0
def stBlockStake : Nat := 8
def stBound : Nat := 9

structure Input where
  key : Nat
  owner : Nat
  amount : Nat
  styp : Nat := 0
  locked : Bool := false
  /-- oracle: created more than a genesis period before the block under construction
      (`slip.block_id < new_block_id − genesis_period`) -/
  old : Bool := false
  deriving Repr, DecidableEq

structure Output where
  owner : Nat
  amount : Nat
  styp : Nat := 0
  deriving Repr, DecidableEq

structure Tx where
  typ : TxType := .normal
  inputs : List Input := []
  outputs : List Output := []
  /-- oracle: `verify_signature(hash_for_signature, signature, from[0].public_key)` -/
  sigOk : Bool := false
  /-- ghost: index of the key that produced the signature (99 = nobody); tied to `sigOk` by `SigSound` -/
  signer : Nat := 99
  /-- oracle: `validate_routing_path()` -/
  pathOk : Bool := true
  /-- oracle: the NFT-structure rules of a `Bound`-typed transaction hold -/
  nftOk : Bool := true
  /-- oracle: this `Fee`-typed transaction equals the one `generate_consensus_values` expects -/
  feeExp : Bool := false
  /-- identity of the signed bytes (`serialize_for_signature`): what `hash_for_signature` commits to -/
  content : Nat := 0
  deriving Repr, DecidableEq

/-- context of one validation call -/
structure Ctx where
  /-- `validate_against_utxo` (= `has_total_supply_loaded`) -/
  vau : Bool := true
  /-- `blockchain.social_stake_requirement` -/
  ssr : Nat := 0
  deriving Repr, DecidableEq

/-! ## Transaction::validate -/

def Input.isValue (i : Input) : Bool := i.amount > 0

/-- `generate_total_fees`: Bound slips are not counted -/
def totalIn (tx : Tx) : Nat := (tx.inputs.map fun i => if i.styp == stBound then 0 else i.amount).sum
def totalOut (tx : Tx) : Nat := (tx.outputs.map fun o => if o.styp == stBound then 0 else o.amount).sum
def totalFees (tx : Tx) : Nat := totalIn tx - totalOut tx

def noDup : List Nat → Bool
  | [] => true
  | k :: ks => !ks.contains k && noDup ks

/-- keys of the value-carrying inputs -/
def valueKeys (tx : Tx) : List Nat := (tx.inputs.filter Input.isValue).map (·.key)

/-- `Slip::validate` -/
def slipSpendable (fl : Flags) (u : List Nat) (i : Input) : Bool :=
  i.amount == 0 || (u.contains i.key && !(fl.windowChecked && i.old))

/-- `is_slip_unlocked` (the amount parsed from the key always equals the slip's amount) -/
def slipUnlocked (fl : Flags) (u : List Nat) (i : Input) : Bool :=
  u.contains i.key && !i.locked && !(fl.windowChecked && i.old && i.isValue)

/-- every value-carrying input is owned by the key of the first input -/
def ownedByFirst (tx : Tx) : Bool :=
  match tx.inputs with
  | [] => true
  | i0 :: _ => tx.inputs.all fun i => !i.isValue || i.owner == i0.owner

def ownOk (fl : Flags) (tx : Tx) : Bool := !fl.allInputsOwnedBySigner || ownedByFirst tx

/-- transaction.rs:1091-1151, the block for every type except ATR and Issuance -/
def userChecks (fl : Flags) (tx : Tx) : Bool :=
  !tx.inputs.isEmpty && tx.sigOk && tx.pathOk && decide (totalOut tx ≤ totalIn tx) && ownOk fl tx

def hasBoundSlip (tx : Tx) : Bool :=
  tx.inputs.any (·.styp == stBound) || tx.outputs.any (·.styp == stBound)

/-- transaction.rs:1020-1067 -/
def stakeBranch (fl : Flags) (cx : Ctx) (u : List Nat) (tx : Tx) : Bool :=
  tx.outputs.all (fun o => o.styp == stBlockStake || o.styp == stNormal)
  && decide (cx.ssr ≤ ((tx.outputs.filter (·.styp == stBlockStake)).map (·.amount)).sum)
  && tx.inputs.all (fun i => i.key != 0 && slipUnlocked fl u i)
  && noDup (tx.inputs.map (·.key))
  && (!fl.stakeTypeSigned || userChecks fl tx)

def txValidate (fl : Flags) (cx : Ctx) (u : List Nat) (tx : Tx) : Bool :=
  if tx.inputs.length > 255 || tx.outputs.length > 255 then false
  else if fl.dupInputsDetected && !noDup (valueKeys tx) then false
  else match tx.typ with
  | .fee => true
  | .spv =>
    if fl.spvTypeCannotCreateOutputs && (tx.inputs.any Input.isValue || tx.outputs.any (·.amount > 0)) then false
    else totalFees tx == 0
  | .blockStake => stakeBranch fl cx u tx
  | t =>
    (t == .atr || t == .issuance || userChecks fl tx)
    && (if t == .bound then tx.nftOk else (t == .atr || !hasBoundSlip tx))
    && !tx.outputs.isEmpty
    && (!cx.vau || tx.inputs.all (slipSpendable fl u))

/-! ## the transaction pool: `Mempool::add_transaction_if_validates` (fresh pool) and `verify_tx` -/

inductive PoolRes where
  | accepted | rejected | panic
  deriving Repr, DecidableEq

def TxType.privileged : TxType → Bool
  | .fee | .spv | .atr | .issuance => true
  | _ => false

/-- `add_transaction_if_validates` on a pool without reservations: validate with the utxo check on, then
    `add_transaction`, which panics on a GoldenTicket-typed transaction -/
def poolAccepts (fl : Flags) (cx : Ctx) (u : List Nat) (tx : Tx) : PoolRes :=
  if !txValidate fl { cx with vau := true } u tx then .rejected
  else if fl.poolRejectsPrivilegedTypes && tx.typ.privileged then .rejected
  else if tx.typ == .goldenTicket then .panic
  else .accepted

/-- `verify_tx`: forwards to the consensus thread iff the transaction validates -/
def verifyTxForwards (fl : Flags) (cx : Ctx) (u : List Nat) (tx : Tx) : Bool :=
  txValidate fl { cx with vau := true } u tx && !(fl.verifyDropsPrivilegedTypes && tx.typ.privileged)

/-! ## Block::generate — duplicate-input map of the FIRST non-fee transaction only -/

def blockGenerateOk (txs : List Tx) : Bool :=
  match txs.find? (·.typ != .fee) with
  | none => true
  | some tx => noDup (valueKeys tx)

/-! ## the transaction sweep of Block::validate -/

/-- inputs that enter `new_slips_map`: `amount > 0` and not a Bound slip -/
def sweepKeys (tx : Tx) : List Nat :=
  (tx.inputs.filter fun i => i.amount > 0 && i.styp != stBound).map (·.key)

/-- insert the keys one by one; `none` = a key was already in the map (double spend) -/
def addKeys : List Nat → List Nat → Option (List Nat)
  | seen, [] => some seen
  | seen, k :: ks => if seen.contains k then none else addKeys (k :: seen) ks

/-- the closure of `self.transactions.iter().all(..)` with its map -/
def sweepGo (fl : Flags) (cx : Ctx) (u : List Nat) : List Tx → List Nat → Bool
  | [], _ => true
  | tx :: rest, seen =>
    let v := txValidate fl cx u tx
    if !v && fl.txVerdictPropagated then false
    else if v && tx.typ != .fee then
      match addKeys seen (sweepKeys tx) with
      | none => false
      | some seen' => sweepGo fl cx u rest seen'
    else sweepGo fl cx u rest seen

def blockSweep (fl : Flags) (cx : Ctx) (u : List Nat) (txs : List Tx) : Bool := sweepGo fl cx u txs []

/-! ## Block::validate (the parts that look at the transactions) and add_block -/

structure BCtx where
  id : Nat := 2
  cx : Ctx := {}
  /-- oracle: the creator's signature verifies against `pre_hash` -/
  hsig : Bool := true
  /-- oracle: the consensus-value / burn-fee / difficulty / treasury / routing-work / golden-ticket comparisons pass -/
  hdr : Bool := true
  /-- oracle: the stored merkle root (after `generate()` filled a zero root) equals the recomputed one -/
  rootMatches : Bool := true
  /-- oracle: the ATR-typed transactions carried are exactly the rebroadcasts `generate_consensus_values` expects
      (slip count and `rebroadcast_hash` comparisons) -/
  atrOk : Bool := true
  /-- `hs(block) − hs(previous tip)`, `hs = graveyard + treasury + previous_block_unpaid + total_fees` -/
  dhs : Int := 0
  /-- amount in the utxo set that was inside the supply window before this block and is outside after it -/
  xr : Nat := 0
  deriving Repr, DecidableEq

def isType (t : TxType) (tx : Tx) : Bool := tx.typ == t

/-- block.rs:3129-3167 and its repair -/
def feeRule (fl : Flags) (bc : BCtx) (txs : List Tx) : Bool :=
  let fees := txs.filter (isType .fee)
  if fl.singleFeeTx then fees.all (·.feeExp) && fees.length ≤ 1
  else
    if txs.any (isType .goldenTicket) && bc.cx.vau then
      match fees.getLast? with
      | none => true
      | some ft => ft.feeExp
    else true

def blockValidate (fl : Flags) (bc : BCtx) (u : List Nat) (txs : List Tx) : Bool :=
  !(txs.isEmpty && bc.id != 1)
  && bc.hsig && bc.hdr
  && !(txs.any (isType .issuance) && bc.id > 1)
  && !(bc.cx.ssr != 0 && (txs.filter (isType .blockStake)).length != 1 && bc.id > 1)
  && !(bc.cx.vau && !bc.atrOk)
  && (!fl.merkleAlwaysCompared || bc.rootMatches)
  && !(fl.fullBlockNoSpv && txs.any (isType .spv))
  && feeRule fl bc txs
  && blockSweep fl bc.cx u txs

inductive BRes where
  | genErr | invalid | accepted | supplyPanic
  deriving Repr, DecidableEq

def dedupKeys : List Nat → List Nat
  | [] => []
  | k :: ks => if ks.contains k then dedupKeys ks else k :: dedupKeys ks

/-- amounts leaving the counted supply when the block is wound: every distinct spendable key that some input with
    `amount > 0` names is removed; Bound slips and slips outside the window are not counted by
    `check_total_supply` (those that leave the window with this block are in `xr`) -/
def removedAmount (u : List Nat) (txs : List Tx) : Nat :=
  let ins := (txs.flatMap (·.inputs)).filter fun i => i.amount > 0 && u.contains i.key
  let counted := ins.filter fun i => i.styp != stBound && !i.old
  let keys := dedupKeys (counted.map (·.key))
  (keys.map fun k => match counted.find? (·.key == k) with | some i => i.amount | none => 0).sum

def insertedAmount (txs : List Tx) : Nat :=
  ((txs.flatMap (·.outputs)).map fun o => if o.styp == stBound then 0 else o.amount).sum

def supplyDelta (bc : BCtx) (u : List Nat) (txs : List Tx) : Int :=
  (insertedAmount txs : Int) - (removedAmount u txs : Int) - (bc.xr : Int) + bc.dhs

/-- `Blockchain::add_block` for a block that extends the tip of a chain whose supply is already recorded -/
def addBlock (fl : Flags) (bc : BCtx) (u : List Nat) (txs : List Tx) : BRes :=
  if !blockGenerateOk txs then .genErr
  else if !blockValidate fl bc u txs then .invalid
  -- `check_total_supply` returns early while `has_total_supply_loaded` is false (a node without block 1)
  else if bc.cx.vau && supplyDelta bc u txs != 0 then .supplyPanic
  else .accepted

/-- accepted by block validation (what C01 quantifies over) -/
def blockAccepts (fl : Flags) (bc : BCtx) (u : List Nat) (txs : List Tx) : Bool :=
  blockGenerateOk txs && blockValidate fl bc u txs

/-! ## C06 — block identity as terms -/

/-- the signed header fields (`serialize_for_signature`), `numeric` = the twelve u64 consensus fields -/
structure Header (δ : Type) where
  id : Nat
  timestamp : Nat
  prev : δ
  creator : Nat
  root : δ
  numeric : List Nat
  deriving Repr, DecidableEq

/-- an idealised signature: who signed which digest -/
structure Sig (δ : Type) where
  signer : Nat
  msg : δ
  deriving Repr, DecidableEq

/-- what the commitment sees of a transaction: its signed content and (only with the repaired flag) where its
    inputs point -/
structure TxId where
  content : Nat
  inKeys : List Nat
  deriving Repr, DecidableEq

structure IBlock (δ : Type) where
  hdr : Header δ
  sig : Sig δ
  txs : List TxId
  /-- oracle: everything `Block::validate` checks besides signature and commitment -/
  restOk : Bool := true

/-- hash combiners: `H1` over the signed bytes, `H2 prev pre`, `L` leaf of a transaction, `M` commitment of the
    ordered leaf list -/
structure Hashes (δ : Type) where
  H1 : Header δ → δ
  H2 : δ → δ → δ
  L : Nat → List Nat → δ
  M : List δ → δ

variable {δ : Type}

def leafOf (hs : Hashes δ) (fl : Flags) (t : TxId) : δ :=
  hs.L t.content (if fl.inputLocationSigned then t.inKeys else [])

def rootOf (hs : Hashes δ) (fl : Flags) (txs : List TxId) : δ := hs.M (txs.map (leafOf hs fl))

def preHash (hs : Hashes δ) (b : IBlock δ) : δ := hs.H1 b.hdr
def blockHash (hs : Hashes δ) (b : IBlock δ) : δ := hs.H2 b.hdr.prev (preHash hs b)

/-- `verify_signature(pre_hash, signature, creator)` with unforgeable signatures -/
def sigValid [DecidableEq δ] (hs : Hashes δ) (b : IBlock δ) : Bool :=
  b.sig.signer == b.hdr.creator && b.sig.msg == preHash hs b

def idAccepts [DecidableEq δ] (hs : Hashes δ) (fl : Flags) (b : IBlock δ) : Bool :=
  sigValid hs b && b.restOk && (!fl.merkleAlwaysCompared || b.hdr.root == rootOf hs fl b.txs)

/-- `verify_block`: the decoded block is forwarded iff its id and recomputed hash equal the advertised ones -/
def wireForwards [DecidableEq δ] (hs : Hashes δ) (advId : Nat) (advHash : δ) (b : IBlock δ) : Bool :=
  b.hdr.id == advId && blockHash hs b == advHash

/-- equality of two `H2 prev (H1 signedBytes)` terms when the combiners are free (injective): componentwise.
    The driver answers the wire cases with this; `C06.hash_eq_iff` justifies it. -/
def termHashEq (prev sb prev' sb' : Nat) : Bool := prev == prev' && sb == sb'

/-- `verify_block` on identifiers of (id, prev, signed bytes) -/
def wireForwardsT (advId advPrev advSb id prev sb : Nat) : Bool :=
  id == advId && termHashEq advPrev advSb prev sb

end Saito.TxV
