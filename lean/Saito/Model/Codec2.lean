import Saito.Model.Codec
/-
  Block (full / header-only), GoldenTicket, wallet file, peer messages (15 tags),
  handshake, chain-sync, api message, peer services, version.
-/
namespace Saito

def BLOCK_HEADER_SIZE : Nat := 389

/-- 25 `u64` header fields in wire order with the duplicated `avg_total_fees` removed:
 0 graveyard 1 treasury 2 burnfee 3 difficulty 4 avg_fee_per_byte 5 avg_nolan_rebroadcast_per_block
 6 previous_block_unpaid 7 avg_total_fees 8 avg_total_fees_new 9 avg_total_fees_atr 10 avg_payout_routing
 11 avg_payout_mining 12 avg_payout_treasury 13 avg_payout_graveyard 14 avg_payout_atr
 15 total_payout_routing 16 total_payout_mining 17 total_payout_treasury 18 total_payout_graveyard
 19 total_payout_atr 20 total_fees 21 total_fees_new 22 total_fees_atr 23 fee_per_byte 24 total_fees_cumulative -/
structure Block where
  id : UInt64
  ts : UInt64
  prev : Bytes
  creator : Bytes
  merkle : Bytes
  sig : Bytes
  nums : List UInt64
  txs : List Tx
  /-- `block_type == Header` as set by the decoder -/
  isHeader : Bool
  deriving Repr, DecidableEq

def zeros (n : Nat) : Bytes := List.replicate n 0

def Block.wf (b : Block) : Prop :=
  b.prev.length = 32 ∧ b.creator.length = 33 ∧ b.merkle.length = 32 ∧ b.sig.length = 64 ∧
  b.nums.length = 25 ∧ b.txs.length < 2 ^ 32 ∧ (∀ t ∈ b.txs, t.wf) ∧
  b.isHeader = (b.txs.isEmpty && !(b.id == 1 && b.prev == zeros 32))

def encU64s (l : List UInt64) : Bytes := (l.map fun x => toBE 8 x.toNat).flatten
def encTxs (l : List Tx) : Bytes := (l.map Tx.encode).flatten

/-- the 26 wire words: `avg_total_fees` (canonical index 7) is written a second time at wire index 4 -/
def Block.wireNums (b : Block) : List UInt64 := b.nums.take 4 ++ (b.nums.getD 7 0 :: b.nums.drop 4)

/-- `Block::serialize_for_net(block_type)`; `hdr = true` is `BlockType::Header` -/
def Block.encode (b : Block) (hdr : Bool) : Bytes :=
  toBE 4 (if hdr then 0 else b.txs.length) ++ (toBE 8 b.id.toNat ++ (toBE 8 b.ts.toNat ++ (b.prev ++
  (b.creator ++ (b.merkle ++ (b.sig ++ (encU64s b.wireNums ++ (if hdr then [] else encTxs b.txs))))))))

def decU64s : Nat → Bytes → List UInt64
  | 0, _ => []
  | n+1, bs => u64 (bs.take 8) :: decU64s n (bs.drop 8)

/-- the transaction loop of `Block::deserialize_from_net`: extents are checked before slicing -/
def decBlockTxs (fl : CodecFlags) : Nat → Bytes → Res (List Tx)
  | 0, _ => .ok []
  | n+1, bs =>
    if bs.length < 16 then .err else
    let nin := fromBE (bs.take 4)
    let nout := fromBE ((bs.drop 4).take 4)
    let ml := fromBE ((bs.drop 8).take 4)
    let pl := fromBE ((bs.drop 12).take 4)
    if nin + nout ≥ 2 ^ 32 then .err else
    let e := txExtent nin nout ml pl
    if bs.length < e then .err else
    (Tx.decode fl (bs.take e)).bind fun t =>
    (decBlockTxs fl n (bs.drop e)).bind fun l => .ok (t :: l)

def Block.decode (fl : CodecFlags) (bs : Bytes) : Res Block :=
  if bs.length < 389 then .err else
  takeN 4 bs .err fun ntx r =>
  takeN 8 r .err fun id r =>
  takeN 8 r .err fun ts r =>
  takeN 32 r .err fun prev r =>
  takeN 33 r .err fun creator r =>
  takeN 32 r .err fun merkle r =>
  takeN 64 r .err fun sig r =>
  takeN 208 r .err fun w r =>
  let wn := decU64s 26 w
  (decBlockTxs fl (fromBE ntx) r).bind fun txs =>
  .ok { id := u64 id, ts := u64 ts, prev := prev, creator := creator, merkle := merkle, sig := sig,
        nums := wn.take 4 ++ wn.drop 5, txs := txs,
        isHeader := (fromBE ntx == 0) && !(u64 id == 1 && prev == zeros 32) }

/-- `Block::serialize_for_signature` (what the creator signs and what `pre_hash` commits to) -/
def Block.sigBytes (b : Block) : Bytes :=
  toBE 8 b.id.toNat ++ toBE 8 b.ts.toNat ++ b.prev ++ b.creator ++ b.merkle ++
  encU64s [b.nums.getD 0 0, b.nums.getD 1 0, b.nums.getD 2 0, b.nums.getD 3 0, b.nums.getD 4 0,
    b.nums.getD 5 0, b.nums.getD 6 0, b.nums.getD 7 0, b.nums.getD 8 0, b.nums.getD 9 0,
    b.nums.getD 10 0, b.nums.getD 11 0]

/-! ### GoldenTicket (97 bytes) and wallet file (65 bytes) -/
structure GoldenTicket where
  target : Bytes
  random : Bytes
  pk : Bytes
  deriving Repr, DecidableEq

def GoldenTicket.wf (g : GoldenTicket) : Prop := g.target.length = 32 ∧ g.random.length = 32 ∧ g.pk.length = 33
def GoldenTicket.encode (g : GoldenTicket) : Bytes := g.target ++ (g.random ++ g.pk)
/-- `assert_eq!(bytes.len(), 97)` -/
def GoldenTicket.decode (fl : CodecFlags) (bs : Bytes) : Res GoldenTicket :=
  if bs.length ≠ 97 then (if fl.gtTotal then .err else .panic) else
  takeN 32 bs .err fun t r => takeN 32 r .err fun x pk => .ok ⟨t, x, pk⟩

structure WalletFile where
  priv : Bytes
  pub : Bytes
  deriving Repr, DecidableEq
def WalletFile.wf (w : WalletFile) : Prop := w.priv.length = 32 ∧ w.pub.length = 33
def WalletFile.encode (w : WalletFile) : Bytes := w.priv ++ w.pub
/-- `bytes[0..32]`, `bytes[32..65]`; longer files are accepted (trailing bytes ignored) -/
def WalletFile.decode (fl : CodecFlags) (bs : Bytes) : Res WalletFile :=
  if bs.length < 65 then (if fl.walletTotal then .err else .panic) else
  .ok ⟨bs.take 32, (bs.drop 32).take 33⟩

/-! ### GhostChainSync -/
structure Ghost where
  start : Bytes
  prehashes : List Bytes
  prevs : List Bytes
  ids : List UInt64
  tss : List UInt64
  txs : List Bool
  gts : List Bool
  deriving Repr, DecidableEq

def Ghost.wf (g : Ghost) : Prop :=
  g.start.length = 32 ∧ g.prehashes.length < 2 ^ 32 ∧
  g.prevs.length = g.prehashes.length ∧ g.ids.length = g.prehashes.length ∧
  g.tss.length = g.prehashes.length ∧ g.txs.length = g.prehashes.length ∧
  g.gts.length = g.prehashes.length ∧ (∀ h ∈ g.prehashes, h.length = 32) ∧ (∀ h ∈ g.prevs, h.length = 32)

def encBools (l : List Bool) : Bytes := l.map fun b => if b then 1 else 0

def Ghost.encode (g : Ghost) : Bytes :=
  g.start ++ (toBE 4 g.prehashes.length ++ (g.prehashes.flatten ++ (g.prevs.flatten ++
  (encU64s g.ids ++ (encU64s g.tss ++ (encBools g.txs ++ encBools g.gts))))))

def chunks (w : Nat) : Nat → Bytes → List Bytes
  | 0, _ => []
  | n+1, bs => bs.take w :: chunks w n (bs.drop w)

/-- the buffer does not hold the 36-byte prefix and `count * 82` further bytes -/
def Ghost.short (bs : Bytes) : Bool :=
  bs.length < 36 || (bs.drop 36).length < fromBE ((bs.drop 32).take 4) * 82

/-- `GhostChainSync::deserialize`: every slice is unchecked; all of them are in range exactly when the
buffer holds the 36-byte prefix and `count * 82` further bytes. -/
def Ghost.decode (fl : CodecFlags) (bs : Bytes) : Res Ghost :=
  let short : Res Ghost := if fl.ghostBounds then .err else .panic
  if bs.length < 36 then short else
  let n := fromBE ((bs.drop 32).take 4)
  let r := bs.drop 36
  if r.length < n * 82 then short else
  .ok { start := bs.take 32,
        prehashes := chunks 32 n r,
        prevs := chunks 32 n (r.drop (n * 32)),
        ids := decU64s n (r.drop (n * 64)),
        tss := decU64s n (r.drop (n * 72)),
        txs := ((r.drop (n * 80)).take n).map (· != 0),
        gts := ((r.drop (n * 81)).take n).map (· != 0) }

/-! ### UTF-8 (Rust `String::from_utf8`) -/
def isCont (b : UInt8) : Bool := 0x80 ≤ b && b ≤ 0xBF

def utf8Valid : Bytes → Bool
  | [] => true
  | b0 :: rest =>
    if b0 < 0x80 then utf8Valid rest
    else if 0xC2 ≤ b0 && b0 ≤ 0xDF then
      match rest with
      | b1 :: r => isCont b1 && utf8Valid r
      | _ => false
    else if 0xE0 ≤ b0 && b0 ≤ 0xEF then
      match rest with
      | b1 :: b2 :: r =>
        (if b0 == 0xE0 then 0xA0 ≤ b1 && b1 ≤ 0xBF
         else if b0 == 0xED then 0x80 ≤ b1 && b1 ≤ 0x9F else isCont b1) && isCont b2 && utf8Valid r
      | _ => false
    else if 0xF0 ≤ b0 && b0 ≤ 0xF4 then
      match rest with
      | b1 :: b2 :: b3 :: r =>
        (if b0 == 0xF0 then 0x90 ≤ b1 && b1 ≤ 0xBF
         else if b0 == 0xF4 then 0x80 ≤ b1 && b1 ≤ 0x8F else isCont b1) && isCont b2 && isCont b3 && utf8Valid r
      | _ => false
    else false
termination_by bs => bs.length

/-! ### Peer services: `a|b|c;a|b|c;…` -/
structure Service where
  service : Bytes
  domain : Bytes
  name : Bytes
  deriving Repr, DecidableEq

def splitOnByte (sep : UInt8) : Bytes → List Bytes
  | [] => [[]]
  | b :: rest =>
    match splitOnByte sep rest with
    | [] => [[]]   -- unreachable: the result is never empty
    | seg :: segs => if b == sep then [] :: seg :: segs else (b :: seg) :: segs

def joinBytes (sep : UInt8) : List Bytes → Bytes
  | [] => []
  | [a] => a
  | a :: rest => a ++ sep :: joinBytes sep rest

def Service.encode (s : Service) : Bytes := s.service ++ 0x7C :: (s.domain ++ 0x7C :: s.name)
def encServices (l : List Service) : Bytes := joinBytes 0x3B (l.map Service.encode)

def decServiceSegs : List Bytes → Res (List Service)
  | [] => .ok []
  | seg :: rest =>
    if seg.isEmpty then decServiceSegs rest else
    match splitOnByte 0x7C seg with
    | [a, b, c] => (decServiceSegs rest).bind fun l => .ok (⟨a, b, c⟩ :: l)
    | _ => .err

/-- `PeerService::deserialize_services` -/
def decServices (bs : Bytes) : Res (List Service) :=
  if bs.isEmpty then .ok [] else
  if !utf8Valid bs then .err else
  decServiceSegs (splitOnByte 0x3B bs)

/-! ### Handshake -/
structure HsResponse where
  core : Bytes      -- Version: major minor patch(be16) = 4 bytes
  wallet : Bytes
  pk : Bytes
  sig : Bytes
  challenge : Bytes
  lite : Bool
  url : Bytes
  services : List Service
  deriving Repr, DecidableEq

def HsResponse.encode (r : HsResponse) : Bytes :=
  r.core ++ (r.wallet ++ (r.pk ++ (r.sig ++ (r.challenge ++ ((if r.lite then 1 else 0) ::
  (toBE 4 r.url.length ++ (r.url ++ encServices r.services)))))))

def HsResponse.decode (bs : Bytes) : Res HsResponse :=
  if bs.length < 142 then .err else
  takeN 4 bs .err fun core r =>
  takeN 4 r .err fun wallet r =>
  takeN 33 r .err fun pk r =>
  takeN 64 r .err fun sig r =>
  takeN 32 r .err fun ch r =>
  takeN 1 r .err fun lite r =>
  takeN 4 r .err fun ul r =>
  let n := fromBE ul
  if n > 0 && bs.length < 142 + n then .err else
  let url := r.take n
  if n > 0 && !utf8Valid url then .err else
  let rest := r.drop n
  (if bs.length > 142 + n then decServices rest else .ok []).bind fun sv =>
  .ok ⟨core, wallet, pk, sig, ch, fromBE lite != 0, url, sv⟩

/-! ### Message: `tag:u8 ‖ body` -/
inductive Msg where
  | challenge (c : Bytes)
  | response (r : HsResponse)
  | block (b : Block)
  | tx (t : Tx)
  | chainReq (id : UInt64) (hash fork : Bytes)
  | headerHash (hash : Bytes) (id : UInt64)
  | ping
  | spv
  | services (l : List Service)
  | ghost (g : Ghost)
  | ghostReq (id : UInt64) (hash fork : Bytes)
  | app (tag : UInt8) (idx : UInt32) (data : Bytes)   -- tag ∈ {12, 13, 14}
  | keyList (keys : List Bytes)
  deriving Repr, DecidableEq

/-- `Message::get_type_value` -/
def Msg.tag : Msg → UInt8
  | .challenge _ => 1 | .response _ => 2 | .block _ => 3 | .tx _ => 4 | .chainReq .. => 5
  | .headerHash .. => 6 | .ping => 7 | .spv => 8 | .services _ => 9 | .ghost _ => 10
  | .ghostReq .. => 11 | .app t _ _ => t | .keyList _ => 15

def Msg.body : Msg → Bytes
  | .challenge c => c
  | .response r => r.encode
  | .block b => b.encode false
  | .tx t => t.encode
  | .chainReq id h f => toBE 8 id.toNat ++ (h ++ f)
  | .headerHash h id => h ++ toBE 8 id.toNat
  | .ping => []
  | .spv => []
  | .services l => encServices l
  | .ghost g => g.encode
  | .ghostReq id h f => toBE 8 id.toNat ++ (h ++ f)
  | .app _ idx d => toBE 4 idx.toNat ++ d
  | .keyList ks => ks.flatten

def Msg.encode (m : Msg) : Bytes := m.tag :: m.body

def decKeys : Nat → Bytes → List Bytes := chunks 33

/-- `Message::deserialize` -/
def Msg.decode (fl : CodecFlags) (bs : Bytes) : Res Msg :=
  match bs with
  | [] => .err
  | tag :: b =>
    match tag.toNat with
    | 1 => if b.length < 32 then .err else .ok (.challenge (b.take 32))
    | 2 => (HsResponse.decode b).map .response
    | 3 => (Block.decode fl b).map .block
    | 4 => (Tx.decode fl b).map .tx
    | 5 => if b.length ≠ 72 then .err else .ok (.chainReq (u64 (b.take 8)) ((b.drop 8).take 32) (b.drop 40))
    | 6 => if b.length ≠ 40 then .err else .ok (.headerHash (b.take 32) (u64 (b.drop 32)))
    | 7 => .ok .ping
    | 8 => .ok .spv
    | 9 => (decServices b).map .services
    | 10 => if fl.msgGhostChecked && Ghost.short b then .err else (Ghost.decode fl b).map .ghost
    | 11 => if b.length ≠ 72 then .err else .ok (.ghostReq (u64 (b.take 8)) ((b.drop 8).take 32) (b.drop 40))
    | 12 => if b.length < 4 then .err else .ok (.app 12 (u32 (b.take 4)) (b.drop 4))
    | 13 => if b.length < 4 then .err else .ok (.app 13 (u32 (b.take 4)) (b.drop 4))
    | 14 => if b.length < 4 then .err else .ok (.app 14 (u32 (b.take 4)) (b.drop 4))
    | 15 => if b.length % 33 ≠ 0 then .err else .ok (.keyList (decKeys (b.length / 33) b))
    | _ => .err

end Saito
