/-
  C18 — executable model of the transaction commitment and of the lite-block projection.

  Code modelled (pinned tree):
  * saito-core/src/core/consensus/merkle.rs  `MerkleTree::generate`      (66-139)
  * saito-core/src/core/consensus/block.rs   `generate_merkle_root`      (1356-1375)
  * saito-core/src/core/consensus/block.rs   `generate_lite_block`       (2527-2626)
  * saito-core/src/core/consensus/transaction.rs `generate_hash_for_signature` (728-734), reached through
    `Block::deserialize_from_net` + `Block::generate` on the receiving side.

  Hashes are never computed: everything is parametric in a digest type `α` and a combiner `H : α → α → α`
  (`H a b` stands for `hash(a ‖ b)`). The driver and the witness theorems instantiate `α := HTerm`, `H := .node`
  (free terms), the correspondence harness evaluates those terms with the real blake3.

  Assumption on the *full* block (what `Block::create` produces and what every test of the harness builds): its
  transactions are not of type SPV and have `txs_replacements = 1`, and every transaction has its
  `hash_for_signature` (true after `Transaction::sign` or `Block::generate`).

  Import-free (core Lean only).
-/
namespace Saito.Merkle

/-- Defect flags. `false` = pinned (defective) behaviour, `true` = repaired behaviour. -/
structure Flags where
  /-- merkle.rs:75-83. Pinned: a placeholder with `txs_replacements = r > 1` is expanded into `r` *leaves* that all
      carry the placeholder's (combined) hash. Repaired: it stands for one node that covers `r` leaves. -/
  spvSubtreeAsSingleNode : Bool := false
  /-- block.rs:2566-2585. Pinned: after merging `pruned_txs[i]`, `pruned_txs[i+1]` the index stays, the next comparison
      fails (counts 2 vs 1) and `i += 2` then skips one element, so later merges join transactions that are not
      siblings in the full tree. Repaired: the loop steps over the merged placeholder (`i += 1`), all merged pairs are
      sibling leaves `(2j, 2j+1)`. -/
  spvMergeSiblingsOnly : Bool := false
  /-- block.rs:2553, 2580 / transaction.rs:729-730. The receiver of an SPV transaction sets
      `hash_for_signature := signature[0..32]`. Pinned: the placeholder's `signature` field is the original
      transaction's signature, so the leaf hash is lost on the wire. Repaired: `generate_lite_block` stores the
      placeholder's (combined) hash in `signature[0..32]`. -/
  spvPlaceholderCarriesHash : Bool := false
  deriving Repr, DecidableEq

def Flags.pinned : Flags := {}
def Flags.fixed : Flags := ⟨true, true, true⟩

/-- Digests as free terms. `leaf i` = `hash_for_signature` of transaction `i` of the full block,
    `sig i` = `signature[0..32]` of transaction `i`, `node l r` = `hash(l ‖ r)`. -/
inductive HTerm where
  | leaf (i : Nat)
  | sig (i : Nat)
  | node (l r : HTerm)
  deriving Repr, DecidableEq

/-- number of atoms of a term -/
def HTerm.size : HTerm → Nat
  | .leaf _ => 1
  | .sig _ => 1
  | .node l r => l.size + r.size

/-- does the term mention a signature prefix -/
def HTerm.hasSig : HTerm → Bool
  | .leaf _ => false
  | .sig _ => true
  | .node l r => l.hasSig || r.hasSig

/-- canonical text: `L3`, `S3`, `N(a,b)` -/
def HTerm.render : HTerm → String
  | .leaf i => "L" ++ toString i
  | .sig i => "S" ++ toString i
  | .node l r => "N(" ++ l.render ++ "," ++ r.render ++ ")"

/-- A transaction of the full block. `idx` stands for the whole content (timestamp, slips, data, path, signature). -/
structure Tx (α : Type) where
  idx : Nat
  /-- `hash_for_signature` -/
  hash : α
  /-- `signature[0..32]` read as a digest -/
  sigPre : α
  /-- public keys of the `from` slips -/
  from_ : List Nat := []
  /-- public keys of the `to` slips -/
  to : List Nat := []
  /-- `transaction_type == GoldenTicket` -/
  isGT : Bool := false
  deriving Repr, DecidableEq

/-- An element of a (lite) block's transaction list. -/
inductive Entry (α : Type) where
  /-- a transaction carried in full (`tx.clone()`) -/
  | full (t : Tx α)
  /-- an SPV placeholder: `txs_replacements`, `hash_for_signature`, `signature[0..32]`, and (ghost) the indices of the
      transactions of the full block it stands for -/
  | spv (repl : Nat) (hash sigPre : α) (covers : List Nat)
  deriving Repr, DecidableEq

variable {α : Type}

def Entry.full? : Entry α → Option (Tx α)
  | .full t => some t
  | .spv .. => none

def Entry.covers : Entry α → List Nat
  | .full t => [t.idx]
  | .spv _ _ _ c => c

/-- number of leaves of the full tree the entry claims to stand for -/
def Entry.width : Entry α → Nat
  | .full _ => 1
  | .spv r _ _ _ => r

def Entry.isSpv : Entry α → Bool
  | .full _ => false
  | .spv .. => true

/-! ## MerkleTree::generate -/

/-- Leaves contributed by one entry, as (hash, weight). Weight 1 = an ordinary leaf/node of the current level;
    weight `w > 1` (only with the repaired flag) = a node that sits `log2 w` levels higher. -/
def Entry.leaves (fl : Flags) : Entry α → List (α × Nat)
  | .full t => [(t.hash, 1)]
  | .spv r h _ _ =>
    if r > 1 then
      if fl.spvSubtreeAsSingleNode then [(h, r)] else List.replicate r (h, 1)
    else [(h, 1)]

def leavesOf (fl : Flags) (es : List (Entry α)) : List (α × Nat) :=
  es.flatMap (Entry.leaves fl)

/-- One pass of the `while leaves.len() > 1` loop: pair neighbours with `H`, an odd last node is carried up
    unchanged (merkle.rs:112-119). With all weights 1 this is exactly the real loop body. A weight `w > 1` passes up
    with half its weight; an ordinary node in front of such an element is carried up alone. -/
def levelUp (H : α → α → α) : List (α × Nat) → List (α × Nat)
  | [] => []
  | [(a, w)] => [(a, if w > 1 then w / 2 else w)]
  | (a, w) :: (b, v) :: rest =>
    if w > 1 then (a, w / 2) :: levelUp H ((b, v) :: rest)
    else if v > 1 then (a, w) :: levelUp H ((b, v) :: rest)
    else (H a b, 1) :: levelUp H rest

/-- total weight = an upper bound of the number of passes needed -/
def totalWeight (l : List (α × Nat)) : Nat := (l.map fun p => max p.2 1).sum

def iter {β : Type} (f : β → β) : Nat → β → β
  | 0, x => x
  | n + 1, x => iter f n (f x)

/-- root hash of the tree over weighted leaves; `none` for the empty list (`MerkleTree::generate` returns `None`) -/
def rootW (H : α → α → α) (l : List (α × Nat)) : Option α :=
  ((iter (levelUp H) (totalWeight l) l).head?).map Prod.fst

/-- `MerkleTree::generate(transactions).map(get_root_hash)` -/
def merkleRoot (H : α → α → α) (fl : Flags) (es : List (Entry α)) : Option α :=
  rootW H (leavesOf fl es)

/-! ## Block::generate_lite_block -/

/-- `from.any(keylist.contains) || to.any(keylist.contains) || is_golden_ticket()` -/
def relevant (keys : List Nat) (t : Tx α) : Bool :=
  t.from_.any (fun k => keys.contains k) || t.to.any (fun k => keys.contains k) || t.isGT

/-- the placeholder built at block.rs:2546-2561 -/
def placeholder (fl : Flags) (t : Tx α) : Entry α :=
  .spv 1 t.hash (if fl.spvPlaceholderCarriesHash then t.hash else t.sigPre) [t.idx]

/-- the `.map(...)` at block.rs:2535-2564 -/
def prune (fl : Flags) (keep : Tx α → Bool) (txs : List (Tx α)) : List (Entry α) :=
  txs.map fun t => if keep t then .full t else placeholder fl t

/-- the test at block.rs:2568-2570: both SPV and equal `txs_replacements` -/
def mergeable : Entry α → Entry α → Bool
  | .spv r1 _ _ _, .spv r2 _ _ _ => r1 == r2
  | _, _ => false

/-- block.rs:2572-2580: the left entry doubles its count and takes `hash(left ‖ right)`; signature (and timestamp)
    stay those of the left entry (repaired: the signature prefix is the combined hash) -/
def merged (H : α → α → α) (fl : Flags) : Entry α → Entry α → Entry α
  | .spv r1 h1 s1 c1, .spv _ h2 _ c2 =>
    .spv (2 * r1) (H h1 h2) (if fl.spvPlaceholderCarriesHash then H h1 h2 else s1) (c1 ++ c2)
  | a, _ => a

/-- The `while i + 1 < pruned_txs.len()` loop (block.rs:2566-2585) standing at index `i` with `a = pruned_txs[i]` and
    the elements after it. Pinned: after a merge `i` is unchanged (the merged entry is compared with the next one);
    repaired: `i += 1`. Without a merge `i += 2`. -/
def mergeFrom (H : α → α → α) (fl : Flags) : Entry α → List (Entry α) → List (Entry α)
  | a, [] => [a]
  | a, b :: rest =>
    if mergeable a b then
      if fl.spvMergeSiblingsOnly then
        merged H fl a b :: (match rest with | [] => [] | c :: rest' => mergeFrom H fl c rest')
      else mergeFrom H fl (merged H fl a b) rest
    else a :: b :: (match rest with | [] => [] | c :: rest' => mergeFrom H fl c rest')

def mergeLoop (H : α → α → α) (fl : Flags) : List (Entry α) → List (Entry α)
  | [] => []
  | a :: rest => mergeFrom H fl a rest

/-- the transaction list of the lite block -/
def liteEntries (H : α → α → α) (fl : Flags) (keep : Tx α → Bool) (txs : List (Tx α)) : List (Entry α) :=
  mergeLoop H fl (prune fl keep txs)

/-- the transaction list of the full block as entries -/
def fullEntries (txs : List (Tx α)) : List (Entry α) := txs.map .full

/-! ## the wire: serialize_for_net → deserialize_from_net → Block::generate -/

/-- what the receiver holds for one entry after `Block::generate` recomputed every `hash_for_signature` -/
def wireEntry : Entry α → Entry α
  | .full t => .full t
  | .spv r _ s c => .spv r s s c

def wireEntries (es : List (Entry α)) : List (Entry α) := es.map wireEntry

/-! ## header -/

/-- the header fields of a block (everything `serialize_for_net` writes in front of the transactions) -/
structure Header (α : Type) where
  id : Nat
  timestamp : Nat
  previousBlockHash : α
  creator : Nat
  merkleRoot : Option α
  signature : Nat
  /-- graveyard, treasury, burnfee, difficulty and the 22 fee/payout averages and totals, in wire order -/
  numeric : List Nat
  deriving Repr, DecidableEq

structure Block (α : Type) where
  hdr : Header α
  hash : α
  txs : List (Tx α)

structure LiteBlock (α : Type) where
  hdr : Header α
  hash : α
  entries : List (Entry α)

/-- `generate_merkle_root(true, true)`: an empty transaction list answers the header's own root -/
def genRootSpv (H : α → α → α) (fl : Flags) (hdrRoot : Option α) (es : List (Entry α)) : Option α :=
  match es with
  | [] => hdrRoot
  | _ => merkleRoot H fl es

/-- `Block::generate_lite_block(keylist)` -/
def generateLite (H : α → α → α) (fl : Flags) (keys : List Nat) (b : Block α) : LiteBlock α :=
  { hdr := { b.hdr with merkleRoot := genRootSpv H fl b.hdr.merkleRoot (fullEntries b.txs) }
    hash := b.hash
    entries := liteEntries H fl (relevant keys) b.txs }

/-- the receiver's block after decode + `generate()`; `hashOf` = `hash(previous_block_hash ‖ hash(serialize_for_signature))`,
    a function of header fields only. -/
def wireLite (hashOf : Header α → α) (lb : LiteBlock α) : LiteBlock α :=
  { hdr := lb.hdr, hash := hashOf lb.hdr, entries := wireEntries lb.entries }

/-! ## standard inputs of the driver / witnesses -/

/-- transaction `i` with free-term hash `L i` and signature prefix `S i` -/
def stdTx (i : Nat) (from_ to : List Nat := []) (gt : Bool := false) : Tx HTerm :=
  { idx := i, hash := .leaf i, sigPre := .sig i, from_ := from_, to := to, isGT := gt }

/-- `n` transactions; transaction `i` pays to key 1 exactly when bit `i` of `keep` is set -/
def stdTxs (keep : List Bool) : List (Tx HTerm) :=
  (List.range keep.length).zip keep |>.map fun (i, k) => stdTx i [] (if k then [1] else [2])

/-- no sibling pair `(2j, 2j+1)` is omitted as a whole -/
def noSiblingPairOmitted : List Bool → Bool
  | a :: b :: rest => (a || b) && noSiblingPairOmitted rest
  | _ => true

end Saito.Merkle
