import Saito.Model.Bytes
import Saito.Model.Flags
/-
  Wire formats of saito-core: Slip, Hop, Transaction (this file), Block/Message (Codec2).
  Every decoder follows the *order of checks* of the Rust code, and every Rust slice that can
  panic is an explicit `.panic` outcome here.
-/
namespace Saito

/-- parser: consume `n` bytes or produce `onShort` (panic for an unchecked Rust slice, err for a checked one) -/
def takeN {α} (n : Nat) (bs : Bytes) (onShort : Res α) (k : Bytes → Bytes → Res α) : Res α :=
  if n ≤ bs.length then k (bs.take n) (bs.drop n) else onShort

def u64 (bs : Bytes) : UInt64 := UInt64.ofNat (fromBE bs)
def u32 (bs : Bytes) : UInt32 := UInt32.ofNat (fromBE bs)

/-! ### Slip — 59 bytes -/
structure Slip where
  pk : Bytes
  amount : UInt64
  blockId : UInt64
  txOrdinal : UInt64
  index : UInt8
  typ : UInt8
  deriving Repr, DecidableEq

def SLIP_SIZE : Nat := 59
def HOP_SIZE : Nat := 130
def TX_SIZE : Nat := 93

def Slip.wf (s : Slip) : Prop := s.pk.length = 33 ∧ s.typ.toNat ≤ 9
instance (s : Slip) : Decidable s.wf := by unfold Slip.wf; exact inferInstance

def Slip.encode (s : Slip) : Bytes :=
  s.pk ++ (toBE 8 s.amount.toNat ++ (toBE 8 s.blockId.toNat ++ (toBE 8 s.txOrdinal.toNat ++ [s.index, s.typ])))

/-- `Slip::deserialize_from_net`: length must be exactly 59, type byte must name a variant (0..=9). -/
def Slip.decode (bs : Bytes) : Res Slip :=
  if bs.length ≠ 59 then .err else
  takeN 33 bs .err fun pk r =>
  takeN 8 r .err fun a r =>
  takeN 8 r .err fun b r =>
  takeN 8 r .err fun o r =>
  match r with
  | [i, t] => if t.toNat ≤ 9 then .ok ⟨pk, u64 a, u64 b, u64 o, i, t⟩ else .err
  | _ => .err

/-- 59-byte utxo-set key: `pk block_id tx_ordinal slip_index amount slip_type` (not the wire order). -/
def Slip.utxoKey (s : Slip) : Bytes :=
  s.pk ++ toBE 8 s.blockId.toNat ++ toBE 8 s.txOrdinal.toNat ++ [s.index] ++ toBE 8 s.amount.toNat ++ [s.typ]

/-- `serialize_input_for_signature` = `serialize_output_for_signature` (43 bytes) -/
def Slip.sigBytes (s : Slip) : Bytes := s.pk ++ toBE 8 s.amount.toNat ++ [s.index, s.typ]

/-! ### Hop — 130 bytes -/
structure Hop where
  from_ : Bytes
  to : Bytes
  sig : Bytes
  deriving Repr, DecidableEq

def Hop.wf (h : Hop) : Prop := h.from_.length = 33 ∧ h.to.length = 33 ∧ h.sig.length = 64
instance (h : Hop) : Decidable h.wf := by unfold Hop.wf; exact inferInstance

def Hop.encode (h : Hop) : Bytes := h.from_ ++ (h.to ++ h.sig)

def Hop.decode (bs : Bytes) : Res Hop :=
  if bs.length ≠ 130 then .err else
  takeN 33 bs .err fun f r =>
  takeN 33 r .err fun t s => .ok ⟨f, t, s⟩

/-! ### Transaction -/
structure Tx where
  sig : Bytes
  ts : UInt64
  repl : UInt32
  typ : UInt8
  from_ : List Slip
  to : List Slip
  data : Bytes
  path : List Hop
  deriving Repr, DecidableEq

def Tx.wf (t : Tx) : Prop :=
  t.sig.length = 64 ∧ t.typ.toNat ≤ 8 ∧ t.from_.length ≤ 255 ∧ t.to.length ≤ 255 ∧
  t.data.length < 2 ^ 32 ∧ t.path.length < 2 ^ 32 ∧
  (∀ s ∈ t.from_, s.wf) ∧ (∀ s ∈ t.to, s.wf) ∧ (∀ h ∈ t.path, h.wf)

def encSlips (l : List Slip) : Bytes := (l.map Slip.encode).flatten
def encHops (l : List Hop) : Bytes := (l.map Hop.encode).flatten

/-- `Transaction::serialize_for_net` (returns the empty buffer for > 255 inputs or outputs). -/
def Tx.encode (t : Tx) : Bytes :=
  if t.from_.length > 255 then [] else
  if t.to.length > 255 then [] else
  toBE 4 t.from_.length ++ (toBE 4 t.to.length ++ (toBE 4 t.data.length ++ (toBE 4 t.path.length ++
  (t.sig ++ (toBE 8 t.ts.toNat ++ (toBE 4 t.repl.toNat ++ ([t.typ] ++
  (encSlips t.from_ ++ (encSlips t.to ++ (t.data ++ encHops t.path))))))))))

/-- `Transaction::get_serialized_size` -/
def Tx.size (t : Tx) : Nat :=
  TX_SIZE + SLIP_SIZE * t.from_.length + SLIP_SIZE * t.to.length + HOP_SIZE * t.path.length + t.data.length

/-- the slip loops: `bytes[s..s+59]` is an unchecked slice -/
def decSlips : Nat → Bytes → Res (List Slip × Bytes)
  | 0, bs => .ok ([], bs)
  | n+1, bs =>
    takeN 59 bs .panic fun c r =>
    (Slip.decode c).bind fun s =>
    (decSlips n r).bind fun (l, r') => .ok (s :: l, r')

def decHops : Nat → Bytes → Res (List Hop)
  | 0, _ => .ok []
  | n+1, bs =>
    takeN 130 bs .panic fun c r =>
    (Hop.decode c).bind fun h =>
    (decHops n r).bind fun l => .ok (h :: l)

/-- claimed extent of a transaction buffer, from its four length fields -/
def txExtent (nin nout ml pl : Nat) : Nat := 93 + (nin + nout) * 59 + ml + pl * 130

/-- `Transaction::deserialize_from_net`. Trailing bytes are ignored. -/
def Tx.decode (fl : CodecFlags) (bs : Bytes) : Res Tx :=
  if bs.length < 93 then .err else
  takeN 4 bs .err fun nin r =>
  if fromBE nin > 255 then .err else
  takeN 4 r .err fun nout r =>
  if fromBE nout > 255 then .err else
  takeN 4 r .err fun ml r =>
  takeN 4 r .err fun pl r =>
  takeN 64 r .err fun sig r =>
  takeN 8 r .err fun ts r =>
  takeN 4 r .err fun repl r =>
  takeN 1 r .err fun ty r =>
  if fromBE ty > 8 then .err else
  if fl.txBounds && bs.length < txExtent (fromBE nin) (fromBE nout) (fromBE ml) (fromBE pl) then .err else
  (decSlips (fromBE nin) r).bind fun (ins, r) =>
  (decSlips (fromBE nout) r).bind fun (outs, r) =>
  takeN (fromBE ml) r .panic fun data r =>
  (decHops (fromBE pl) r).bind fun hops =>
  .ok ⟨sig, u64 ts, u32 repl, UInt8.ofNat (fromBE ty), ins, outs, data, hops⟩

/-- `Transaction::serialize_for_signature` -/
def Tx.sigBytes (t : Tx) : Bytes :=
  toBE 8 t.ts.toNat ++ (t.from_.map Slip.sigBytes).flatten ++ (t.to.map Slip.sigBytes).flatten ++
  toBE 4 t.repl.toNat ++ toBE 4 t.typ.toNat ++ t.data

end Saito
