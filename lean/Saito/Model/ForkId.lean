/-
  Compact fork identifier and common-ancestor estimate:
  `Blockchain::generate_fork_id`, `generate_last_shared_ancestor` (+ `_when_peer_behind` / `_when_peer_ahead`),
  `FORK_ID_WEIGHTS`, `generate_fork_id_weights` (blockchain.rs:44, 783-978, 2324) and the announcement loop of
  `RoutingThread::process_incoming_blockchain_request` (routing_thread.rs:419-464).

  Abstraction: a longest chain from genesis is the list of its block hashes, the block with id `k ≥ 1` at list
  position `k-1` (`get_longest_chain_block_hash_at_block_id(0)` is `None`: ids start at 1). A hash is an
  opaque `Nat`; `win h i` is the 16-bit window (bytes `2i`, `2i+1`) of hash `h` — a parameter of every
  function, supplied by the harness/driver, never computed from block content in Lean. The two byte
  comparisons of the code (`fork_id[2i] == hash[2i] && fork_id[2i+1] == hash[2i+1]`) are one comparison of
  window `i`. Import-free.
-/
namespace Saito.ForkId

/-- `FORK_ID_WEIGHTS` (blockchain.rs:44) — the constant table every function below is called with -/
def weightsConst : List Nat :=
  [0, 10, 10, 10, 10, 10, 25, 25, 100, 300, 500, 4000, 10000, 20000, 50000, 100000]

/-- `generate_fork_id_weights(genesis_period)` (blockchain.rs:2324). NOTE: the pinned tree defines this function
    but never calls it; `generate_fork_id` / `generate_last_shared_ancestor*` read `FORK_ID_WEIGHTS`. -/
def weights (gp : Nat) : List Nat :=
  let m (k : Nat) : Nat := Nat.max ((k * gp) / 100000) 1
  [0, m 10, m 10, m 10, m 10, m 10, m 25, m 25, m 100, m 300, m 500, m 4000, m 10000, m 20000, m 50000, gp]

/-- `blockring.get_longest_chain_block_hash_at_block_id(id)` on a chain from genesis -/
def hashAt (c : List Nat) (id : Nat) : Option Nat := if id = 0 then none else c[id - 1]?

/-- `id - id % 10` -/
def round10 (n : Nat) : Nat := n - n % 10

/-- the loop of `generate_fork_id`: per slot `some (sampled id, window)` or `none` (slot left zero).
    Early exits: `current_block_id <= weight` → break; no longest-chain block at the sampled id → break. -/
def forkIdGo (win : Nat → Nat → Nat) (c : List Nat) : List Nat → Nat → Nat → List (Option (Nat × Nat))
  | [], _, _ => []
  | w :: ws, i, cur =>
    if cur ≤ w then (w :: ws).map fun _ => none
    else
      match hashAt c (cur - w) with
      | some h => some (cur - w, win h i) :: forkIdGo win c ws (i + 1) (cur - w)
      | none => (w :: ws).map fun _ => none

/-- slots with the sampled id kept (for the statement of the no-collision hypothesis) -/
def forkIdSlots (win : Nat → Nat → Nat) (ws : List Nat) (c : List Nat) (blockId : Nat) : List (Option (Nat × Nat)) :=
  forkIdGo win c ws 0 (round10 blockId)

/-- `generate_fork_id(block_id)`: slot `i` = window `i` of the block sampled for slot `i`, `none` = bytes left 0 -/
def forkId (win : Nat → Nat → Nat) (ws : List Nat) (c : List Nat) (blockId : Nat) : List (Option Nat) :=
  (forkIdSlots win ws c blockId).map fun o => o.map (·.2)

/-- the 16-bit value of slot `i` of a fork id as it travels (unfilled = 0) -/
def slotVal (fid : List (Option Nat)) (i : Nat) : Nat := (fid.getD i none).getD 0

/-- the common loop of `generate_last_shared_ancestor_when_peer_behind/_ahead`: `none` = fell off the table -/
def ancGo (win : Nat → Nat → Nat) (my : List Nat) (fid : List (Option Nat)) : List Nat → Nat → Nat → Option Nat
  | [], _, _ => none
  | w :: ws, i, bid =>
    if bid < w then some 0
    else
      match hashAt my (bid - w) with
      | some h => if slotVal fid i == win h i then some (bid - w) else ancGo win my fid ws (i + 1) (bid - w)
      | none => ancGo win my fid ws (i + 1) (bid - w)

/-- where the walk starts: peer ahead (or level) → my own latest id, peer behind → the peer's; rounded down to 10 -/
def ancStart (my : List Nat) (peerLatest : Nat) : Nat :=
  if peerLatest ≥ my.length then round10 my.length else round10 peerLatest

/-- `generate_last_shared_ancestor(peer_latest_block_id, fork_id)` evaluated on chain `my` -/
def lastSharedAncestor (win : Nat → Nat → Nat) (ws : List Nat) (my : List Nat) (peerLatest : Nat)
    (fid : List (Option Nat)) : Nat :=
  (ancGo win my fid ws 0 (ancStart my peerLatest)).getD 0

/-- (slot, id) pairs the ancestor walk looks at (ignoring the early return on a match) -/
def cmpGo : List Nat → Nat → Nat → List (Nat × Nat)
  | [], _, _ => []
  | w :: ws, i, bid => if bid < w then [] else (i, bid - w) :: cmpGo ws (i + 1) (bid - w)

/-- `process_incoming_blockchain_request`: `BlockHeaderHash(hash, i)` for `i in anc ..= latest` that exist -/
def announced (my : List Nat) (anc : Nat) : List (Nat × Nat) :=
  (List.range (my.length + 1 - anc)).filterMap fun k => (hashAt my (anc + k)).map fun h => (anc + k, h)

/-- both chains hold the same block at `id` -/
def agreeAt (a b : List Nat) (id : Nat) : Bool :=
  match hashAt a id, hashAt b id with
  | some x, some y => x == y
  | _, _ => false

def forkPointGo (a b : List Nat) : Nat → Nat
  | 0 => 0
  | n + 1 => if agreeAt a b (n + 1) then n + 1 else forkPointGo a b n

/-- the last id at which the two chains agree (0 = they share nothing) -/
def forkPoint (a b : List Nat) : Nat := forkPointGo a b (min a.length b.length)

/-- "the 2-byte windows compared are equal only for equal blocks": every comparison the peer's walk makes
    (slot `i`, its own block `hB` at the visited id) succeeds only if slot `i` of the requester's fork id was
    filled from that very block. Decidable; `a` = requester's chain, `b` = the peer's chain. -/
def noWindowCollision (win : Nat → Nat → Nat) (ws : List Nat) (a b : List Nat) : Bool :=
  let slots := forkIdSlots win ws a a.length
  let fid := forkId win ws a a.length
  (cmpGo ws 0 (ancStart b a.length)).all fun p =>
    match hashAt b p.2 with
    | none => true
    | some hB =>
      if slotVal fid p.1 == win hB p.1 then
        match slots.getD p.1 none with
        | some (x, _) => hashAt a x == some hB
        | none => false
      else true

/-- a block hash commits to its id: one hash does not sit at two different heights of the two chains -/
def heightInHash (a b : List Nat) : Bool :=
  (List.range (a.length + 1)).all fun x => (List.range (b.length + 1)).all fun y =>
    match hashAt a x, hashAt b y with
    | some h, some h' => if h == h' then x == y else true
    | _, _ => true

/-- hash-chain property: agreeing at an id implies agreeing at every lower id -/
def prefixClosed (a b : List Nat) : Bool :=
  (List.range (min a.length b.length + 1)).all fun i =>
    if agreeAt a b i then (List.range i).all fun j => j == 0 || agreeAt a b j else true

/-- concrete window function of the driver/harness: a hash is its 32 bytes read as a big-endian number -/
def byteWin (h i : Nat) : Nat := (h / 256 ^ (30 - 2 * i)) % 65536

end Saito.ForkId
