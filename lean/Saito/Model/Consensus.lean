/-
  Consensus values: `Block::generate_consensus_values` (block.rs:1382-2276), the header fill of `Block::create`
  (block.rs:569-877), the field-by-field comparison of `Block::validate` (block.rs:2628-3225), what
  `Block::generate` derives from the transaction list (block.rs:1213-1348) and the gates of
  `Mempool::bundle_block` / `can_bundle_block` (mempool.rs:182-385).

  Abstraction.  A transaction is its type, `total_fees`, serialised size, routing work for the block creator, an
  oracle bit `valid` (= `Transaction::validate` on the node's current utxo set), its value-carrying input keys, and
  — for Fee / ATR transactions only — `body`, the numbers its signature serialisation commits to (hashes are
  idealised as injective, so two hashes are equal iff the bodies are).  The chain is a `Ctx`: the header fields of
  the previous block, `total_fees` of its parent, the block `id − gp − 1` as loaded from disk with its outputs
  already filtered by `Slip::validate`, and the float / hash based functions as OPAQUE parameters (burn fee,
  routing work needed, the 1.5× and 5 % caps, the winning routers, ticket validity).  Exact: all integer
  arithmetic (sums, counts, `/`, the ±1 difficulty rule, `previous_block_unpaid`, the smoothing
  `avg' = prev − (prev − x)/gp` in `Int` with truncating division, the ATR loop, the cap branch, payouts and their
  graveyard spill).  Not modelled: NFT (Bound) slip triples in the ATR loop, u64 overflow / underflow (values are
  `Nat`; `a - b` truncates where Rust would panic in the dev profile), the merkle root, the creator signature,
  Ghost / SPV short-cuts, the `assert!(ts > prev ts)` of `bundle_block`.  Import-free.
-/
namespace Saito.Consensus

structure Flags where
  /-- block.rs:1856-1857 — the 5 % cap on the ATR payout reads the PARENT's treasury (the same number when creating
      and when validating). Pinned: `self.treasury`, which is 0 while `Block::create` runs. -/
  atrCapParent : Bool := false
  /-- block.rs:1729-1733 / 1801-1805 vs 1874-1920 — the rebroadcast hash commits to the rebroadcast transactions as
      they END UP in the block. Pinned: the hash is taken before the cap branch rewrites their output amounts. -/
  rebHashFinal : Bool := false
  /-- mempool.rs:103-131 / transaction.rs:1091 — pool admission refuses Issuance / ATR / Fee-typed transactions.
      Pinned: they pass `Transaction::validate` (no inputs, no signature needed) and are bundled. -/
  poolRejectsPriv : Bool := false
  /-- block.rs:3194-3217 (shared with C01/C03) — the per-transaction verdict gates block validity -/
  txVerdict : Bool := false
  /-- block.rs:1778-1779 (C13) — the rebroadcast input keeps the original utxo key, so the ATR tx validates even
      when the payout multiplier is above 1. Pinned: the input amount is rewritten, hence the key changes. -/
  atrKeepsKey : Bool := false
  /-- block.rs:3128-3135 (repair F7, C01/C02 `singleFeeTx`) — `Block::validate` requires exactly one fee transaction
      in a block with a golden ticket and none in a block without. Pinned: only the LAST fee transaction is compared
      with the expected one (and only when a ticket exists); surplus fee transactions pass. -/
  feeTxCount : Bool := false
  deriving Repr, DecidableEq

def Flags.pinned : Flags := {}
def Flags.fixed : Flags := ⟨true, true, true, true, true, true⟩

inductive TxType
  | normal | fee | goldenTicket | atr | spv | issuance | blockStake | bound | other
  deriving Repr, DecidableEq

structure Tx where
  typ : TxType
  fees : Nat := 0
  size : Nat := 0
  work : Nat := 0
  valid : Bool := true
  /-- number of output slips of slip-type ATR (what `Block::generate` counts into `total_rebroadcast_slips`) -/
  atrSlips : Nat := 0
  ins : List Nat := []
  body : List Nat := []
  /-- opaque identity of the golden ticket carried in `data` (GoldenTicket transactions only) -/
  ticket : Nat := 0
  deriving Repr, DecidableEq

/-! ## the transaction sweep at the top of `generate_consensus_values` -/

structure ScanCore where
  gtNum : Nat := 0
  gtIndex : Option Nat := none
  stNum : Nat := 0
  itNum : Nat := 0
  tbn : Nat := 0
  tfn : Nat := 0
  ticket : Nat := 0
  deriving Repr, DecidableEq

structure Scan where
  ftNum : Nat := 0
  ftIndex : Option Nat := none
  c : ScanCore := {}
  deriving Repr, DecidableEq

/-- `(is_golden_ticket || is_normal_transaction) && !is_atr_transaction` -/
def counted (t : Tx) : Bool := (t.typ == .goldenTicket || t.typ == .normal) && !(t.typ == .atr)

def coreStep (c : ScanCore) (i : Nat) (t : Tx) : ScanCore :=
  let c := if counted t then { c with tbn := c.tbn + t.size, tfn := c.tfn + t.fees } else c
  let c := if t.typ == .goldenTicket then { c with gtNum := c.gtNum + 1, gtIndex := some i, ticket := t.ticket } else c
  let c := if t.typ == .blockStake then { c with stNum := c.stNum + 1 } else c
  if t.typ == .issuance then { c with itNum := c.itNum + 1 } else c

def scanStep (s : Scan) (i : Nat) (t : Tx) : Scan :=
  if t.typ == .fee then { ftNum := s.ftNum + 1, ftIndex := some i, c := coreStep s.c i t }
  else { s with c := coreStep s.c i t }

def scanFrom : Nat → Scan → List Tx → Scan
  | _, s, [] => s
  | i, s, t :: ts => scanFrom (i + 1) (scanStep s i t) ts

def scan (txs : List Tx) : Scan := scanFrom 0 {} txs

/-! ## chain context -/

structure Prev where
  id : Nat
  ts : Nat
  bf : Nat
  diff : Nat
  hasGT : Bool
  treasury : Nat
  graveyard : Nat
  tf : Nat
  atf : Nat
  atfn : Nat
  atfa : Nat
  apr : Nat
  apm : Nat
  afpb : Nat
  anr : Nat
  unpaid : Nat
  deriving Repr, DecidableEq

structure AtrSlip where
  amt : Nat
  key : Nat
  owner : Nat
  styp : Nat
  deriving Repr, DecidableEq

structure AtrTx where
  size : Nat
  slips : List AtrSlip
  deriving Repr, DecidableEq

structure Ctx where
  gp : Nat
  hb : Nat
  /-- `blockchain.social_stake_requirement` -/
  stake : Nat
  prev : Option Prev
  /-- `total_fees` of the previous block's parent, if that block is known -/
  pp : Option Nat
  /-- transactions of the longest-chain block `id − gp − 1` as loaded from disk, each with the outputs that pass
      `Slip::validate` on the current utxo set; `none` = no such block / not loadable -/
  atr : Option (List AtrTx)
  /-- `validate_against_utxo` = `has_total_supply_loaded` -/
  vau : Bool
  /-- `BurnFee::calculate_burnfee_for_block (prev burnfee) ts (prev ts) heartbeat` -/
  burnF : Nat → Nat → Nat → Nat → Nat
  /-- `BurnFee::return_routing_work_needed_to_produce_block_in_nolan`, same arguments -/
  workF : Nat → Nat → Nat → Nat → Nat
  /-- `(x as f64 * 1.5) as u64` -/
  cap15 : Nat → Nat
  /-- `(x as f64 * 0.05) as u64` -/
  cap05 : Nat → Nat
  /-- ticket ↦ miner key (0 = the all-zero key) -/
  miner : Nat → Nat
  /-- ticket ↦ `previous_block.find_winning_router(H(random))` -/
  router1 : Nat → Nat
  /-- ticket ↦ `previous_previous_block.find_winning_router(H³(random))` -/
  router2 : Nat → Nat
  /-- ticket ↦ `GoldenTicket::create(prev.hash, random, key).validate(prev.difficulty)` -/
  gtOk : Nat → Bool
  /-- `is_golden_ticket_count_valid(tip, has ticket)` -/
  gtCountOk : Bool → Bool

/-! ## automatic transaction rebroadcast -/

structure Reb where
  owner : Nat
  key : Nat
  amt : Nat
  styp : Nat
  frm : Nat
  to : Nat
  deriving Repr, DecidableEq

def SLIP_ATR : Nat := 1

/-- what the rebroadcast hash commits to for one ATR transaction: `nFrom :: from slips ++ to slips`, each slip
    `(owner, amount, slip type)` -/
def Reb.body (r : Reb) : List Nat := [1, r.owner, r.frm, r.styp, r.owner, r.to, SLIP_ATR]

structure AtrAcc where
  rn : Nat := 0
  rs : Nat := 0
  tpa : Nat := 0
  tfa : Nat := 0
  dust : Nat := 0
  rebs : List Reb := []
  deriving Repr, DecidableEq

def atrSlipStep (mult fee : Nat) (a : AtrAcc) (s : AtrSlip) : AtrAcc :=
  let payout := s.amt * mult
  if payout > fee then
    { a with rn := a.rn + s.amt, rs := a.rs + 1, tpa := a.tpa + (payout - s.amt), tfa := a.tfa + fee,
             rebs := a.rebs ++ [{ owner := s.owner, key := s.key, amt := s.amt, styp := s.styp, frm := payout, to := payout - fee }] }
  else
    { a with rn := a.rn + s.amt, tfa := a.tfa + s.amt, dust := a.dust + s.amt }

def atrTxStep (mult afpb : Nat) (a : AtrAcc) (t : AtrTx) : AtrAcc :=
  t.slips.foldl (atrSlipStep mult (t.size * afpb)) a

/-- `1 + prev.treasury / (gp · prev.avg_nolan_rebroadcast_per_block)` (0 divisor ↦ 1) -/
def atrMult (gp treasury anr : Nat) : Nat :=
  1 + (if gp * anr > 0 then treasury / (gp * anr) else 0)

/-- is the ATR section entered, and on which transactions -/
def atrSource (ctx : Ctx) (id : Nat) : Option (List AtrTx) :=
  if id > ctx.gp + 1 then ctx.atr else none

/-- the loop over the rebroadcast block, before the cap -/
def atrPre (ctx : Ctx) (src : List AtrTx) : AtrAcc :=
  match ctx.prev with
  | some p => src.foldl (atrTxStep (atrMult ctx.gp p.treasury p.anr) p.afpb) {}
  | none => src.foldl (atrTxStep 1 0) {}

/-- the cap branch (block.rs:1856-1923) for a treasury figure `T` -/
def capAdjust (cap05 : Nat → Nat) (T : Nat) (a : AtrAcc) : AtrAcc :=
  let mx := cap05 T
  if a.tpa > mx then
    let om := 1 + mx / a.rn
    let rebs := a.rebs.map fun r => { r with to := r.frm * om }
    { a with tpa := (rebs.map fun r => r.to - r.frm).sum, tfa := 0, rebs := rebs }
  else a

/-! ## consensus values -/

structure CV where
  ftNum : Nat
  gtNum : Nat
  stNum : Nat
  itNum : Nat
  ftIndex : Option Nat
  gtIndex : Option Nat
  tf : Nat
  tfn : Nat
  tfa : Nat
  tfc : Nat
  atf : Nat
  atfn : Nat
  atfa : Nat
  tbn : Nat
  tpr : Nat
  tpm : Nat
  tpt : Nat
  tpg : Nat
  tpa : Nat
  apr : Nat
  apm : Nat
  apt : Nat
  apg : Nat
  apa : Nat
  afpb : Nat
  fpb : Nat
  bf : Nat
  diff : Nat
  rs : Nat
  rn : Nat
  anr : Nat
  dust : Nat
  feeTx : Option (List Nat)
  rebs : List Reb
  rebHash : List (List Nat)
  deriving Repr, DecidableEq

/-- `avg' = prev − (prev − x) / gp` computed in `i128` (division truncates towards zero), cast back -/
def smooth (prev x gp : Nat) : Nat :=
  ((prev : Int) - ((prev : Int) - (x : Int)).tdiv (gp : Int)).toNat

/-- pay `x` up to `mx`; the excess goes to the graveyard -/
def capSplit (x mx : Nat) : Nat × Nat := if x > mx then (mx, x - mx) else (x, 0)

structure Pay where
  tpm : Nat := 0
  tpr : Nat := 0
  tpt : Nat := 0
  tpg : Nat := 0
  feeTx : Option (List Nat) := none
  deriving Repr, DecidableEq

def SLIP_MINER : Nat := 5
def SLIP_ROUTER : Nat := 7

/-- payouts and the expected fee transaction (block.rs:1992-2231) -/
def payouts (ctx : Ctx) (c : ScanCore) : Pay :=
  match c.gtIndex with
  | some _ =>
    match ctx.prev with
    | some p =>
      let mx := ctx.cap15 p.atf
      let em := p.tf / 2
      let (mp, g1) := capSplit em mx
      let (r1p, g2) := capSplit (p.tf - em) mx
      let mk := ctx.miner c.ticket
      let r1k := ctx.router1 c.ticket
      -- previous block unpaid as well: pay out its parent too
      let (tc, g3, r2p, g4, r2k) :=
        if p.hasGT then (0, 0, 0, 0, 0) else
        match ctx.pp with
        | some ppTf =>
          let et := ppTf / 2
          let (tc, g3) := capSplit et mx
          let (r2p, g4) := capSplit (ppTf - et) mx
          (tc, g3, r2p, g4, ctx.router2 c.ticket)
        | none => (0, 0, 0, 0, 0)
      let o1 := if mk ≠ 0 ∧ mp > 0 then [mk, mp, SLIP_MINER] else []
      let (o2, g5) := if r1p > 0 then (if r1k ≠ 0 then ([r1k, r1p, SLIP_ROUTER], 0) else ([], r1p)) else ([], 0)
      let (o3, g6) := if r2p > 0 then (if r2k ≠ 0 then ([r2k, r2p, SLIP_ROUTER], 0) else ([], r2p)) else ([], 0)
      { tpm := mp, tpr := r1p + r2p, tpt := tc, tpg := g1 + g2 + g3 + g4 + g5 + g6, feeTx := some (0 :: (o1 ++ o2 ++ o3)) }
    | none => { feeTx := some [0] }
  | none =>
    match ctx.prev with
    | some p => if !p.hasGT && ctx.pp.isSome then { tpg := p.unpaid } else {}
    | none => {}

/-- the part of `self` that `generate_consensus_values` reads besides the transaction list -/
structure View where
  id : Nat
  ts : Nat
  treasury : Nat
  bf : Nat
  diff : Nat
  txs : List Tx

/-- burn fee and difficulty (block.rs:1459-1501) -/
def bfDiff (ctx : Ctx) (ts selfBf selfDiff gtNum : Nat) : Nat × Nat :=
  match ctx.prev with
  | some p =>
    let b := ctx.burnF p.bf ts p.ts ctx.hb
    let d := if p.hasGT then (if gtNum > 0 then p.diff + 1 else p.diff)
             else (if gtNum == 0 && p.diff > 0 then p.diff - 1 else p.diff)
    (if b == 0 then 1 else b, d)
  | none => (selfBf, selfDiff)

/-- the treasury figure the 5 % cap is taken from -/
def capTreasury (fl : Flags) (ctx : Ctx) (selfTreasury : Nat) : Nat :=
  if fl.atrCapParent then (match ctx.prev with | some p => p.treasury | none => 0) else selfTreasury

/-- the rebroadcast section (block.rs:1519-1932): accumulators before and after the cap -/
def atrSection (fl : Flags) (ctx : Ctx) (id selfTreasury : Nat) : AtrAcc × AtrAcc :=
  match atrSource ctx id with
  | some src =>
    let pre := atrPre ctx src
    (pre, capAdjust ctx.cap05 (capTreasury fl ctx selfTreasury) pre)
  | none => ({}, {})

structure PrevAvgs where
  afpb : Nat := 0
  atf : Nat := 0
  atfn : Nat := 0
  atfa : Nat := 0
  anr : Nat := 0
  apr : Nat := 0
  apm : Nat := 0

def prevAvgs (ctx : Ctx) : PrevAvgs :=
  match ctx.prev with
  | some p => { afpb := p.afpb, atf := p.atf, atfn := p.atfn, atfa := p.atfa, anr := p.anr, apr := p.apr, apm := p.apm }
  | none => {}

/-- everything after the transaction sweep; reads the sweep only through `ScanCore` -/
def gcvCore (fl : Flags) (ctx : Ctx) (id ts selfTreasury selfBf selfDiff : Nat) (c : ScanCore) : CV :=
  let bd := bfDiff ctx ts selfBf selfDiff c.gtNum
  let sec := atrSection fl ctx id selfTreasury
  let pre := sec.1
  let fin := sec.2
  let tf := c.tfn + fin.tfa
  let fpb := if c.tbn > 0 then c.tfn / c.tbn else 0
  let pa := prevAvgs ctx
  let pay := payouts ctx c
  { ftNum := 0, ftIndex := none,
    gtNum := c.gtNum, gtIndex := c.gtIndex, stNum := c.stNum, itNum := c.itNum,
    tf := tf, tfn := c.tfn, tfa := fin.tfa, tfc := c.tfn + pre.tfa - pre.dust,
    atf := smooth pa.atf tf ctx.gp, atfn := smooth pa.atfn c.tfn ctx.gp, atfa := smooth pa.atfa fin.tfa ctx.gp,
    tbn := c.tbn,
    tpr := pay.tpr, tpm := pay.tpm, tpt := pay.tpt, tpg := pay.tpg, tpa := fin.tpa,
    apr := smooth pa.apr pay.tpr ctx.gp, apm := smooth pa.apm pay.tpm ctx.gp,
    apt := smooth 0 pay.tpt ctx.gp, apg := smooth 0 pay.tpg ctx.gp, apa := smooth 0 fin.tpa ctx.gp,
    afpb := smooth pa.afpb fpb ctx.gp, fpb := fpb, bf := bd.1, diff := bd.2,
    rs := fin.rs, rn := fin.rn, anr := smooth pa.anr fin.rn ctx.gp, dust := fin.dust,
    feeTx := pay.feeTx, rebs := fin.rebs,
    rebHash := (if fl.rebHashFinal then fin.rebs else pre.rebs).map Reb.body }

/-- `Block::generate_consensus_values` -/
def gcv (fl : Flags) (ctx : Ctx) (v : View) : CV :=
  let s := scan v.txs
  { gcvCore fl ctx v.id v.ts v.treasury v.bf v.diff s.c with ftNum := s.ftNum, ftIndex := s.ftIndex }

/-! ## `Block::create` -/

structure Block where
  id : Nat
  ts : Nat
  treasury : Nat
  graveyard : Nat
  tf : Nat
  tfn : Nat
  tfa : Nat
  tfc : Nat
  atf : Nat
  atfn : Nat
  atfa : Nat
  tpr : Nat
  tpm : Nat
  tpt : Nat
  tpg : Nat
  tpa : Nat
  apr : Nat
  apm : Nat
  apt : Nat
  apg : Nat
  apa : Nat
  afpb : Nat
  fpb : Nat
  anr : Nat
  bf : Nat
  diff : Nat
  unpaid : Nat
  txs : List Tx
  /-- the consensus values computed while creating (`block.cv`) -/
  cv : CV
  deriving Repr, DecidableEq

/-- the ATR transaction `Transaction::create_rebroadcast_transaction` builds for one rebroadcast -/
def Reb.toTx (fl : Flags) (r : Reb) : Tx :=
  let keeps := fl.atrKeepsKey || r.frm == r.amt
  { typ := .atr, fees := r.frm - r.to, valid := keeps, atrSlips := 1,
    ins := if keeps && r.frm > 0 then [r.key] else [], body := r.body }

def feeTxOf (outs : List Nat) : Tx := { typ := .fee, body := outs }

/-- keys `Block::create` / `Block::generate` feed into `slips_spent_this_block` -/
def spendKeys (txs : List Tx) : List Nat := (txs.filter (fun t => t.typ != .fee)).flatMap (·.ins)

def noDup : List Nat → Bool
  | [] => true
  | k :: ks => !ks.contains k && noDup ks

def Block.view (b : Block) : View := { id := b.id, ts := b.ts, treasury := b.treasury, bf := b.bf, diff := b.diff, txs := b.txs }

/-- transactions appended after the consensus values were computed: rebroadcasts, then the fee transaction -/
def appended (fl : Flags) (cv : CV) : List Tx :=
  cv.rebs.map (Reb.toTx fl) ++ (match cv.feeTx with | some o => [feeTxOf o] | none => [])

def prevId (ctx : Ctx) : Nat := match ctx.prev with | some p => p.id | none => 0
def prevTf (ctx : Ctx) : Nat := match ctx.prev with | some p => p.tf | none => 0
def prevTreasury (ctx : Ctx) : Nat := match ctx.prev with | some p => p.treasury | none => 0
def prevGraveyard (ctx : Ctx) : Nat := match ctx.prev with | some p => p.graveyard | none => 0

/-- the block as `generate_consensus_values` sees it inside `Block::create`: ticket + drained pool, header still
    zero (in particular `treasury = 0`) -/
def createView (ctx : Ctx) (pool : List Tx) (gt : Option Tx) (ts : Nat) : View :=
  { id := prevId ctx + 1, ts := ts, treasury := 0, bf := 0, diff := 0, txs := gt.toList ++ pool }

/-- the block `Block::create` assembles (before its double-spend check) -/
def mkBlock (fl : Flags) (ctx : Ctx) (pool : List Tx) (gt : Option Tx) (ts : Nat) : Block :=
  let cv := gcv fl ctx (createView ctx pool gt ts)
  { id := prevId ctx + 1, ts := ts,
    treasury := prevTreasury ctx + cv.tpt - cv.tpa, graveyard := prevGraveyard ctx + cv.tpg,
    tf := cv.tfn + cv.tfa, tfn := cv.tfn, tfa := cv.tfa, tfc := cv.tfc,
    atf := cv.atf, atfn := cv.atfn, atfa := cv.atfa,
    tpr := cv.tpr, tpm := cv.tpm, tpt := cv.tpt, tpg := cv.tpg, tpa := cv.tpa,
    apr := cv.apr, apm := cv.apm, apt := cv.apt, apg := cv.apg, apa := cv.apa,
    afpb := cv.afpb, fpb := cv.fpb, anr := cv.anr, bf := cv.bf, diff := cv.diff,
    unpaid := if gt.isSome then 0 else prevTf ctx,
    txs := gt.toList ++ pool ++ appended fl cv, cv := cv }

/-- `Block::create` on the current tip: `none` = `Err("double-spend detected")` -/
def create (fl : Flags) (ctx : Ctx) (pool : List Tx) (gt : Option Tx) (ts : Nat) : Option Block :=
  let b := mkBlock fl ctx pool gt ts
  if noDup (spendKeys b.txs) then some b else none

/-! ## what `Block::generate` derives from the transaction list -/

def isAtr (t : Tx) : Bool := t.typ == .atr
def Block.hasGT (b : Block) : Bool := b.txs.any (fun t => t.typ == .goldenTicket)
def Block.totalWork (b : Block) : Nat := (b.txs.map (·.work)).sum
def Block.rs (b : Block) : Nat := ((b.txs.filter isAtr).map (·.atrSlips)).sum
def Block.rebHash (b : Block) : List (List Nat) := (b.txs.filter isAtr).map (·.body)

/-! ## `Block::validate` -/

/-- the final transaction sweep (block.rs:3193-3224) -/
def sweepOk (fl : Flags) (txs : List Tx) : Bool :=
  (!fl.txVerdict || txs.all (·.valid)) &&
    noDup ((txs.filter (fun t => t.valid && t.typ != .fee)).flatMap (·.ins))

/-- the header fields compared only when `validate_against_utxo` -/
def headerMatches (b : Block) (cv : CV) : Bool :=
  cv.tf == b.tf && cv.tfn == b.tfn && cv.tfa == b.tfa && cv.tfc == b.tfc &&
  cv.atf == b.atf && cv.atfn == b.atfn && cv.atfa == b.atfa &&
  cv.tpr == b.tpr && cv.tpm == b.tpm && cv.tpt == b.tpt && cv.tpg == b.tpg && cv.tpa == b.tpa &&
  cv.apr == b.apr && cv.apm == b.apm && cv.apt == b.apt && cv.apg == b.apg && cv.apa == b.apa &&
  cv.afpb == b.afpb && cv.fpb == b.fpb && cv.anr == b.anr

/-- checks that need the previous block (block.rs:2948-3075) -/
def prevChecks (ctx : Ctx) (b : Block) (cv : CV) (ticket : Nat) : Bool :=
  match ctx.prev with
  | none => true
  | some p =>
    (!ctx.vau || b.treasury == p.treasury + cv.tpt - cv.tpa) &&
    (!ctx.vau || b.graveyard == p.graveyard + cv.tpg) &&
    decide (ctx.workF p.bf b.ts p.ts ctx.hb ≤ b.totalWork) &&
    (match cv.gtIndex with
     | some _ => b.unpaid == 0 && ctx.gtOk ticket
     | none => b.unpaid == p.tf)

/-- repair F7 (block.rs:3128-3135): the number of fee transactions is fixed by the presence of a ticket —
    none without a golden ticket, exactly one with. Pinned: no such rule. -/
def feeCount (fl : Flags) (cv : CV) : Bool :=
  !fl.feeTxCount || (!(cv.gtIndex.isNone && cv.ftNum > 0) && !(cv.gtIndex.isSome && cv.ftNum != 1))

/-- the fee-transaction comparison (block.rs:3129-3167): the LAST fee transaction against the expected one -/
def feeCompare (ctx : Ctx) (b : Block) (cv : CV) : Bool :=
  if cv.ftNum > 0 then
    match cv.ftIndex, cv.feeTx with
    | some i, some expected =>
      if cv.gtIndex.isNone then false
      else !ctx.vau || (match b.txs[i]? with | some t => t.body == expected | none => false)
    | _, _ => true
  else true

def feeCheck (fl : Flags) (ctx : Ctx) (b : Block) (cv : CV) : Bool := feeCount fl cv && feeCompare ctx b cv

/-- `Block::validate` for a full block on a full node -/
def validate (fl : Flags) (ctx : Ctx) (b : Block) : Bool :=
  let s := scan b.txs
  let cv := gcv fl ctx b.view
  !(b.txs.isEmpty && b.id != 1) &&
  (!ctx.vau || headerMatches b cv) &&
  cv.bf == b.bf && cv.diff == b.diff &&
  !(cv.itNum > 0 && b.id > 1) &&
  !(ctx.stake != 0 && cv.stNum != 1 && b.id > 1) &&
  prevChecks ctx b cv s.c.ticket &&
  (!ctx.vau || cv.rs == b.rs) &&
  (!ctx.vau || cv.rebHash == b.rebHash) &&
  feeCheck fl ctx b cv &&
  sweepOk fl b.txs

/-! ## the producer: `Mempool::add_transaction_if_validates`, `can_bundle_block`, `bundle_block` -/

def privileged (t : TxType) : Bool := t == .issuance || t == .atr || t == .fee

inductive Admission | yes | no | panic
  deriving Repr, DecidableEq

/-- pool admission of one transaction (utxo reservations are C14's subject and not modelled here) -/
def admission (fl : Flags) (t : Tx) : Admission :=
  if !t.valid then .no
  else if t.typ == .goldenTicket then .panic            -- "golden tickets should be in gt collection"
  else if fl.poolRejectsPriv && privileged t.typ then .no
  else .yes

/-- node-local producer state -/
structure Local where
  newTxAdded : Bool
  /-- `routing_work_in_mempool` -/
  workAvail : Nat
  /-- `H(pk ‖ tip hash) mod 5000` -/
  jitter : Nat
  /-- the transaction `Wallet::create_staking_transaction` returns (`none` = `Err`) -/
  stakeTx : Option Tx
  deriving Repr, DecidableEq

def canBundle (ctx : Ctx) (loc : Local) (pool : List Tx) (gt : Option Tx) (ts : Nat) : Bool :=
  match ctx.prev with
  | none => false
  | some p =>
    !pool.isEmpty && loc.newTxAdded && ctx.gtCountOk gt.isSome &&
    decide (p.ts + loc.jitter ≤ ts) && decide (ctx.workF p.bf ts p.ts ctx.hb ≤ loc.workAvail)

/-- `Mempool::bundle_block` -/
def bundle (fl : Flags) (ctx : Ctx) (loc : Local) (pool : List Tx) (gt : Option Tx) (ts : Nat) : Option Block :=
  if canBundle ctx loc pool gt ts then
    match loc.stakeTx with
    | none => none
    | some s => create fl ctx (pool ++ (if s.valid then [s] else [])) gt ts
  else none

end Saito.Consensus
