/-
  The grouping pass of the rebroadcast section: how the still-unspent outputs of ONE transaction of the block that leaves the
  window are cut into single outputs and NFT-style bound triples.
  Code: block.rs:1676-1690 (`is_nft_triple`), 1692-1744 (triple branch, `j += 3`), 1746-1826 (single branch, `j += 1`).
  Only the slip TYPE of each collected output matters for the cut. Import-free.
-/
namespace Saito.AtrScan

/-- `SlipType::Bound` (slip.rs: the tenth variant) -/
def bound : Nat := 9
/-- `SlipType::ATR` -/
def typATR : Nat := 1

inductive Group where
  | single (t : Nat)
  | triple (a b c : Nat)
  deriving Repr, DecidableEq

def Group.slips : Group → List Nat
  | .single t => [t]
  | .triple a b c => [a, b, c]

/-- the second pass over `outputs` (slip types, in transaction order): at position `j` a triple is cut off when
    `outputs[j]` is Bound, two more outputs follow, `outputs[j+1]` is NOT Bound and `outputs[j+2]` is Bound; otherwise one
    output is taken -/
def scan : List Nat → List Group
  | a :: b :: c :: rest =>
    if a == bound && b != bound && c == bound then .triple a b c :: scan rest
    else .single a :: scan (b :: c :: rest)
  | a :: rest => .single a :: scan rest
  | [] => []
termination_by l => l.length

/-- the same pass with the payload test `outputs[j+1] == Normal` (type 0) instead of `!= Bound` — NOT what the code does; kept
    to show what that test would break -/
def scanPayloadNormalOnly : List Nat → List Group
  | a :: b :: c :: rest =>
    if a == bound && b == 0 && c == bound then .triple a b c :: scanPayloadNormalOnly rest
    else .single a :: scanPayloadNormalOnly (b :: c :: rest)
  | a :: rest => .single a :: scanPayloadNormalOnly rest
  | [] => []
termination_by l => l.length

def Group.tag : Group → String
  | .single _ => "S"
  | .triple _ _ _ => "T"

end Saito.AtrScan
