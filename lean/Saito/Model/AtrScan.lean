/-
  The grouping pass of the rebroadcast section: how the still-unspent outputs of ONE transaction of the block that leaves the
  window are cut into single outputs and NFT-style bound triples.
  Code: block.rs:1676-1690 (`is_nft_triple`), 1692-1744 (triple branch, `j += 3`), 1746-1826 (single branch, `j += 1`).
  Only the slip TYPE of each collected output matters for the cut. Import-free.
-/
namespace Saito.AtrScan

/-- `SlipType::Bound` (slip.rs: the tenth variant) -/
def bound : Nat := 9
/-- `SlipType::ATR` -/
def typATR : Nat := 1

inductive Group where
  | single (t : Nat)
  | triple (a b c : Nat)
  deriving Repr, DecidableEq

def Group.slips : Group → List Nat
  | .single t => [t]
  | .triple a b c => [a, b, c]

/-- the second pass over `outputs` (slip types, in transaction order): at position `j` a triple is cut off when
    `outputs[j]` is Bound, two more outputs follow, `outputs[j+1]` is NOT Bound and `outputs[j+2]` is Bound; otherwise one
    output is taken -/
def scan : List Nat → List Group
  | a :: b :: c :: rest =>
    if a == bound && b != bound && c == bound then .triple a b c :: scan rest
    else .single a :: scan (b :: c :: rest)
  | a :: rest => .single a :: scan rest
  | [] => []
termination_by l => l.length

/-- the same pass with the payload test `outputs[j+1] == Normal` (type 0) instead of `!= Bound` — NOT what the code does; kept
    to show what that test would break -/
def scanPayloadNormalOnly : List Nat → List Group
  | a :: b :: c :: rest =>
    if a == bound && b == 0 && c == bound then .triple a b c :: scanPayloadNormalOnly rest
    else .single a :: scanPayloadNormalOnly (b :: c :: rest)
  | a :: rest => .single a :: scanPayloadNormalOnly rest
  | [] => []
termination_by l => l.length

/-! ### Amounts (block.rs:1693-1770 triple branch, 1776-1848 single branch)

A collected output is (slip type, amount). The PAYLOAD of a group is the output whose value is rebroadcast: the middle slip of a
triple, the slip itself otherwise; the bound markers' amounts never enter the accounting. Amounts are `Nat` (the code uses u64;
no chain holds amounts whose product with the multiplier wraps). -/

/-- payloads of the groups in order: (is a triple, payload amount) — the same cut as `scan` -/
def payloads : List (Nat × Nat) → List (Bool × Nat)
  | a :: b :: c :: rest =>
    if a.1 == bound && b.1 != bound && c.1 == bound then (true, b.2) :: payloads rest
    else (false, a.2) :: payloads (b :: c :: rest)
  | a :: rest => (false, a.2) :: payloads rest
  | [] => []
termination_by l => l.length

structure Acct where
  /-- cv.total_rebroadcast_nolan, total_rebroadcast_slips, total_payout_atr, total_fees_atr,
      total_fees_paid_by_nonrebroadcast_atr_transactions (contributions of this transaction) -/
  nolan : Nat
  slips : Nat
  payout : Nat
  fees : Nat
  nonrb : Nat
  /-- payload amount of each rebroadcast transaction's OUTPUT, in order -/
  back : List Nat
  deriving Repr, DecidableEq

/-- `tripleKeepsFee = false` (the tree as pinned): `create_rebroadcast_bound_transaction` builds the payload OUTPUT from the
    payload INPUT (amount × multiplier), the fee is booked in total_fees_atr but not taken off the output.
    `true`: the payload comes back worth amount × multiplier − fee, as for a single output. -/
def backAmt (tripleFeeDeducted : Bool) (m f : Nat) (g : Bool × Nat) : Nat :=
  if g.1 && !tripleFeeDeducted then g.2 * m else g.2 * m - f

def acct (fd : Bool) (m f : Nat) : List (Bool × Nat) → Acct
  | [] => ⟨0, 0, 0, 0, 0, []⟩
  | g :: gs =>
    let A := acct fd m f gs
    if g.2 * m > f then
      { nolan := A.nolan + g.2, slips := A.slips + 1, payout := A.payout + (g.2 * m - g.2), fees := A.fees + f, nonrb := A.nonrb,
        back := backAmt fd m f g :: A.back }
    else
      { nolan := A.nolan + g.2, slips := A.slips, payout := A.payout, fees := A.fees + g.2, nonrb := A.nonrb + g.2, back := A.back }

def sum : List Nat → Nat
  | [] => 0
  | x :: xs => x + sum xs

def Group.tag : Group → String
  | .single _ => "S"
  | .triple _ _ _ => "T"

end Saito.AtrScan
