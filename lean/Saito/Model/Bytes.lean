/-
  Byte strings, big-endian integers and Rust-style slicing.
  Import-free (core only) so that the line-protocol driver links as a `lean_exe`.
-/
namespace Saito

abbrev Bytes := List UInt8

/-- Outcome of a decoder / handler: a value, a clean rejection, or a Rust panic. -/
inductive Res (α : Type) where
  | ok (v : α)
  | err
  | panic
  deriving Repr, DecidableEq

namespace Res
def bind {α β} (r : Res α) (f : α → Res β) : Res β :=
  match r with
  | ok v => f v
  | err => err
  | panic => panic
def map {α β} (f : α → β) (r : Res α) : Res β := r.bind (fun v => ok (f v))
def isPanic {α} : Res α → Bool
  | panic => true
  | _ => false
def cls {α} : Res α → String
  | ok _ => "ok"
  | err => "err"
  | panic => "panic"
end Res

/-- `w`-byte big-endian encoding of `n` (value taken modulo `256^w`, like `as uN`). -/
def toBE : Nat → Nat → Bytes
  | 0, _ => []
  | w+1, n => toBE w (n / 256) ++ [UInt8.ofNat (n % 256)]

/-- big-endian value of a byte string -/
def fromBE (bs : Bytes) : Nat := bs.foldl (fun a b => a * 256 + b.toNat) 0

/-- Rust `&bytes[a..b]`: panics when `a > b` or `b > len`. -/
def slice (bs : Bytes) (a b : Nat) : Res Bytes :=
  if a ≤ b ∧ b ≤ bs.length then .ok ((bs.drop a).take (b - a)) else .panic

/-- Parser-style split: first `n` bytes and the rest; `none` when fewer than `n` remain. -/
def splitN (bs : Bytes) (n : Nat) : Option (Bytes × Bytes) :=
  if n ≤ bs.length then some (bs.take n, bs.drop n) else none

def hexDigit (n : Nat) : Char :=
  if n < 10 then Char.ofNat (48 + n) else Char.ofNat (87 + n)

def toHex (bs : Bytes) : String :=
  if bs.isEmpty then "-" else
  String.ofList (bs.foldr (fun b acc => hexDigit (b.toNat / 16) :: hexDigit (b.toNat % 16) :: acc) [])

def hexVal (c : Char) : Option Nat :=
  if '0' ≤ c ∧ c ≤ '9' then some (c.toNat - 48)
  else if 'a' ≤ c ∧ c ≤ 'f' then some (c.toNat - 87)
  else if 'A' ≤ c ∧ c ≤ 'F' then some (c.toNat - 55)
  else none

def ofHexChars : List Char → Option Bytes
  | [] => some []
  | [_] => none
  | a :: b :: rest =>
    match hexVal a, hexVal b, ofHexChars rest with
    | some x, some y, some r => some (UInt8.ofNat (x * 16 + y) :: r)
    | _, _, _ => none

def ofHex (s : String) : Option Bytes :=
  if s = "-" then some [] else ofHexChars s.toList

end Saito
