/-
  Defect flags (DESIGN.md §3.2). `false` = behaviour of the pinned tree, `true` = repaired behaviour.
  The check measures the flag vector of the tree under test by replaying witness inputs.
-/
namespace Saito

structure CodecFlags where
  /-- transaction.rs: extent check before the slicing loops of `Transaction::deserialize_from_net` -/
  txBounds : Bool := false
  /-- ghost_chain_sync.rs: `GhostChainSync::deserialize` checks lengths before slicing -/
  ghostBounds : Bool := false
  /-- golden_ticket.rs: `GoldenTicket::deserialize_from_net` does not assert on the length -/
  gtTotal : Bool := false
  /-- wallet.rs: `Wallet::deserialize_from_disk` checks the 65-byte length -/
  walletTotal : Bool := false
  /-- message.rs: `Message::deserialize` checks the extent of a tag-10 payload before handing it to
      `GhostChainSync::deserialize` (the decoder itself may stay unchecked) -/
  msgGhostChecked : Bool := false
  deriving Repr, DecidableEq

def CodecFlags.pinned : CodecFlags := {}
def CodecFlags.fixed : CodecFlags := ⟨true, true, true, true, true⟩

end Saito
