/-
  Executable model of the peer handshake (C17).

  Code modelled (pinned tree):
    saito-core/src/core/consensus/peers/peer.rs      initiate_handshake 143-165, handle_handshake_challenge 167-219,
                                                     handle_handshake_response 220-355, mark_as_disconnected 420-433,
                                                     join_as_reconnection 448-464
    saito-core/src/core/io/network.rs                handle_peer_disconnect 123-152, handle_new_peer 153-177,
                                                     handle_handshake_challenge 179-217, handle_handshake_response 218-303,
                                                     initialize_static_peers 578-599
    saito-core/src/core/consensus/peers/peer_collection.rs   remove_reconnected_peer 48-85

  Symbolic (Dolev–Yao) cryptography. Keys and nonces are `Nat` ids.
    * key `i` with `i < H` is the wallet key of honest node `i`; keys `≥ H` belong to the attacker;
    * nonce `0` is the constant all-zero challenge of the second response (`challenge: [0; 32]`); honest nodes draw
      fresh nonces `1, 2, 3, …` from the counter `State.next` (fresh randomness never repeats and cannot be guessed:
      a message may only mention nonces `< next`);
    * a signature is the term `(signer, nonce)`; it verifies under key `k'` and message `n'` iff it is `(k', n')`;
      `none` stands for 64 bytes that verify under nothing. The attacker may attach any signature term that exists
      (`State.sigs`: everything an honest node ever signed was sent in a message, plus what the attacker signed with its
      own keys) to any message — all other fields of a response (key, next challenge, version) are NOT covered by the
      signature in the real code and are therefore free.
  Not modelled: the per-peer handshake rate limiter (100 messages / 60 s — the correspondence runs stay below it),
  services / block-fetch url / wallet version (copied, never checked), interface events, STUN peers (created Connected by
  the local application through `handle_new_stun_peer`, not by any remote message).
-/
namespace Saito.Hs

/-! ## association lists keyed by a pair of `Nat` (`(node, conn)` or `(node, key)`) -/

def mget {β : Type} (m : List ((Nat × Nat) × β)) (a : Nat × Nat) : Option β :=
  match m with
  | [] => none
  | (a', b) :: r => if a' = a then some b else mget r a

/-- replace the first binding of `a`, or append a new one (order of first insertion is kept) -/
def mset {β : Type} (m : List ((Nat × Nat) × β)) (a : Nat × Nat) (b : β) : List ((Nat × Nat) × β) :=
  match m with
  | [] => [(a, b)]
  | (a', b') :: r => if a' = a then (a, b) :: r else (a', b') :: mset r a b

/-- remove every binding of `a` -/
def merase {β : Type} (m : List ((Nat × Nat) × β)) (a : Nat × Nat) : List ((Nat × Nat) × β) :=
  match m with
  | [] => []
  | (a', b') :: r => if a' = a then merase r a else (a', b') :: merase r a

/-! ## state -/

/-- `PeerStatus` (the two timestamps of `Disconnected` are not modelled) -/
inductive Status
  | disconnected | connecting | connected
  deriving DecidableEq, Repr

/-- the fields of `Peer` the handshake handlers read or write -/
structure Peer where
  status : Status := .disconnected
  /-- `challenge_for_peer` -/
  challenge : Option Nat := none
  /-- `public_key` (set by a completed handshake, never cleared afterwards) -/
  key : Option Nat := none
  /-- `static_peer_config.is_some()`: we dialled out; the remote side is the challenger -/
  isStatic : Bool := false
  deriving DecidableEq, Repr

/-- `core_version` of a response relative to the receiving wallet: not set / same minor version / different -/
inductive Ver
  | unset | ok | bad
  deriving DecidableEq, Repr

structure Response where
  key : Nat
  /-- signature term `(signer, nonce)`; `none` = bytes that verify under nothing -/
  sig : Option (Nat × Nat)
  /-- the responder's own challenge -/
  challenge : Nat
  ver : Ver
  deriving DecidableEq, Repr

inductive Msg
  | challenge (n : Nat)
  | response (r : Response)
  deriving DecidableEq, Repr

/-- what a node does on its `InterfaceIO`, in call order -/
inductive Action
  | send (conn : Nat) (m : Msg)
  | disconnect (conn : Nat)
  /-- `request_blockchain_from_peer` after a completed handshake -/
  | blockchainReq (conn : Nat)
  deriving DecidableEq, Repr

/-- monotone history (newest first) -/
inductive Event
  /-- node `node` stored the fresh nonce as `challenge_for_peer` of its connection `conn` and sent it -/
  | issued (node conn nonce : Nat)
  /-- a signature by `key` over `nonce` was made: `src = some c` — by the honest node `key` while handling a message on its
      connection `c`; `src = none` — by the attacker with one of its own keys -/
  | signed (key nonce : Nat) (src : Option Nat)
  /-- node `node` marked connection `conn` Connected under `key`, having checked the response against stored challenge `nonce` -/
  | accepted (node conn key nonce : Nat)
  deriving DecidableEq, Repr

structure State where
  /-- `index_to_peers` of every node: `(node, conn) ↦ peer` -/
  peers : List ((Nat × Nat) × Peer) := []
  /-- `address_to_peers` of every node: `(node, key) ↦ conn` -/
  addr : List ((Nat × Nat) × Nat) := []
  /-- fresh-nonce counter -/
  next : Nat := 1
  /-- signature terms in existence -/
  sigs : List (Nat × Nat) := []
  log : List Event := []
  deriving Repr

def init : State := {}

inductive Out
  | ok (acts : List Action)
  /-- `assert_eq!(response.public_key, self.public_key.unwrap())` in `Peer::handle_handshake_response` -/
  | panic
  /-- the request is outside the attacker's abilities (unknown nonce, signature term that does not exist, forging with an
      honest key) or addresses a node that does not exist; nothing happens -/
  | rejected
  deriving DecidableEq, Repr

inductive Op
  /-- `initialize_static_peers`: a peer entry with a static config, status Disconnected -/
  | addStatic (node conn : Nat)
  /-- `handle_new_peer` -/
  | connect (node conn : Nat)
  /-- `handle_peer_disconnect` -/
  | disconnect (node conn : Nat)
  | deliverChallenge (node conn n : Nat)
  /-- `pick` resolves the `HashMap` iteration order of `remove_reconnected_peer` (which of several old peers with the same key
      is found first): candidate number `pick % candidates.length` -/
  | deliverResponse (node conn : Nat) (r : Response) (pick : Nat)
  /-- the attacker signs a known nonce with one of its own keys -/
  | attackerSign (k n : Nat)
  deriving DecidableEq, Repr

/-! ## handlers -/

/-- `Peer::mark_as_disconnected` -/
def markDisconnected (p : Peer) : Peer := { p with challenge := none, status := .disconnected }

/-- `initialize_static_peers` for one entry -/
def addStatic (st : State) (node conn : Nat) : State × Out :=
  match mget st.peers (node, conn) with
  | some _ => (st, .ok [])
  | none => ({ st with peers := mset st.peers (node, conn) { isStatic := true } }, .ok [])

/-- `Peer::initiate_handshake` on peer `p` of connection `(node, conn)` -/
def initiate (st : State) (node conn : Nat) (p : Peer) : State × Out :=
  ({ st with peers := mset st.peers (node, conn) { p with challenge := some st.next },
             next := st.next + 1,
             log := .issued node conn st.next :: st.log },
   .ok [.send conn (.challenge st.next)])

/-- `Network::handle_new_peer` -/
def connect (st : State) (node conn : Nat) : State × Out :=
  let p : Peer := match mget st.peers (node, conn) with
    | some p => { p with status := .connecting }
    | none => { status := .connecting }
  if p.isStatic then ({ st with peers := mset st.peers (node, conn) p }, .ok [])
  else initiate st node conn p

/-- `Network::handle_peer_disconnect` (external disconnect) -/
def disconnect (st : State) (node conn : Nat) : State × Out :=
  match mget st.peers (node, conn) with
  | none => (st, .ok [.disconnect conn])
  | some p => ({ st with peers := mset st.peers (node, conn) (markDisconnected p) }, .ok [.disconnect conn])

/-- `Network::handle_handshake_challenge` → `Peer::handle_handshake_challenge`: no check of the peer's state at all — any
    existing peer entry signs any 32 bytes with the node's key, stores a fresh challenge of its own and answers -/
def deliverChallenge (st : State) (node conn n : Nat) : State × Out :=
  match mget st.peers (node, conn) with
  | none => (st, .ok [])
  | some p =>
    ({ st with peers := mset st.peers (node, conn) { p with challenge := some st.next },
               next := st.next + 1,
               sigs := (node, n) :: st.sigs,
               log := .issued node conn st.next :: .signed node n (some conn) :: st.log },
     .ok [.send conn (.response { key := node, sig := some (node, n), challenge := st.next, ver := .ok })])

/-- failure exit of `Peer::handle_handshake_response` (+ the second `disconnect_from_peer` of `Network`) -/
def failResponse (st : State) (node conn : Nat) (p : Peer) : State × Out :=
  ({ st with peers := mset st.peers (node, conn) (markDisconnected p) }, .ok [.disconnect conn, .disconnect conn])

/-- old peers of `node` that `remove_reconnected_peer(k)` may find: same key, status ≠ Connected
    (every index of the map is looked up, so the result only depends on the map as a function) -/
def candidates (peers : List ((Nat × Nat) × Peer)) (node k : Nat) : List (Nat × Peer) :=
  peers.filterMap fun e =>
    if e.1.1 = node then
      match mget peers e.1 with
      | some p => if p.key = some k ∧ p.status ≠ .connected then some (e.1.2, p) else none
      | none => none
    else none

/-- success exit of `Peer::handle_handshake_response` (peer.rs:304-354): `p` has stored challenge `n` and the response
    verified against it. Returns the new entry, the state and what was sent. -/
def peerAccept (st : State) (node conn : Nat) (p : Peer) (r : Response) (n : Nat) : Peer × State × List Action :=
  let p1 : Peer := { p with status := .connected, key := some r.key, challenge := none }
  let stA : State := { st with peers := mset st.peers (node, conn) p1, log := .accepted node conn r.key n :: st.log }
  -- peer.rs:322-343: only the challenger (no static config) answers, signing the responder's challenge
  if p.isStatic then (p1, stA, [])
  else (p1, { stA with sigs := (node, r.challenge) :: stA.sigs, log := .signed node r.challenge (some conn) :: stA.log },
        [.send conn (.response { key := node, sig := some (node, r.challenge), challenge := 0, ver := .ok })])

/-- network.rs:274-284 after a successful handshake of `(node, conn)` (entry `p1`) under key `k`:
    `remove_reconnected_peer(k)` + `join_as_reconnection`, else `address_to_peers.insert(k, conn)` -/
def reconnect (st : State) (node conn : Nat) (p1 : Peer) (k pick : Nat) : State :=
  let cands := candidates st.peers node k
  match cands[pick % cands.length]? with
  | some (j, old) =>
    -- the old entry and ITS address_to_peers key are removed; the new entry inherits the static config; NOTE: no insert
    { st with peers := mset (merase st.peers (node, j)) (node, conn) { p1 with isStatic := old.isStatic },
              addr := merase st.addr (node, k) }
  | none => { st with addr := mset st.addr (node, k) conn }

def acceptResponse (st : State) (node conn : Nat) (p : Peer) (r : Response) (n pick : Nat) : State × Out :=
  let a := peerAccept st node conn p r n
  (reconnect a.2.1 node conn a.1 r.key pick, .ok (a.2.2 ++ [.blockchainReq conn]))

/-- `Network::handle_handshake_response` → `Peer::handle_handshake_response`, checks in code order -/
def deliverResponse (fx : Bool) (st : State) (node conn : Nat) (r : Response) (pick : Nat) : State × Out :=
  match mget st.peers (node, conn) with
  | none => (st, .ok [])
  | some p =>
    if r.ver = .unset then failResponse st node conn p                    -- peer.rs:234
    else match p.challenge with
      | none => failResponse st node conn p                               -- peer.rs:243
      | some n =>
        if r.sig ≠ some (r.key, n) then failResponse st node conn p       -- peer.rs:254 verify(stored, sig, claimed key)
        else if r.ver ≠ .ok then failResponse st node conn p              -- peer.rs:281
        else match p.key with
          | some k => if k ≠ r.key then                                   -- peer.rs:296-302
                        (if fx then failResponse st node conn p else (st, .panic))
                      else acceptResponse st node conn p r n pick
          | none => acceptResponse st node conn p r n pick

def attackerSign (H : Nat) (st : State) (k n : Nat) : State × Out :=
  if H ≤ k ∧ n < st.next then
    ({ st with sigs := (k, n) :: st.sigs, log := .signed k n none :: st.log }, .ok [])
  else (st, .rejected)

/-- one step of the system with `H` honest nodes `0 … H-1`.
    `fx`: the key-mismatch branch of `handle_handshake_response` refuses the response like every other failed check
    (repaired) instead of `assert_eq!` (pinned) -/
def step (fx : Bool) (H : Nat) (st : State) (op : Op) : State × Out :=
  match op with
  | .addStatic node conn => if node < H then addStatic st node conn else (st, .rejected)
  | .connect node conn => if node < H then connect st node conn else (st, .rejected)
  | .disconnect node conn => if node < H then disconnect st node conn else (st, .rejected)
  | .deliverChallenge node conn n =>
    if node < H ∧ n < st.next then deliverChallenge st node conn n else (st, .rejected)
  | .deliverResponse node conn r pick =>
    if node < H ∧ r.challenge < st.next ∧ (∀ s, r.sig = some s → s ∈ st.sigs) then deliverResponse fx st node conn r pick
    else (st, .rejected)
  | .attackerSign k n => attackerSign H st k n

/-- state after a script -/
def run (fx : Bool) (H : Nat) (ops : List Op) : State := ops.foldl (fun st op => (step fx H st op).1) init

/-- `run` with the outputs -/
def runOut (fx : Bool) (H : Nat) (st : State) : List Op → State × List Out
  | [] => (st, [])
  | op :: ops =>
    let r := step fx H st op
    let rest := runOut fx H r.1 ops
    (rest.1, r.2 :: rest.2)

end Saito.Hs
