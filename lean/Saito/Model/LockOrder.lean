/-!
# Lock-order model (C20) — import-free

Abstract system: a state is a list of tasks; every task holds a set of locks and is possibly blocked on one lock.
Locks are identified by their RANK (there is exactly one shared lock per rank: network controller 1, sockets 2,
configs 3, blockchain 4, mempool 5, peers 6, wallet 7; the saito-wasm gate `SAITO` is 0), see
`saito-core/src/core/defs.rs` `LOCK_ORDER_*`.

Waiting semantics (tokio `RwLock` / `Mutex`: FIFO-fair, write-preferring). Task `i`, blocked on lock `l`, waits for
task `j` when
* `j` holds `l` (a reader or the writer that must release first), or
* `j` is blocked on the same `l` and is queued AHEAD of `i` (smaller `ticket`): a reader queued behind a waiting
  writer is not admitted although the lock is only read-held.
The second clause is what makes re-acquiring a lock one already holds (read after read) unsafe, and is why an edge with
`held = acquired` counts as a violation of the order.

A deadlock is a cycle of the waits-for relation (length 1 included).
-/
namespace Saito.LockOrder

/-- a pair of ranks: a task holds `held` while it requests `acquired` -/
structure Edge where
  held : Nat
  acquired : Nat
  deriving DecidableEq, Repr

structure Task where
  /-- ranks of the locks the task holds -/
  held : List Nat
  /-- the lock the task is blocked on, if any -/
  waits : Option Nat := none
  /-- position in the FIFO queue of the awaited lock (smaller = earlier); irrelevant when not waiting -/
  ticket : Nat := 0
  deriving Repr

abbrev State := List Task

/-- task number `i` is blocked and its progress depends on task number `j` -/
def WaitsFor (s : State) (i j : Nat) : Prop :=
  ∃ (ti tj : Task) (l : Nat), s[i]? = some ti ∧ s[j]? = some tj ∧ ti.waits = some l ∧
    (l ∈ tj.held ∨ (tj.waits = some l ∧ tj.ticket < ti.ticket))

/-- a non-empty chain `i → … → k` of the waits-for relation -/
inductive Path (s : State) : Nat → Nat → Prop
  | single {i j : Nat} : WaitsFor s i j → Path s i j
  | cons {i j k : Nat} : WaitsFor s i j → Path s j k → Path s i k

/-- some task (transitively) waits for itself -/
def Deadlocked (s : State) : Prop := ∃ i, Path s i i

/-- the documented discipline: a blocked task holds only locks of strictly smaller rank than the one it requests -/
def Ranked (s : State) : Prop :=
  ∀ (i : Nat) (t : Task), s[i]? = some t → ∀ l, t.waits = some l → ∀ h ∈ t.held, h < l

/-- the weaker, NON-strict discipline (equal rank tolerated); not sufficient, see `C20.equal_rank_can_deadlock` -/
def RankedNonStrict (s : State) : Prop :=
  ∀ (i : Nat) (t : Task), s[i]? = some t → ∀ l, t.waits = some l → ∀ h ∈ t.held, h ≤ l

/-- gate discipline (saito-wasm): a blocked task either holds nothing or holds the gate `g` -/
def Gated (g : Nat) (s : State) : Prop :=
  ∀ (i : Nat) (t : Task), s[i]? = some t → t.waits ≠ none → t.held = [] ∨ g ∈ t.held

/-- the gate is a mutex: at most one task holds it -/
def Exclusive (g : Nat) (s : State) : Prop :=
  ∀ (i j : Nat) (ti tj : Task), s[i]? = some ti → s[j]? = some tj → g ∈ ti.held → g ∈ tj.held → i = j

/-- no task requests a lock it already holds -/
def NoSelfWait (s : State) : Prop :=
  ∀ (i : Nat) (t : Task), s[i]? = some t → ∀ l, t.waits = some l → l ∉ t.held

/-- the state is covered by an acquisition table: whenever a task is blocked on `l` while holding `h`, the pair
`(h, l)` is an edge of the table. This is what the translator's soundness means (it is validated, not proved). -/
def Conforms (edges : List Edge) (s : State) : Prop :=
  ∀ (i : Nat) (t : Task), s[i]? = some t → ∀ l, t.waits = some l → ∀ h ∈ t.held, (⟨h, l⟩ : Edge) ∈ edges

/-- acquisition table with a gate flag per edge (saito-wasm): a covered state, moreover, holds the gate `g` whenever
the edge it instantiates was recorded under the gate -/
def ConformsGated (edges : List (Edge × Bool)) (g : Nat) (s : State) : Prop :=
  ∀ (i : Nat) (t : Task), s[i]? = some t → ∀ l, t.waits = some l → ∀ h ∈ t.held,
    ∃ b, ((⟨h, l⟩ : Edge), b) ∈ edges ∧ (b = true → g ∈ t.held)

end Saito.LockOrder
