import Saito.Model.Chain
/-
  Delivery of fetched blocks to the chain: `ConsensusEvent::BlockFetched` (consensus_thread.rs:395-432),
  `Mempool::add_block` (mempool.rs:69), `Blockchain::add_blocks_from_mempool` (blockchain.rs:1839-1943) with
  `handle_failed_block_to_be_retried` (2001-2033), on top of the `add_block` model of `Model/Chain.lean`.

  The retry rule lives inside `add_block` (blockchain.rs:201-250, `Chain.addBlock`): a block whose parent is
  neither stored nor queued is answered `FailedButRetry` and pushed back to `mempool.blocks_queue` — but only
  when `configs.initial_loading_completed || checkpoint_found` (`State.loadingDone`). No code of the pinned
  tree ever sets `initial_loading_completed` (the field is `#[serde(skip)]`, every constructor writes `false`).
-/
namespace Saito.SyncDelivery
open Saito.Chain

def isRetry : Outcome → Bool
  | .retryPrev | .retryChain | .retryWait => true
  | _ => false

def isFatal : Outcome → Bool
  | .stall | .panic => true
  | _ => false

/-- stable insertion by block id (`blocks.make_contiguous().sort_by(|a, b| a.id.cmp(&b.id))`) -/
def insertById (x : ABlock) : List ABlock → List ABlock
  | [] => [x]
  | y :: ys => if x.id ≤ y.id then x :: y :: ys else y :: insertById x ys

def sortById (l : List ABlock) : List ABlock := l.foldr insertById []

/-- the `while let Some(block) = blocks.pop_front()` loop; `rq` = `mempool.blocks_queue` as it refills.
    Result: state, refilled queue, "the node is gone" (add_block panicked or never returned). -/
def pass (fl : Flags) : List ABlock → State → List ABlock → State × List ABlock × Bool
  | [], st, rq => (st, rq, false)
  | b :: rest, st, rq =>
    match addBlock fl st b (rq.map (·.hash)) with
    | (st', o) =>
      if isFatal o then (st, rq ++ rest, true)
      else if isRetry o then pass fl rest st (rq ++ [b])
      else pass fl rest st' rq

structure NodeSt where
  st : State
  queue : List ABlock := []
  dead : Bool := false
  deriving Repr, DecidableEq

/-- one `ConsensusEvent::BlockFetched` -/
def deliver (fl : Flags) (n : NodeSt) (b : ABlock) : NodeSt :=
  if n.dead then n
  else if (getB n.st b.hash).isSome then n
  else
    let q := if n.queue.any (·.hash == b.hash) then n.queue else n.queue ++ [b]
    match pass fl (sortById q) n.st [] with
    | (st', rq, dead) => { st := st', queue := rq, dead := dead }

/-- the outcome that ended a pass, if it ended fatally: `stall` (the Wind/Unwind loop never returns) or `panic` -/
def passWhy (fl : Flags) : List ABlock → State → List ABlock → Option Outcome
  | [], _, _ => none
  | b :: rest, st, rq =>
    match addBlock fl st b (rq.map (·.hash)) with
    | (st', o) =>
      if isFatal o then some o
      else if isRetry o then passWhy fl rest st (rq ++ [b])
      else passWhy fl rest st' rq

/-- why `deliver` left the node dead (same queue handling as `deliver`) -/
def deliverWhy (fl : Flags) (n : NodeSt) (b : ABlock) : Option Outcome :=
  if n.dead then none
  else if (getB n.st b.hash).isSome then none
  else
    let q := if n.queue.any (·.hash == b.hash) then n.queue else n.queue ++ [b]
    passWhy fl (sortById q) n.st []

def deliverAll (fl : Flags) (n : NodeSt) (bs : List ABlock) : NodeSt := bs.foldl (deliver fl) n

/-- tip as the node reports it -/
def tipOf (n : NodeSt) : Option (Nat × Nat) := latest n.st

/-- a block with a golden ticket, no value transfer, valid header -/
def plain (h p i bf : Nat) : ABlock :=
  { hash := h, prev := p, id := i, burnfee := bf, hasGT := true, ok := true, ins := [], outs := [] }

/-- linear chain built on parent hash `p` starting at id `i` from (hash, burn fee) pairs -/
def chainFrom (p i : Nat) : List (Nat × Nat) → List ABlock
  | [] => []
  | (h, bf) :: r => plain h p i bf :: chainFrom h (i + 1) r

end Saito.SyncDelivery
