import Saito.Lemmas.LoopOk
/-! The repaired Wind/Unwind loop (`stepWRF`): it returns for every input, within `2·(|new| + |old|) + 3` iterations. -/
namespace Saito.Chain

/-- a measure that every non-terminal iteration of the repaired loop decreases:
    failure mode (`f = true`): blocks still to unwind, then the old chain to wind back;
    normal mode: blocks still to unwind / wind, plus everything the failure mode may need afterwards -/
def muF (n o : Nat) : WR → Nat
  | .wind i true => i + 1
  | .unwind i true chain => (chain.length - i) + o + 1
  | .wind i false => (i + 1) + (n + o + 2)
  | .unwind i false chain => (chain.length - i) + (n + 1) + (n + o + 2)
  | .success => 0
  | .failure => 0

theorem stepWRF_decreases (fl : Flags) (newC oldC : List Nat) (st : State) (w : WR) (h : w.terminal = false) :
    (stepWRF fl newC oldC st w).2.terminal = true ∨
      muF newC.length oldC.length (stepWRF fl newC oldC st w).2 < muF newC.length oldC.length w := by
  cases w with
  | success => simp [WR.terminal] at h
  | failure => simp [WR.terminal] at h
  | wind i f =>
    cases f <;>
      simp only [stepWRF, Bool.false_eq_true, if_false, if_true, Bool.false_and, Bool.true_and] <;>
      repeat' split
    all_goals first
      | (left; rfl)
      | (right; simp only [muF, List.length_drop]; omega)
      | (right; rename_i hz; have : i ≠ 0 := by simpa using hz
         simp only [muF, List.length_drop]; omega)
  | unwind i f chain =>
    simp only [stepWRF]
    split
    · left; rfl
    · rename_i hx hget
      have hi : i < chain.length := by
        rcases List.getElem?_eq_some_iff.1 hget with ⟨hlt, _⟩
        exact hlt
      split
      · left; rfl
      · by_cases hlast : (i + 1 == chain.length) = true
        · simp only [hlast, if_true]
          cases f with
          | false =>
            simp only [Bool.false_eq_true, if_false]
            by_cases hn : newC.isEmpty = true
            · left; simp [hn, WR.terminal]
            · right
              have hn' : newC.isEmpty = false := by simpa using hn
              simp only [hn', Bool.false_eq_true, if_false, muF]; omega
          | true =>
            simp only [if_true]
            by_cases hn : oldC.isEmpty = true
            · left; simp [hn, WR.terminal]
            · right
              have : 0 < oldC.length := by
                cases oldC with
                | nil => simp at hn
                | cons _ _ => simp
              have hn' : oldC.isEmpty = false := by simpa using hn
              simp only [hn', Bool.false_eq_true, if_false, muF]; omega
        · right
          simp only [hlast, if_false, Bool.false_eq_true]
          cases f <;> simp only [muF] <;> omega

theorem runWRF_terminal (fl : Flags) (newC oldC : List Nat) (n : Nat) (st : State) (w : WR) (h : w.terminal = true) :
    runWRF fl newC oldC n st w ≠ none := by
  cases w <;> simp [WR.terminal] at h <;> cases n <;> simp [runWRF]

theorem runWRF_step (fl : Flags) (newC oldC : List Nat) (n : Nat) (st : State) (w : WR) (h : w.terminal = false) :
    runWRF fl newC oldC (n + 1) st w =
      runWRF fl newC oldC n (stepWRF fl newC oldC st w).1 (stepWRF fl newC oldC st w).2 := by
  cases w <;> simp [WR.terminal] at h <;> simp [runWRF]

/-- the repaired loop returns whenever the fuel exceeds the measure of its start state -/
theorem runWRF_returns (fl : Flags) (newC oldC : List Nat) :
    ∀ (fuel : Nat) (st : State) (w : WR), muF newC.length oldC.length w < fuel → runWRF fl newC oldC fuel st w ≠ none := by
  intro fuel
  induction fuel with
  | zero => intro st w h; omega
  | succ n ih =>
    intro st w h
    cases ht : w.terminal with
    | true => exact runWRF_terminal fl newC oldC (n + 1) st w ht
    | false =>
      rw [runWRF_step fl newC oldC n st w ht]
      rcases stepWRF_decreases fl newC oldC st w ht with h1 | h1
      · exact runWRF_terminal _ _ _ _ _ _ h1
      · exact ih _ _ (by omega)

end Saito.Chain
