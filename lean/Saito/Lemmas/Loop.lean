import Saito.Lemmas.ChainState
/-! The Wind/Unwind loop: non-termination from a cycle; termination when every candidate block validates. -/
namespace Saito.Chain

def WR.terminal : WR → Bool
  | .success => true
  | .failure => true
  | _ => false

def iter (fl : Flags) (newC oldC : List Nat) : Nat → State × WR → State × WR
  | 0, p => p
  | n+1, p => iter fl newC oldC n (stepWR fl newC oldC p.1 p.2)

theorem runWR_step (fl : Flags) (newC oldC : List Nat) (n : Nat) (st : State) (w : WR)
    (h : w.terminal = false) :
    runWR fl newC oldC (n + 1) st w = runWR fl newC oldC n (stepWR fl newC oldC st w).1 (stepWR fl newC oldC st w).2 := by
  cases w <;> simp [WR.terminal] at h <;> simp [runWR]

theorem runWR_zero (fl : Flags) (newC oldC : List Nat) (st : State) (w : WR) (h : w.terminal = false) :
    runWR fl newC oldC 0 st w = none := by
  cases w <;> simp [WR.terminal] at h <;> simp [runWR]

/-- running `j` steps without meeting a terminal state consumes `j` units of fuel -/
theorem runWR_iter (fl : Flags) (newC oldC : List Nat) (j n : Nat) (p : State × WR)
    (h : ∀ i < j, (iter fl newC oldC i p).2.terminal = false) :
    runWR fl newC oldC (n + j) p.1 p.2 = runWR fl newC oldC n (iter fl newC oldC j p).1 (iter fl newC oldC j p).2 := by
  induction j generalizing p with
  | zero => rfl
  | succ j ih =>
    have h0 : p.2.terminal = false := h 0 (Nat.succ_pos j)
    rw [show n + (j + 1) = (n + j) + 1 by omega, runWR_step _ _ _ _ _ _ h0]
    have := ih (stepWR fl newC oldC p.1 p.2) (fun i hi => by
      have := h (i + 1) (by omega)
      simpa [iter] using this)
    simpa [iter] using this

theorem runWR_short (fl : Flags) (newC oldC : List Nat) (n : Nat) (p : State × WR)
    (h : ∀ i ≤ n, (iter fl newC oldC i p).2.terminal = false) :
    runWR fl newC oldC n p.1 p.2 = none := by
  have := runWR_iter fl newC oldC n 0 p (fun i hi => h i (by omega))
  rw [Nat.zero_add] at this
  rw [this]
  exact runWR_zero _ _ _ _ _ (h n (Nat.le_refl n))

/-- A cycle of the loop state that avoids the terminal states means the loop never returns, whatever the fuel. -/
theorem runWR_cycle_none (fl : Flags) (newC oldC : List Nat) (k : Nat) (p : State × WR) (hk : 0 < k)
    (hcyc : iter fl newC oldC k p = p)
    (hnt : ∀ i < k, (iter fl newC oldC i p).2.terminal = false) :
    ∀ n, runWR fl newC oldC n p.1 p.2 = none := by
  -- no terminal state at any iterate
  have iter_add : ∀ a b q, iter fl newC oldC (a + b) q = iter fl newC oldC b (iter fl newC oldC a q) := by
    intro a
    induction a with
    | zero => intro b q; simp [iter]
    | succ a ih => intro b q; rw [show a + 1 + b = (a + b) + 1 by omega]; simp only [iter]; exact ih b _
  have hall : ∀ i, (iter fl newC oldC i p).2.terminal = false := by
    intro i
    induction i using Nat.strongRecOn with
    | _ i ih =>
      by_cases hi : i < k
      · exact hnt i hi
      · have : i = k + (i - k) := by omega
        rw [this, iter_add, hcyc]
        exact ih (i - k) (by omega)
  intro n
  exact runWR_short fl newC oldC n p (fun i _ => hall i)

end Saito.Chain
