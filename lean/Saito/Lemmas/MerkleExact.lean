import Saito.Lemmas.Merkle
/-!
  C18: the exact class of inputs on which the pinned construction recomputes the root.
  Free terms (`HTerm`) only: two invariants of the tree construction — the number of atoms of the root equals the
  number of atoms of the leaves, and the root mentions a signature prefix iff a leaf does.
-/
namespace Saito.Merkle
variable {α : Type}

/-! ### the loop reaches a single node -/

theorem levelUp_light (H : α → α → α) : ∀ (l : List (α × Nat)), (∀ p ∈ l, p.2 ≤ 1) →
    (∀ p ∈ levelUp H l, p.2 ≤ 1) ∧ (levelUp H l).length = (l.length + 1) / 2
  | [], _ => by simp [levelUp]
  | [(a, w)], h => by
    have hw : w ≤ 1 := h (a, w) (by simp)
    have : ¬ 1 < w := by omega
    simp [levelUp, this, hw]
  | (a, w) :: (b, v) :: rest, h => by
    have hw : w ≤ 1 := h (a, w) (by simp)
    have hv : v ≤ 1 := h (b, v) (by simp)
    rw [levelUp_pair H a b w v rest hw hv]
    have ih := levelUp_light H rest (fun p hp => h p (by simp [hp]))
    refine ⟨?_, by simp [ih.2]; omega⟩
    intro p hp
    simp only [List.mem_cons] at hp
    rcases hp with rfl | hp
    · simp
    · exact ih.1 p hp

theorem iter_levelUp_single (H : α → α → α) : ∀ (n : Nat) (l : List (α × Nat)), (∀ p ∈ l, p.2 ≤ 1) →
    1 ≤ l.length → l.length ≤ n + 1 → (iter (levelUp H) n l).length = 1
  | 0, l, _, h1, h2 => by simp [iter]; omega
  | n + 1, l, hl, h1, h2 => by
    rw [iter_succ]
    have := levelUp_light H l hl
    exact iter_levelUp_single H n _ this.1 (by rw [this.2]; omega) (by rw [this.2]; omega)

theorem length_le_totalWeight (l : List (α × Nat)) : l.length ≤ totalWeight l := by
  induction l with
  | nil => simp [totalWeight]
  | cons p l ih => rw [totalWeight_cons]; simp; omega

/-- for ordinary leaves (all weights ≤ 1) the loop ends with exactly one node, whose hash is the root -/
theorem rootW_light (H : α → α → α) (l : List (α × Nat)) (hl : ∀ p ∈ l, p.2 ≤ 1) (hne : l ≠ []) :
    ∃ a w, iter (levelUp H) (totalWeight l) l = [(a, w)] ∧ rootW H l = some a := by
  have h1 : 1 ≤ l.length := by cases l <;> simp_all
  have := iter_levelUp_single H (totalWeight l) l hl h1 (by have := length_le_totalWeight l; omega)
  match hi : iter (levelUp H) (totalWeight l) l, this with
  | [(a, w)], _ => exact ⟨a, w, rfl, by simp [rootW, hi]⟩

/-! ### invariant 1: atoms -/

def sizeSum (l : List (HTerm × Nat)) : Nat := (l.map fun p => p.1.size).sum

theorem sizeSum_cons (p : HTerm × Nat) (l : List (HTerm × Nat)) : sizeSum (p :: l) = p.1.size + sizeSum l := by
  simp [sizeSum]

theorem sizeSum_append (l m : List (HTerm × Nat)) : sizeSum (l ++ m) = sizeSum l + sizeSum m := by
  simp [sizeSum]

theorem sizeSum_levelUp : ∀ (l : List (HTerm × Nat)), sizeSum (levelUp HTerm.node l) = sizeSum l
  | [] => rfl
  | [(a, w)] => by simp [levelUp, sizeSum]
  | (a, w) :: (b, v) :: rest => by
    have ih1 := sizeSum_levelUp ((b, v) :: rest)
    have ih2 := sizeSum_levelUp rest
    simp only [levelUp]
    split
    · simp only [sizeSum_cons, ih1]
    · split
      · simp only [sizeSum_cons, ih1]
      · simp only [sizeSum_cons, ih2, HTerm.size]; omega

theorem sizeSum_iter (n : Nat) : ∀ (l : List (HTerm × Nat)), sizeSum (iter (levelUp HTerm.node) n l) = sizeSum l := by
  induction n with
  | zero => intro l; rfl
  | succ n ih => intro l; rw [iter_succ, ih, sizeSum_levelUp]

theorem root_size (l : List (HTerm × Nat)) (hl : ∀ p ∈ l, p.2 ≤ 1) (t : HTerm) (h : rootW HTerm.node l = some t) :
    t.size = sizeSum l := by
  have hne : l ≠ [] := by rintro rfl; simp [rootW, totalWeight, iter] at h
  obtain ⟨a, w, hi, hr⟩ := rootW_light HTerm.node l hl hne
  rw [hr] at h
  cases h
  have := sizeSum_iter (totalWeight l) l
  rw [hi] at this
  simpa [sizeSum] using this

theorem HTerm.size_pos (t : HTerm) : 1 ≤ t.size := by
  induction t with
  | leaf _ => simp [HTerm.size]
  | sig _ => simp [HTerm.size]
  | node l r ihl ihr => simp [HTerm.size]; omega

theorem sizeSum_replicate (n : Nat) (h : HTerm) : sizeSum (List.replicate n (h, 1)) = n * h.size := by
  induction n with
  | zero => simp [sizeSum]
  | succ n ih => rw [List.replicate_succ, sizeSum_cons, ih]; simp [Nat.succ_mul]; omega

theorem sizeSum_leaves_spv (fl : Flags) (hf : fl.spvSubtreeAsSingleNode = false) (r : Nat) (hr : 1 ≤ r) (h s : HTerm) (c : List Nat) :
    sizeSum ((Entry.spv r h s c).leaves fl) = r * h.size := by
  simp only [Entry.leaves, hf]
  by_cases h1 : 1 < r
  · simp [h1, sizeSum_replicate]
  · have : r = 1 := by omega
    subst this; simp [sizeSum]

theorem light_leavesOf (fl : Flags) (hf : fl.spvSubtreeAsSingleNode = false) (l : List (Entry α)) :
    ∀ p ∈ leavesOf fl l, p.2 ≤ 1 := by
  intro p hp
  simp only [leavesOf, List.mem_flatMap] at hp
  obtain ⟨e, _, hp⟩ := hp
  cases e with
  | full t => simp [Entry.leaves] at hp; subst hp; simp
  | spv r h s c =>
    simp only [Entry.leaves, hf] at hp
    split at hp
    · simp [List.mem_replicate] at hp; rw [hp.2]; simp
    · simp at hp; subst hp; simp

/-- every merge strictly increases the number of atoms among the (expanded) leaves -/
theorem merge_grows (fl : Flags) (hf : fl.spvSubtreeAsSingleNode = false) (l : List (Entry HTerm))
    (hw : ∀ e ∈ l, 1 ≤ e.width) :
    sizeSum (leavesOf fl l) ≤ sizeSum (leavesOf fl (mergeLoop HTerm.node fl l)) ∧
    ((mergeLoop HTerm.node fl l).length < l.length →
      sizeSum (leavesOf fl l) < sizeSum (leavesOf fl (mergeLoop HTerm.node fl l))) := by
  induction l using mergeLoop_induct HTerm.node fl with
  | hnil => simp [mergeLoop_nil]
  | hone a => simp [mergeLoop_single]
  | hsib hs r h1 s1 c1 h2 s2 c2 rest ih =>
    simp only [List.mem_cons, forall_eq_or_imp, Entry.width] at hw
    obtain ⟨hr, _, hrest⟩ := hw
    have ih := (ih hrest).1
    rw [mergeLoop_sib HTerm.node fl hs]
    simp only [leavesOf_cons, sizeSum_append, sizeSum_leaves_spv fl hf r hr,
      sizeSum_leaves_spv fl hf (2 * r) (by omega), HTerm.size]
    have p1 := Nat.mul_pos hr (HTerm.size_pos h1)
    have p2 := Nat.mul_pos hr (HTerm.size_pos h2)
    have e : 2 * r * (h1.size + h2.size) = 2 * (r * h1.size) + 2 * (r * h2.size) := by
      rw [Nat.mul_assoc, Nat.mul_add, Nat.mul_add]
    rw [e]
    constructor
    · omega
    · intro _; omega
  | hpin hs r h1 s1 c1 h2 s2 c2 rest ih =>
    simp only [List.mem_cons, forall_eq_or_imp, Entry.width] at hw
    obtain ⟨hr, _, hrest⟩ := hw
    have ih := (ih (by
      simp only [List.mem_cons, forall_eq_or_imp, Entry.width]
      exact ⟨by omega, hrest⟩)).1
    rw [mergeLoop_pin HTerm.node fl hs]
    simp only [leavesOf_cons, sizeSum_append, sizeSum_leaves_spv fl hf r hr,
      sizeSum_leaves_spv fl hf (2 * r) (by omega), HTerm.size] at ih ⊢
    have p1 := Nat.mul_pos hr (HTerm.size_pos h1)
    have p2 := Nat.mul_pos hr (HTerm.size_pos h2)
    have e : 2 * r * (h1.size + h2.size) = 2 * (r * h1.size) + 2 * (r * h2.size) := by
      rw [Nat.mul_assoc, Nat.mul_add, Nat.mul_add]
    rw [e] at ih
    constructor
    · omega
    · intro _; omega
  | hskip a b rest hm ih =>
    simp only [List.mem_cons, forall_eq_or_imp] at hw
    have ih := ih hw.2.2
    rw [mergeLoop_skip HTerm.node fl a b rest hm]
    simp only [leavesOf_cons, sizeSum_append, List.length_cons]
    constructor
    · omega
    · intro hlt
      have := ih.2 (by omega)
      omega

theorem prune_width (fl : Flags) (keep : Tx α → Bool) (txs : List (Tx α)) : ∀ e ∈ prune fl keep txs, 1 ≤ e.width := by
  intro e he
  simp only [prune, List.mem_map] at he
  obtain ⟨t, _, rfl⟩ := he
  cases keep t <;> simp [Entry.width, placeholder]

/-! ### invariant 2: signature prefixes -/

def anySig (l : List (HTerm × Nat)) : Bool := l.any fun p => p.1.hasSig

theorem anySig_cons (p : HTerm × Nat) (l : List (HTerm × Nat)) : anySig (p :: l) = (p.1.hasSig || anySig l) := by
  simp [anySig]

theorem anySig_append (l m : List (HTerm × Nat)) : anySig (l ++ m) = (anySig l || anySig m) := by
  simp [anySig]

theorem anySig_levelUp : ∀ (l : List (HTerm × Nat)), anySig (levelUp HTerm.node l) = anySig l
  | [] => rfl
  | [(a, w)] => by simp [levelUp, anySig]
  | (a, w) :: (b, v) :: rest => by
    have ih1 := anySig_levelUp ((b, v) :: rest)
    have ih2 := anySig_levelUp rest
    simp only [levelUp]
    split
    · simp only [anySig_cons, ih1]
    · split
      · simp only [anySig_cons, ih1]
      · simp only [anySig_cons, ih2, HTerm.hasSig, Bool.or_assoc]

theorem anySig_iter (n : Nat) : ∀ (l : List (HTerm × Nat)), anySig (iter (levelUp HTerm.node) n l) = anySig l := by
  induction n with
  | zero => intro l; rfl
  | succ n ih => intro l; rw [iter_succ, ih, anySig_levelUp]

theorem root_hasSig (l : List (HTerm × Nat)) (hl : ∀ p ∈ l, p.2 ≤ 1) (t : HTerm) (h : rootW HTerm.node l = some t) :
    t.hasSig = anySig l := by
  have hne : l ≠ [] := by rintro rfl; simp [rootW, totalWeight, iter] at h
  obtain ⟨a, w, hi, hr⟩ := rootW_light HTerm.node l hl hne
  rw [hr] at h
  cases h
  have := anySig_iter (totalWeight l) l
  rw [hi] at this
  simpa [anySig] using this

/-- every placeholder's signature prefix is a signature atom -/
def sigInv (l : List (Entry HTerm)) : Prop := ∀ e ∈ l, ∀ r h s c, e = .spv r h s c → s.hasSig = true

theorem mergeLoop_sigInv (fl : Flags) (hc : fl.spvPlaceholderCarriesHash = false) (l : List (Entry HTerm))
    (h : sigInv l) : sigInv (mergeLoop HTerm.node fl l) := by
  induction l using mergeLoop_induct HTerm.node fl with
  | hnil => simpa [mergeLoop_nil] using h
  | hone a => simpa [mergeLoop_single] using h
  | hsib hs r h1 s1 c1 h2 s2 c2 rest ih =>
    rw [mergeLoop_sib HTerm.node fl hs]
    intro e he
    simp only [List.mem_cons] at he
    rcases he with rfl | he
    · intro r' h' s' c' heq
      cases heq
      simp only [hc]
      exact h (.spv r h1 s1 c1) (by simp) r h1 s1 c1 rfl
    · exact ih (fun e he => h e (by simp [he])) e he
  | hpin hs r h1 s1 c1 h2 s2 c2 rest ih =>
    rw [mergeLoop_pin HTerm.node fl hs]
    apply ih
    intro e he
    simp only [List.mem_cons] at he
    rcases he with rfl | he
    · intro r' h' s' c' heq
      cases heq
      simp only [hc]
      exact h (.spv r h1 s1 c1) (by simp) r h1 s1 c1 rfl
    · exact h e (by simp [he])
  | hskip a b rest hm ih =>
    rw [mergeLoop_skip HTerm.node fl a b rest hm]
    intro e he
    simp only [List.mem_cons] at he
    rcases he with rfl | rfl | he
    · exact h _ (by simp)
    · exact h _ (by simp)
    · exact ih (fun e he => h e (by simp [he])) e he

theorem prune_sigInv (fl : Flags) (hc : fl.spvPlaceholderCarriesHash = false) (keep : Tx HTerm → Bool)
    (txs : List (Tx HTerm)) (hs : ∀ t ∈ txs, t.sigPre.hasSig = true) :
    sigInv (prune fl keep txs) := by
  intro e he r h s c heq
  simp only [prune, List.mem_map] at he
  obtain ⟨t, ht, rfl⟩ := he
  cases hk : keep t <;> simp [hk, placeholder, hc] at heq
  obtain ⟨_, _, rfl, _⟩ := heq
  exact hs t ht

/-- after the wire a placeholder contributes leaves that carry its signature prefix -/
theorem anySig_wire (fl : Flags) (hf : fl.spvSubtreeAsSingleNode = false)
    (l : List (Entry HTerm)) (hi : sigInv l) (hs : l.any Entry.isSpv = true) :
    anySig (leavesOf fl (wireEntries l)) = true := by
  induction l with
  | nil => simp at hs
  | cons e l ih =>
    simp only [wireEntries, List.map_cons, leavesOf_cons, anySig_append, Bool.or_eq_true]
    cases e with
    | full t =>
      right
      simp only [List.any_cons, Entry.isSpv, Bool.false_or] at hs
      exact ih (fun e he => hi e (by simp [he])) hs
    | spv r h s c =>
      left
      have hsig : s.hasSig = true := hi (.spv r h s c) (by simp) r h s c rfl
      have hw : wireEntry (.spv r h s c) = .spv r s s c := rfl
      rw [hw]
      by_cases h1 : 1 < r
      · obtain ⟨k, rfl⟩ : ∃ k, r = k + 1 := ⟨r - 1, by omega⟩
        simp [Entry.leaves, hf, h1, List.replicate_succ, anySig, hsig]
      · simp [Entry.leaves, h1, anySig, hsig]

theorem anySig_full (fl : Flags) (txs : List (Tx HTerm)) (hh : ∀ t ∈ txs, t.hash.hasSig = false) :
    anySig (leavesOf fl (fullEntries txs)) = false := by
  rw [leaves_full]
  simp only [anySig, List.any_map, List.any_eq_false]
  intro t ht
  simp [hh t ht]

theorem wireEntries_full (txs : List (Tx α)) : wireEntries (fullEntries txs) = fullEntries txs := by
  simp [wireEntries, fullEntries, wireEntry]

/-- every placeholder's signature prefix is its hash (what the repaired `generate_lite_block` establishes) -/
def sigIsHash (l : List (Entry α)) : Prop := ∀ e ∈ l, ∀ r h s c, e = .spv r h s c → s = h

theorem wireEntries_id (l : List (Entry α)) (h : sigIsHash l) : wireEntries l = l := by
  induction l with
  | nil => rfl
  | cons e l ih =>
    simp only [wireEntries, List.map_cons] at ih ⊢
    rw [ih (fun e he => h e (by simp [he]))]
    cases e with
    | full t => rfl
    | spv r hh s c =>
      have := h (.spv r hh s c) (by simp) r hh s c rfl
      subst this; rfl

theorem mergeLoop_sigIsHash (H : α → α → α) (fl : Flags) (hc : fl.spvPlaceholderCarriesHash = true)
    (l : List (Entry α)) (h : sigIsHash l) : sigIsHash (mergeLoop H fl l) := by
  induction l using mergeLoop_induct H fl with
  | hnil => simpa [mergeLoop_nil] using h
  | hone a => simpa [mergeLoop_single] using h
  | hsib hs r h1 s1 c1 h2 s2 c2 rest ih =>
    rw [mergeLoop_sib H fl hs]
    intro e he
    simp only [List.mem_cons] at he
    rcases he with rfl | he
    · intro r' h' s' c' heq
      cases heq
      simp [hc]
    · exact ih (fun e he => h e (by simp [he])) e he
  | hpin hs r h1 s1 c1 h2 s2 c2 rest ih =>
    rw [mergeLoop_pin H fl hs]
    apply ih
    intro e he
    simp only [List.mem_cons] at he
    rcases he with rfl | he
    · intro r' h' s' c' heq
      cases heq
      simp [hc]
    · exact h e (by simp [he])
  | hskip a b rest hm ih =>
    rw [mergeLoop_skip H fl a b rest hm]
    intro e he
    simp only [List.mem_cons] at he
    rcases he with rfl | rfl | he
    · exact h _ (by simp)
    · exact h _ (by simp)
    · exact ih (fun e he => h e (by simp [he])) e he

theorem prune_sigIsHash (fl : Flags) (hc : fl.spvPlaceholderCarriesHash = true) (keep : Tx α → Bool)
    (txs : List (Tx α)) : sigIsHash (prune fl keep txs) := by
  intro e he r h s c heq
  simp only [prune, List.mem_map] at he
  obtain ⟨t, _, rfl⟩ := he
  cases hk : keep t <;> simp [hk, placeholder, hc] at heq
  obtain ⟨_, rfl, rfl, _⟩ := heq
  rfl

end Saito.Merkle
