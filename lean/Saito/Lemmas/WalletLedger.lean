import Saito.Lemmas.WalletTx
import Saito.Lemmas.Utxo
/-! C19 helper lemmas, part 3: on wind-only histories the wallet's slip map is the ledger (`Saito.Chain.windU`)
    restricted to the wallet's key. -/
namespace Saito.Wallet
open Saito.Chain

/-- the wallet knows a slip with this key -/
def K (w : W) (k : UKey) : Prop := ∃ ws ∈ w.slips, ws.key = k

theorem K_addSlip (w w' : W) (b t : Nat) (s : UKey) (lc : Bool) (h : addSlip w b t s lc = some w') (k : UKey) :
    K w' k ↔ k = s ∨ K w k := by
  unfold addSlip at h
  split at h
  · rename_i ws hf
    cases h
    obtain ⟨hm, hk⟩ := findSlip_some _ _ _ hf
    constructor
    · intro hK; exact Or.inr hK
    · rintro (rfl | hK)
      · exact ⟨ws, hm, hk⟩
      · exact hK
  · have hcons : ∀ ws0 : WSlip, ws0.key = s → ((∃ ws ∈ ws0 :: w.slips, ws.key = k) ↔ k = s ∨ K w k) := by
      intro ws0 h0
      constructor
      · rintro ⟨ws, hws, hk⟩
        cases hws with
        | head => left; rw [← hk, h0]
        | tail _ hws => right; exact ⟨ws, hws, hk⟩
      · rintro (rfl | ⟨ws, hws, hk⟩)
        · exact ⟨ws0, List.mem_cons_self, h0⟩
        · exact ⟨ws, List.mem_cons_of_mem _ hws, hk⟩
    split at h
    · cases h
    · split at h
      · cases h; exact hcons _ rfl
      · split at h
        · cases h; exact hcons _ rfl
        · split at h
          · cases h
          · cases h; exact hcons _ rfl

theorem K_deleteSlip (w w' : W) (s : UKey) (h : deleteSlip w s = some w') (k : UKey) :
    K w' k ↔ K w k ∧ k ≠ s := by
  have hdrop : (∃ ws ∈ dropSlip w.slips s, ws.key = k) ↔ K w k ∧ k ≠ s := by
    constructor
    · rintro ⟨ws, hws, hk⟩
      have := (mem_dropSlip _ _ _).1 hws
      exact ⟨⟨ws, this.1, hk⟩, by rw [← hk]; exact this.2⟩
    · rintro ⟨⟨ws, hws, hk⟩, hne⟩
      exact ⟨ws, (mem_dropSlip _ _ _).2 ⟨hws, by rw [hk]; exact hne⟩, hk⟩
  unfold deleteSlip at h
  split at h
  · rename_i hnone
    cases h
    have hfresh := (findSlip_none _ _).1 hnone
    constructor
    · rintro ⟨ws, hws, hk⟩
      exact ⟨⟨ws, hws, hk⟩, by rw [← hk]; exact hfresh ws hws⟩
    · exact fun h => h.1
  · split at h
    · split at h
      · cases h
      · cases h; exact hdrop
    · cases h; exact hdrop

theorem K_deleteSlips (ks : List UKey) (w w' : W) (h : deleteSlips w ks = some w') (k : UKey) :
    K w' k ↔ K w k ∧ k ∉ ks := by
  induction ks generalizing w with
  | nil => simp [deleteSlips] at h; subst h; simp
  | cons a ks ih =>
    simp only [deleteSlips, Option.bind_eq_some_iff] at h
    obtain ⟨w1, h1, h2⟩ := h
    rw [ih w1 h2, K_deleteSlip _ _ _ h1]
    simp only [List.mem_cons, not_or]
    constructor
    · rintro ⟨⟨a1, a2⟩, a3⟩; exact ⟨a1, a2, a3⟩
    · rintro ⟨a1, a2, a3⟩; exact ⟨⟨a1, a2⟩, a3⟩

theorem K_congr (w v : W) (h : v.slips = w.slips) (k : UKey) : K v k ↔ K w k := by unfold K; rw [h]

/-- no slip of type Bound: the NFT triple detection never fires -/
def NoBound (l : List UKey) : Prop := ∀ a ∈ l, a.typ ≠ tBound

theorem isNftHead_false (a : UKey) (rest : List UKey) (h : a.typ ≠ tBound) : isNftHead (a :: rest) = false := by
  match rest with
  | [] => rfl
  | [_] => rfl
  | b :: c :: _ => simp [isNftHead, h]

def myOut (l : List UKey) (k : UKey) : Prop := k ∈ l ∧ k.amount > 0 ∧ k.owner = 0

theorem K_windOuts (b t : Nat) (l : List UKey) (w w' : W) (hnb : NoBound l) (h : windOuts b t w 0 l = some w')
    (k : UKey) : K w' k ↔ K w k ∨ myOut l k := by
  induction l generalizing w with
  | nil => simp [windOuts] at h; subst h; simp [myOut]
  | cons a rest ih =>
    have hnb' : NoBound rest := fun x hx => hnb x (List.mem_cons_of_mem _ hx)
    simp only [windOuts, isNftHead_false a rest (hnb a List.mem_cons_self), Bool.false_eq_true, ↓reduceIte] at h
    split at h
    · rename_i hc
      simp only [Bool.and_eq_true, beq_iff_eq, decide_eq_true_eq] at hc
      simp only [Option.bind_eq_some_iff] at h
      obtain ⟨w1, h1, h2⟩ := h
      rw [ih w1 hnb' h2, K_addSlip _ _ _ _ _ _ h1, K_congr (setChg w) w rfl]
      unfold myOut
      constructor
      · rintro ((rfl | hK) | ⟨hm, hr⟩)
        · exact Or.inr ⟨List.mem_cons_self, hc.1, hc.2⟩
        · exact Or.inl hK
        · exact Or.inr ⟨List.mem_cons_of_mem _ hm, hr⟩
      · rintro (hK | ⟨hm, hr⟩)
        · exact Or.inl (Or.inr hK)
        · cases hm with
          | head => exact Or.inl (Or.inl rfl)
          | tail _ hm => exact Or.inr ⟨hm, hr⟩
    · rename_i hc
      simp only [Bool.and_eq_true, beq_iff_eq, decide_eq_true_eq, not_and] at hc
      rw [ih w hnb' h]
      unfold myOut
      constructor
      · rintro (hK | ⟨hm, hr⟩)
        · exact Or.inl hK
        · exact Or.inr ⟨List.mem_cons_of_mem _ hm, hr⟩
      · rintro (hK | ⟨hm, hr⟩)
        · exact Or.inl hK
        · cases hm with
          | head => exact absurd hr.2 (hc hr.1)
          | tail _ hm => exact Or.inr ⟨hm, hr⟩

theorem K_delPending (w : W) (i : Nat) (k : UKey) : K (delPending w i) k ↔ K w k := by
  unfold delPending; split <;> exact K_congr _ _ rfl k

theorem K_windIns (txId : Nat) (third : Option UKey) (l : List UKey) (w w' : W) (pos : Nat) (hnb : NoBound l)
    (h : windIns txId third w pos 0 l = some w') (k : UKey) : K w' k ↔ K w k ∧ ¬ myOut l k := by
  induction l generalizing w pos with
  | nil => simp [windIns] at h; subst h; simp [myOut]
  | cons a rest ih =>
    have hnb' : NoBound rest := fun x hx => hnb x (List.mem_cons_of_mem _ hx)
    simp only [windIns, isNftHead_false a rest (hnb a List.mem_cons_self), Bool.false_eq_true, ↓reduceIte] at h
    split at h
    · rename_i hown
      simp only [beq_iff_eq] at hown
      simp only [Option.bind_eq_some_iff] at h
      obtain ⟨w1, h1, h2⟩ := h
      rw [ih _ _ hnb' h2, K_delPending]
      split at h1
      · rename_i hamt
        rw [K_deleteSlip _ _ _ h1, K_congr (setChg w) w rfl]
        unfold myOut
        constructor
        · rintro ⟨⟨hK, hne⟩, hno⟩
          refine ⟨hK, ?_⟩
          rintro ⟨hm, hr⟩
          cases hm with
          | head => exact hne rfl
          | tail _ hm => exact hno ⟨hm, hr⟩
        · rintro ⟨hK, hno⟩
          refine ⟨⟨hK, ?_⟩, fun ⟨hm, hr⟩ => hno ⟨List.mem_cons_of_mem _ hm, hr⟩⟩
          rintro rfl
          exact hno ⟨List.mem_cons_self, hamt, hown⟩
      · rename_i hamt
        cases h1
        unfold myOut
        constructor
        · rintro ⟨hK, hno⟩
          refine ⟨hK, ?_⟩
          rintro ⟨hm, hr⟩
          cases hm with
          | head => exact hamt hr.1
          | tail _ hm => exact hno ⟨hm, hr⟩
        · rintro ⟨hK, hno⟩
          exact ⟨hK, fun ⟨hm, hr⟩ => hno ⟨List.mem_cons_of_mem _ hm, hr⟩⟩
    · rename_i hown
      simp only [beq_iff_eq] at hown
      rw [ih _ _ hnb' h]
      unfold myOut
      constructor
      · rintro ⟨hK, hno⟩
        refine ⟨hK, ?_⟩
        rintro ⟨hm, hr⟩
        cases hm with
        | head => exact hown hr.2
        | tail _ hm => exact hno ⟨hm, hr⟩
      · rintro ⟨hK, hno⟩
        exact ⟨hK, fun ⟨hm, hr⟩ => hno ⟨List.mem_cons_of_mem _ hm, hr⟩⟩

theorem K_windTx (b gp t : Nat) (w w' : W) (tx : Tx) (hwin : b ≤ gp) (hnb : NoBound tx.to) (hnb' : NoBound tx.frm)
    (h : windTx b gp t w tx = some w') (k : UKey) : K w' k ↔ (K w k ∨ myOut tx.to k) ∧ ¬ myOut tx.frm k := by
  simp only [windTx, Option.bind_eq_some_iff] at h
  obtain ⟨w1, h1, w2, h2, h3⟩ := h
  rw [if_neg (by omega)] at h3
  cases h3
  rw [K_windIns _ _ _ _ _ _ hnb' h2, K_windOuts _ _ _ _ _ hnb h1]

def blockOut (txs : List Tx) (k : UKey) : Prop := ∃ tx ∈ txs, myOut tx.to k
def blockIn (txs : List Tx) (k : UKey) : Prop := ∃ tx ∈ txs, myOut tx.frm k

theorem K_windTxs (b gp : Nat) (txs : List Tx) (w w' : W) (i : Nat) (hwin : b ≤ gp)
    (hnb : ∀ tx ∈ txs, NoBound tx.to ∧ NoBound tx.frm) (h : windTxs b gp w i txs = some w') (k : UKey)
    (hdisj : blockOut txs k → ¬ blockIn txs k) : K w' k ↔ (K w k ∨ blockOut txs k) ∧ ¬ blockIn txs k := by
  induction txs generalizing w i with
  | nil => simp [windTxs] at h; subst h; simp [blockOut, blockIn]
  | cons tx rest ih =>
    simp only [windTxs, Option.bind_eq_some_iff] at h
    obtain ⟨w1, h1, h2⟩ := h
    have hn := hnb tx List.mem_cons_self
    have hd' : blockOut rest k → ¬ blockIn rest k := by
      rintro ⟨t1, ht1, ho⟩ ⟨t2, ht2, hi⟩
      exact hdisj ⟨t1, List.mem_cons_of_mem _ ht1, ho⟩ ⟨t2, List.mem_cons_of_mem _ ht2, hi⟩
    rw [ih w1 _ (fun t ht => hnb t (List.mem_cons_of_mem _ ht)) h2 hd', K_windTx _ _ _ _ _ _ hwin hn.1 hn.2 h1]
    have ho : blockOut (tx :: rest) k ↔ myOut tx.to k ∨ blockOut rest k := by simp [blockOut]
    have hi : blockIn (tx :: rest) k ↔ myOut tx.frm k ∨ blockIn rest k := by simp [blockIn]
    rw [ho, hi]
    rw [ho, hi] at hdisj
    constructor
    · rintro ⟨(⟨hK | hO, hI⟩ | hO), hIr⟩
      · exact ⟨Or.inl hK, fun hc => hc.elim hI hIr⟩
      · exact ⟨Or.inr (Or.inl hO), fun hc => hc.elim hI hIr⟩
      · exact ⟨Or.inr (Or.inr hO), hdisj (Or.inr hO)⟩
    · rintro ⟨hK | hO | hO, hI⟩
      · exact ⟨Or.inl ⟨Or.inl hK, fun hc => hI (Or.inl hc)⟩, fun hc => hI (Or.inr hc)⟩
      · exact ⟨Or.inl ⟨Or.inr hO, fun hc => hI (Or.inl hc)⟩, fun hc => hI (Or.inr hc)⟩
      · exact ⟨Or.inr hO, fun hc => hI (Or.inr hc)⟩

/-! ### the ledger side -/
def allOuts (b : Block) : List UKey := b.txs.flatMap (·.to)
def allIns (b : Block) : List UKey := b.txs.flatMap (·.frm)

/-- a wallet-level block as a block of the C03 ledger model: value-carrying inputs / outputs, keys encoded by `enc` -/
def toA (enc : UKey → Nat) (b : Block) : ABlock :=
  { hash := 0, prev := 0, id := b.id, burnfee := 0, hasGT := false, ok := true,
    ins := ((allIns b).filter (·.amount > 0)).map enc, outs := ((allOuts b).filter (·.amount > 0)).map enc }

theorem mem_enc (enc : UKey → Nat) (hinj : ∀ a b, enc a = enc b → a = b) (l : List UKey) (k : UKey) :
    enc k ∈ (l.filter (·.amount > 0)).map enc ↔ k ∈ l ∧ k.amount > 0 := by
  simp only [List.mem_map, List.mem_filter, decide_eq_true_eq]
  constructor
  · rintro ⟨a, ha, he⟩
    have := hinj _ _ he; subst this; exact ha
  · intro h; exact ⟨k, h, rfl⟩

theorem blockOut_iff (b : Block) (k : UKey) : blockOut b.txs k ↔ k ∈ allOuts b ∧ k.amount > 0 ∧ k.owner = 0 := by
  simp only [blockOut, myOut, allOuts, List.mem_flatMap]
  constructor
  · rintro ⟨tx, ht, hm, hr⟩; exact ⟨⟨tx, ht, hm⟩, hr⟩
  · rintro ⟨⟨tx, ht, hm⟩, hr⟩; exact ⟨tx, ht, hm, hr⟩

theorem blockIn_iff (b : Block) (k : UKey) : blockIn b.txs k ↔ k ∈ allIns b ∧ k.amount > 0 ∧ k.owner = 0 := by
  simp only [blockIn, myOut, allIns, List.mem_flatMap]
  constructor
  · rintro ⟨tx, ht, hm, hr⟩; exact ⟨⟨tx, ht, hm⟩, hr⟩
  · rintro ⟨⟨tx, ht, hm⟩, hr⟩; exact ⟨tx, ht, hm, hr⟩

/-- the slip map mirrors the ledger: a key is known iff it is spendable in the ledger, ours, and carries value -/
def Mirror (enc : UKey → Nat) (w : W) (u : List Nat) : Prop :=
  ∀ k, K w k ↔ (enc k ∈ u ∧ k.owner = 0 ∧ k.amount > 0)

def NoBoundBlock (b : Block) : Prop := ∀ tx ∈ b.txs, NoBound tx.to ∧ NoBound tx.frm

theorem mirror_wind (enc : UKey → Nat) (hinj : ∀ a b, enc a = enc b → a = b) (fl : Flags) (w w' : W) (u : List Nat)
    (b : Block) (gp : Nat) (hm : Mirror enc w u) (hwin : b.id ≤ gp) (hnb : NoBoundBlock b)
    (hclean : CleanAt (toA enc b) u) (h : onChainReorg fl w b true gp = some w') :
    Mirror enc w' (windU (toA enc b) u) := by
  intro k
  simp only [onChainReorg, ↓reduceIte] at h
  have hO := mem_enc enc hinj (allOuts b) k
  have hI := mem_enc enc hinj (allIns b) k
  have hdisj : blockOut b.txs k → ¬ blockIn b.txs k := by
    rw [blockOut_iff, blockIn_iff]
    rintro ⟨ho, ha, _⟩ ⟨hi, _, _⟩
    exact hclean.2.2 (enc k) (hO.2 ⟨ho, ha⟩) (hI.2 ⟨hi, ha⟩)
  have hkc : K { w with chg := false } k ↔ K w k := Iff.rfl
  rw [K_windTxs _ _ _ _ _ _ hwin hnb h k hdisj, hkc, hm k, mem_windU, blockOut_iff, blockIn_iff]
  show _ ↔ (enc k ∈ ((allOuts b).filter (·.amount > 0)).map enc ∨
    (enc k ∈ u ∧ enc k ∉ ((allIns b).filter (·.amount > 0)).map enc)) ∧ _
  rw [hO, hI]
  constructor
  · rintro ⟨(⟨hu, ho, ha⟩ | ⟨hm, ha, ho⟩), hni⟩
    · exact ⟨Or.inr ⟨hu, fun hc => hni ⟨hc.1, ha, ho⟩⟩, ho, ha⟩
    · exact ⟨Or.inl ⟨hm, ha⟩, ho, ha⟩
  · rintro ⟨(⟨hm, _⟩ | ⟨hu, hni⟩), ho, ha⟩
    · refine ⟨Or.inr ⟨hm, ha, ho⟩, ?_⟩
      rintro ⟨hi, _, _⟩
      exact hclean.2.2 (enc k) (hO.2 ⟨hm, ha⟩) (hI.2 ⟨hi, ha⟩)
    · exact ⟨Or.inl ⟨hu, ho, ha⟩, fun hc => hni ⟨hc.1, ha⟩⟩

theorem K_generateSlips (w w' : W) (r l g : Nat) (o i out : List UKey)
    (h : generateSlips w r l g o = some (w', i, out)) (k : UKey) : K w' k ↔ K w k := by
  unfold generateSlips at h
  split at h
  · split at h
    · cases h; rfl
    · cases h
  · split at h
    · cases h
    · split at h
      · cases h
      · cases h
        show (∃ ws ∈ markSpent w.slips _, ws.key = k) ↔ _
        constructor
        · rintro ⟨x, hx, hxk⟩
          obtain ⟨ws, hws, hkk, _⟩ := mem_markSpent _ _ _ hx
          exact ⟨ws, hws, by rw [← hkk]; exact hxk⟩
        · rintro ⟨ws, hws, hkk⟩
          rename_i p _ _
          have : k ∈ (markSpent w.slips (p.chosen.map WSlip.key)).map WSlip.key := by
            rw [markSpent_keys]; exact List.mem_map.2 ⟨ws, hws, hkk⟩
          obtain ⟨x, hx, hxk⟩ := List.mem_map.1 this
          exact ⟨x, hx, hxk⟩

/-! ### linear histories -/

/-- operations of a reorganisation-free history inside the window: blocks are wound (never unwound, deleted or
    expired: every block id is at most `gp`), no Bound slips, and the wallet builds transactions at any time -/
def LinearOp (gp : Nat) : Op → Prop
  | .reorg b lc g => lc = true ∧ g = gp ∧ b.id ≤ gp ∧ NoBoundBlock b
  | .generate .. => True
  | .create .. => True
  | .pend _ => True
  | _ => False

/-- the ledger (C03 model) after the same history: every wound block is wound onto the spendable set -/
def ledgerStep (enc : UKey → Nat) (u : List Nat) : Op → List Nat
  | .reorg b true _ => windU (toA enc b) u
  | _ => u

def ledger (enc : UKey → Nat) (u : List Nat) (ops : List Op) : List Nat := ops.foldl (ledgerStep enc) u

/-- every wound block only spends spendable outputs and creates fresh ones at its turn (what ledger validation and
    uniqueness of utxo keys give on the longest chain) -/
def CleanOp (enc : UKey → Nat) (u : List Nat) : Op → Prop
  | .reorg b true _ => CleanAt (toA enc b) u
  | _ => True

def CleanOps (enc : UKey → Nat) : List Nat → List Op → Prop
  | _, [] => True
  | u, op :: rest => CleanOp enc u op ∧ CleanOps enc (ledgerStep enc u op) rest

theorem mirror_step (enc : UKey → Nat) (hinj : ∀ a b, enc a = enc b → a = b) (fl : Flags) (gp : Nat) (w w' : W)
    (u : List Nat) (op : Op) (hm : Mirror enc w u) (hl : LinearOp gp op)
    (hc : CleanOp enc u op)
    (h : step fl w op = some w') : Mirror enc w' (ledgerStep enc u op) := by
  cases op with
  | addSlip b t s => exact absurd hl (by simp [LinearOp])
  | deleteSlip s => exact absurd hl (by simp [LinearOp])
  | deleteBlock b => exact absurd hl (by simp [LinearOp])
  | removeOld b => exact absurd hl (by simp [LinearOp])
  | reorg b lc g =>
    obtain ⟨rfl, rfl, hwin, hnb⟩ := hl
    exact mirror_wind enc hinj fl w w' u b g hm hwin hnb hc h
  | generate r l g o =>
    simp only [step, Option.map_eq_some_iff] at h
    obtain ⟨⟨w1, ins, outs⟩, h1, h2⟩ := h
    cases h2
    intro k
    rw [K_generateSlips _ _ _ _ _ _ _ _ h1 k]; exact hm k
  | create ks ps fee l g o =>
    simp only [step] at h
    split at h
    · rename_i hcr
      cases h
      obtain ⟨total, _, _, _, h1 | h1⟩ := createTx_tx _ _ _ _ _ _ _ _ _ _ _ hcr
      · obtain ⟨_, rfl, _, _⟩ := h1; exact hm
      · obtain ⟨_, go, hg, _, _⟩ := h1
        intro k
        rw [K_generateSlips _ _ _ _ _ _ _ _ hg k]; exact hm k
    · cases h; exact hm
    · cases h
  | pend i => cases h; intro k; exact hm k

theorem mirror_run (enc : UKey → Nat) (hinj : ∀ a b, enc a = enc b → a = b) (fl : Flags) (gp : Nat) (ops : List Op)
    (w w' : W) (u : List Nat) (hm : Mirror enc w u) (hl : ∀ op ∈ ops, LinearOp gp op) (hc : CleanOps enc u ops)
    (h : run fl w ops = some w') : Mirror enc w' (ledger enc u ops) := by
  induction ops generalizing w u with
  | nil => simp [run] at h; subst h; exact hm
  | cons op ops ih =>
    simp only [run, Option.bind_eq_some_iff] at h
    obtain ⟨w1, h1, h2⟩ := h
    obtain ⟨hc1, hc2⟩ := hc
    exact ih w1 _ (mirror_step enc hinj fl gp w w1 u op hm (hl op List.mem_cons_self) hc1 h1)
      (fun o ho => hl o (List.mem_cons_of_mem _ ho)) hc2 h2

theorem key_unique (l : List WSlip) (hn : (l.map (·.key)).Nodup) (a b : WSlip) (ha : a ∈ l) (hb : b ∈ l)
    (hk : a.key = b.key) : a = b := by
  induction l with
  | nil => cases ha
  | cons x l ih =>
    simp only [List.map_cons, List.nodup_cons] at hn
    cases ha with
    | head =>
      cases hb with
      | head => rfl
      | tail _ hb => exact absurd (List.mem_map.2 ⟨b, hb, hk.symm⟩) hn.1
    | tail _ ha =>
      cases hb with
      | head => exact absurd (List.mem_map.2 ⟨a, ha, hk⟩) hn.1
      | tail _ hb => exact ih hn.2 ha hb

/-- not marked spent = known and not committed -/
theorem unspentflag_iff (w : W) (hw : WInv w) (k : UKey) :
    (∃ ws ∈ w.slips, ws.key = k ∧ ws.spent = false) ↔ K w k ∧ k ∉ committed w := by
  unfold committed K
  constructor
  · rintro ⟨ws, hws, hk, hs⟩
    refine ⟨⟨ws, hws, hk⟩, ?_⟩
    intro hc
    obtain ⟨x, hx, hxk⟩ := List.mem_map.1 hc
    have hx' := List.mem_filter.1 hx
    have := key_unique _ hw.nodupS x ws hx'.1 hws (by rw [hxk, hk])
    subst this
    rw [hs] at hx'; exact absurd hx'.2 (by simp)
  · rintro ⟨⟨ws, hws, hk⟩, hnc⟩
    refine ⟨ws, hws, hk, ?_⟩
    cases hsp : ws.spent with
    | false => rfl
    | true => exact absurd (List.mem_map.2 ⟨ws, List.mem_filter.2 ⟨hws, hsp⟩, hk⟩) hnc

/-! ### linear histories that run past the window: expiry (`remove_old_slips`) -/

theorem K_removeOld (w w' : W) (b : Nat) (hc : Coord w) (h : removeOldSlips w b = some w') (k : UKey) :
    K w' k ↔ K w k ∧ ¬ k.bid < b := by
  unfold removeOldSlips at h
  rw [K_deleteSlips _ _ _ h k]
  constructor
  · rintro ⟨hK, hn⟩
    refine ⟨hK, fun hlt => hn ?_⟩
    obtain ⟨ws, hws, hk⟩ := hK
    refine List.mem_map.2 ⟨ws, List.mem_filter.2 ⟨hws, ?_⟩, hk⟩
    have := hc ws hws
    have hb : ws.blockId = ws.key.bid := by rw [← this]; rfl
    simp only [decide_eq_true_eq]; rw [hb, hk]; exact hlt
  · rintro ⟨hK, hn⟩
    refine ⟨hK, fun hm => hn ?_⟩
    obtain ⟨ws, hws, hk⟩ := List.mem_map.1 hm
    have hws' := List.mem_filter.1 hws
    have := hc ws hws'.1
    have hb : ws.blockId = ws.key.bid := by rw [← this]; rfl
    have hlt := hws'.2
    simp only [decide_eq_true_eq] at hlt
    rw [← hk, ← hb]; exact hlt

theorem K_windTxW (b gp t : Nat) (w w' : W) (tx : Tx) (hc : Coord w) (hnb : NoBound tx.to) (hnb' : NoBound tx.frm)
    (hwf : ∀ a ∈ tx.to, a.owner = 0 → CoordA b t a) (h : windTx b gp t w tx = some w') :
    Coord w' ∧ ∀ k, K w' k ↔ ((K w k ∨ myOut tx.to k) ∧ ¬ myOut tx.frm k) ∧ b ≤ k.bid + gp := by
  have hcw' : Coord w' := windTx_cl Coord_closed b gp t w w' tx hc hwf h
  refine ⟨hcw', fun k => ?_⟩
  simp only [windTx, Option.bind_eq_some_iff] at h
  obtain ⟨w1, h1, w2, h2, h3⟩ := h
  have hc1 := windOuts_cl Coord_closed _ _ _ _ _ _ hc hwf h1
  have hc2 := windIns_cl Coord_closed _ _ _ _ _ _ _ hc1 h2
  have hk2 : K w2 k ↔ (K w k ∨ myOut tx.to k) ∧ ¬ myOut tx.frm k := by
    rw [K_windIns _ _ _ _ _ _ hnb' h2, K_windOuts _ _ _ _ _ hnb h1]
  split at h3
  · rename_i hgt
    rw [K_removeOld _ _ _ hc2 h3 k, hk2]
    constructor
    · rintro ⟨h, hn⟩; exact ⟨h, by omega⟩
    · rintro ⟨h, hn⟩; exact ⟨h, by omega⟩
  · rename_i hle
    cases h3
    rw [hk2]
    constructor
    · intro h; exact ⟨h, by omega⟩
    · exact fun h => h.1

theorem K_windTxsW (b gp : Nat) (txs : List Tx) (w w' : W) (i : Nat) (hc : Coord w)
    (hnb : ∀ tx ∈ txs, NoBound tx.to ∧ NoBound tx.frm)
    (hwf : ∀ j tx, txs[j]? = some tx → ∀ a ∈ tx.to, a.owner = 0 → CoordA b (i + j) a)
    (h : windTxs b gp w i txs = some w') :
    Coord w' ∧ ∀ k, (blockOut txs k → ¬ blockIn txs k) →
      (K w' k ↔ ((K w k ∨ blockOut txs k) ∧ ¬ blockIn txs k) ∧ (txs ≠ [] → b ≤ k.bid + gp)) := by
  induction txs generalizing w i with
  | nil => simp [windTxs] at h; subst h; exact ⟨hc, fun k _ => by simp [blockOut, blockIn]⟩
  | cons tx rest ih =>
    simp only [windTxs, Option.bind_eq_some_iff] at h
    obtain ⟨w1, h1, h2⟩ := h
    have hn := hnb tx List.mem_cons_self
    have hwf0 : ∀ a ∈ tx.to, a.owner = 0 → CoordA b i a := by simpa using hwf 0 tx rfl
    obtain ⟨hc1, hk1⟩ := K_windTxW b gp i w w1 tx hc hn.1 hn.2 hwf0 h1
    have hwf' : ∀ j tx', rest[j]? = some tx' → ∀ a ∈ tx'.to, a.owner = 0 → CoordA b (i + 1 + j) a := by
      intro j tx' hj a ha ho
      have := hwf (j + 1) tx' (by simpa using hj) a ha ho
      rwa [show i + (j + 1) = i + 1 + j by omega] at this
    obtain ⟨hc', hk'⟩ := ih w1 (i + 1) hc1 (fun t ht => hnb t (List.mem_cons_of_mem _ ht)) hwf' h2
    refine ⟨hc', fun k hdisj => ?_⟩
    have ho : blockOut (tx :: rest) k ↔ myOut tx.to k ∨ blockOut rest k := by simp [blockOut]
    have hi : blockIn (tx :: rest) k ↔ myOut tx.frm k ∨ blockIn rest k := by simp [blockIn]
    have hd' : blockOut rest k → ¬ blockIn rest k := by
      intro a c; exact hdisj (ho.2 (Or.inr a)) (hi.2 (Or.inr c))
    -- an output of this block sits in this block: it is inside the window
    have hwin : blockOut rest k → b ≤ k.bid + gp := by
      rintro ⟨t, ht, hm, _, hown⟩
      obtain ⟨j, hj⟩ := List.getElem?_of_mem ht
      have := (hwf' j t hj k hm hown).2.1
      omega
    rw [hk' k hd', hk1 k, ho, hi]
    rw [ho, hi] at hdisj
    constructor
    · rintro ⟨⟨(⟨⟨hK | hO, hI⟩, hW⟩ | hO), hIr⟩, hWr⟩
      · exact ⟨⟨Or.inl hK, fun hcc => hcc.elim hI hIr⟩, fun _ => hW⟩
      · exact ⟨⟨Or.inr (Or.inl hO), fun hcc => hcc.elim hI hIr⟩, fun _ => hW⟩
      · exact ⟨⟨Or.inr (Or.inr hO), hdisj (Or.inr hO)⟩, fun _ => hwin hO⟩
    · rintro ⟨⟨hK | hO | hO, hI⟩, hW⟩
      · exact ⟨⟨Or.inl ⟨⟨Or.inl hK, fun hcc => hI (Or.inl hcc)⟩, hW (by simp)⟩, fun hcc => hI (Or.inr hcc)⟩, fun _ => hW (by simp)⟩
      · exact ⟨⟨Or.inl ⟨⟨Or.inr hO, fun hcc => hI (Or.inl hcc)⟩, hW (by simp)⟩, fun hcc => hI (Or.inr hcc)⟩, fun _ => hW (by simp)⟩
      · exact ⟨⟨Or.inr hO, fun hcc => hI (Or.inr hcc)⟩, fun _ => hW (by simp)⟩

/-- the slip map mirrors the in-window part of the ledger (`cur` = id of the newest block) -/
def MirrorW (enc : UKey → Nat) (gp cur : Nat) (w : W) (u : List Nat) : Prop :=
  ∀ k, K w k ↔ (enc k ∈ u ∧ k.owner = 0 ∧ k.amount > 0 ∧ cur ≤ k.bid + gp)

/-- operations of a reorganisation-free history of ANY length: blocks are wound with non-decreasing ids, are
    non-empty, carry no Bound slips, and their outputs sit at their own coordinates -/
def WLinearOp (gp cur : Nat) : Op → Prop
  | .reorg b lc g => lc = true ∧ g = gp ∧ cur ≤ b.id ∧ b.txs ≠ [] ∧ NoBoundBlock b ∧
      (∀ (j : Nat) (tx : Tx), b.txs[j]? = some tx → ∀ a : UKey, a ∈ tx.to → a.owner = 0 → b.id = a.bid ∧ j = a.tord)
  | .generate .. => True
  | .create .. => True
  | .pend _ => True
  | _ => False

def curStep (cur : Nat) : Op → Nat
  | .reorg b true _ => b.id
  | _ => cur

def WLinearOps (gp : Nat) : Nat → List Op → Prop
  | _, [] => True
  | cur, op :: rest => WLinearOp gp cur op ∧ WLinearOps gp (curStep cur op) rest

/-- id of the newest wound block -/
def lastId (cur : Nat) (ops : List Op) : Nat := ops.foldl curStep cur

theorem mirrorW_step (enc : UKey → Nat) (hinj : ∀ a b, enc a = enc b → a = b) (fl : Flags) (gp cur : Nat) (w w' : W)
    (u : List Nat) (op : Op) (hm : MirrorW enc gp cur w u) (hco : Coord w) (hl : WLinearOp gp cur op)
    (hc : CleanOp enc u op) (h : step fl w op = some w') :
    MirrorW enc gp (curStep cur op) w' (ledgerStep enc u op) ∧ Coord w' := by
  cases op with
  | addSlip b t s => exact absurd hl (by simp [WLinearOp])
  | deleteSlip s => exact absurd hl (by simp [WLinearOp])
  | deleteBlock b => exact absurd hl (by simp [WLinearOp])
  | removeOld b => exact absurd hl (by simp [WLinearOp])
  | reorg b lc g =>
    obtain ⟨rfl, rfl, hmono, hne, hnb, hwf⟩ := hl
    simp only [step, onChainReorg, ↓reduceIte] at h
    have hwf' : ∀ j tx, b.txs[j]? = some tx → ∀ a ∈ tx.to, a.owner = 0 → CoordA b.id (0 + j) a := by
      intro j tx hj a ha ho
      rw [Nat.zero_add]; exact ⟨ho, hwf j tx hj a ha ho⟩
    obtain ⟨hc', hk⟩ := K_windTxsW b.id g b.txs _ w' 0 (by exact hco) hnb hwf' h
    refine ⟨fun k => ?_, hc'⟩
    have hO := mem_enc enc hinj (allOuts b) k
    have hI := mem_enc enc hinj (allIns b) k
    have hdisj : blockOut b.txs k → ¬ blockIn b.txs k := by
      rw [blockOut_iff, blockIn_iff]
      rintro ⟨ho, ha, _⟩ ⟨hi, _, _⟩
      exact hc.2.2 (enc k) (hO.2 ⟨ho, ha⟩) (hI.2 ⟨hi, ha⟩)
    have hkc : K { w with chg := false } k ↔ K w k := Iff.rfl
    rw [hk k hdisj, hkc, hm k, blockOut_iff, blockIn_iff]
    show _ ↔ enc k ∈ Saito.Chain.windU (toA enc b) u ∧ _
    rw [mem_windU]
    show _ ↔ (enc k ∈ ((allOuts b).filter (·.amount > 0)).map enc ∨
      (enc k ∈ u ∧ enc k ∉ ((allIns b).filter (·.amount > 0)).map enc)) ∧ _
    rw [hO, hI]
    simp only [curStep]
    constructor
    · rintro ⟨⟨(⟨hu, ho, ha, _⟩ | ⟨hmm, ha, ho⟩), hni⟩, hW⟩
      · exact ⟨Or.inr ⟨hu, fun hcc => hni ⟨hcc.1, ha, ho⟩⟩, ho, ha, hW hne⟩
      · exact ⟨Or.inl ⟨hmm, ha⟩, ho, ha, hW hne⟩
    · rintro ⟨(⟨hmm, _⟩ | ⟨hu, hni⟩), ho, ha, hW⟩
      · refine ⟨⟨Or.inr ⟨hmm, ha, ho⟩, ?_⟩, fun _ => hW⟩
        rintro ⟨hi, _, _⟩
        exact hc.2.2 (enc k) (hO.2 ⟨hmm, ha⟩) (hI.2 ⟨hi, ha⟩)
      · exact ⟨⟨Or.inl ⟨hu, ho, ha, by omega⟩, fun hcc => hni ⟨hcc.1, ha⟩⟩, fun _ => hW⟩
  | generate r l g o =>
    simp only [step, Option.map_eq_some_iff] at h
    obtain ⟨⟨w1, ins, outs⟩, h1, h2⟩ := h
    cases h2
    refine ⟨fun k => ?_, Coord_closed.gen _ _ _ _ _ _ _ _ hco h1⟩
    rw [K_generateSlips _ _ _ _ _ _ _ _ h1 k]; exact hm k
  | create ks ps fee l g o =>
    simp only [step] at h
    split at h
    · rename_i hcr
      cases h
      obtain ⟨total, _, _, _, h1 | h1⟩ := createTx_tx _ _ _ _ _ _ _ _ _ _ _ hcr
      · obtain ⟨_, rfl, _, _⟩ := h1; exact ⟨hm, hco⟩
      · obtain ⟨_, go, hg, _, _⟩ := h1
        refine ⟨fun k => ?_, Coord_closed.gen _ _ _ _ _ _ _ _ hco hg⟩
        rw [K_generateSlips _ _ _ _ _ _ _ _ hg k]; exact hm k
    · cases h; exact ⟨hm, hco⟩
    · cases h
  | pend i => cases h; exact ⟨fun k => hm k, fun ws hws => hco ws hws⟩

theorem mirrorW_run (enc : UKey → Nat) (hinj : ∀ a b, enc a = enc b → a = b) (fl : Flags) (gp : Nat) (ops : List Op)
    (cur : Nat) (w w' : W) (u : List Nat) (hm : MirrorW enc gp cur w u) (hco : Coord w)
    (hl : WLinearOps gp cur ops) (hc : CleanOps enc u ops) (h : run fl w ops = some w') :
    MirrorW enc gp (lastId cur ops) w' (ledger enc u ops) := by
  induction ops generalizing w u cur with
  | nil => simp [run] at h; subst h; exact hm
  | cons op ops ih =>
    simp only [run, Option.bind_eq_some_iff] at h
    obtain ⟨w1, h1, h2⟩ := h
    obtain ⟨hc1, hc2⟩ := hc
    obtain ⟨hl1, hl2⟩ := hl
    obtain ⟨hm1, hco1⟩ := mirrorW_step enc hinj fl gp cur w w1 u op hm hco hl1 hc1 h1
    exact ih _ w1 _ hm1 hco1 hl2 hc2 h2

end Saito.Wallet
