import Saito.Lemmas.Codec2
/-! Message layer: round trip for the fixed-layout tags, totality of every tag. -/
namespace Saito

theorem map_ne_panic {α β} (r : Res α) (f : α → β) (h : r ≠ .panic) : r.map f ≠ .panic := by
  cases r <;> simp_all [Res.map, Res.bind]

theorem chunks_flatten (w : Nat) (l : List Bytes) (h : ∀ x ∈ l, x.length = w) (r : Bytes) :
    chunks w l.length (l.flatten ++ r) = l := by
  induction l with
  | nil => simp [chunks]
  | cons x l ih =>
    have hx := h x (List.mem_cons_self ..)
    simp only [List.flatten_cons, List.length_cons, chunks, List.append_assoc]
    rw [take_append_len _ _ w hx, drop_append_len _ _ w hx, ih (fun y hy => h y (List.mem_cons_of_mem _ hy))]

theorem flatten_length_const (w : Nat) (l : List Bytes) (h : ∀ x ∈ l, x.length = w) : l.flatten.length = w * l.length := by
  induction l with
  | nil => simp
  | cons x l ih =>
    simp only [List.flatten_cons, List.length_append, List.length_cons, h x (List.mem_cons_self ..),
      ih (fun y hy => h y (List.mem_cons_of_mem _ hy))]
    rw [Nat.mul_succ]; omega

theorem decBools_enc (l : List Bool) (r : Bytes) : ((encBools l ++ r).take l.length).map (· != 0) = l := by
  have : (encBools l).length = l.length := by simp [encBools]
  rw [take_append_len _ _ _ this]
  induction l with
  | nil => rfl
  | cons b l ih =>
    have e : encBools (b :: l) = (if b then 1 else 0) :: encBools l := rfl
    rw [e, List.map_cons, ih (by simp [encBools])]
    cases b <;> simp

theorem Ghost.decode_encode (fl : CodecFlags) (g : Ghost) (h : g.wf) : Ghost.decode fl g.encode = .ok g := by
  obtain ⟨h0, hn, h1, h2, h3, h4, h5, h6, h7⟩ := h
  have l1 := flatten_length_const 32 g.prehashes h6
  have l2 := flatten_length_const 32 g.prevs h7
  have l3 := encU64s_length g.ids
  have l4 := encU64s_length g.tss
  have l5 : (encBools g.txs).length = g.txs.length := by simp [encBools]
  have l6 : (encBools g.gts).length = g.gts.length := by simp [encBools]
  have hlen : g.encode.length = 36 + 82 * g.prehashes.length := by
    simp only [Ghost.encode, List.length_append, toBE_length, h0, l1, l2, l3, l4, l5, l6, h1, h2, h3, h4, h5]
    omega
  unfold Ghost.decode
  dsimp only
  rw [if_neg (by omega)]
  have hcount : fromBE ((g.encode.drop 32).take 4) = g.prehashes.length := by
    unfold Ghost.encode
    rw [drop_append_len _ _ 32 h0, take_append_len _ _ 4 (toBE_length _ _), fromBE_toBE4 _ hn]
  have hrest : g.encode.drop 36 = g.prehashes.flatten ++ (g.prevs.flatten ++ (encU64s g.ids ++ (encU64s g.tss ++
      (encBools g.txs ++ encBools g.gts)))) := by
    unfold Ghost.encode
    rw [show (36 : Nat) = 32 + 4 from rfl, ← List.drop_drop, drop_append_len _ _ 32 h0,
      drop_append_len _ _ 4 (toBE_length _ _)]
  rw [hcount, hrest]
  rw [if_neg (by
    simp only [List.length_append, l1, l2, l3, l4, l5, l6, h1, h2, h3, h4, h5]; omega)]
  have e0 : g.encode.take 32 = g.start := by unfold Ghost.encode; exact take_append_len _ _ 32 h0
  have c1 := chunks_flatten 32 g.prehashes h6 (g.prevs.flatten ++ (encU64s g.ids ++ (encU64s g.tss ++
      (encBools g.txs ++ encBools g.gts))))
  have d1 : (g.prehashes.flatten ++ (g.prevs.flatten ++ (encU64s g.ids ++ (encU64s g.tss ++
      (encBools g.txs ++ encBools g.gts))))).drop (g.prehashes.length * 32) =
      g.prevs.flatten ++ (encU64s g.ids ++ (encU64s g.tss ++ (encBools g.txs ++ encBools g.gts))) :=
    drop_append_len _ _ _ (by rw [l1]; omega)
  have c2 := chunks_flatten 32 g.prevs h7 (encU64s g.ids ++ (encU64s g.tss ++ (encBools g.txs ++ encBools g.gts)))
  have d2 : (g.prehashes.flatten ++ (g.prevs.flatten ++ (encU64s g.ids ++ (encU64s g.tss ++
      (encBools g.txs ++ encBools g.gts))))).drop (g.prehashes.length * 64) =
      encU64s g.ids ++ (encU64s g.tss ++ (encBools g.txs ++ encBools g.gts)) := by
    rw [show g.prehashes.length * 64 = g.prehashes.length * 32 + g.prehashes.length * 32 by omega,
      ← List.drop_drop, d1]
    exact drop_append_len _ _ _ (by rw [l2, h1]; omega)
  have d3 : (g.prehashes.flatten ++ (g.prevs.flatten ++ (encU64s g.ids ++ (encU64s g.tss ++
      (encBools g.txs ++ encBools g.gts))))).drop (g.prehashes.length * 72) =
      encU64s g.tss ++ (encBools g.txs ++ encBools g.gts) := by
    rw [show g.prehashes.length * 72 = g.prehashes.length * 64 + g.prehashes.length * 8 by omega,
      ← List.drop_drop, d2]
    exact drop_append_len _ _ _ (by rw [l3, h2]; omega)
  have d4 : (g.prehashes.flatten ++ (g.prevs.flatten ++ (encU64s g.ids ++ (encU64s g.tss ++
      (encBools g.txs ++ encBools g.gts))))).drop (g.prehashes.length * 80) =
      encBools g.txs ++ encBools g.gts := by
    rw [show g.prehashes.length * 80 = g.prehashes.length * 72 + g.prehashes.length * 8 by omega,
      ← List.drop_drop, d3]
    exact drop_append_len _ _ _ (by rw [l4, h3]; omega)
  have d5 : (g.prehashes.flatten ++ (g.prevs.flatten ++ (encU64s g.ids ++ (encU64s g.tss ++
      (encBools g.txs ++ encBools g.gts))))).drop (g.prehashes.length * 81) = encBools g.gts := by
    rw [show g.prehashes.length * 81 = g.prehashes.length * 80 + g.prehashes.length by omega,
      ← List.drop_drop, d4]
    exact drop_append_len _ _ _ (by rw [l5, h4])
  rw [e0, c1, d1, d2, d3, d4, d5]
  have c2' : chunks 32 g.prehashes.length (g.prevs.flatten ++ (encU64s g.ids ++ (encU64s g.tss ++
      (encBools g.txs ++ encBools g.gts)))) = g.prevs := by rw [← h1]; exact c2
  have u1 : decU64s g.prehashes.length (encU64s g.ids ++ (encU64s g.tss ++ (encBools g.txs ++ encBools g.gts))) = g.ids := by
    rw [← h2]; exact decU64s_enc _ _
  have u2 : decU64s g.prehashes.length (encU64s g.tss ++ (encBools g.txs ++ encBools g.gts)) = g.tss := by
    rw [← h3]; exact decU64s_enc _ _
  have b1 : ((encBools g.txs ++ encBools g.gts).take g.prehashes.length).map (· != 0) = g.txs := by
    rw [← h4]; exact decBools_enc _ _
  have b2 : ((encBools g.gts).take g.prehashes.length).map (· != 0) = g.gts := by
    have := decBools_enc g.gts []
    rw [List.append_nil, h5] at this; exact this
  rw [c2', u1, u2, b1, b2]

theorem Ghost.decode_ne_panic_fixed (fl : CodecFlags) (hf : fl.ghostBounds = true) (bs : Bytes) :
    Ghost.decode fl bs ≠ .panic := by
  unfold Ghost.decode
  simp only [hf, ↓reduceIte]
  split; · simp
  split <;> simp

/-- pinned chain-sync decoder: a panic happens exactly on the short / inconsistent buffers -/
theorem Ghost.decode_panic_iff (fl : CodecFlags) (hf : fl.ghostBounds = false) (bs : Bytes) :
    Ghost.decode fl bs = .panic ↔
      (bs.length < 36 ∨ (bs.drop 36).length < fromBE ((bs.drop 32).take 4) * 82) := by
  unfold Ghost.decode
  simp only [hf, Bool.false_eq_true, ↓reduceIte]
  split
  · simp_all
  · split <;> simp_all

theorem decServiceSegs_ne_panic (l : List Bytes) : decServiceSegs l ≠ .panic := by
  induction l with
  | nil => simp [decServiceSegs]
  | cons s l ih =>
    unfold decServiceSegs
    split
    · exact ih
    · split
      · exact bind_ne_panic _ _ ih (fun _ _ => by simp)
      · simp

theorem decServices_ne_panic (bs : Bytes) : decServices bs ≠ .panic := by
  unfold decServices
  split; · simp
  split; · simp
  exact decServiceSegs_ne_panic _

theorem HsResponse.decode_ne_panic (bs : Bytes) : HsResponse.decode bs ≠ .panic := by
  unfold HsResponse.decode
  split; · simp
  repeat (apply takeN_ne_panic _ _ _ _ (by simp); intro _ _ _ _)
  dsimp only
  split; · simp
  split; · simp
  apply bind_ne_panic
  · split
    · exact decServices_ne_panic _
    · simp
  · intro _ _; simp

theorem GoldenTicket.decode_ne_panic_fixed (fl : CodecFlags) (hf : fl.gtTotal = true) (bs : Bytes) :
    GoldenTicket.decode fl bs ≠ .panic := by
  unfold GoldenTicket.decode
  simp only [hf, ↓reduceIte]
  split; · simp
  repeat (apply takeN_ne_panic _ _ _ _ (by simp); intro _ _ _ _)
  simp

theorem GoldenTicket.decode_panic_iff (fl : CodecFlags) (hf : fl.gtTotal = false) (bs : Bytes) :
    GoldenTicket.decode fl bs = .panic ↔ bs.length ≠ 97 := by
  unfold GoldenTicket.decode
  simp only [hf, Bool.false_eq_true, ↓reduceIte]
  split
  · simp_all
  · rename_i h
    simp only [ne_eq, Decidable.not_not] at h
    simp only [takeN, h, ne_eq, not_true_eq_false, iff_false]
    simp
    split <;> simp

theorem WalletFile.decode_panic_iff (fl : CodecFlags) (hf : fl.walletTotal = false) (bs : Bytes) :
    WalletFile.decode fl bs = .panic ↔ bs.length < 65 := by
  unfold WalletFile.decode
  simp only [hf, Bool.false_eq_true, ↓reduceIte]
  split <;> simp_all

theorem WalletFile.decode_ne_panic_fixed (fl : CodecFlags) (hf : fl.walletTotal = true) (bs : Bytes) :
    WalletFile.decode fl bs ≠ .panic := by
  unfold WalletFile.decode
  simp only [hf, ↓reduceIte]
  split <;> simp

/-- the chain-sync decoder cannot panic on a buffer that holds everything its count field announces -/
theorem Ghost.decode_ne_panic_of_not_short (fl : CodecFlags) (bs : Bytes) (h : Ghost.short bs = false) :
    Ghost.decode fl bs ≠ .panic := by
  unfold Ghost.short at h
  simp only [Bool.or_eq_false_iff, decide_eq_false_iff_not] at h
  unfold Ghost.decode
  simp only
  rw [if_neg h.1, if_neg h.2]
  simp

/-- an honest chain-sync encoding always holds what its count field announces -/
theorem Ghost.short_encode (g : Ghost) (h : g.wf) : Ghost.short g.encode = false := by
  have hd := Ghost.decode_encode { ghostBounds := true } g h
  cases hs : Ghost.short g.encode with
  | false => rfl
  | true =>
    unfold Ghost.short at hs
    simp only [Bool.or_eq_true, decide_eq_true_eq] at hs
    unfold Ghost.decode at hd
    simp only at hd
    rcases hs with hs | hs
    · rw [if_pos hs] at hd; simp at hd
    · by_cases h36 : g.encode.length < 36
      · rw [if_pos h36] at hd; simp at hd
      · rw [if_neg h36, if_pos hs] at hd; simp at hd

/-- every tag of `Message::deserialize` is total once the transaction decoder checks bounds and the chain-sync
    payload is checked either by its decoder or by `Message::deserialize` before the decoder is called -/
theorem Msg.decode_ne_panic_fixed (fl : CodecFlags) (h1 : fl.txBounds = true)
    (h2 : fl.ghostBounds = true ∨ fl.msgGhostChecked = true)
    (bs : Bytes) : Msg.decode fl bs ≠ .panic := by
  unfold Msg.decode
  split
  · simp
  · split
    · split <;> simp
    · exact map_ne_panic _ _ (HsResponse.decode_ne_panic _)
    · exact map_ne_panic _ _ (Block.decode_ne_panic _ _)
    · exact map_ne_panic _ _ (Tx.decode_total_fixed fl h1 _)
    · split <;> simp
    · split <;> simp
    · simp
    · simp
    · exact map_ne_panic _ _ (decServices_ne_panic _)
    · split
      · simp
      · rename_i hs
        rcases h2 with h2 | h2
        · exact map_ne_panic _ _ (Ghost.decode_ne_panic_fixed fl h2 _)
        · simp only [h2, Bool.true_and, Bool.not_eq_true] at hs
          exact map_ne_panic _ _ (Ghost.decode_ne_panic_of_not_short fl _ hs)
    · split <;> simp
    · split <;> simp
    · split <;> simp
    · split <;> simp
    · split <;> simp
    · simp

/-- on every tree: a panic of the message decoder can only come from tag 4 (transaction) or tag 10 (chain sync) -/
theorem Msg.decode_panic_only_tags (fl : CodecFlags) (bs : Bytes) (h : Msg.decode fl bs = .panic) :
    ∃ b, (bs = 4 :: b ∧ Tx.decode fl b = .panic) ∨ (bs = 10 :: b ∧ Ghost.decode fl b = .panic) := by
  unfold Msg.decode at h
  split at h
  · simp at h
  · rename_i tag b
    split at h
    · split at h <;> simp at h
    · exact absurd h (map_ne_panic _ _ (HsResponse.decode_ne_panic _))
    · exact absurd h (map_ne_panic _ _ (Block.decode_ne_panic _ _))
    · rename_i ht
      refine ⟨b, Or.inl ⟨?_, ?_⟩⟩
      · have : tag = 4 := by
          apply UInt8.toNat_inj.1; simpa using ht
        rw [this]
      · cases hd : Tx.decode fl b <;> simp_all [Res.map, Res.bind]
    · split at h <;> simp at h
    · split at h <;> simp at h
    · simp at h
    · simp at h
    · exact absurd h (map_ne_panic _ _ (decServices_ne_panic _))
    · rename_i ht
      refine ⟨b, Or.inr ⟨?_, ?_⟩⟩
      · have : tag = 10 := by
          apply UInt8.toNat_inj.1; simpa using ht
        rw [this]
      · split at h
        · simp at h
        · cases hd : Ghost.decode fl b <;> simp_all [Res.map, Res.bind]
    · split at h <;> simp at h
    · split at h <;> simp at h
    · split at h <;> simp at h
    · split at h <;> simp at h
    · split at h <;> simp at h
    · simp at h

end Saito
