import Saito.Model.Wallet
/-! Helper lemmas for C19: the accounting invariant of the wallet model and its preservation by every operation. -/
namespace Saito.Wallet

/-! ### sets and sums -/
theorem mem_setInsert (l : List UKey) (k x : UKey) : x ∈ setInsert l k ↔ x = k ∨ x ∈ l := by
  unfold setInsert
  split
  · constructor
    · intro h; exact Or.inr h
    · rintro (h | h)
      · subst h; assumption
      · exact h
  · simp

theorem mem_setRemove (l : List UKey) (k x : UKey) : x ∈ setRemove l k ↔ x ∈ l ∧ x ≠ k := by
  simp [setRemove]

theorem nodup_setRemove (l : List UKey) (k : UKey) (h : l.Nodup) : (setRemove l k).Nodup :=
  List.Nodup.sublist List.filter_sublist h

theorem nodup_setInsert (l : List UKey) (k : UKey) (h : l.Nodup) : (setInsert l k).Nodup := by
  unfold setInsert
  split
  · exact h
  · exact List.nodup_cons.2 ⟨by assumption, h⟩

theorem sumK_cons (a : UKey) (l : List UKey) : sumK (a :: l) = a.amount + sumK l := by
  simp [sumK]

theorem sumK_nil : sumK [] = 0 := rfl

theorem sumK_remove (l : List UKey) (k : UKey) (hn : l.Nodup) (hk : k ∈ l) :
    sumK (setRemove l k) + k.amount = sumK l := by
  induction l with
  | nil => cases hk
  | cons a l ih =>
    have ⟨ha, hl⟩ := List.nodup_cons.1 hn
    by_cases hak : a = k
    · subst hak
      have : setRemove (a :: l) a = l := by
        simp only [setRemove, List.filter_cons, bne_self_eq_false, Bool.false_eq_true, ↓reduceIte]
        apply List.filter_eq_self.2
        intro x hx
        simp only [bne_iff_ne, ne_eq]
        intro hxa; subst hxa; exact ha hx
      rw [this, sumK_cons]; omega
    · have hk' : k ∈ l := by
        cases hk with
        | head => exact absurd rfl hak
        | tail _ h => exact h
      have : setRemove (a :: l) k = a :: setRemove l k := by
        simp [setRemove, hak]
      rw [this, sumK_cons, sumK_cons]
      have := ih hl hk'
      omega

theorem le_sumK (l : List UKey) (k : UKey) (hk : k ∈ l) : k.amount ≤ sumK l := by
  induction l with
  | nil => cases hk
  | cons a l ih =>
    rw [sumK_cons]
    cases hk with
    | head => omega
    | tail _ h => have := ih h; omega

/-! ### slips map -/
def keys (w : W) : List UKey := w.slips.map (·.key)

theorem findSlip_none (l : List WSlip) (k : UKey) : findSlip l k = none ↔ ∀ ws ∈ l, ws.key ≠ k := by
  simp [findSlip, List.find?_eq_none]

theorem findSlip_some (l : List WSlip) (k : UKey) (ws : WSlip) (h : findSlip l k = some ws) :
    ws ∈ l ∧ ws.key = k := by
  unfold findSlip at h
  exact ⟨List.mem_of_find?_eq_some h, by simpa using List.find?_some h⟩

theorem mem_dropSlip (l : List WSlip) (k : UKey) (ws : WSlip) : ws ∈ dropSlip l k ↔ ws ∈ l ∧ ws.key ≠ k := by
  simp [dropSlip]

/-! ### the accounting invariant -/

/-- what the wallet maintains about its four accounting fields -/
structure Acc (slips : List WSlip) (unspent staking : List UKey) (balance : Nat) : Prop where
  nodupS : (slips.map (·.key)).Nodup
  nodupU : unspent.Nodup
  sub : ∀ k ∈ unspent, ∃ ws ∈ slips, ws.key = k
  subS : ∀ k ∈ staking, ∃ ws ∈ slips, ws.key = k
  amt : ∀ ws ∈ slips, ws.amount = ws.key.amount
  bal : balance = sumK unspent
  lt : balance < U64
  disj : ∀ k ∈ staking, k ∉ unspent

def WInv (w : W) : Prop := Acc w.slips w.unspent w.staking w.balance

theorem WInv_init : WInv init := by
  refine ⟨?_, ?_, ?_, ?_, ?_, ?_, ?_, ?_⟩ <;> simp [init, sumK, U64]

theorem acc_cons_slip {slips U S bal} (ws0 : WSlip) (h : Acc slips U S bal)
    (hfresh : ∀ ws ∈ slips, ws.key ≠ ws0.key) (ha : ws0.amount = ws0.key.amount) : Acc (ws0 :: slips) U S bal := by
  refine ⟨?_, h.nodupU, ?_, ?_, ?_, h.bal, h.lt, h.disj⟩
  · simp only [List.map_cons, List.nodup_cons]
    refine ⟨?_, h.nodupS⟩
    intro hm
    obtain ⟨ws, hws, hk⟩ := List.mem_map.1 hm
    exact hfresh ws hws hk
  · intro k hk
    obtain ⟨ws, hws, hkk⟩ := h.sub k hk
    exact ⟨ws, List.mem_cons_of_mem _ hws, hkk⟩
  · intro k hk
    obtain ⟨ws, hws, hkk⟩ := h.subS k hk
    exact ⟨ws, List.mem_cons_of_mem _ hws, hkk⟩
  · intro ws hws
    cases hws with
    | head => exact ha
    | tail _ h' => exact h.amt ws h'

theorem acc_stake {slips U S bal} (ws0 : WSlip) (h : Acc (ws0 :: slips) U S bal) (hU : ws0.key ∉ U) :
    Acc (ws0 :: slips) U (setInsert S ws0.key) bal := by
  refine ⟨h.nodupS, h.nodupU, h.sub, ?_, h.amt, h.bal, h.lt, ?_⟩
  · intro k hk
    rcases (mem_setInsert _ _ _).1 hk with rfl | hk
    · exact ⟨_, List.mem_cons_self, rfl⟩
    · exact h.subS k hk
  · intro k hk
    rcases (mem_setInsert _ _ _).1 hk with rfl | hk
    · exact hU
    · exact h.disj k hk

theorem acc_unspent {slips U S bal} (ws0 : WSlip) (h : Acc (ws0 :: slips) U S bal) (hU : ws0.key ∉ U)
    (hS : ws0.key ∉ S) (hlt : bal + ws0.key.amount < U64) :
    Acc (ws0 :: slips) (setInsert U ws0.key) S (bal + ws0.key.amount) := by
  have hins : setInsert U ws0.key = ws0.key :: U := by simp [setInsert, hU]
  refine ⟨h.nodupS, nodup_setInsert _ _ h.nodupU, ?_, h.subS, h.amt, ?_, hlt, ?_⟩
  · intro k hk
    rcases (mem_setInsert _ _ _).1 hk with rfl | hk
    · exact ⟨_, List.mem_cons_self, rfl⟩
    · exact h.sub k hk
  · rw [hins, sumK_cons, h.bal]; omega
  · intro k hk hku
    rcases (mem_setInsert _ _ _).1 hku with rfl | hku
    · exact hS hk
    · exact h.disj k hk hku

theorem addSlip_inv (w w' : W) (b t : Nat) (s : UKey) (lc : Bool) (hw : WInv w) (h : addSlip w b t s lc = some w') :
    WInv w' := by
  unfold addSlip at h
  split at h
  · cases h; exact hw
  · rename_i hnone
    have hfresh := (findSlip_none _ _).1 hnone
    have hsU : s ∉ w.unspent := fun hs => by
      obtain ⟨ws, hws, hk⟩ := hw.sub s hs
      exact hfresh ws hws hk
    have hsS : s ∉ w.staking := fun hs => by
      obtain ⟨ws, hws, hk⟩ := hw.subS s hs
      exact hfresh ws hws hk
    split at h
    · cases h
    · have base := acc_cons_slip ⟨s, s.amount, b, t, s.idx, lc, false, s.typ⟩ hw hfresh rfl
      split at h
      · cases h
        exact acc_stake _ base hsU
      · split at h
        · cases h; exact base
        · split at h
          · cases h
          · rename_i hov
            cases h
            exact acc_unspent _ base hsU hsS (by simp only [ge_iff_le, Nat.not_le] at hov; exact hov)

theorem acc_drop {slips U S bal} (k : UKey) (h : Acc slips U S bal) (hU : k ∉ U) (hS : k ∉ S) :
    Acc (dropSlip slips k) U S bal := by
  refine ⟨?_, h.nodupU, ?_, ?_, ?_, h.bal, h.lt, h.disj⟩
  · exact List.Nodup.sublist (List.Sublist.map _ List.filter_sublist) h.nodupS
  · intro x hx
    obtain ⟨ws, hws, hk⟩ := h.sub x hx
    refine ⟨ws, (mem_dropSlip _ _ _).2 ⟨hws, ?_⟩, hk⟩
    intro he; rw [hk] at he; subst he; exact hU hx
  · intro x hx
    obtain ⟨ws, hws, hk⟩ := h.subS x hx
    refine ⟨ws, (mem_dropSlip _ _ _).2 ⟨hws, ?_⟩, hk⟩
    intro he; rw [hk] at he; subst he; exact hS hx
  · intro ws hws
    exact h.amt ws ((mem_dropSlip _ _ _).1 hws).1

theorem acc_remove_unspent {slips U S bal} (k : UKey) (h : Acc slips U S bal) (hk : k ∈ U) :
    Acc slips (setRemove U k) S (bal - k.amount) ∧ k.amount ≤ bal := by
  have hle : k.amount ≤ bal := by rw [h.bal]; exact le_sumK _ _ hk
  refine ⟨⟨h.nodupS, nodup_setRemove _ _ h.nodupU, ?_, h.subS, h.amt, ?_, ?_, ?_⟩, hle⟩
  · intro x hx
    exact h.sub x ((mem_setRemove _ _ _).1 hx).1
  · have := sumK_remove U k h.nodupU hk
    rw [h.bal]; omega
  · have := h.lt; omega
  · intro x hx hxu
    exact h.disj x hx ((mem_setRemove _ _ _).1 hxu).1

theorem acc_remove_staking {slips U S bal} (k : UKey) (h : Acc slips U S bal) :
    Acc slips U (setRemove S k) bal := by
  refine ⟨h.nodupS, h.nodupU, h.sub, ?_, h.amt, h.bal, h.lt, ?_⟩
  · intro x hx
    exact h.subS x ((mem_setRemove _ _ _).1 hx).1
  · intro x hx
    exact h.disj x ((mem_setRemove _ _ _).1 hx).1

theorem deleteSlip_inv (w w' : W) (s : UKey) (hw : WInv w) (h : deleteSlip w s = some w') : WInv w' := by
  unfold deleteSlip at h
  split at h
  · cases h; exact hw
  · rename_i ws hsome
    obtain ⟨hmem, hkey⟩ := findSlip_some _ _ _ hsome
    split at h
    · rename_i hin
      split at h
      · cases h
      · cases h
        have ha : ws.amount = s.amount := by rw [hw.amt ws hmem, hkey]
        have ⟨h1, _⟩ := acc_remove_unspent s hw hin
        have h2 := acc_drop s h1 (by simp [mem_setRemove]) (fun hs => hw.disj s hs hin)
        show Acc _ _ _ _
        rw [ha]; exact h2
    · rename_i hnin
      cases h
      have h1 := acc_remove_staking s hw
      exact acc_drop s h1 hnin (by simp [mem_setRemove])

/-- under the invariant `delete_slip` never underflows -/
theorem deleteSlip_total (w : W) (s : UKey) (hw : WInv w) : ∃ w', deleteSlip w s = some w' := by
  unfold deleteSlip
  split
  · exact ⟨_, rfl⟩
  · rename_i ws hsome
    obtain ⟨hmem, hkey⟩ := findSlip_some _ _ _ hsome
    split
    · rename_i hin
      have ha : ws.amount = s.amount := by rw [hw.amt ws hmem, hkey]
      have hle : s.amount ≤ w.balance := by rw [hw.bal]; exact le_sumK _ _ hin
      rw [if_neg (by omega)]
      exact ⟨_, rfl⟩
    · exact ⟨_, rfl⟩

theorem deleteSlips_inv (ks : List UKey) (w w' : W) (hw : WInv w) (h : deleteSlips w ks = some w') : WInv w' := by
  induction ks generalizing w with
  | nil => simp [deleteSlips] at h; subst h; exact hw
  | cons k ks ih =>
    simp only [deleteSlips, Option.bind_eq_some_iff] at h
    obtain ⟨w1, h1, h2⟩ := h
    exact ih w1 (deleteSlip_inv _ _ _ hw h1) h2

theorem deleteSlips_total (ks : List UKey) (w : W) (hw : WInv w) : ∃ w', deleteSlips w ks = some w' := by
  induction ks generalizing w with
  | nil => exact ⟨w, rfl⟩
  | cons k ks ih =>
    obtain ⟨w1, h1⟩ := deleteSlip_total w k hw
    obtain ⟨w2, h2⟩ := ih w1 (deleteSlip_inv _ _ _ hw h1)
    exact ⟨w2, by simp [deleteSlips, h1, h2]⟩

/-- record updates that leave the four accounting fields alone -/
theorem WInv_congr (w v : W) (h1 : v.slips = w.slips) (h2 : v.unspent = w.unspent) (h3 : v.staking = w.staking)
    (h4 : v.balance = w.balance) : WInv v ↔ WInv w := by
  unfold WInv; rw [h1, h2, h3, h4]

/-! ### generate_slips -/
theorem mem_dedup (l : List UKey) (x : UKey) : x ∈ dedup l ↔ x ∈ l := by
  induction l with
  | nil => simp [dedup]
  | cons a l ih =>
    unfold dedup
    split
    · rename_i ha
      rw [ih]
      constructor
      · intro h; exact List.mem_cons_of_mem _ h
      · intro h
        cases h with
        | head => exact ha
        | tail _ h => exact h
    · simp [ih]

theorem nodup_dedup (l : List UKey) : (dedup l).Nodup := by
  induction l with
  | nil => simp [dedup]
  | cons a l ih =>
    unfold dedup
    split
    · exact ih
    · rename_i ha
      exact List.nodup_cons.2 ⟨fun h => ha ((mem_dedup _ _).1 h), ih⟩

theorem walkOrder_nodup (U order : List UKey) (hU : U.Nodup) : (walkOrder U order).Nodup := by
  unfold walkOrder
  refine List.nodup_append.2 ⟨nodup_dedup _, List.Nodup.sublist List.filter_sublist hU, ?_⟩
  intro a ha b hb hab
  subst hab
  have h1 := (mem_dedup _ _).1 ha
  simp only [List.mem_filter, decide_eq_true_eq] at h1 hb
  exact hb.2 h1.1

theorem walkOrder_sub (U order : List UKey) : ∀ k ∈ walkOrder U order, k ∈ U := by
  intro k hk
  unfold walkOrder at hk
  rcases List.mem_append.1 hk with h | h
  · have h1 := (mem_dedup _ _).1 h
    simp only [List.mem_filter, decide_eq_true_eq] at h1
    exact h1.2
  · simp only [List.mem_filter] at h
    exact h.1

theorem sumW_append (a b : List WSlip) : sumW (a ++ b) = sumW a + sumW b := by
  simp [sumW, List.sum_append]

theorem pickLoop_spec (slips : List WSlip) (limit req : Nat) (l : List UKey) (p p' : Pick)
    (h : pickLoop slips limit req p l = some p') :
    ∃ extra : List WSlip, p'.chosen = p.chosen ++ extra ∧ p'.nolanIn = p.nolanIn + sumW extra ∧
      (extra.map (·.key)).Sublist l ∧ (∀ ws ∈ extra, ws ∈ slips ∧ ws.blockId > limit) := by
  induction l generalizing p with
  | nil =>
    simp [pickLoop] at h; subst h
    exact ⟨[], by simp, by simp [sumW], by simp, by simp⟩
  | cons k ks ih =>
    simp only [pickLoop] at h
    split at h
    · cases h
    · rename_i ws hf
      obtain ⟨hmem, hkey⟩ := findSlip_some _ _ _ hf
      split at h
      · obtain ⟨e, h1, h2, h3, h4⟩ := ih p h
        exact ⟨e, h1, h2, List.Sublist.cons _ h3, h4⟩
      · rename_i hlim
        split at h
        · cases h
          exact ⟨[], by simp, by simp [sumW], by simp, by simp⟩
        · obtain ⟨e, h1, h2, h3, h4⟩ := ih _ h
          refine ⟨ws :: e, ?_, ?_, ?_, ?_⟩
          · rw [h1]; simp
          · rw [h2]; simp [sumW]; omega
          · simp only [List.map_cons, hkey]
            exact List.Sublist.cons_cons _ h3
          · intro x hx
            cases hx with
            | head => exact ⟨hmem, by omega⟩
            | tail _ hx => exact h4 x hx

theorem pickLoop_reach (slips : List WSlip) (limit req : Nat) (l : List UKey) (p p' : Pick)
    (h : pickLoop slips limit req p l = some p') :
    req ≤ p'.nolanIn ∨ p'.nolanIn = p.nolanIn + (l.map (eligAmt slips limit)).sum := by
  induction l generalizing p with
  | nil => simp [pickLoop] at h; subst h; right; simp
  | cons k ks ih =>
    simp only [pickLoop] at h
    split at h
    · cases h
    · rename_i ws hf
      have he : eligAmt slips limit k = if ws.blockId > limit then ws.amount else 0 := by simp [eligAmt, hf]
      split at h
      · rename_i hle
        rcases ih p h with h1 | h1
        · exact Or.inl h1
        · right; rw [h1, List.map_cons, List.sum_cons, he, if_neg (by omega)]; omega
      · rename_i hgt
        split at h
        · cases h; left; assumption
        · rcases ih _ h with h1 | h1
          · exact Or.inl h1
          · right; rw [h1, List.map_cons, List.sum_cons, he, if_pos (by omega)]; simp only; omega

/-- the walk is a permutation of the unspent list -/
theorem walkOrder_perm (U order : List UKey) (hU : U.Nodup) : (walkOrder U order).Perm U := by
  refine (List.perm_ext_iff_of_nodup (walkOrder_nodup U order hU) hU).2 ?_
  intro a
  constructor
  · exact walkOrder_sub U order a
  · intro ha
    unfold walkOrder
    by_cases ho : a ∈ order
    · exact List.mem_append.2 (Or.inl ((mem_dedup _ _).2 (by simp [ho, ha])))
    · exact List.mem_append.2 (Or.inr (by simp [ho, ha]))

/-- the loop stops early only when the requested amount is reached -/
theorem pickLoop_total (slips : List WSlip) (limit req : Nat) (l : List UKey) (p : Pick)
    (hl : ∀ k ∈ l, ∃ ws ∈ slips, ws.key = k) : ∃ p', pickLoop slips limit req p l = some p' := by
  induction l generalizing p with
  | nil => exact ⟨p, rfl⟩
  | cons k ks ih =>
    simp only [pickLoop]
    obtain ⟨ws, hws, hk⟩ := hl k List.mem_cons_self
    have hne : findSlip slips k ≠ none := fun hn => (findSlip_none _ _).1 hn ws hws hk
    cases hf : findSlip slips k with
    | none => exact absurd hf hne
    | some ws' =>
      simp only
      have ih' := fun p => ih p (fun k hk => hl k (List.mem_cons_of_mem _ hk))
      split
      · exact ih' p
      · split
        · exact ⟨p, rfl⟩
        · exact ih' _

theorem markSpent_keys (slips : List WSlip) (ks : List UKey) :
    (markSpent slips ks).map (·.key) = slips.map (·.key) := by
  unfold markSpent
  rw [List.map_map]
  apply List.map_congr_left
  intro ws _
  simp only [Function.comp]
  split <;> rfl

theorem mem_markSpent (slips : List WSlip) (ks : List UKey) (x : WSlip) (hx : x ∈ markSpent slips ks) :
    ∃ ws ∈ slips, x.key = ws.key ∧ x.amount = ws.amount ∧ x.blockId = ws.blockId ∧ x.txOrd = ws.txOrd ∧
      x.slipIndex = ws.slipIndex ∧ x.typ = ws.typ ∧ (x.spent = true ↔ (ws.spent = true ∨ ws.key ∈ ks)) := by
  unfold markSpent at hx
  obtain ⟨ws, hws, rfl⟩ := List.mem_map.1 hx
  refine ⟨ws, hws, ?_⟩
  split
  · rename_i hin; simp [hin]
  · rename_i hin; simp [hin]

theorem sumW_eq_sumK (slips l : List WSlip) (hamt : ∀ ws ∈ slips, ws.amount = ws.key.amount) (hl : ∀ ws ∈ l, ws ∈ slips) :
    sumW l = sumK (l.map (·.key)) := by
  induction l with
  | nil => rfl
  | cons a l ih =>
    have := ih (fun ws h => hl ws (List.mem_cons_of_mem _ h))
    simp only [sumW, sumK, List.map_cons, List.sum_cons] at this ⊢
    rw [this, hamt a (hl a List.mem_cons_self)]

theorem sumK_filter_notin (ks U : List UKey) (hks : ks.Nodup) (hU : U.Nodup) (hsub : ∀ k ∈ ks, k ∈ U) :
    sumK (U.filter (· ∉ ks)) + sumK ks = sumK U := by
  induction ks generalizing U with
  | nil =>
    have : U.filter (· ∉ ([] : List UKey)) = U := by
      apply List.filter_eq_self.2; intro x _; simp
    rw [this]; simp [sumK]
  | cons k ks ih =>
    have ⟨hk, hks'⟩ := List.nodup_cons.1 hks
    have hkU := hsub k List.mem_cons_self
    have h1 := sumK_remove U k hU hkU
    have h2 := ih (setRemove U k) hks' (nodup_setRemove _ _ hU) (by
      intro x hx
      refine (mem_setRemove _ _ _).2 ⟨hsub x (List.mem_cons_of_mem _ hx), ?_⟩
      intro he; subst he; exact hk hx)
    have h3 : U.filter (· ∉ k :: ks) = (setRemove U k).filter (· ∉ ks) := by
      unfold setRemove
      rw [List.filter_filter]
      apply List.filter_congr
      intro x _
      by_cases hx : x = k <;> simp [hx]
    rw [h3, sumK_cons]
    omega

theorem generateSlips_inv (w w' : W) (req latest gp : Nat) (order ins outs : List UKey) (hw : WInv w)
    (h : generateSlips w req latest gp order = some (w', ins, outs)) : WInv w' := by
  unfold generateSlips at h
  split at h
  · split at h
    · cases h; exact hw
    · cases h
  · rename_i limit _
    split at h
    · cases h
    · rename_i p hp
      split at h
      · cases h
      · rename_i hle
        cases h
        obtain ⟨extra, h1, _, h3, h4⟩ := pickLoop_spec _ _ _ _ _ _ hp
        simp only [List.nil_append] at h1
        have hsl : (p.chosen.map (·.key)).Sublist (walkOrder w.unspent order) := by rw [h1]; exact h3
        have hnd : (p.chosen.map (·.key)).Nodup := List.Nodup.sublist hsl (walkOrder_nodup _ _ hw.nodupU)
        have hsub : ∀ k ∈ p.chosen.map (·.key), k ∈ w.unspent :=
          fun k hk => walkOrder_sub _ _ k (hsl.subset hk)
        have hsum : sumW p.chosen = sumK (p.chosen.map (·.key)) :=
          sumW_eq_sumK w.slips _ hw.amt (by rw [h1]; exact fun ws hws => (h4 ws hws).1)
        have hf := sumK_filter_notin _ _ hnd hw.nodupU hsub
        refine ⟨?_, List.Nodup.sublist List.filter_sublist hw.nodupU, ?_, ?_, ?_, ?_, ?_, ?_⟩
        · show ((markSpent w.slips _).map (·.key)).Nodup
          rw [markSpent_keys]; exact hw.nodupS
        · intro k hk
          have hk' : k ∈ w.unspent := (List.mem_filter.1 hk).1
          obtain ⟨ws, hws, hkk⟩ := hw.sub k hk'
          have : k ∈ (markSpent w.slips (p.chosen.map (·.key))).map (·.key) := by
            rw [markSpent_keys]; exact List.mem_map.2 ⟨ws, hws, hkk⟩
          obtain ⟨x, hx, hxk⟩ := List.mem_map.1 this
          exact ⟨x, hx, hxk⟩
        · intro k hk
          obtain ⟨ws, hws, hkk⟩ := hw.subS k hk
          have : k ∈ (markSpent w.slips (p.chosen.map (·.key))).map (·.key) := by
            rw [markSpent_keys]; exact List.mem_map.2 ⟨ws, hws, hkk⟩
          obtain ⟨x, hx, hxk⟩ := List.mem_map.1 this
          exact ⟨x, hx, hxk⟩
        · intro x hx
          obtain ⟨ws, hws, hk, ha, _⟩ := mem_markSpent _ _ _ hx
          rw [ha, hk]; exact hw.amt ws hws
        · show w.balance - sumW p.chosen = sumK (w.unspent.filter (· ∉ p.chosen.map (·.key)))
          rw [hsum, hw.bal]; omega
        · show w.balance - sumW p.chosen < U64
          have := hw.lt; omega
        · intro k hk hku
          exact hw.disj k hk (List.mem_filter.1 hku).1

/-- under the invariant (and `genesis_period ≥ 1`) `generate_slips` never panics: every listed key is a known slip and
    the balance never underflows -/
theorem generateSlips_total (w : W) (req latest gp : Nat) (order : List UKey) (hw : WInv w) (hgp : gp ≠ 0) :
    ∃ r, generateSlips w req latest gp order = some r := by
  unfold generateSlips
  simp only [ageLimit, hgp, ↓reduceIte]
  obtain ⟨p, hp⟩ := pickLoop_total w.slips (latest - (gp - 1)) req (walkOrder w.unspent order) {}
    (fun k hk => hw.sub k (walkOrder_sub _ _ k hk))
  rw [hp]
  simp only
  obtain ⟨extra, h1, _, h3, h4⟩ := pickLoop_spec _ _ _ _ _ _ hp
  simp only [List.nil_append] at h1
  have hsl : (p.chosen.map (·.key)).Sublist (walkOrder w.unspent order) := by rw [h1]; exact h3
  have hnd : (p.chosen.map (·.key)).Nodup := List.Nodup.sublist hsl (walkOrder_nodup _ _ hw.nodupU)
  have hsub : ∀ k ∈ p.chosen.map (·.key), k ∈ w.unspent := fun k hk => walkOrder_sub _ _ k (hsl.subset hk)
  have hsum : sumW p.chosen = sumK (p.chosen.map (·.key)) :=
    sumW_eq_sumK w.slips _ hw.amt (by rw [h1]; exact fun ws hws => (h4 ws hws).1)
  have hf := sumK_filter_notin _ _ hnd hw.nodupU hsub
  have : ¬ sumW p.chosen > w.balance := by rw [hsum, hw.bal]; omega
  rw [if_neg this]
  exact ⟨_, rfl⟩

/-- what a successful `create` did: nothing (zero request), or exactly one `generate_slips` -/
theorem createTx_tx (fl : Flags) (w w' : W) (keys pays : List Nat) (fee latest gp : Nat) (order ins outs : List UKey)
    (h : createTx fl w keys pays fee latest gp order = .tx w' ins outs) :
    ∃ total, sumU64 pays = some total ∧ pays.length = keys.length ∧ total + feeEff w fee ≤ w.balance ∧
      ((total + feeEff w fee = 0 ∧ w' = w ∧ ins = [zeroSlip] ∧ outs = payOuts keys pays) ∨
       (total + feeEff w fee ≠ 0 ∧ ∃ go, generateSlips w (total + feeEff w fee) latest gp order = some (w', ins, go) ∧
          outs = go ++ payOuts keys pays ∧
          (fl.createChecksUsable = true → total + feeEff w fee ≤ usable w latest gp))) := by
  unfold createTx at h
  split at h
  · cases h
  · rename_i total htot
    split at h
    · cases h
    · rename_i hlen
      split at h
      · cases h
      · split at h
        · cases h
        · rename_i hbal
          refine ⟨total, htot, by simpa using hlen, by omega, ?_⟩
          split at h
          · cases h
          · rename_i hchk
            split at h
            · rename_i hz
              cases h
              exact Or.inl ⟨hz, rfl, rfl, rfl⟩
            · rename_i hnz
              split at h
              · cases h
              · rename_i w1 i1 o1 hg
                cases h
                refine Or.inr ⟨hnz, o1, hg, rfl, ?_⟩
                intro hf
                simp only [hf, Bool.true_and, Bool.and_eq_true, decide_eq_true_eq, not_and, Nat.not_lt] at hchk
                exact hchk (by omega)

theorem createTx_inv (fl : Flags) (w w' : W) (keys pays : List Nat) (fee latest gp : Nat) (order ins outs : List UKey)
    (hw : WInv w) (h : createTx fl w keys pays fee latest gp order = .tx w' ins outs) : WInv w' := by
  obtain ⟨total, _, _, _, h1 | h1⟩ := createTx_tx _ _ _ _ _ _ _ _ _ _ _ h
  · obtain ⟨_, rfl, _, _⟩ := h1; exact hw
  · obtain ⟨_, go, hg, _, _⟩ := h1
    exact generateSlips_inv _ _ _ _ _ _ _ _ hw hg

/-! ### every operation preserves any predicate that `add_slip`, `delete_slip`, `generate_slips` preserve -/

/-- `P` is preserved by the three primitive edits (`A b t s` = side condition on an `add_slip(b, t, s)` call) and does
    not look at `pending`, `nfts`, `chg` -/
structure Closed (P : W → Prop) (A : Nat → Nat → UKey → Prop) : Prop where
  add : ∀ w w' b t s lc, P w → A b t s → addSlip w b t s lc = some w' → P w'
  del : ∀ w w' s, P w → deleteSlip w s = some w' → P w'
  congr : ∀ w v : W, P w → v.slips = w.slips → v.unspent = w.unspent → v.staking = w.staking →
    v.balance = w.balance → P v
  gen : ∀ w w' r l g o i out, P w → generateSlips w r l g o = some (w', i, out) → P w'

section closed
variable {P : W → Prop} {A : Nat → Nat → UKey → Prop} (C : Closed P A)
include C

theorem deleteSlips_cl (ks : List UKey) (w w' : W) (hw : P w) (h : deleteSlips w ks = some w') : P w' := by
  induction ks generalizing w with
  | nil => simp [deleteSlips] at h; subst h; exact hw
  | cons k ks ih =>
    simp only [deleteSlips, Option.bind_eq_some_iff] at h
    obtain ⟨w1, h1, h2⟩ := h
    exact ih w1 (C.del _ _ _ hw h1) h2

theorem removeOldSlips_cl (w w' : W) (b : Nat) (hw : P w) (h : removeOldSlips w b = some w') : P w' :=
  deleteSlips_cl C _ _ _ hw h

theorem setChg_cl (w : W) (hw : P w) : P (setChg w) := C.congr w _ hw rfl rfl rfl rfl

theorem delPending_cl (w : W) (i : Nat) (hw : P w) : P (delPending w i) := by
  unfold delPending; split
  · exact C.congr w _ hw rfl rfl rfl rfl
  · exact hw

theorem windOuts_cl (b t : Nat) (l : List UKey) (w w' : W) (skip : Nat) (hw : P w)
    (hA : ∀ a ∈ l, a.owner = 0 → A b t a) (h : windOuts b t w skip l = some w') : P w' := by
  induction l generalizing w skip with
  | nil => simp [windOuts] at h; subst h; exact hw
  | cons a rest ih =>
    have hA' : ∀ a ∈ rest, a.owner = 0 → A b t a := fun x hx => hA x (List.mem_cons_of_mem _ hx)
    cases skip with
    | succ n => simp only [windOuts] at h; exact ih w n hw hA' h
    | zero =>
      simp only [windOuts] at h
      split at h
      · split at h
        · exact ih _ 2 (by exact C.congr w _ hw rfl rfl rfl rfl) hA' h
        · exact ih _ 0 hw hA' h
      · split at h
        · rename_i hc
          simp only [Bool.and_eq_true, beq_iff_eq, decide_eq_true_eq] at hc
          simp only [Option.bind_eq_some_iff] at h
          obtain ⟨w1, h1, h2⟩ := h
          exact ih w1 0 (C.add _ _ _ _ _ _ (setChg_cl C w hw) (hA a List.mem_cons_self hc.2) h1) hA' h2
        · exact ih w 0 hw hA' h

theorem windIns_cl (txId : Nat) (third : Option UKey) (l : List UKey) (w w' : W) (pos skip : Nat) (hw : P w)
    (h : windIns txId third w pos skip l = some w') : P w' := by
  induction l generalizing w pos skip with
  | nil => simp [windIns] at h; subst h; exact hw
  | cons a rest ih =>
    cases skip with
    | succ n => simp only [windIns] at h; exact ih w _ n hw h
    | zero =>
      simp only [windIns] at h
      split at h
      · refine ih _ _ 2 ?_ h
        split
        · split
          · exact C.congr w _ hw rfl rfl rfl rfl
          · exact hw
        · exact hw
      · split at h
        · simp only [Option.bind_eq_some_iff] at h
          obtain ⟨w1, h1, h2⟩ := h
          refine ih _ _ 0 (delPending_cl C w1 txId ?_) h2
          split at h1
          · exact C.del _ _ _ (setChg_cl C w hw) h1
          · cases h1; exact hw
        · exact ih w _ 0 hw h

theorem windTx_cl (b gp t : Nat) (w w' : W) (tx : Tx) (hw : P w) (hA : ∀ a ∈ tx.to, a.owner = 0 → A b t a)
    (h : windTx b gp t w tx = some w') : P w' := by
  simp only [windTx, Option.bind_eq_some_iff] at h
  obtain ⟨w1, h1, w2, h2, h3⟩ := h
  have hw1 := windOuts_cl C _ _ _ _ _ _ hw hA h1
  have hw2 := windIns_cl C _ _ _ _ _ _ _ hw1 h2
  split at h3
  · exact removeOldSlips_cl C _ _ _ hw2 h3
  · cases h3; exact hw2

theorem windTxs_cl (b gp : Nat) (txs : List Tx) (w w' : W) (i : Nat) (hw : P w)
    (hA : ∀ j tx, txs[j]? = some tx → ∀ a ∈ tx.to, a.owner = 0 → A b (i + j) a)
    (h : windTxs b gp w i txs = some w') : P w' := by
  induction txs generalizing w i with
  | nil => simp [windTxs] at h; subst h; exact hw
  | cons tx rest ih =>
    simp only [windTxs, Option.bind_eq_some_iff] at h
    obtain ⟨w1, h1, h2⟩ := h
    refine ih w1 (i + 1) (windTx_cl C _ _ _ _ _ _ hw (by simpa using hA 0 tx rfl) h1) ?_ h2
    intro j tx' hj a ha ho
    have := hA (j + 1) tx' (by simpa using hj) a ha ho
    rwa [show i + (j + 1) = i + 1 + j by omega] at this

theorem unwindOuts_cl (l : List UKey) (w w' : W) (skip : Nat) (hw : P w)
    (h : unwindOuts w skip l = some w') : P w' := by
  induction l generalizing w skip with
  | nil => simp [unwindOuts] at h; subst h; exact hw
  | cons a rest ih =>
    cases skip with
    | succ n => simp only [unwindOuts] at h; exact ih w n hw h
    | zero =>
      simp only [unwindOuts] at h
      split at h
      · split at h
        · exact ih _ 2 (by exact C.congr w _ hw rfl rfl rfl rfl) h
        · exact ih _ 0 hw h
      · split at h
        · simp only [Option.bind_eq_some_iff] at h
          obtain ⟨w1, h1, h2⟩ := h
          exact ih w1 0 (C.del _ _ _ (setChg_cl C w hw) h1) h2
        · exact ih w 0 hw h

/-- side condition of the `add_slip` calls made while unwinding inputs -/
def UnwA (A : Nat → Nat → UKey → Prop) (fl : Flags) (b t : Nat) (a : UKey) : Prop :=
  if fl.unwindKeepsCoords then A a.bid a.tord a else A b t a

theorem unwindIns_cl (fl : Flags) (b t : Nat) (l : List UKey) (w w' : W) (skip : Nat) (hw : P w)
    (hA : ∀ a ∈ l, a.owner = 0 → UnwA A fl b t a) (h : unwindIns fl b t w skip l = some w') : P w' := by
  induction l generalizing w skip with
  | nil => simp [unwindIns] at h; subst h; exact hw
  | cons a rest ih =>
    have hA' : ∀ a ∈ rest, a.owner = 0 → UnwA A fl b t a := fun x hx => hA x (List.mem_cons_of_mem _ hx)
    cases skip with
    | succ n => simp only [unwindIns] at h; exact ih w n hw hA' h
    | zero =>
      simp only [unwindIns] at h
      split at h
      · split at h
        · exact ih _ 2 (by exact C.congr w _ hw rfl rfl rfl rfl) hA' h
        · exact ih _ 0 hw hA' h
      · split at h
        · rename_i hc
          simp only [Bool.and_eq_true, beq_iff_eq, decide_eq_true_eq] at hc
          simp only [Option.bind_eq_some_iff] at h
          obtain ⟨w1, h1, h2⟩ := h
          refine ih w1 0 ?_ hA' h2
          have ha := hA a List.mem_cons_self hc.2
          unfold UnwA at ha
          split at h1
          · rename_i hf
            rw [if_pos hf] at ha
            exact C.add _ _ _ _ _ _ (setChg_cl C w hw) ha h1
          · rename_i hf
            rw [if_neg hf] at ha
            exact C.add _ _ _ _ _ _ (setChg_cl C w hw) ha h1
        · exact ih w 0 hw hA' h

theorem unwindTxs_cl (fl : Flags) (b : Nat) (txs : List Tx) (w w' : W) (i : Nat) (hw : P w)
    (hA : ∀ j tx, txs[j]? = some tx → ∀ a ∈ tx.frm, a.owner = 0 → UnwA A fl b (i + j) a)
    (h : unwindTxs fl b w i txs = some w') : P w' := by
  induction txs generalizing w i with
  | nil => simp [unwindTxs] at h; subst h; exact hw
  | cons tx rest ih =>
    simp only [unwindTxs, Option.bind_eq_some_iff] at h
    obtain ⟨w1, h1, w2, h2, h3⟩ := h
    refine ih w2 (i + 1) (unwindIns_cl C _ _ _ _ _ _ _ (unwindOuts_cl C _ _ _ _ hw h1)
      (by simpa using hA 0 tx rfl) h2) ?_ h3
    intro j tx' hj a ha ho
    have := hA (j + 1) tx' (by simpa using hj) a ha ho
    rwa [show i + (j + 1) = i + 1 + j by omega] at this

theorem deleteBlockTxs_cl (txs : List Tx) (w w' : W) (hw : P w) (h : deleteBlockTxs w txs = some w') : P w' := by
  induction txs generalizing w with
  | nil => simp [deleteBlockTxs] at h; subst h; exact hw
  | cons tx rest ih =>
    simp only [deleteBlockTxs, Option.bind_eq_some_iff] at h
    obtain ⟨w1, h1, w2, h2, h3⟩ := h
    refine ih w2 (deleteSlips_cl C _ _ _ (deleteSlips_cl C _ _ _ ?_ h1) h2) h3
    split
    · exact setChg_cl C w hw
    · exact hw

/-- the side conditions of an operation's `add_slip` calls -/
def OpOk (A : Nat → Nat → UKey → Prop) (fl : Flags) : Op → Prop
  | .addSlip b t s => A b t s
  | .reorg blk true _ => ∀ j tx, blk.txs[j]? = some tx → ∀ a ∈ tx.to, a.owner = 0 → A blk.id j a
  | .reorg blk false _ => ∀ j tx, blk.txs[j]? = some tx → ∀ a ∈ tx.frm, a.owner = 0 → UnwA A fl blk.id j a
  | _ => True

theorem step_cl (fl : Flags) (w w' : W) (op : Op) (hw : P w) (hok : OpOk A fl op) (h : step fl w op = some w') :
    P w' := by
  cases op with
  | addSlip b t s => exact C.add _ _ _ _ _ _ hw hok h
  | deleteSlip s => exact C.del _ _ _ hw h
  | reorg b lc gp =>
    simp only [step, onChainReorg] at h
    cases lc with
    | true =>
      simp only [↓reduceIte] at h
      refine windTxs_cl C b.id gp b.txs _ w' 0 (by exact C.congr w _ hw rfl rfl rfl rfl) ?_ h
      intro j tx hj a ha ho
      rw [Nat.zero_add]
      exact hok j tx hj a ha ho
    | false =>
      simp only [Bool.false_eq_true, ↓reduceIte] at h
      refine unwindTxs_cl C fl b.id b.txs _ w' 0 (by exact C.congr w _ hw rfl rfl rfl rfl) ?_ h
      intro j tx hj a ha ho
      rw [Nat.zero_add]
      exact hok j tx hj a ha ho
  | deleteBlock b =>
    simp only [step, deleteBlock] at h
    exact deleteBlockTxs_cl C _ _ _ (by exact C.congr w _ hw rfl rfl rfl rfl) h
  | removeOld b => exact removeOldSlips_cl C _ _ _ hw h
  | generate r l g o =>
    simp only [step, Option.map_eq_some_iff] at h
    obtain ⟨⟨w1, ins, outs⟩, h1, h2⟩ := h
    cases h2
    exact C.gen _ _ _ _ _ _ _ _ hw h1
  | create ks ps fee l g o =>
    simp only [step] at h
    split at h
    · rename_i hc
      cases h
      obtain ⟨total, _, _, _, h1 | h1⟩ := createTx_tx _ _ _ _ _ _ _ _ _ _ _ hc
      · obtain ⟨_, rfl, _, _⟩ := h1; exact hw
      · obtain ⟨_, go, hg, _, _⟩ := h1
        exact C.gen _ _ _ _ _ _ _ _ hw hg
    · cases h; exact hw
    · cases h
  | pend i => cases h; exact C.congr w _ hw rfl rfl rfl rfl

theorem run_cl (fl : Flags) (ops : List Op) (w w' : W) (hw : P w) (hok : ∀ op ∈ ops, OpOk A fl op)
    (h : run fl w ops = some w') : P w' := by
  induction ops generalizing w with
  | nil => simp [run] at h; subst h; exact hw
  | cons op ops ih =>
    simp only [run, Option.bind_eq_some_iff] at h
    obtain ⟨w1, h1, h2⟩ := h
    exact ih w1 (step_cl C _ _ _ _ hw (hok op List.mem_cons_self) h1)
      (fun o ho => hok o (List.mem_cons_of_mem _ ho)) h2

end closed

theorem WInv_closed : Closed WInv (fun _ _ _ => True) where
  add := fun w w' b t s lc hw _ h => addSlip_inv w w' b t s lc hw h
  del := fun w w' s hw h => deleteSlip_inv w w' s hw h
  congr := fun w v hw h1 h2 h3 h4 => (WInv_congr w v h1 h2 h3 h4).2 hw
  gen := fun w w' r l g o i out hw h => generateSlips_inv w w' r l g o i out hw h

theorem opOk_true (fl : Flags) (op : Op) : OpOk (fun _ _ _ => True) fl op := by
  cases op with
  | reorg b lc gp => cases lc <;> simp [OpOk, UnwA]
  | _ => simp [OpOk]

theorem step_inv (fl : Flags) (w w' : W) (op : Op) (hw : WInv w) (h : step fl w op = some w') : WInv w' :=
  step_cl WInv_closed fl w w' op hw (opOk_true fl op) h

theorem run_inv (fl : Flags) (ops : List Op) (w w' : W) (hw : WInv w) (h : run fl w ops = some w') : WInv w' :=
  run_cl WInv_closed fl ops w w' hw (fun op _ => opOk_true fl op) h

end Saito.Wallet
